/-
C01 — Pacers keep the hit count on their declared schedule in closed loop.

Constant pacer (repaired code, /repo a5c2a38): every clause at full strength over ALL integer
parameter values of the Go types, all elapsed times, all hit counts, all stall histories of
unbounded length.  The three defects of the code before the repair stay machine-checked on
`constPaceOld` (`*_old_counterexample`).
Sine / linear pacers: the decision structure of the code for ANY float operations.
-/
import Vegeta.Model.Pacer
import Mathlib.Tactic.Linarith
import Mathlib.Tactic.Ring
import Mathlib.Tactic.Positivity
import Mathlib.Tactic.FieldSimp
import Mathlib.Algebra.Order.Field.Basic
import Mathlib.Algebra.Order.Floor.Ring
import Mathlib.Data.Rat.Floor
import Mathlib.Analysis.SpecialFunctions.Trigonometric.Deriv
namespace Vegeta.Props.C01
open Vegeta.Go Vegeta.Model.Pacer

/-! ## Notation of the statement -/

/-- The exact deadline of hit number `hits+1`: `⌈(hits+1)·Per/Freq⌉` nanoseconds after the start. -/
def constDue (freq per : Int) (hits : Nat) : Int := (((hits : Int) + 1) * per + freq - 1) / freq

/-- Parameters and hit count lie in the ranges of their Go types
(`Freq int`, `Per time.Duration`, `hits uint64`); `elapsed` is any integer. -/
structure InRange (freq per : Int) (hits : Nat) : Prop where
  freq : inS64 freq
  per : inS64 per
  hits : (hits : Int) < (two64 : Int)

/-! ## Helper lemmas -/

/-- `⌈T/f⌉` as computed: `f·(due−1) < T ≤ f·due`. -/
theorem aux_ceil {T f : Int} (hf : 0 < f) :
    T ≤ (T + f - 1) / f * f ∧ (T + f - 1) / f * f ≤ T + f - 1 := by
  have h1 := Int.lt_ediv_add_one_mul_self (T + f - 1) hf
  have h2 := Int.ediv_mul_le (T + f - 1) (Int.ne_of_gt hf)
  have h3 : ((T + f - 1) / f + 1) * f = (T + f - 1) / f * f + f := by ring
  omega

/-- Normal form of the repaired `constPace` for positive in-range parameters: the 128-bit
`Mul64/Add64/Div64` sequence computes `constDue` exactly and never overflows. -/
theorem aux_constPace_pos {freq per elapsed : Int} {hits : Nat}
    (hf : 0 < freq) (hp : 0 < per) (hf' : freq ≤ maxInt64) (hp' : per ≤ maxInt64)
    (hh : (hits : Int) < (two64 : Int)) :
    constPace freq per elapsed hits =
      if (hits : Int) = (two64 : Int) - 1 ∨ maxInt64 < constDue freq per hits then .stop
      else if constDue freq per hits ≤ elapsed then .wait 0
      else .wait (constDue freq per hits - max elapsed 0) := by
  unfold constPace constDue
  rw [if_neg (by omega), if_neg (by omega)]
  by_cases hmax : (hits : Int) = (two64 : Int) - 1
  · rw [if_pos hmax, if_pos (Or.inl hmax)]
  · rw [if_neg hmax]
    have hh0 : (0 : Int) ≤ (hits : Int) := Int.natCast_nonneg _
    have w1 : wrapU64 ((hits : Int) + 1) = (hits : Int) + 1 :=
      wrapU64_id (by unfold inU64; unfold two64 at *; omega)
    have w2 : wrapU64 per = per :=
      wrapU64_id (by unfold inU64 two64; unfold maxInt64 at *; omega)
    have w3 : wrapU64 freq = freq :=
      wrapU64_id (by unfold inU64 two64; unfold maxInt64 at *; omega)
    have w4 : wrapU64 (freq - 1) = freq - 1 :=
      wrapU64_id (by unfold inU64 two64; unfold maxInt64 at *; omega)
    simp only [w1, w2, w3, w4]
    -- the product as one atom, with its bounds
    have hprod0 : 0 ≤ ((hits : Int) + 1) * per := Int.mul_nonneg (by omega) (Int.le_of_lt hp)
    have hprod1 : ((hits : Int) + 1) * per ≤ (two64 : Int) * maxInt64 :=
      Int.mul_le_mul (by omega) hp' (Int.le_of_lt hp) (by unfold two64; omega)
    generalize hx : ((hits : Int) + 1) * per = x at *
    -- hi, lo are the halves of total = x + freq - 1
    have hhi : x / (two64 : Int) + (x % (two64 : Int) + (freq - 1)) / (two64 : Int)
        = (x + freq - 1) / (two64 : Int) := by unfold two64; omega
    have hlo : (x % (two64 : Int) + (freq - 1)) % (two64 : Int) = (x + freq - 1) % (two64 : Int) := by
      unfold two64; omega
    have hhi_small : (x + freq - 1) / (two64 : Int) < (two64 : Int) ∧
        0 ≤ (x + freq - 1) / (two64 : Int) := by
      unfold two64 maxInt64 at *; omega
    rw [hhi, hlo, wrapU64_id (by unfold inU64; omega)]
    have hsplit : (x + freq - 1) / (two64 : Int) * (two64 : Int) + (x + freq - 1) % (two64 : Int)
        = x + freq - 1 := by unfold two64; omega
    have hc := @aux_ceil x freq hf
    by_cases hbig : freq ≤ (x + freq - 1) / (two64 : Int)
    · -- the quotient would not fit 64 bits
      rw [if_pos hbig, if_pos]
      right
      have h1 : freq * (two64 : Int) ≤ x + freq - 1 :=
        (Int.le_ediv_iff_mul_le (by unfold two64; omega)).1 hbig
      have h2 : (two64 : Int) ≤ (x + freq - 1) / freq :=
        Int.le_ediv_of_mul_le hf (by rw [Int.mul_comm]; exact h1)
      unfold two64 maxInt64 at *; omega
    · rw [if_neg hbig]
      unfold div64
      rw [if_neg (by omega), hsplit]
      simp only []
      have htot : 0 ≤ x + freq - 1 := by omega
      rw [Int.tdiv_eq_ediv_of_nonneg htot]
      have hdue0 : 0 ≤ (x + freq - 1) / freq := Int.ediv_nonneg htot (Int.le_of_lt hf)
      by_cases hov : maxInt64 < (x + freq - 1) / freq
      · rw [if_pos hov, if_pos (Or.inr hov)]
      · have hnor : ¬ ((hits : Int) = (two64 : Int) - 1 ∨ maxInt64 < (x + freq - 1) / freq) := by
          omega
        rw [if_neg hov, if_neg hnor]
        have hs : wrapS64 ((x + freq - 1) / freq) = (x + freq - 1) / freq :=
          wrapS64_id (by unfold inS64 minInt64; unfold maxInt64 at *; omega)
        rw [hs]
        by_cases hle : (x + freq - 1) / freq ≤ elapsed
        · rw [if_pos hle, if_pos hle]
        · rw [if_neg hle, if_neg hle]
          congr 1
          by_cases hneg : elapsed < 0
          · rw [if_pos hneg, Int.max_eq_right (by omega)]
            exact wrapS64_id (by unfold inS64 minInt64; unfold maxInt64 at *; omega)
          · rw [if_neg hneg, Int.max_eq_left (by omega)]
            exact wrapS64_id (by unfold inS64 minInt64; unfold maxInt64 at *; omega)

/-! ## Sign and zero cases -/

/-- "negative frequency/unit stops the attack" — for all elapsed times and hit counts
(a zero field takes precedence, see `const_zero_unlimited`). -/
theorem const_neg_stops (freq per elapsed : Int) (hits : Nat)
    (hf : freq ≠ 0) (hp : per ≠ 0) (hneg : freq < 0 ∨ per < 0) :
    constPace freq per elapsed hits = .stop := by
  unfold constPace
  rw [if_neg (by omega), if_pos (by omega)]

example : constPace (-1) 1000000000 1000000000 0 = .stop := by decide

/-- "a zero one means unlimited rate": the pacer never asks to wait and never stops. -/
theorem const_zero_unlimited (freq per elapsed : Int) (hits : Nat) (hz : freq = 0 ∨ per = 0) :
    constPace freq per elapsed hits = .wait 0 := by
  unfold constPace
  rw [if_pos (by omega)]

example : constPace 0 (-5) 17 3 = .wait 0 := by decide

/-! ## No panic -/

/-- "No parameter values make a pacer panic": for every frequency of type `int`, every time
unit, every elapsed time and every hit count (`bits.Div64` is reached only with
`0 < y` and `hi < y`). -/
theorem const_never_panics (freq per elapsed : Int) (hits : Nat) (hf : inS64 freq) :
    constPace freq per elapsed hits ≠ .panic := by
  unfold inS64 minInt64 maxInt64 at hf
  unfold constPace div64
  split
  · exact PaceOut.noConfusion
  · split
    · exact PaceOut.noConfusion
    · rename_i h1 h2
      have w3 : wrapU64 freq = freq := wrapU64_id (by unfold inU64 two64; omega)
      split
      · exact PaceOut.noConfusion
      · simp only [w3]
        split
        · exact PaceOut.noConfusion
        · rename_i hlt
          rw [if_neg (by omega)]
          simp only []
          split
          · exact PaceOut.noConfusion
          · split <;> exact PaceOut.noConfusion

/-- Before the repair: `ConstantPacer{Freq: 2, Per: 1ns}.Pace(0, 0)` divided by zero. -/
theorem const_never_panics_old_counterexample : constPaceOld 2 1 0 0 = .panic := by decide

example : constPace 2 1 0 0 = .wait 1 := by decide

/-! ## Overflow: stop instead of wrapping -/

/-- "arithmetic overflow stops the attack instead of wrapping": for all parameters of the Go
types, all elapsed times and hit counts — the attack is stopped exactly when the deadline
`⌈(hits+1)·Per/Freq⌉` does not fit `int64` or the hit counter is at `MaxUint64`; otherwise the
wait is exactly `deadline − max(elapsed, 0)` (0 once the deadline has passed), a value of `int64`
with no wrap-around anywhere. -/
theorem const_no_wrap (freq per elapsed : Int) (hits : Nat) (hr : InRange freq per hits)
    (hf : 0 < freq) (hp : 0 < per) :
    (constPace freq per elapsed hits = .stop ↔
        (hits : Int) = (two64 : Int) - 1 ∨ maxInt64 < constDue freq per hits) ∧
    (∀ d, constPace freq per elapsed hits = .wait d →
        d = max 0 (constDue freq per hits - max elapsed 0) ∧ 0 ≤ d ∧ d ≤ maxInt64 ∧
        constDue freq per hits ≤ maxInt64) := by
  obtain ⟨hfr, hpr, hh⟩ := hr
  unfold inS64 at hfr hpr
  rw [aux_constPace_pos hf hp hfr.2 hpr.2 hh]
  have hdue0 : 0 ≤ constDue freq per hits := by
    unfold constDue
    have : 0 ≤ ((hits : Int) + 1) * per := Int.mul_nonneg (by omega) (Int.le_of_lt hp)
    exact Int.ediv_nonneg (by omega) (Int.le_of_lt hf)
  constructor
  · constructor
    · intro h
      split at h
      · assumption
      · split at h <;> exact absurd h PaceOut.noConfusion
    · intro h; rw [if_pos h]
  · intro d h
    split at h
    · exact absurd h PaceOut.noConfusion
    · rename_i hns
      split at h
      · injection h with h; omega
      · injection h with h; omega

/-- Before the repair: `{1, MaxInt64/10}.Pace(0, 10)` returned a wrapped negative wait although
`(hits+1)·interval > MaxInt64` (guard off by one). -/
theorem const_no_wrap_old_counterexample :
    ∃ d, constPaceOld 1 922337203685477580 0 10 = .wait d ∧ d < 0 ∧
      maxInt64 < ((10 : Nat) + 1 : Int) * (922337203685477580 / 1) :=
  ⟨-8301034833169298236, by decide⟩

example : constPace 1 922337203685477580 0 10 = .stop := by decide
example : constPace 1 1000000000 1000000000 2 = .wait 2000000000 := by decide
example : constPace 1 3600000000000 9223372036854775807 2562048 = .stop := by decide
example : InRange 2 1000000000 9 := by refine ⟨?_, ?_, ?_⟩ <;> decide

/-! ## Positive wait only on or ahead of schedule; never more than one hit behind -/

/-- A positive wait is the exact distance to the deadline — for ALL parameter values. -/
theorem aux_positive_wait (freq per elapsed : Int) (hits : Nat) (d : Int)
    (hr : InRange freq per hits)
    (h : constPace freq per elapsed hits = .wait d) (hd : 0 < d) :
    0 < freq ∧ 0 < per ∧ elapsed < constDue freq per hits ∧
      max elapsed 0 + d = constDue freq per hits := by
  have hfr := hr.freq
  have hpr := hr.per
  unfold inS64 at hfr hpr
  by_cases hz : freq = 0 ∨ per = 0
  · rw [const_zero_unlimited _ _ _ _ hz] at h; injection h with h; omega
  · by_cases hn : freq < 0 ∨ per < 0
    · rw [const_neg_stops _ _ _ _ (by omega) (by omega) hn] at h; exact absurd h PaceOut.noConfusion
    · have hf : 0 < freq := by omega
      have hp : 0 < per := by omega
      rw [aux_constPace_pos hf hp hfr.2 hpr.2 hr.hits] at h
      split at h
      · exact absurd h PaceOut.noConfusion
      · split at h
        · injection h with h; omega
        · injection h with h; exact ⟨hf, hp, by omega, by omega⟩

/-- "the pacer asks for a positive wait only when the count is already on or ahead of that
schedule": a positive wait implies `hits + 1 > S(elapsed)` for the exact rational schedule
`S(t) = Freq·t/Per`, i.e. `hits ≥ ⌊S(elapsed)⌋` — all parameter values, elapsed times, hit counts. -/
theorem const_positive_wait_on_schedule (freq per elapsed : Int) (hits : Nat) (d : Int)
    (hr : InRange freq per hits)
    (h : constPace freq per elapsed hits = .wait d) (hd : 0 < d) :
    freq * elapsed < ((hits : Int) + 1) * per := by
  obtain ⟨hf, _, hlt, _⟩ := aux_positive_wait freq per elapsed hits d hr h hd
  have hc := @aux_ceil (((hits : Int) + 1) * per) freq hf
  unfold constDue at hlt
  have h1 : (elapsed + 1) * freq ≤ (((hits : Int) + 1) * per + freq - 1) / freq * freq :=
    Int.mul_le_mul_of_nonneg_right (by omega) (Int.le_of_lt hf)
  have h2 : (elapsed + 1) * freq = freq * elapsed + freq := by ring
  omega

/-- The deadline is the CEILING of `(hits+1)·Per/Freq`: it is the least whole nanosecond at which
the schedule has reached the next count. -/
theorem const_due_iff (freq per : Int) (hits : Nat) (hf : 0 < freq) (τ : Int) :
    constDue freq per hits ≤ τ ↔ ((hits : Int) + 1) * per ≤ freq * τ := by
  have hc := @aux_ceil (((hits : Int) + 1) * per) freq hf
  unfold constDue
  constructor
  · intro h
    have h1 : (((hits : Int) + 1) * per + freq - 1) / freq * freq ≤ τ * freq :=
      Int.mul_le_mul_of_nonneg_right h (Int.le_of_lt hf)
    have h2 : τ * freq = freq * τ := by ring
    omega
  · intro h
    have h1 : ((hits : Int) + 1) * per + freq - 1 < (τ + 1) * freq := by
      have : (τ + 1) * freq = freq * τ + freq := by ring
      omega
    have := Int.ediv_lt_of_lt_mul hf h1
    omega

/-- Every wait of the constant pacer — positive or the catch-up 0 — releases the next hit exactly
at the ceiling deadline: at `max(elapsed,0) + d` the schedule has reached `hits+1`
(`(hits+1)·Per ≤ Freq·(elapsed+d)`, so the count never runs ahead of the schedule, not even by a
fraction of a hit and also above one hit per nanosecond), and at no earlier instant of the wait
has it (`d` is the least such wait).  A deadline rounded to the NEAREST nanosecond would break the
first half. -/
theorem const_deadline_is_ceiling (freq per elapsed : Int) (hits : Nat) (d : Int)
    (hr : InRange freq per hits) (hf : 0 < freq) (hp : 0 < per)
    (h : constPace freq per elapsed hits = .wait d) :
    ((hits : Int) + 1) * per ≤ freq * (max elapsed 0 + d) ∧
    (∀ τ : Int, τ < max elapsed 0 + d → 0 < d → freq * τ < ((hits : Int) + 1) * per) := by
  obtain ⟨hfr, hpr, hh⟩ := hr
  unfold inS64 at hfr hpr
  rw [aux_constPace_pos hf hp hfr.2 hpr.2 hh] at h
  have hdue0 : 0 ≤ constDue freq per hits := by
    unfold constDue
    have : 0 ≤ ((hits : Int) + 1) * per := Int.mul_nonneg (by omega) (Int.le_of_lt hp)
    exact Int.ediv_nonneg (by omega) (Int.le_of_lt hf)
  split at h
  · exact absurd h PaceOut.noConfusion
  · split at h
    · rename_i hle
      injection h with h
      refine ⟨(const_due_iff freq per hits hf _).1 (by omega), fun τ _ hd => by omega⟩
    · rename_i hlt
      injection h with h
      refine ⟨(const_due_iff freq per hits hf _).1 (by omega), fun τ hτ _ => ?_⟩
      have := (const_due_iff freq per hits hf τ).not.1 (by omega)
      omega

example : constPace 3 10 0 0 = .wait 4 := by decide
example : ¬ (((0 : Nat) : Int) + 1) * 10 ≤ 3 * 3 := by decide   -- the nearest nanosecond (3) is too early

/-- Contrapositive, as the statement puts it: "an attacker that fell behind is told to catch up
without waiting". -/
theorem const_behind_no_wait (freq per elapsed : Int) (hits : Nat) (d : Int)
    (hr : InRange freq per hits)
    (hbehind : ((hits : Int) + 1) * per ≤ freq * elapsed)
    (h : constPace freq per elapsed hits = .wait d) : d ≤ 0 := by
  by_cases hd : 0 < d
  · have := const_positive_wait_on_schedule freq per elapsed hits d hr h hd; omega
  · omega

/-- "the count never falls more than one hit (plus one nanosecond of quantisation per hit
interval) behind the schedule at the instants hits are released": at the release instant the pacer
prescribes, `tr = max(elapsed,0) + d`, the schedule has reached the new count and has passed it by
less than the one nanosecond of rounding: `hits+1 ≤ S(tr) < hits+1 + Freq/Per`. -/
theorem const_lower (freq per elapsed : Int) (hits : Nat) (d : Int)
    (hr : InRange freq per hits)
    (h : constPace freq per elapsed hits = .wait d) (hd : 0 < d) :
    ((hits : Int) + 1) * per ≤ freq * (max elapsed 0 + d) ∧
    freq * (max elapsed 0 + d) < ((hits : Int) + 1) * per + freq := by
  obtain ⟨hf, _, _, heq⟩ := aux_positive_wait freq per elapsed hits d hr h hd
  have hc := @aux_ceil (((hits : Int) + 1) * per) freq hf
  rw [heq]
  unfold constDue
  rw [Int.mul_comm freq]
  omega

example : constPace 2 1000000000 4900000000 9 = .wait 100000000 := by decide
example : constPace 3 10 (-5) 0 = .wait 4 := by decide

/-! ## The closed loop: count against schedule along every trajectory -/

/-- Invariants of the pacer's answers lift to every state of every closed-loop run, for any
pacer, any stall history, any length. -/
theorem closedLoop_invariant (p : Int → Nat → PaceOut) (Inv : Int → Nat → Prop)
    (hstep : ∀ (t : Int) (n : Nat) (d : Int) (s : Nat), Inv t n → p t n = .wait d →
      t + max d 0 + (s : Int) ≤ maxInt64 → Inv (t + max d 0 + (s : Int)) (n + 1)) :
    ∀ (stalls : List Nat) (t : Int) (n : Nat), Inv t n →
      ∀ x ∈ closedLoop p stalls t n, Inv x.1 x.2 := by
  intro stalls
  induction stalls with
  | nil => intro t n _ x hx; simp [closedLoop] at hx
  | cons s rest ih =>
    intro t n hinv x hx
    unfold closedLoop at hx
    split at hx
    · rename_i d hw
      simp only [] at hx
      split at hx
      · rename_i hle
        have hnext := hstep t n d s hinv hw hle
        rcases List.mem_cons.1 hx with h | h
        · rw [h]; exact hnext
        · exact ih _ _ hnext x h
      · simp at hx
    · simp at hx
    · simp at hx

/-- Generic form of the upper clause: if every answer of a pacer releases the next hit no earlier
than a monotone schedule `S` reaches it (`n + 1 ≤ S (t + max d 0) + 1`), the count never exceeds the
schedule by more than one hit along any closed loop with any stall history. -/
theorem closedLoop_upper_of_contract (p : Int → Nat → PaceOut) (S : Int → Int)
    (hmono : ∀ a b : Int, a ≤ b → S a ≤ S b)
    (hcontract : ∀ (t : Int) (n : Nat) (d : Int), (n : Int) ≤ S t + 1 → p t n = .wait d →
      ((n + 1 : Nat) : Int) ≤ S (t + max d 0) + 1)
    (stalls : List Nat) (t0 : Int) (n0 : Nat) (h0 : (n0 : Int) ≤ S t0 + 1) :
    ∀ x ∈ closedLoop p stalls t0 n0, (x.2 : Int) ≤ S x.1 + 1 := by
  apply closedLoop_invariant p (fun t n => (n : Int) ≤ S t + 1) _ stalls t0 n0 h0
  intro t n d s hinv hw _
  have h1 := hcontract t n d hinv hw
  have h2 := hmono (t + max d 0) (t + max d 0 + (s : Int)) (by omega)
  omega


/-- "the number of hits issued by any elapsed time t never exceeds the pacer's declared cumulative
schedule by more than one hit": along EVERY closed loop — every positive frequency and unit of the
Go types (also more than one hit per nanosecond, also `Freq ∤ Per`), every stall history, every
length — the count never exceeds the exact schedule at all: `n_k ≤ S(t_k) = Freq·t_k/Per`. -/
theorem const_upper (freq per : Int) (hf : 0 < freq) (hp : 0 < per)
    (hf' : freq ≤ maxInt64) (hp' : per ≤ maxInt64) (stalls : List Nat) :
    ∀ x ∈ closedLoop (constPace freq per) stalls 0 0, (x.2 : Int) * per ≤ freq * x.1 := by
  have key := closedLoop_invariant (constPace freq per)
    (fun t n => 0 ≤ t ∧ (n : Int) < (two64 : Int) ∧ (n : Int) * per ≤ freq * t) ?_ stalls 0 0
    ⟨by omega, by unfold two64; omega, by simp⟩
  · intro x hx; exact (key x hx).2.2
  · intro t n d s ⟨ht0, hn, _⟩ hw _
    have hcast : ((n + 1 : Nat) : Int) = (n : Int) + 1 := by push_cast; ring
    rw [hcast]
    have hpos := aux_constPace_pos (elapsed := t) hf hp hf' hp' hn
    rw [hpos] at hw
    have hc := @aux_ceil (((n : Int) + 1) * per) freq hf
    have hmono : ∀ t' : Int, constDue freq per n ≤ t' → ((n : Int) + 1) * per ≤ freq * t' := by
      intro t' ht'
      have h1 : constDue freq per n * freq ≤ t' * freq :=
        Int.mul_le_mul_of_nonneg_right ht' (Int.le_of_lt hf)
      have h2 : t' * freq = freq * t' := by ring
      unfold constDue at h1
      omega
    split at hw
    · exact absurd hw PaceOut.noConfusion
    · rename_i hns
      refine ⟨by omega, by omega, ?_⟩
      split at hw
      · rename_i hle
        have hd : (0 : Int) = d := PaceOut.wait.inj hw
        apply hmono
        have : 0 ≤ max d 0 := Int.le_max_right d 0
        omega
      · rename_i hle
        have hd : constDue freq per n - max t 0 = d := PaceOut.wait.inj hw
        apply hmono
        have h1 : d ≤ max d 0 := Int.le_max_left d 0
        have h2 : max t 0 = t := Int.max_eq_left ht0
        omega

/-- The statement's form of the bound, `n_k ≤ S(t_k) + 1`. -/
theorem const_upper_plus_one (freq per : Int) (hf : 0 < freq) (hp : 0 < per)
    (hf' : freq ≤ maxInt64) (hp' : per ≤ maxInt64) (stalls : List Nat) :
    ∀ x ∈ closedLoop (constPace freq per) stalls 0 0, (x.2 : Int) * per ≤ freq * x.1 + per := by
  intro x hx
  have := const_upper freq per hf hp hf' hp' stalls x hx
  omega

/-- Before the repair: 3 hits per 10ns, no stalls: 11 hits at t = 33ns, S(33) = 9.9 (the truncated
interval ⌊Per/Freq⌋ ran ahead without bound whenever `Freq ∤ Per`). -/
theorem const_upper_old_counterexample :
    ∃ stalls, ∃ x ∈ closedLoop (constPaceOld 3 10) stalls 0 0,
      ¬ ((x.2 : Int) * 10 ≤ 3 * x.1 + 10) :=
  ⟨List.replicate 11 0, (33, 11), by decide, by decide⟩

example : ∃ x ∈ closedLoop (constPace 3 10) (List.replicate 11 0) 0 0, x = ((37 : Int), (11 : Nat)) := by
  decide
example : ∃ x ∈ closedLoop (constPace 2 10) [0, 7, 0] 0 0, x = ((17 : Int), (3 : Nat)) := by decide

/-- Along every closed loop no call panics (end reason 2 = panic), for all parameters. -/
theorem const_loop_never_panics (freq per : Int) (hf : inS64 freq) (stalls : List Nat) :
    ∀ (t : Int) (n : Nat), closedLoopEnd (constPace freq per) stalls t n ≠ 2 := by
  induction stalls with
  | nil => intro t n; simp [closedLoopEnd]
  | cons s rest ih =>
    intro t n
    unfold closedLoopEnd
    have hnp := const_never_panics freq per t n hf
    split
    · simp only []
      split
      · exact ih _ _
      · omega
    · omega
    · rename_i hpanic; exact absurd hpanic hnp

/-! ## Sine and linear pacers: decision structure, for ANY float operations -/

section floats
variable {F : Type} (o : FloatOps F)

/-- An invalid configuration (`Period ≤ 0`, mean rate `≤ 0`, amplitude `≥` mean) stops the attack. -/
theorem sine_invalid_stops (p : SineP F) (t : Int) (n : Nat) (h : sineInvalid o p = true) :
    sinePace o p t n = .stop := by
  unfold sinePace sinePaceX
  rw [if_pos h]

/-- Case analysis of `sinePaceX` (repaired code): the six ways to an answer. -/
theorem aux_sinePaceX_cases (p : SineP F) (t : Int) (n : Nat) :
    (sineInvalid o p = true ∧ sinePaceX o p t n = (.stop, .invalid)) ∨
    ((n : Int) = (two64 : Int) - 1 ∧ sinePaceX o p t n = (.stop, .maxhits)) ∨
    (sineInvalid o p = false ∧ (n : Int) < o.toUInt64 (sineHits o p t) ∧
      sinePaceX o p t n = (.wait 0, .behind)) ∨
    (sineInvalid o p = false ∧ ¬ (n : Int) < o.toUInt64 (sineHits o p t) ∧
      (sineIter o p t n 5 (sineFirstGuess o p t n)).2 = true ∧
      sinePaceX o p t n = (.wait (sineIter o p t n 5 (sineFirstGuess o p t n)).1, .converged)) ∨
    (sineInvalid o p = false ∧ ¬ (n : Int) < o.toUInt64 (sineHits o p t) ∧
      (sineIter o p t n 5 (sineFirstGuess o p t n)).2 = false ∧
      sinePaceX o p t n = (.stop, .nobracket)) ∨
    (sineInvalid o p = false ∧ ¬ (n : Int) < o.toUInt64 (sineHits o p t) ∧
      (sineIter o p t n 5 (sineFirstGuess o p t n)).2 = false ∧
      sinePaceX o p t n =
        (.wait (sineBisect o p t n 64 0 (o.toInt64 (sineHi o p t n))).1,
         (sineBisect o p t n 64 0 (o.toInt64 (sineHi o p t n))).2)) := by
  unfold sinePaceX
  by_cases hv : sineInvalid o p = true
  · left; exact ⟨hv, by rw [if_pos hv]⟩
  · have hv' : sineInvalid o p = false := by simpa using hv
    rw [if_neg hv]
    by_cases hmx : (n : Int) = (two64 : Int) - 1
    · right; left; exact ⟨hmx, by rw [if_pos hmx]⟩
    rw [if_neg hmx]
    by_cases hb : (n : Int) < o.toUInt64 (sineHits o p t)
    · right; right; left; exact ⟨hv', hb, by rw [if_pos hb]⟩
    · rw [if_neg hb]
      simp only []
      by_cases hc : (sineIter o p t n 5 (sineFirstGuess o p t n)).2 = true
      · right; right; right; left; exact ⟨hv', hb, hc, by rw [if_pos hc]⟩
      · have hc' : (sineIter o p t n 5 (sineFirstGuess o p t n)).2 = false := by simpa using hc
        rw [if_neg hc]
        split
        · right; right; right; right; left; exact ⟨hv', hb, hc', rfl⟩
        · right; right; right; right; right; exact ⟨hv', hb, hc', rfl⟩

/-- `SinePacer.Pace` has no partial operation on any path (float division, `math.Ceil`, the
float→integer conversions, the wrapping additions and the halving are total), whatever the float
operations do. -/
theorem sine_never_panics (p : SineP F) (t : Int) (n : Nat) : sinePace o p t n ≠ .panic := by
  unfold sinePace
  rcases aux_sinePaceX_cases o p t n with h | h | h | h | h | h
  · rw [h.2]; exact PaceOut.noConfusion
  · rw [h.2]; exact PaceOut.noConfusion
  · rw [h.2.2]; exact PaceOut.noConfusion
  · rw [h.2.2.2]; exact PaceOut.noConfusion
  · rw [h.2.2.2]; exact PaceOut.noConfusion
  · rw [h.2.2.2]; exact PaceOut.noConfusion

/-- A positive wait is returned only when the count has reached the schedule as computed:
`hits ≥ uint64(H(t))`, and the configuration is valid. -/
theorem sine_positive_wait_on_schedule (p : SineP F) (t : Int) (n : Nat) (d : Int)
    (h : sinePace o p t n = .wait d) (hd : 0 < d) :
    sineInvalid o p = false ∧ o.toUInt64 (sineHits o p t) ≤ (n : Int) := by
  unfold sinePace at h
  rcases aux_sinePaceX_cases o p t n with hc | hc | hc | hc | hc | hc
  · rw [hc.2] at h; exact absurd h PaceOut.noConfusion
  · rw [hc.2] at h; exact absurd h PaceOut.noConfusion
  · rw [hc.2.2] at h; injection h with h; omega
  · exact ⟨hc.1, by omega⟩
  · exact ⟨hc.1, by omega⟩
  · exact ⟨hc.1, by omega⟩

theorem aux_sineIter_converged (p : SineP F) (t : Int) (n : Nat) :
    ∀ (k : Nat) (g : Int), (sineIter o p t n k g).2 = true →
      o.lt (o.abs (sineErr o p t n (sineIter o p t n k g).1)) o.em3 = true := by
  intro k
  induction k with
  | zero => intro g h; simp [sineIter] at h
  | succ k ih =>
    intro g h
    unfold sineIter at h ⊢
    simp only [] at h ⊢
    split
    · rename_i hc; unfold sineErr; simpa using hc
    · rename_i hc
      rw [if_neg hc] at h
      exact ih _ h

/-- A return from inside the fixed-point loop is a converged one: the schedule at the prescribed
release instant is within 1e-3 hits of the new count, `|hits + 1 − H(t + wait)| < 1e-3`
(as computed). -/
theorem sine_converged_exit (p : SineP F) (t : Int) (n : Nat) (w : Int)
    (h : sinePaceX o p t n = (.wait w, .converged)) :
    o.lt (o.abs (sineErr o p t n w)) o.em3 = true := by
  have hbis : ∀ k lo up, (sineBisect o p t n k lo up).2 ≠ .converged := by
    intro k
    induction k with
    | zero => intro lo up; simp [sineBisect]
    | succ k ih =>
      intro lo up
      unfold sineBisect
      split
      · simp only []
        split
        · simp
        · split
          · exact ih _ _
          · exact ih _ _
      · simp
  rcases aux_sinePaceX_cases o p t n with hc | hc | hc | hc | hc | hc
  · rw [hc.2] at h; simp at h
  · rw [hc.2] at h; simp at h
  · rw [hc.2.2] at h; simp at h
  · rw [hc.2.2.2] at h
    simp only [Prod.mk.injEq, PaceOut.wait.injEq, and_true] at h
    rw [← h]
    exact aux_sineIter_converged o p t n 5 _ hc.2.2.1
  · rw [hc.2.2.2] at h; simp at h
  · rw [hc.2.2.2] at h
    simp only [Prod.mk.injEq, PaceOut.wait.injEq] at h
    exact absurd h.2 (hbis _ _ _)

/-- The bracket invariant of the bisection, as computed: the error at the lower end is positive
(`H(t+lo) < hits+1`), the error at the upper end is not (`hits+1 ≤ H(t+up)`, unless NaN). -/
def Bracket (p : SineP F) (t : Int) (n : Nat) (lo up : Int) : Prop :=
  o.lt o.zero (sineErr o p t n lo) = true ∧ o.lt o.zero (sineErr o p t n up) = false

theorem aux_sineBisect_bisected (p : SineP F) (t : Int) (n : Nat) :
    ∀ (k : Nat) (lo up : Int), (sineBisect o p t n k lo up).2 = .bisected →
      o.lt (o.abs (sineErr o p t n (sineBisect o p t n k lo up).1)) o.em3 = true := by
  intro k
  induction k with
  | zero => intro lo up h; simp [sineBisect] at h
  | succ k ih =>
    intro lo up h
    unfold sineBisect at h ⊢
    split
    · rename_i hw
      rw [if_pos hw] at h
      simp only [] at h ⊢
      split
      · rename_i hc; exact hc
      · rename_i hc
        rw [if_neg hc] at h
        split
        · rename_i hpos; rw [if_pos hpos] at h; exact ih _ _ h
        · rename_i hpos; rw [if_neg hpos] at h; exact ih _ _ h
    · rename_i hw; rw [if_neg hw] at h; simp at h

/-- The bisection keeps the bracket invariant by its own branch conditions — NO assumption on the
float operations — so a `.bracket` exit returns the upper end of a bracket at most 1ns wide. -/
theorem aux_sineBisect_bracket (p : SineP F) (t : Int) (n : Nat) :
    ∀ (k : Nat) (lo up : Int), Bracket o p t n lo up →
      (sineBisect o p t n k lo up).2 = .bracket →
        ∃ lo', Bracket o p t n lo' (sineBisect o p t n k lo up).1 ∧
          ¬ 1 < wrapS64 ((sineBisect o p t n k lo up).1 - lo') := by
  intro k
  induction k with
  | zero => intro lo up _ h; simp [sineBisect] at h
  | succ k ih =>
    intro lo up hinv h
    unfold sineBisect at h ⊢
    split
    · rename_i hw
      rw [if_pos hw] at h
      simp only [] at h ⊢
      split
      · rename_i hc; rw [if_pos hc] at h; simp at h
      · rename_i hc
        rw [if_neg hc] at h
        split
        · rename_i hpos; rw [if_pos hpos] at h; exact ih _ _ ⟨hpos, hinv.2⟩ h
        · rename_i hpos; rw [if_neg hpos] at h; exact ih _ _ ⟨hinv.1, by simpa using hpos⟩ h
    · rename_i hw
      exact ⟨lo, hinv, hw⟩

/-- With `0 ≤ lo ≤ up ≤ MaxInt64` and `up − lo ≤ 2^k`, `k+1` units of fuel are never used up:
the Go loop `for up-lo > 1` ends within 64 iterations, the model's fuel 64 is not a restriction. -/
theorem sine_bisect_fuel (p : SineP F) (t : Int) (n : Nat) :
    ∀ (k : Nat) (lo up : Int), 0 ≤ lo → lo ≤ up → up ≤ maxInt64 → up - lo ≤ 2 ^ k →
      (sineBisect o p t n (k + 1) lo up).2 ≠ .unconverged := by
  intro k
  induction k with
  | zero =>
    intro lo up h0 h1 h2 h3
    have hw : wrapS64 (up - lo) = up - lo :=
      wrapS64_id (by unfold inS64 minInt64; unfold maxInt64 at *; omega)
    unfold sineBisect
    rw [hw, if_neg (by omega)]
    simp
  | succ k ih =>
    intro lo up h0 h1 h2 h3
    have hpow : (2 : Int) ^ (k + 1) = 2 ^ k * 2 := Int.pow_succ 2 k
    have hw : wrapS64 (up - lo) = up - lo :=
      wrapS64_id (by unfold inS64 minInt64; unfold maxInt64 at *; omega)
    have hhalf : (up - lo).tdiv 2 = (up - lo) / 2 := Int.tdiv_eq_ediv_of_nonneg (by omega)
    have hmid : wrapS64 (lo + (up - lo) / 2) = lo + (up - lo) / 2 :=
      wrapS64_id (by unfold inS64 minInt64; unfold maxInt64 at *; omega)
    unfold sineBisect
    rw [hw, hhalf, hmid]
    split
    · simp only []
      split
      · simp
      · split
        · exact ih _ _ (by omega) (by omega) h2 (by omega)
        · exact ih _ _ h0 (by omega) (by omega) (by omega)
    · simp

/-- The two exits of the fallback.  For ANY float operations:
(1) a return from inside the bisection has `|hits+1 − H(t+w)| < 1e-3` as computed;
(2) a return at the end of the bisection gives the upper end `w` of a bracket `[lo, w]` at most 1ns
wide that satisfies the bracket invariant `err(lo) > 0 ∧ ¬ err(w) > 0` as computed, i.e.
`H(t+lo) < hits+1 ≤ H(t+w)` — PROVIDED the initial bracket `[0, hi]` satisfies it.
Hypotheses about the float operations: only that proviso (it holds when `hits+1 > H(t)`, which the
catch-up test has established, and `H` grows by at least `Mean−|Amp|` per ns); reading the computed
comparisons as statements about the real schedule needs `sub`/`lt`/`abs` to be sound, which is a
hypothesis of `sine_upper_partial`, not of this theorem. -/
theorem sine_bisect_exit (p : SineP F) (t : Int) (n : Nat) (w : Int) (e : SineExit)
    (h : sinePaceX o p t n = (.wait w, e)) :
    (e = .bisected → o.lt (o.abs (sineErr o p t n w)) o.em3 = true) ∧
    (e = .bracket → Bracket o p t n 0 (o.toInt64 (sineHi o p t n)) →
      ∃ lo, Bracket o p t n lo w ∧ ¬ 1 < wrapS64 (w - lo)) := by
  rcases aux_sinePaceX_cases o p t n with hc | hc | hc | hc | hc | hc
  · rw [hc.2] at h; simp at h
  · rw [hc.2] at h; simp at h
  · rw [hc.2.2] at h
    simp only [Prod.mk.injEq, PaceOut.wait.injEq] at h
    exact ⟨fun he => by rw [he] at h; simp at h, fun he => by rw [he] at h; simp at h⟩
  · rw [hc.2.2.2] at h
    simp only [Prod.mk.injEq, PaceOut.wait.injEq] at h
    exact ⟨fun he => by rw [he] at h; simp at h, fun he => by rw [he] at h; simp at h⟩
  · rw [hc.2.2.2] at h; simp at h
  · rw [hc.2.2.2] at h
    simp only [Prod.mk.injEq, PaceOut.wait.injEq] at h
    obtain ⟨hw, he⟩ := h
    constructor
    · intro hb
      rw [← hw]
      exact aux_sineBisect_bisected o p t n 64 0 _ (by rw [he, hb])
    · intro hb hinit
      rw [← hw]
      exact aux_sineBisect_bracket o p t n 64 0 _ hinit (by rw [he, hb])

/-- The repaired code has no un-converged exit: whenever the bracket end `time.Duration(hi)` lies
in `[0, MaxInt64]` (which the guard `hi >= 0 && hi < float64(MaxInt64-elapsed)` is there to ensure),
every answer is one of: stop (invalid / no bracket), catch-up, converged, bisected, bracket. -/
theorem sine_no_unconverged_exit (p : SineP F) (t : Int) (n : Nat)
    (hrange : 0 ≤ o.toInt64 (sineHi o p t n) ∧ o.toInt64 (sineHi o p t n) ≤ maxInt64) :
    (sinePaceX o p t n).2 ≠ .unconverged := by
  rcases aux_sinePaceX_cases o p t n with hc | hc | hc | hc | hc | hc
  · rw [hc.2]; simp
  · rw [hc.2]; simp
  · rw [hc.2.2]; simp
  · rw [hc.2.2.2]; simp
  · rw [hc.2.2.2]; simp
  · rw [hc.2.2.2]
    simp only []
    apply sine_bisect_fuel o p t n 63 0 _ (by omega) hrange.1 hrange.2
    have : o.toInt64 (sineHi o p t n) ≤ maxInt64 := hrange.2
    unfold maxInt64 at this
    omega

/-- Zero `StartAt` frequency/unit: unlimited rate. -/
theorem linear_zero_unlimited (p : LinearP F) (t : Int) (n : Nat) (hz : p.per = 0 ∨ p.freq = 0) :
    linearPace o p t n = .wait 0 := by
  unfold linearPace
  rw [if_pos hz]

/-- Negative `StartAt` frequency/unit stops the attack. -/
theorem linear_invalid_stops (p : LinearP F) (t : Int) (n : Nat)
    (hz : p.per ≠ 0 ∧ p.freq ≠ 0) (hneg : p.per < 0 ∨ p.freq < 0) :
    linearPace o p t n = .stop := by
  unfold linearPace
  rw [if_neg (by omega), if_pos hneg]

/-- `LinearPacer.Pace` never panics: its only partial operation, `math.MaxInt64/n`, is guarded
by `n != 0`. -/
theorem linear_never_panics (p : LinearP F) (t : Int) (n : Nat) : linearPace o p t n ≠ .panic := by
  unfold linearPace udiv
  split
  · exact PaceOut.noConfusion
  · split
    · exact PaceOut.noConfusion
    · simp only []
      split
      · exact PaceOut.noConfusion
      · split
        · rename_i hg
          split at hg
          · simp at hg
          · simp at hg
        · exact PaceOut.noConfusion
        · split <;> exact PaceOut.noConfusion

/-- A positive wait is returned only when the count has reached the schedule as computed:
`hits ≥ uint64(H(t))` (and at least one hit was sent). -/
theorem linear_positive_wait_on_schedule (p : LinearP F) (t : Int) (n : Nat) (d : Int)
    (h : linearPace o p t n = .wait d) (hd : 0 < d) :
    n ≠ 0 ∧ o.toUInt64 (linearHits o p t) ≤ (n : Int) := by
  unfold linearPace at h
  split at h
  · injection h with h; omega
  · split at h
    · exact absurd h PaceOut.noConfusion
    · simp only [] at h
      split at h
      · injection h with h; omega
      · rename_i hb
        exact ⟨by omega, by omega⟩

/-
FULL STATEMENT (not provable here: it is about `sin`/`cos` and real analysis): along every closed
loop of the sine pacer the count never exceeds the schedule `H` by more than one hit.
What is proved: the closed-loop bound for ANY monotone schedule `S` (in hits) for which the float
computation is sound at the points the pacer returns.  Hypotheses about the float operations, all
of them and nothing else:
  hbehind   the catch-up test is sound:   hits < uint64(H(t))            ⇒ hits+1 ≤ S(t)+1
  hclose    the 1e-3 test is sound:       |hits+1 − H(t+w)| < 1e-3       ⇒ hits+1 ≤ S(t+w)+1
  hnonpos   the sign test is sound:       ¬ (hits+1 − H(t+w) > 0)        ⇒ hits+1 ≤ S(t+w)+1
  hinit     `[0, hi]` is a bracket whenever the fallback is reached (H grows ≥ Mean−|Amp| per ns)
  hrange    `time.Duration(hi)` lies in [0, MaxInt64]
There is no "no un-converged exit" hypothesis any more: the repaired code has no such exit
(`sine_no_unconverged_exit`), its exits are covered by `sine_converged_exit` and `sine_bisect_exit`.
-/
theorem sine_upper_partial (p : SineP F) (S : Int → Int)
    (hmono : ∀ a b : Int, a ≤ b → S a ≤ S b)
    (hbehind : ∀ (t : Int) (n : Nat), (n : Int) < o.toUInt64 (sineHits o p t) →
      ((n : Int) + 1) ≤ S t + 1)
    (hclose : ∀ (t : Int) (n : Nat) (w : Int),
      o.lt (o.abs (sineErr o p t n w)) o.em3 = true → ((n : Int) + 1) ≤ S (t + max w 0) + 1)
    (hnonpos : ∀ (t : Int) (n : Nat) (w : Int),
      o.lt o.zero (sineErr o p t n w) = false → ((n : Int) + 1) ≤ S (t + max w 0) + 1)
    (hinit : ∀ (t : Int) (n : Nat), ¬ (n : Int) < o.toUInt64 (sineHits o p t) →
      Bracket o p t n 0 (o.toInt64 (sineHi o p t n)))
    (hrange : ∀ (t : Int) (n : Nat),
      0 ≤ o.toInt64 (sineHi o p t n) ∧ o.toInt64 (sineHi o p t n) ≤ maxInt64)
    (stalls : List Nat) (h0 : 0 ≤ S 0 + 1) :
    ∀ x ∈ closedLoop (sinePace o p) stalls 0 0, (x.2 : Int) ≤ S x.1 + 1 := by
  apply closedLoop_upper_of_contract (sinePace o p) S hmono _ stalls 0 0 (by simpa using h0)
  intro t n d _ hw
  have hcast : ((n + 1 : Nat) : Int) = (n : Int) + 1 := by push_cast; ring
  rw [hcast]
  unfold sinePace at hw
  have hX : sinePaceX o p t n = (.wait d, (sinePaceX o p t n).2) := by rw [← hw]
  have hnf := sine_no_unconverged_exit o p t n (hrange t n)
  rcases aux_sinePaceX_cases o p t n with hc | hc | hc | hc | hc | hc
  · rw [hc.2] at hw; exact absurd hw PaceOut.noConfusion
  · rw [hc.2] at hw; exact absurd hw PaceOut.noConfusion
  · rw [hc.2.2] at hw
    injection hw with hw
    have := hbehind t n hc.2.1
    rw [← hw]; simpa using this
  · have := sine_converged_exit o p t n d (by rw [hX, hc.2.2.2])
    exact hclose t n d this
  · rw [hc.2.2.2] at hw; exact absurd hw PaceOut.noConfusion
  · have hex := sine_bisect_exit o p t n d _ hX
    -- which exit of the bisection?
    have hcases : ∀ k lo up, (sineBisect o p t n k lo up).2 = .bisected ∨
        (sineBisect o p t n k lo up).2 = .bracket ∨ (sineBisect o p t n k lo up).2 = .unconverged := by
      intro k
      induction k with
      | zero => intro lo up; simp [sineBisect]
      | succ k ih =>
        intro lo up
        unfold sineBisect
        split
        · simp only []
          split
          · simp
          · split
            · exact ih _ _
            · exact ih _ _
        · simp
    have he2 : (sinePaceX o p t n).2 = (sineBisect o p t n 64 0 (o.toInt64 (sineHi o p t n))).2 := by
      rw [hc.2.2.2]
    rcases hcases 64 0 (o.toInt64 (sineHi o p t n)) with hb | hb | hb
    · exact hclose t n d (hex.1 (by rw [he2, hb]))
    · obtain ⟨lo, hbr, _⟩ := hex.2 (by rw [he2, hb]) (hinit t n hc.2.1)
      exact hnonpos t n d hbr.2
    · exact absurd (by rw [he2, hb]) hnf

/-- The product `interval · delta` of `LinearPacer.Pace` as computed. -/
def linearWaitF (p : LinearP F) (t : Int) (n : Nat) : F :=
  o.mul (o.round (o.div o.e9 (linearRate o p t)))
    (o.sub (o.ofUInt64 (wrapU64 ((n : Int) + 1))) (linearHits o p t))

/-- The two ways `LinearPacer.Pace` answers with a wait (positive `StartAt`): catch-up, or the
first-order wait — the latter only below the integer limits (`hits ≠ MaxUint64`, product below
`float64(MaxInt64)`). -/
theorem aux_linearPace_wait (p : LinearP F) (t : Int) (n : Nat) (d : Int)
    (hf : 0 < p.freq) (hp : 0 < p.per) (h : linearPace o p t n = .wait d) :
    ((n = 0 ∨ (n : Int) < o.toUInt64 (linearHits o p t)) ∧ d = 0) ∨
    (¬ (n = 0 ∨ (n : Int) < o.toUInt64 (linearHits o p t)) ∧ (n : Int) ≠ (two64 : Int) - 1 ∧
      o.le (o.ofInt64 maxInt64) (linearWaitF o p t n) = false ∧
      d = o.toInt64 (linearWaitF o p t n)) := by
  unfold linearPace at h
  rw [if_neg (by omega), if_neg (by omega)] at h
  simp only [] at h
  split at h
  · rename_i hb; left; exact ⟨hb, by injection h with h; omega⟩
  · rename_i hb
    right
    refine ⟨hb, ?_⟩
    split at h
    · exact absurd h PaceOut.noConfusion
    · exact absurd h PaceOut.noConfusion
    · split at h
      · exact absurd h PaceOut.noConfusion
      · rename_i hns
        have h1 : (n : Int) ≠ (two64 : Int) - 1 := fun hm => hns (Or.inl hm)
        have h2 : o.le (o.ofInt64 maxInt64) (linearWaitF o p t n) = false := by
          by_contra hcon
          exact hns (Or.inr (by unfold linearWaitF at hcon; simpa using hcon))
        injection h with h
        exact ⟨h1, h2, by unfold linearWaitF; exact h.symm⟩

/-- "arithmetic overflow stops the attack": at `hits = MaxUint64` both float pacers stop (valid
configuration, attacker not behind), whatever the float operations do. -/
theorem sine_maxhits_stops (p : SineP F) (t : Int) (n : Nat) (hv : sineInvalid o p = false)
    (hn : (n : Int) = (two64 : Int) - 1) : sinePace o p t n = .stop := by
  unfold sinePace sinePaceX
  rw [if_neg (by simp [hv]), if_pos hn]

theorem linear_maxhits_no_wait (p : LinearP F) (t : Int) (n : Nat) (d : Int)
    (hf : 0 < p.freq) (hp : 0 < p.per) (hn : (n : Int) = (two64 : Int) - 1)
    (h : linearPace o p t n = .wait d) :
    (n : Int) < o.toUInt64 (linearHits o p t) ∧ d = 0 := by
  rcases aux_linearPace_wait o p t n d hf hp h with ⟨hb, hd⟩ | ⟨_, hne, _⟩
  · rcases hb with h0 | hlt
    · rw [h0] at hn; unfold two64 at hn; omega
    · exact ⟨hlt, hd⟩
  · exact absurd hn hne

/-- The bisection leaves through exactly one of three exits. -/
theorem aux_sineBisect_exits (p : SineP F) (t : Int) (n : Nat) :
    ∀ (k : Nat) (lo up : Int), (sineBisect o p t n k lo up).2 = .bisected ∨
      (sineBisect o p t n k lo up).2 = .bracket ∨ (sineBisect o p t n k lo up).2 = .unconverged := by
  intro k
  induction k with
  | zero => intro lo up; simp [sineBisect]
  | succ k ih =>
    intro lo up
    unfold sineBisect
    split
    · simp only []
      split
      · simp
      · split
        · exact ih _ _
        · exact ih _ _
    · simp

/-- The bisection answers with a point of its bracket. -/
theorem aux_sineBisect_range (p : SineP F) (t : Int) (n : Nat) :
    ∀ (k : Nat) (lo up : Int), 0 ≤ lo → lo ≤ up → up ≤ maxInt64 →
      lo ≤ (sineBisect o p t n k lo up).1 ∧ (sineBisect o p t n k lo up).1 ≤ up := by
  intro k
  induction k with
  | zero => intro lo up _ h _; simp [sineBisect]; exact h
  | succ k ih =>
    intro lo up h0 h1 h2
    have hw : wrapS64 (up - lo) = up - lo :=
      wrapS64_id (by unfold inS64 minInt64; unfold maxInt64 at *; omega)
    have hhalf : (up - lo).tdiv 2 = (up - lo) / 2 := Int.tdiv_eq_ediv_of_nonneg (by omega)
    have hmid : wrapS64 (lo + (up - lo) / 2) = lo + (up - lo) / 2 :=
      wrapS64_id (by unfold inS64 minInt64; unfold maxInt64 at *; omega)
    unfold sineBisect
    rw [hw, hhalf, hmid]
    split
    · simp only []
      split
      · exact ⟨by omega, by omega⟩
      · split
        · have := ih (lo + (up - lo) / 2) up (by omega) (by omega) h2
          exact ⟨by omega, this.2⟩
        · have := ih lo (lo + (up - lo) / 2) h0 (by omega) (by omega)
          exact ⟨this.1, by omega⟩
    · exact ⟨h1, le_refl _⟩

/-- Every guess of the fixed-point loop is a `time.Duration` when the conversion yields one. -/
theorem aux_sineIter_range (p : SineP F) (t : Int) (n : Nat) (hconv : ∀ x, inS64 (o.toInt64 x)) :
    ∀ (k : Nat) (g : Int), inS64 g → inS64 (sineIter o p t n k g).1 := by
  intro k
  induction k with
  | zero => intro g hg; simpa [sineIter] using hg
  | succ k ih =>
    intro g hg
    unfold sineIter
    simp only []
    split
    · exact hg
    · exact ih _ (hconv _)

end floats

/-! Non-vacuity of the float theorems: a concrete instance (SoftF64 arithmetic, `sin = cos = 0`),
on which each exit of the sine pacer and a positive linear wait occur. -/
def nvOps : FloatOps F64 where
  ofInt64 := F64.ofInt
  ofUInt64 := F64.ofInt
  add := F64.add
  sub := F64.sub
  mul := F64.mul
  div := F64.div
  lt := F64.lt
  le := F64.le
  abs := F64.abs
  round := F64.round
  ceil := fun x => if x.isFinite then F64.ofInt (-(F64.floorInt (F64.neg x))) else x
  sin := fun _ => F64.posZero
  cos := fun _ => F64.posZero
  sq := fun x => F64.mul x x
  toInt64 := F64.toInt64
  toUInt64 := F64.toUInt64
  zero := F64.posZero
  one := F64.ofNat 1
  two := F64.ofNat 2
  pi := F64.ofDecimal 3141592653589793 (-15)
  twoPi := F64.ofDecimal 6283185307179586 (-15)
  e9 := F64.ofDecimal 1 9
  em3 := F64.ofDecimal 1 (-3)

def nvSine : SineP F64 :=
  { period := 1000000000, meanFreq := 100, meanPer := 1000000000, ampFreq := 50,
    ampPer := 1000000000, startAt := F64.posZero }

example : sinePaceX nvOps nvSine 0 0 = (.wait 10000000, .converged) := by decide +kernel
example : sinePaceX nvOps nvSine 1000000000 3 = (.wait 0, .behind) := by decide +kernel
example : sineInvalid nvOps { nvSine with ampFreq := 100 } = true := by decide +kernel

/-- 3 hits per 10ns, zero amplitude (a straight schedule, 0.3 hits/ns): whole-nanosecond guesses
cannot reach the 1e-3 target. -/
def nvSineFast : SineP F64 :=
  { period := 1000000000, meanFreq := 3, meanPer := 10, ampFreq := 0, ampPer := 10,
    startAt := F64.posZero }

/-- Before commit 7529829 the last guess was returned although it had not converged: 3ns, where
the schedule is at 0.9 < 1 hits — one hit released early, and so on for every hit. -/
theorem sine_unconverged_old_witness :
    sinePaceXOld nvOps nvSineFast 0 0 = (.wait 3, .unconverged) := by decide +kernel
/-- The repaired code bisects `[0, 4]` and returns the upper end of the 1ns bracket `[3, 4]`. -/
example : sinePaceX nvOps nvSineFast 0 0 = (.wait 4, .bracket) := by decide +kernel
example : Bracket nvOps nvSineFast 0 0 0 (nvOps.toInt64 (sineHi nvOps nvSineFast 0 0)) := by
  unfold Bracket; decide +kernel
example : linearPace nvOps { freq := 10, per := 1000000000, slope := F64.ofNat 1 } 1000000000 11
    = .wait 136363636 := by decide +kernel

/-! ## Exact arithmetic: the same code over a linearly ordered field

`exactOps` instantiates the float operations of the model with EXACT arithmetic over any linearly
ordered field `K` with a floor function (ℚ, ℝ): `+ − × ÷` are the field operations, `math.Round` is
the identity (no rounding of the interval), `math.Pow(x, 2) = x·x`, `math.Ceil` is the ceiling, the
float→integer conversions truncate toward zero with Go's out-of-range result (`MinInt64`), and
`sin`, `cos`, `π` are parameters.  Theorems about `linearPace (exactOps …)` and
`sinePaceX (exactOps …)` are theorems about the very same decision code, with the rounding errors of
binary64 idealised away (what remains: the truncation of waits to whole nanoseconds). -/

section exact
set_option linter.unusedSectionVars false
variable {K : Type} [Field K] [LinearOrder K] [IsStrictOrderedRing K] [FloorRing K]

/-- truncation toward zero -/
def truncK (x : K) : Int := if 0 ≤ x then ⌊x⌋ else ⌈x⌉

/-- Go/amd64 `int64(f)`: truncation, `MinInt64` when out of range. -/
def toI64K (x : K) : Int :=
  if minInt64 ≤ truncK x ∧ truncK x ≤ maxInt64 then truncK x else minInt64

/-- Go/amd64 `uint64(f)`: below 2^63 the signed conversion reinterpreted, otherwise
`int64(f − 2^63) | 1<<63`. -/
def toU64K (x : K) : Int :=
  if x < ((two63 : Nat) : K) then wrapU64 (toI64K x)
  else if toI64K (x - ((two63 : Nat) : K)) < 0 then (two63 : Int)
  else toI64K (x - ((two63 : Nat) : K)) + (two63 : Int)

def exactOps (sin cos : K → K) (pi : K) : FloatOps K where
  ofInt64 := fun i => (i : K)
  ofUInt64 := fun i => (i : K)
  add := (· + ·)
  sub := (· - ·)
  mul := (· * ·)
  div := (· / ·)
  lt := fun a b => decide (a < b)
  le := fun a b => decide (a ≤ b)
  abs := fun x => |x|
  round := id
  ceil := fun x => ((⌈x⌉ : Int) : K)
  sin := sin
  cos := cos
  sq := fun x => x * x
  toInt64 := toI64K
  toUInt64 := toU64K
  zero := 0
  one := 1
  two := 2
  pi := pi
  twoPi := 2 * pi
  e9 := 1000000000
  em3 := 1 / 1000

variable (sin cos : K → K) (pi : K)

/-- `Duration.Seconds()` is exact: `t / 1e9`. -/
theorem aux_seconds_exact (t : Int) :
    seconds (exactOps sin cos pi) t = (t : K) / 1000000000 := by
  unfold seconds exactOps
  simp only []
  have h := Int.mul_tdiv_add_tmod t 1000000000
  have hK : (t : K) = 1000000000 * ((t.tdiv 1000000000 : Int) : K) + ((t.tmod 1000000000 : Int) : K) := by
    have := congrArg (fun z : Int => (z : K)) h
    simp only [Int.cast_add, Int.cast_mul, Int.cast_ofNat] at this
    exact this.symm
  rw [hK]
  field_simp

/-! ### Conversions and the K-valued closed-loop lemma -/

/-- K-valued form of `closedLoop_upper_of_contract` with additive slack `c` and a time horizon
`T ≤ MaxInt64`: the contract may use that virtual time is non-negative and has not passed `T`, the schedule need
be monotone up to `T` only; the
bound is obtained for every state up to `T` (every state has `t ≤ MaxInt64`). -/
theorem closedLoop_upper_of_contract_field (p : Int → Nat → PaceOut) (S : Int → K) (c : K) (T : Int)
    (_hT : T ≤ maxInt64)
    (hmono : ∀ a b : Int, 0 ≤ a → a ≤ b → b ≤ T → S a ≤ S b)
    (hcontract : ∀ (t : Int) (n : Nat) (d : Int), 0 ≤ t → t + max d 0 ≤ T →
      (n : K) ≤ S t + c → p t n = .wait d → (n : K) + 1 ≤ S (t + max d 0) + c)
    (stalls : List Nat) (h0 : 0 ≤ S 0 + c) :
    ∀ x ∈ closedLoop p stalls 0 0, x.1 ≤ maxInt64 ∧ (x.1 ≤ T → (x.2 : K) ≤ S x.1 + c) := by
  have key := closedLoop_invariant p
    (fun t n => 0 ≤ t ∧ t ≤ maxInt64 ∧ (t ≤ T → (n : K) ≤ S t + c)) ?_ stalls 0 0
    ⟨le_refl _, by unfold maxInt64; omega, fun _ => by simpa using h0⟩
  · intro x hx; exact (key x hx).2
  · intro t n d s ⟨ht, _, hinv⟩ hw hle
    have hs : (0 : Int) ≤ (s : Int) := Int.natCast_nonneg _
    have hm : (0 : Int) ≤ max d 0 := le_max_right _ _
    refine ⟨by omega, hle, ?_⟩
    intro hTle
    have h1 := hcontract t n d ht (by omega) (hinv (by omega)) hw
    have h2 := hmono (t + max d 0) (t + max d 0 + (s : Int)) (by omega) (by omega) hTle
    push_cast
    linarith

theorem aux_toI64K_floor (x : K) (h0 : 0 ≤ x) (h1 : x < ((maxInt64 + 1 : Int) : K)) :
    toI64K x = ⌊x⌋ := by
  have hfl0 : (0 : Int) ≤ ⌊x⌋ := Int.floor_nonneg.2 h0
  have hfl1 : ⌊x⌋ < maxInt64 + 1 := Int.floor_lt.2 h1
  unfold toI64K truncK
  rw [if_pos h0, if_pos ⟨by unfold minInt64; omega, by omega⟩]

/-- A non-negative result of `int64(y)` for `y ≥ 0` is the floor of `y`. -/
theorem aux_toI64K_nonneg (y : K) (h0 : 0 ≤ y) (h : ¬ toI64K y < 0) : toI64K y = ⌊y⌋ := by
  unfold toI64K truncK at h ⊢
  rw [if_pos h0] at h ⊢
  split
  · rfl
  · rename_i hr; rw [if_neg hr] at h; unfold minInt64 at h; omega

theorem aux_toU64K_floor (x : K) (h0 : 0 ≤ x) (h1 : x < ((two63 : Nat) : K)) :
    toU64K x = ⌊x⌋ := by
  have h1' : x < ((maxInt64 + 1 : Int) : K) := by
    have : ((maxInt64 + 1 : Int) : K) = ((two63 : Nat) : K) := by unfold maxInt64 two63; norm_num
    rw [this]; exact h1
  have hfl0 : (0 : Int) ≤ ⌊x⌋ := Int.floor_nonneg.2 h0
  have hfl1 : ⌊x⌋ < maxInt64 + 1 := Int.floor_lt.2 h1'
  unfold toU64K
  rw [if_pos h1, aux_toI64K_floor x h0 h1']
  exact wrapU64_id (by unfold inU64 two64; unfold maxInt64 at hfl1; omega)

/-- `uint64(x)` never exceeds a non-negative `x`. -/
theorem aux_toU64K_le (x : K) (h0 : 0 ≤ x) : ((toU64K x : Int) : K) ≤ x := by
  by_cases hlt : x < ((two63 : Nat) : K)
  · rw [aux_toU64K_floor x h0 hlt]; exact Int.floor_le x
  · have hy : 0 ≤ x - ((two63 : Nat) : K) := by linarith [not_lt.1 hlt]
    unfold toU64K
    rw [if_neg hlt]
    split
    · have : ((two63 : Int) : K) = ((two63 : Nat) : K) := by norm_cast
      rw [this]; exact not_lt.1 hlt
    · rename_i hneg
      rw [aux_toI64K_nonneg _ hy hneg]
      have := Int.floor_le (x - ((two63 : Nat) : K))
      push_cast
      linarith

/-! ### "The declared schedule is the integral of the instantaneous rate" (constant, linear) -/

/-- Constant pacer: the schedule of the statement, `S(t) = Freq·t/Per` (t in ns), is exactly
`Rate() · t` with `Rate()` in hits per second and `t` in seconds — the integral of the constant rate. -/
theorem const_schedule_is_rate_integral (freq per t : Int) (hp : per ≠ 0) :
    constRateOn (exactOps sin cos pi) freq per * seconds (exactOps sin cos pi) t
      = (freq : K) * (t : K) / (per : K) := by
  rw [aux_seconds_exact]
  unfold constRateOn hitsPerNs exactOps
  simp only []
  have : (per : K) ≠ 0 := by exact_mod_cast hp
  field_simp

/-- … so `const_upper` reads `n_k ≤ Rate()·t_k` in these units. -/
theorem const_upper_rate_form (freq per : Int) (hf : 0 < freq) (hp : 0 < per)
    (hf' : freq ≤ maxInt64) (hp' : per ≤ maxInt64) (stalls : List Nat) :
    ∀ x ∈ closedLoop (constPace freq per) stalls 0 0,
      (x.2 : K) ≤ constRateOn (exactOps sin cos pi) freq per * seconds (exactOps sin cos pi) x.1 := by
  intro x hx
  have h := const_upper freq per hf hp hf' hp' stalls x hx
  rw [const_schedule_is_rate_integral sin cos pi freq per x.1 (by omega)]
  have hpK : (0 : K) < (per : K) := by exact_mod_cast hp
  rw [le_div_iff₀ hpK]
  exact_mod_cast h

/-- `LinearPacer.Rate(t) = a·x + b` and `hits(t) = a·x²/2 + b·x` with `x = t/1e9` s and
`b = Freq/Per·1e9`, as the code computes them over exact arithmetic. -/
theorem aux_linear_closed_forms (p : LinearP K) (t : Int) :
    linearRate (exactOps sin cos pi) p t
      = p.slope * ((t : K) / 1000000000) + (p.freq : K) / (p.per : K) * 1000000000 ∧
    (0 ≤ t → linearHits (exactOps sin cos pi) p t
      = p.slope * ((t : K) / 1000000000) ^ 2 / 2
        + (p.freq : K) / (p.per : K) * 1000000000 * ((t : K) / 1000000000)) := by
  constructor
  · unfold linearRate linearB hitsPerNs
    rw [aux_seconds_exact]
    simp only [exactOps]
  · intro ht
    unfold linearHits linearB hitsPerNs
    rw [if_neg (by omega), aux_seconds_exact]
    simp only [exactOps]
    ring

/-- Linear pacer: the schedule the code computes is the integral of the rate the code computes —
`H(t₂) − H(t₁) = (x₂ − x₁)·(rate(t₁) + rate(t₂))/2` (trapezoid rule, exact for a linear rate) and
`H(0) = 0`. -/
theorem linear_schedule_is_rate_integral (p : LinearP K) (t1 t2 : Int) (h1 : 0 ≤ t1) (h2 : 0 ≤ t2) :
    linearHits (exactOps sin cos pi) p 0 = 0 ∧
    linearHits (exactOps sin cos pi) p t2 - linearHits (exactOps sin cos pi) p t1
      = (seconds (exactOps sin cos pi) t2 - seconds (exactOps sin cos pi) t1)
        * (linearRate (exactOps sin cos pi) p t1 + linearRate (exactOps sin cos pi) p t2) / 2 := by
  constructor
  · rw [(aux_linear_closed_forms sin cos pi p 0).2 (by omega)]; simp
  · rw [(aux_linear_closed_forms sin cos pi p t1).2 h1, (aux_linear_closed_forms sin cos pi p t2).2 h2,
      (aux_linear_closed_forms sin cos pi p t1).1, (aux_linear_closed_forms sin cos pi p t2).1,
      aux_seconds_exact, aux_seconds_exact]
    ring

/-! ### Linear pacer with a non-negative slope: the first-order wait overshoots -/

/-- Along EVERY closed loop of the linear pacer over exact arithmetic, for every non-negative slope
and positive start rate, every stall history: the count never exceeds the schedule `H` the pacer
declares by more than one hit, `n_k ≤ H(t_k) + 1`.  The first-order wait `(n+1−H(t))/rate(t)`
overshoots because the rate does not fall; truncating it to whole nanoseconds loses less than
`rate·1ns ≤ 1` hit.  Hypothesis (where the REAL code is known to fail otherwise):
`hfast` — the rate stays at or below one hit per nanosecond within representable time (known
finding `linear_subnanosecond_interval`) up to the horizon `T` for which the bound is claimed;
No lower bound on the rate is needed any more: since commit 4a0988c a product `interval·delta` that
does not fit `int64` stops the attack (`linear_never_wraps`). -/
theorem linear_upper_nonneg_slope (p : LinearP K) (hf : 0 < p.freq) (hp : 0 < p.per)
    (ha : 0 ≤ p.slope) (T : Int) (hT : T ≤ maxInt64)
    (hfast : linearRate (exactOps sin cos pi) p T ≤ 1000000000)
    (stalls : List Nat) :
    ∀ x ∈ closedLoop (linearPace (exactOps sin cos pi) p) stalls 0 0, x.1 ≤ T →
      (x.2 : K) ≤ linearHits (exactOps sin cos pi) p x.1 + 1 := by
  have hfK : (0 : K) < (p.freq : K) := by exact_mod_cast hf
  have hpK : (0 : K) < (p.per : K) := by exact_mod_cast hp
  obtain ⟨a, hadef⟩ : ∃ a, a = p.slope := ⟨_, rfl⟩
  obtain ⟨b, hbdef⟩ : ∃ b, b = (p.freq : K) / (p.per : K) * 1000000000 := ⟨_, rfl⟩
  obtain ⟨M, hMdef⟩ : ∃ M, M = ((maxInt64 : Int) : K) := ⟨_, rfl⟩
  have hb : 0 < b := by rw [hbdef]; positivity
  have ha' : 0 ≤ a := by rw [hadef]; exact ha
  have hM63 : M + 1 = ((two63 : Nat) : K) := by rw [hMdef]; unfold maxInt64 two63; norm_num
  have hR : ∀ t : Int, linearRate (exactOps sin cos pi) p t = a * ((t : K) / 1000000000) + b := by
    intro t; rw [(aux_linear_closed_forms sin cos pi p t).1, hadef, hbdef]
  have hH : ∀ t : Int, 0 ≤ t → linearHits (exactOps sin cos pi) p t
      = a * ((t : K) / 1000000000) ^ 2 / 2 + b * ((t : K) / 1000000000) := by
    intro t ht; rw [(aux_linear_closed_forms sin cos pi p t).2 ht, hadef, hbdef]
  rw [hR] at hfast
  -- facts at a time 0 ≤ t ≤ T
  have hfacts : ∀ t : Int, 0 ≤ t → t ≤ T →
      0 ≤ (t : K) / 1000000000 ∧ a * ((t : K) / 1000000000) + b ≤ 1000000000 ∧
      0 ≤ a * ((t : K) / 1000000000) ^ 2 / 2 + b * ((t : K) / 1000000000) ∧
      a * ((t : K) / 1000000000) ^ 2 / 2 + b * ((t : K) / 1000000000) ≤ (t : K) := by
    intro t ht0 ht1
    have hx0 : (0 : K) ≤ (t : K) / 1000000000 := by
      have : (0 : K) ≤ (t : K) := by exact_mod_cast ht0
      positivity
    have htM : (t : K) ≤ (T : K) := by exact_mod_cast ht1
    have hxM : (t : K) / 1000000000 ≤ (T : K) / 1000000000 := by
      apply div_le_div_of_nonneg_right htM; norm_num
    have hr : a * ((t : K) / 1000000000) + b ≤ 1000000000 := by
      have := mul_le_mul_of_nonneg_left hxM ha'
      linarith
    refine ⟨hx0, hr, by positivity, ?_⟩
    have h1 : a * ((t : K) / 1000000000) ^ 2 / 2 + b * ((t : K) / 1000000000)
        ≤ ((t : K) / 1000000000) * (a * ((t : K) / 1000000000) + b) := by
      have : 0 ≤ a * ((t : K) / 1000000000) ^ 2 := by positivity
      nlinarith
    have h2 : ((t : K) / 1000000000) * (a * ((t : K) / 1000000000) + b)
        ≤ ((t : K) / 1000000000) * 1000000000 := mul_le_mul_of_nonneg_left hr hx0
    have h3 : ((t : K) / 1000000000) * 1000000000 = (t : K) := by field_simp
    linarith
  intro x hx hxT
  refine (closedLoop_upper_of_contract_field (linearPace (exactOps sin cos pi) p)
    (fun t => linearHits (exactOps sin cos pi) p t) 1 T hT ?_ ?_ stalls ?_ x hx).2 hxT
  · -- the schedule is monotone on t ≥ 0
    intro t1 t2 h1 h2 _
    rw [hH t1 h1, hH t2 (by omega)]
    have hx1 : (0 : K) ≤ (t1 : K) / 1000000000 := by
      have : (0 : K) ≤ (t1 : K) := by exact_mod_cast h1
      positivity
    have hx12 : (t1 : K) / 1000000000 ≤ (t2 : K) / 1000000000 := by
      apply div_le_div_of_nonneg_right _ (by norm_num)
      exact_mod_cast h2
    nlinarith [mul_nonneg ha' hx1, mul_nonneg ha' (sub_nonneg.2 hx12),
      mul_nonneg (mul_nonneg ha' (sub_nonneg.2 hx12)) (sub_nonneg.2 hx12),
      mul_nonneg (mul_nonneg ha' (sub_nonneg.2 hx12)) hx1]
  · -- the pointwise contract
    intro t n d ht hle hinv hw
    have hm : (0 : Int) ≤ max d 0 := le_max_right _ _
    obtain ⟨hx0, hr1, hH0, hHt⟩ := hfacts t ht (by omega)
    rw [hH t ht] at hinv
    have htM : (t : K) ≤ M := by rw [hMdef]; exact_mod_cast (by omega : t ≤ maxInt64)
    have hle' : t + max d 0 ≤ maxInt64 := by omega
    rcases aux_linearPace_wait (exactOps sin cos pi) p t n d hf hp hw with ⟨hbeh, hd⟩ | ⟨hnb, _, hnov, hd⟩
    · -- catch-up or first hit: wait 0
      rw [hd]
      simp only [max_self, add_zero]
      rw [hH t ht]
      rcases hbeh with h0 | hlt
      · rw [h0]; simp only [Nat.cast_zero]; linarith
      · have hcast : ((toU64K (linearHits (exactOps sin cos pi) p t) : Int) : K)
            ≤ linearHits (exactOps sin cos pi) p t :=
          aux_toU64K_le _ (by rw [hH t ht]; exact hH0)
        have hlt' : (n : Int) + 1 ≤ toU64K (linearHits (exactOps sin cos pi) p t) := hlt
        have : ((n : Int) : K) + 1 ≤ ((toU64K (linearHits (exactOps sin cos pi) p t) : Int) : K) := by
          exact_mod_cast hlt'
        rw [hH t ht] at hcast this
        push_cast at this
        linarith
    · -- the first-order wait
      have hnb' : ¬ (n : Int) < toU64K (linearHits (exactOps sin cos pi) p t) := fun h => hnb (Or.inr h)
      rw [hH t ht] at hnb'
      set Hq := a * ((t : K) / 1000000000) ^ 2 / 2 + b * ((t : K) / 1000000000) with hHq
      set r := a * ((t : K) / 1000000000) + b with hr
      have hHlt63 : Hq < ((two63 : Nat) : K) := by linarith
      rw [aux_toU64K_floor Hq hH0 hHlt63] at hnb'
      have hfl : Hq < (n : K) + 1 := by
        have h1 := Int.lt_floor_add_one Hq
        have h2 : ((⌊Hq⌋ : Int) : K) ≤ ((n : Int) : K) := by exact_mod_cast (not_lt.1 hnb')
        push_cast at h2
        linarith
      -- hits+1 does not wrap
      have hnle : (n : Int) ≤ maxInt64 + 1 := by
        have : ((n : Int) : K) ≤ ((maxInt64 + 1 : Int) : K) := by
          push_cast; rw [← hMdef]; linarith
        exact_mod_cast this
      have hwrap : wrapU64 ((n : Int) + 1) = (n : Int) + 1 :=
        wrapU64_id (by unfold inU64 two64; unfold maxInt64 at hnle; omega)
      have hrpos : 0 < r := by
        have : 0 ≤ a * ((t : K) / 1000000000) := mul_nonneg ha' hx0
        linarith
      have hrb : b ≤ r := by
        have : 0 ≤ a * ((t : K) / 1000000000) := mul_nonneg ha' hx0
        linarith
      -- the exact wait W and its floor
      have hWF : linearWaitF (exactOps sin cos pi) p t n = 1000000000 / r * ((n : K) + 1 - Hq) := by
        unfold linearWaitF
        rw [hwrap, hR t, hH t ht]
        simp only [exactOps, id]
        push_cast
        rfl
      rw [hWF] at hd hnov
      have hdW : d = toI64K (1000000000 / r * ((n : K) + 1 - Hq)) := hd
      set W := 1000000000 / r * ((n : K) + 1 - Hq) with hW
      have hdelta0 : 0 < (n : K) + 1 - Hq := by linarith
      have hW0 : 0 < W := by rw [hW]; positivity
      -- the code stops when the product reaches float64(MaxInt64); it answered with a wait, so W < M
      have hWM : W < M := by
        have h1 : ¬ (((maxInt64 : Int) : K) ≤ W) := by
          intro hcon
          have : (exactOps sin cos pi).le ((exactOps sin cos pi).ofInt64 maxInt64) W = true := by
            simp [exactOps, hcon]
          rw [this] at hnov; exact absurd hnov (by decide)
        rw [hMdef]; exact not_le.1 h1
      have hdfl : d = ⌊W⌋ := by
        rw [hdW]
        apply aux_toI64K_floor W (le_of_lt hW0)
        push_cast; rw [← hMdef]; linarith
      have hd0 : 0 ≤ d := by rw [hdfl]; exact Int.floor_nonneg.2 (le_of_lt hW0)
      have hmax : max d 0 = d := max_eq_left hd0
      rw [hmax] at hle ⊢
      rw [hH (t + d) (by omega)]
      have hdK : W - 1 < (d : K) := by
        have := Int.lt_floor_add_one W
        rw [hdfl]; linarith
      have hdK0 : (0 : K) ≤ (d : K) := by exact_mod_cast hd0
      -- u = d/1e9 seconds; H(t+d) − H(t) = u·r + a·u²/2 ≥ u·r > delta − r/1e9 ≥ delta − 1
      have hsplit : ((t + d : Int) : K) / 1000000000 = (t : K) / 1000000000 + (d : K) / 1000000000 := by
        push_cast; ring
      rw [hsplit]
      have hu0 : (0 : K) ≤ (d : K) / 1000000000 := by positivity
      have hur : (n : K) + 1 - Hq - 1 < (d : K) / 1000000000 * r := by
        have h1 : (W - 1) * r < (d : K) * r := mul_lt_mul_of_pos_right hdK hrpos
        have h2 : W * r = 1000000000 * ((n : K) + 1 - Hq) := by
          rw [hW]; field_simp
        have h3 : (d : K) / 1000000000 * r = (d : K) * r / 1000000000 := by ring
        rw [h3, lt_div_iff₀ (by norm_num)]
        nlinarith
      have hquad : 0 ≤ a * ((d : K) / 1000000000) ^ 2 / 2 := by positivity
      have hexp : a * ((t : K) / 1000000000 + (d : K) / 1000000000) ^ 2 / 2
          + b * ((t : K) / 1000000000 + (d : K) / 1000000000)
          = Hq + (d : K) / 1000000000 * r + a * ((d : K) / 1000000000) ^ 2 / 2 := by
        rw [hHq, hr]; ring
      rw [hexp]
      linarith only [hur, hquad]
  · rw [hH 0 (le_refl _)]; simp

/-! ### Linear pacer with a NEGATIVE slope, up to (almost) the zero of the rate: the extent of F05 -/

/-- The algebra of one first-order step when the rate falls (`a ≤ 0`): the wait `u` (seconds,
truncated: `delta − r/1e9 < u·r ≤ delta`) advances the schedule by `u·r + a·u²/2`, which is at
least `delta − 1` — the new count is at most one hit ahead — as long as the rate at the horizon
leaves room: `−2a ≤ rT²·(1 − b/1e9)`. -/
theorem aux_neg_slope_step (a b r rT u delta : K) (ha : a ≤ 0) (hrT : 0 < rT) (hrTr : rT ≤ r)
    (hrb : r ≤ b) (hb9 : b ≤ 1000000000) (hd0 : 0 < delta) (hd2 : delta ≤ 2) (hu0 : 0 ≤ u)
    (hu1 : u * r ≤ delta) (hu2 : delta - r / 1000000000 < u * r)
    (hroom : -(2 * a) ≤ rT ^ 2 * (1 - b / 1000000000)) :
    delta - 1 ≤ u * r + a * u ^ 2 / 2 := by
  have hr : 0 < r := lt_of_lt_of_le hrT hrTr
  have h1 : u ≤ delta / r := by rw [le_div_iff₀ hr]; exact hu1
  have h2 : u ^ 2 ≤ (delta / r) ^ 2 := pow_le_pow_left₀ hu0 h1 2
  have h3 : (delta / r) ^ 2 ≤ 4 / r ^ 2 := by
    rw [div_pow]
    apply div_le_div_of_nonneg_right _ (by positivity)
    nlinarith
  have h4 : a * (4 / r ^ 2) ≤ a * u ^ 2 := mul_le_mul_of_nonpos_left (le_trans h2 h3) ha
  have hc : 0 ≤ 1 - b / 1000000000 := by
    have : b / 1000000000 ≤ 1 := by rw [div_le_one (by norm_num)]; exact hb9
    linarith
  have h5 : rT ^ 2 ≤ r ^ 2 := pow_le_pow_left₀ (le_of_lt hrT) hrTr 2
  have h6 : -(2 * a) ≤ r ^ 2 * (1 - b / 1000000000) :=
    le_trans hroom (mul_le_mul_of_nonneg_right h5 hc)
  have h7 : -(1 - b / 1000000000) ≤ a * (4 / r ^ 2) / 2 := by
    have hr2 : 0 < r ^ 2 := by positivity
    have : a * (4 / r ^ 2) / 2 = 2 * a / r ^ 2 := by ring
    rw [this, le_div_iff₀ hr2]
    linarith
  have h8 : r / 1000000000 ≤ b / 1000000000 := by
    apply div_le_div_of_nonneg_right hrb; norm_num
  linarith

/-- What exactly holds for a falling rate.  Along EVERY closed loop of the linear pacer over exact
arithmetic with slope `a ≤ 0`, every stall history, up to any horizon `T` at which the declared rate
is still positive and leaves room, `−2a ≤ rate(T)²·(1 − rate(0)/1e9)` — in hits: at least
`1/(1 − rate(0)/1e9)` (about one) hit of the schedule `Hmax = b²/(2|a|)` is still to come at `T`, since
`rate(T)² = 2|a|·(Hmax − H(T))` —: `n_k ≤ H(t_k) + 1`.  The first-order wait undershoots by exactly
`delta²/(4·(Hmax − H(t)))` hits, so the bound can fail only within the LAST hit before the schedule
tops out (and after it): that — and nothing else — is known finding F05
(`linear_negative_slope_counterexample`: 0.25 hits to go, 1.56 ahead). -/
theorem linear_upper_negative_slope (p : LinearP K) (hf : 0 < p.freq) (hp : 0 < p.per)
    (ha : p.slope ≤ 0) (T : Int) (hT : T ≤ maxInt64)
    (hpos : 0 < linearRate (exactOps sin cos pi) p T)
    (hb9 : linearRate (exactOps sin cos pi) p 0 ≤ 1000000000)
    (hroom : -(2 * p.slope) ≤ linearRate (exactOps sin cos pi) p T ^ 2
      * (1 - linearRate (exactOps sin cos pi) p 0 / 1000000000))
    (stalls : List Nat) :
    ∀ x ∈ closedLoop (linearPace (exactOps sin cos pi) p) stalls 0 0, x.1 ≤ T →
      (x.2 : K) ≤ linearHits (exactOps sin cos pi) p x.1 + 1 := by
  have hfK : (0 : K) < (p.freq : K) := by exact_mod_cast hf
  have hpK : (0 : K) < (p.per : K) := by exact_mod_cast hp
  obtain ⟨a, hadef⟩ : ∃ a, a = p.slope := ⟨_, rfl⟩
  obtain ⟨b, hbdef⟩ : ∃ b, b = (p.freq : K) / (p.per : K) * 1000000000 := ⟨_, rfl⟩
  obtain ⟨M, hMdef⟩ : ∃ M, M = ((maxInt64 : Int) : K) := ⟨_, rfl⟩
  have hb : 0 < b := by rw [hbdef]; positivity
  have ha' : a ≤ 0 := by rw [hadef]; exact ha
  have hM63 : M + 1 = ((two63 : Nat) : K) := by rw [hMdef]; unfold maxInt64 two63; norm_num
  have hR : ∀ t : Int, linearRate (exactOps sin cos pi) p t = a * ((t : K) / 1000000000) + b := by
    intro t; rw [(aux_linear_closed_forms sin cos pi p t).1, hadef, hbdef]
  have hH : ∀ t : Int, 0 ≤ t → linearHits (exactOps sin cos pi) p t
      = a * ((t : K) / 1000000000) ^ 2 / 2 + b * ((t : K) / 1000000000) := by
    intro t ht; rw [(aux_linear_closed_forms sin cos pi p t).2 ht, hadef, hbdef]
  rw [hR] at hpos hb9
  rw [hR, hR, ← hadef] at hroom
  have hb9' : b ≤ 1000000000 := by simpa using hb9
  have hroom' : -(2 * a) ≤ (a * ((T : K) / 1000000000) + b) ^ 2 * (1 - b / 1000000000) := by
    simpa using hroom
  obtain ⟨rT, hrTdef⟩ : ∃ rT, rT = a * ((T : K) / 1000000000) + b := ⟨_, rfl⟩
  rw [← hrTdef] at hpos hroom'
  -- facts at a time 0 ≤ t ≤ T
  have hfacts : ∀ t : Int, 0 ≤ t → t ≤ T →
      0 ≤ (t : K) / 1000000000 ∧ rT ≤ a * ((t : K) / 1000000000) + b ∧
      a * ((t : K) / 1000000000) + b ≤ b ∧
      0 ≤ a * ((t : K) / 1000000000) ^ 2 / 2 + b * ((t : K) / 1000000000) ∧
      a * ((t : K) / 1000000000) ^ 2 / 2 + b * ((t : K) / 1000000000) ≤ (t : K) := by
    intro t ht0 ht1
    have hx0 : (0 : K) ≤ (t : K) / 1000000000 := by
      have : (0 : K) ≤ (t : K) := by exact_mod_cast ht0
      positivity
    have htM : (t : K) ≤ (T : K) := by exact_mod_cast ht1
    have hxM : (t : K) / 1000000000 ≤ (T : K) / 1000000000 := by
      apply div_le_div_of_nonneg_right htM; norm_num
    have hr1 : rT ≤ a * ((t : K) / 1000000000) + b := by
      rw [hrTdef]; have := mul_le_mul_of_nonpos_left hxM ha'; linarith
    have hr2 : a * ((t : K) / 1000000000) + b ≤ b := by
      have := mul_nonpos_of_nonpos_of_nonneg ha' hx0; linarith
    have hrpos : 0 < a * ((t : K) / 1000000000) + b := lt_of_lt_of_le hpos hr1
    have hax : a * ((t : K) / 1000000000) ≤ 0 := mul_nonpos_of_nonpos_of_nonneg ha' hx0
    refine ⟨hx0, hr1, hr2, ?_, ?_⟩
    · have : a * ((t : K) / 1000000000) ^ 2 / 2 + b * ((t : K) / 1000000000)
          = (t : K) / 1000000000 * (a * ((t : K) / 1000000000) / 2 + b) := by ring
      rw [this]
      apply mul_nonneg hx0
      linarith
    · have h1 : a * ((t : K) / 1000000000) ^ 2 / 2 + b * ((t : K) / 1000000000)
          ≤ (t : K) / 1000000000 * b := by
        have : a * ((t : K) / 1000000000) ^ 2 / 2 = (t : K) / 1000000000 * (a * ((t : K) / 1000000000)) / 2 := by
          ring
        have h0 := mul_nonpos_of_nonneg_of_nonpos hx0 hax
        linarith
      have h2 : (t : K) / 1000000000 * b ≤ (t : K) / 1000000000 * 1000000000 :=
        mul_le_mul_of_nonneg_left hb9' hx0
      have h3 : ((t : K) / 1000000000) * 1000000000 = (t : K) := by field_simp
      linarith
  intro x hx hxT
  refine (closedLoop_upper_of_contract_field (linearPace (exactOps sin cos pi) p)
    (fun t => linearHits (exactOps sin cos pi) p t) 1 T hT ?_ ?_ stalls ?_ x hx).2 hxT
  · -- the schedule is monotone on [0, T]: the rate is positive there
    intro t1 t2 h1 h2 h3
    rw [hH t1 h1, hH t2 (by omega)]
    obtain ⟨hx1, _, _, _, _⟩ := hfacts t1 h1 (by omega)
    obtain ⟨hx2, hr2, _, _, _⟩ := hfacts t2 (by omega) h3
    have hx12 : (t1 : K) / 1000000000 ≤ (t2 : K) / 1000000000 := by
      apply div_le_div_of_nonneg_right _ (by norm_num)
      exact_mod_cast h2
    have hmid : 0 ≤ a * (((t1 : K) / 1000000000 + (t2 : K) / 1000000000) / 2) + b := by
      have : a * ((t2 : K) / 1000000000) ≤ a * (((t1 : K) / 1000000000 + (t2 : K) / 1000000000) / 2) :=
        mul_le_mul_of_nonpos_left (by linarith) ha'
      linarith
    have hdiff : a * ((t2 : K) / 1000000000) ^ 2 / 2 + b * ((t2 : K) / 1000000000)
        - (a * ((t1 : K) / 1000000000) ^ 2 / 2 + b * ((t1 : K) / 1000000000))
        = ((t2 : K) / 1000000000 - (t1 : K) / 1000000000)
          * (a * (((t1 : K) / 1000000000 + (t2 : K) / 1000000000) / 2) + b) := by ring
    have := mul_nonneg (sub_nonneg.2 hx12) hmid
    linarith
  · -- the pointwise contract
    intro t n d ht hle hinv hw
    have hm : (0 : Int) ≤ max d 0 := le_max_right _ _
    obtain ⟨hx0, hrT1, hrb, hH0, hHt⟩ := hfacts t ht (by omega)
    rw [hH t ht] at hinv
    have htM : (t : K) ≤ M := by rw [hMdef]; exact_mod_cast (by omega : t ≤ maxInt64)
    rcases aux_linearPace_wait (exactOps sin cos pi) p t n d hf hp hw with ⟨hbeh, hd⟩ | ⟨hnb, _, hnov, hd⟩
    · rw [hd]
      simp only [max_self, add_zero]
      rw [hH t ht]
      rcases hbeh with h0 | hlt
      · rw [h0]; simp only [Nat.cast_zero]; linarith
      · have hcast : ((toU64K (linearHits (exactOps sin cos pi) p t) : Int) : K)
            ≤ linearHits (exactOps sin cos pi) p t :=
          aux_toU64K_le _ (by rw [hH t ht]; exact hH0)
        have hlt' : (n : Int) + 1 ≤ toU64K (linearHits (exactOps sin cos pi) p t) := hlt
        have : ((n : Int) : K) + 1 ≤ ((toU64K (linearHits (exactOps sin cos pi) p t) : Int) : K) := by
          exact_mod_cast hlt'
        rw [hH t ht] at hcast this
        push_cast at this
        linarith
    · have hnb' : ¬ (n : Int) < toU64K (linearHits (exactOps sin cos pi) p t) := fun h => hnb (Or.inr h)
      rw [hH t ht] at hnb'
      set Hq := a * ((t : K) / 1000000000) ^ 2 / 2 + b * ((t : K) / 1000000000) with hHq
      set r := a * ((t : K) / 1000000000) + b with hr
      have hHlt63 : Hq < ((two63 : Nat) : K) := by linarith
      rw [aux_toU64K_floor Hq hH0 hHlt63] at hnb'
      have hfl : Hq < (n : K) + 1 := by
        have h1 := Int.lt_floor_add_one Hq
        have h2 : ((⌊Hq⌋ : Int) : K) ≤ ((n : Int) : K) := by exact_mod_cast (not_lt.1 hnb')
        push_cast at h2
        linarith
      have hnle : (n : Int) ≤ maxInt64 + 1 := by
        have : ((n : Int) : K) ≤ ((maxInt64 + 1 : Int) : K) := by
          push_cast; rw [← hMdef]; linarith
        exact_mod_cast this
      have hwrap : wrapU64 ((n : Int) + 1) = (n : Int) + 1 :=
        wrapU64_id (by unfold inU64 two64; unfold maxInt64 at hnle; omega)
      have hrpos : 0 < r := lt_of_lt_of_le hpos hrT1
      have hWF : linearWaitF (exactOps sin cos pi) p t n = 1000000000 / r * ((n : K) + 1 - Hq) := by
        unfold linearWaitF
        rw [hwrap, hR t, hH t ht]
        simp only [exactOps, id]
        push_cast
        rfl
      rw [hWF] at hd hnov
      set W := 1000000000 / r * ((n : K) + 1 - Hq) with hW
      have hdelta0 : 0 < (n : K) + 1 - Hq := by linarith
      have hdelta2 : (n : K) + 1 - Hq ≤ 2 := by linarith
      have hW0 : 0 < W := by rw [hW]; positivity
      have hWM : W < M := by
        have h1 : ¬ (((maxInt64 : Int) : K) ≤ W) := by
          intro hcon
          have : (exactOps sin cos pi).le ((exactOps sin cos pi).ofInt64 maxInt64) W = true := by
            simp [exactOps, hcon]
          rw [this] at hnov; exact absurd hnov (by decide)
        rw [hMdef]; exact not_le.1 h1
      have hdfl : d = ⌊W⌋ := by
        rw [hd]
        apply aux_toI64K_floor W (le_of_lt hW0)
        push_cast; rw [← hMdef]; linarith
      have hd0 : 0 ≤ d := by rw [hdfl]; exact Int.floor_nonneg.2 (le_of_lt hW0)
      have hmax : max d 0 = d := max_eq_left hd0
      rw [hmax] at hle ⊢
      rw [hH (t + d) (by omega)]
      have hdK : W - 1 < (d : K) := by
        have := Int.lt_floor_add_one W
        rw [hdfl]; linarith
      have hdKle : (d : K) ≤ W := by rw [hdfl]; exact Int.floor_le W
      have hdK0 : (0 : K) ≤ (d : K) := by exact_mod_cast hd0
      have hsplit : ((t + d : Int) : K) / 1000000000 = (t : K) / 1000000000 + (d : K) / 1000000000 := by
        push_cast; ring
      rw [hsplit]
      have hu0 : (0 : K) ≤ (d : K) / 1000000000 := by positivity
      have hWr : W * r = 1000000000 * ((n : K) + 1 - Hq) := by rw [hW]; field_simp
      have hu1 : (d : K) / 1000000000 * r ≤ (n : K) + 1 - Hq := by
        have h1 : (d : K) * r ≤ W * r := mul_le_mul_of_nonneg_right hdKle (le_of_lt hrpos)
        have h3 : (d : K) / 1000000000 * r = (d : K) * r / 1000000000 := by ring
        rw [h3, div_le_iff₀ (by norm_num)]
        linarith only [h1, hWr]
      have hu2 : (n : K) + 1 - Hq - r / 1000000000 < (d : K) / 1000000000 * r := by
        have h1 : (W - 1) * r < (d : K) * r := mul_lt_mul_of_pos_right hdK hrpos
        have h3 : (d : K) / 1000000000 * r = (d : K) * r / 1000000000 := by ring
        rw [h3, lt_div_iff₀ (by norm_num)]
        have h4 : ((n : K) + 1 - Hq - r / 1000000000) * 1000000000
            = 1000000000 * ((n : K) + 1 - Hq) - r := by field_simp
        rw [h4]
        have h5 : (W - 1) * r = W * r - r := by ring
        linarith only [h1, h5, hWr]
      have hstep := aux_neg_slope_step a b r rT ((d : K) / 1000000000) ((n : K) + 1 - Hq)
        ha' hpos hrT1 hrb hb9' hdelta0 hdelta2 hu0 hu1 hu2 hroom'
      have hexp : a * ((t : K) / 1000000000 + (d : K) / 1000000000) ^ 2 / 2
          + b * ((t : K) / 1000000000 + (d : K) / 1000000000)
          = Hq + ((d : K) / 1000000000 * r + a * ((d : K) / 1000000000) ^ 2 / 2) := by
        rw [hHq, hr]; ring
      rw [hexp]
      linarith only [hstep]
  · rw [hH 0 (le_refl _)]; simp

/-- Non-vacuity (ℚ): 100 hits/s falling by 50/s² (schedule tops out at 100 hits after 2s): the
hypotheses hold up to T = 1.7s, where 97.75 hits are scheduled and 2.25 are still to come. -/
example :
    let o : FloatOps ℚ := exactOps (fun _ => 0) (fun _ => 0) 0
    let p : LinearP ℚ := { freq := 100, per := 1000000000, slope := -50 }
    0 < linearRate o p 1700000000 ∧ linearRate o p 0 ≤ 1000000000 ∧
    -(2 * p.slope) ≤ linearRate o p 1700000000 ^ 2 * (1 - linearRate o p 0 / 1000000000) := by
  decide +kernel

/-! ### No wrap-around in the linear pacer (commit 4a0988c) -/

theorem aux_toU64K_floor_hi (x : K) (h0 : ((two63 : Nat) : K) ≤ x) (h1 : x < ((two64 : Nat) : K)) :
    toU64K x = ⌊x⌋ := by
  have hy0 : 0 ≤ x - ((two63 : Nat) : K) := by linarith
  have hy1 : x - ((two63 : Nat) : K) < ((maxInt64 + 1 : Int) : K) := by
    have : ((maxInt64 + 1 : Int) : K) = ((two63 : Nat) : K) := by unfold maxInt64 two63; norm_num
    have h64 : ((two64 : Nat) : K) = ((two63 : Nat) : K) + ((two63 : Nat) : K) := by
      unfold two64 two63; norm_num
    rw [this]; linarith
  have hfl := aux_toI64K_floor _ hy0 hy1
  have hnn : (0 : Int) ≤ ⌊x - ((two63 : Nat) : K)⌋ := Int.floor_nonneg.2 hy0
  unfold toU64K
  rw [if_neg (not_lt.2 h0), hfl, if_neg (by omega)]
  have : ⌊x - ((two63 : Nat) : K)⌋ = ⌊x⌋ - (two63 : Int) := by
    simp
  rw [this]; ring

/-- "arithmetic overflow stops the attack instead of wrapping", linear pacer over exact arithmetic:
whenever the declared rate at `t` is positive and the schedule value lies in the `uint64` range
(in particular: slope ≥ 0, `t ≥ 0`, at most 2^64 hits scheduled), EVERY wait answered with
stop=false is a proper duration `0 ≤ d ≤ MaxInt64` — for all hit counts of type `uint64`. -/
theorem linear_never_wraps (p : LinearP K) (hf : 0 < p.freq) (hp : 0 < p.per)
    (t : Int) (n : Nat) (d : Int) (hn : (n : Int) < (two64 : Int))
    (hrate : 0 < linearRate (exactOps sin cos pi) p t)
    (hH0 : 0 ≤ linearHits (exactOps sin cos pi) p t)
    (hH1 : linearHits (exactOps sin cos pi) p t < ((two64 : Nat) : K))
    (h : linearPace (exactOps sin cos pi) p t n = .wait d) :
    0 ≤ d ∧ d ≤ maxInt64 := by
  rcases aux_linearPace_wait (exactOps sin cos pi) p t n d hf hp h with ⟨_, hd⟩ | ⟨hnb, hne, hnov, hd⟩
  · rw [hd]; unfold maxInt64; omega
  · obtain ⟨H, hHdef⟩ : ∃ H, H = linearHits (exactOps sin cos pi) p t := ⟨_, rfl⟩
    obtain ⟨r, hrdef⟩ : ∃ r, r = linearRate (exactOps sin cos pi) p t := ⟨_, rfl⟩
    rw [← hHdef] at hH0 hH1 hnb
    rw [← hrdef] at hrate
    have hnb' : ¬ (n : Int) < toU64K H := fun hlt => hnb (Or.inr hlt)
    have hflo : toU64K H = ⌊H⌋ := by
      by_cases h63 : H < ((two63 : Nat) : K)
      · exact aux_toU64K_floor H hH0 h63
      · exact aux_toU64K_floor_hi H (not_lt.1 h63) hH1
    rw [hflo] at hnb'
    have hfl : H < (n : K) + 1 := by
      have h1 := Int.lt_floor_add_one H
      have h2 : ((⌊H⌋ : Int) : K) ≤ ((n : Int) : K) := by exact_mod_cast (not_lt.1 hnb')
      push_cast at h2
      linarith
    have hwrap : wrapU64 ((n : Int) + 1) = (n : Int) + 1 :=
      wrapU64_id (by unfold inU64; unfold two64 at *; omega)
    have hWF : linearWaitF (exactOps sin cos pi) p t n = 1000000000 / r * ((n : K) + 1 - H) := by
      unfold linearWaitF
      rw [hwrap, ← hrdef, ← hHdef]
      simp only [exactOps, id]
      push_cast
      rfl
    rw [hWF] at hd hnov
    have hW0 : 0 < 1000000000 / r * ((n : K) + 1 - H) := by
      have : 0 < (n : K) + 1 - H := by linarith
      positivity
    have hWM : 1000000000 / r * ((n : K) + 1 - H) < ((maxInt64 : Int) : K) := by
      have h1 : ¬ (((maxInt64 : Int) : K) ≤ 1000000000 / r * ((n : K) + 1 - H)) := by
        intro hcon
        have : (exactOps sin cos pi).le ((exactOps sin cos pi).ofInt64 maxInt64)
            (1000000000 / r * ((n : K) + 1 - H)) = true := by simp [exactOps, hcon]
        rw [this] at hnov; exact absurd hnov (by decide)
      exact not_le.1 h1
    have hdfl : d = ⌊1000000000 / r * ((n : K) + 1 - H)⌋ := by
      rw [hd]
      apply aux_toI64K_floor _ (le_of_lt hW0)
      push_cast; linarith
    rw [hdfl]
    refine ⟨Int.floor_nonneg.2 (le_of_lt hW0), ?_⟩
    have : ((⌊1000000000 / r * ((n : K) + 1 - H)⌋ : Int) : K) < ((maxInt64 : Int) : K) :=
      lt_of_le_of_lt (Int.floor_le _) hWM
    have : ⌊1000000000 / r * ((n : K) + 1 - H)⌋ < maxInt64 := by exact_mod_cast this
    omega

/-- What holds exactly when the declared rate has become negative (negative slopes): as long as
`−1e9 ≤ rate < 0` hits/s (the interval `1e9/rate ≤ −1` ns), an attacker that has sent at least one
hit and is not "behind" by the code's own test is STOPPED — `uint64` of a negative interval is at
least 2^63, so the guard `MaxInt64/n < hits` fires.  What does NOT hold there (known finding F05): when
the computed schedule itself is negative (`t` beyond twice the zero of the rate), `uint64(H)` reads as
a huge count, the attacker is "behind" for ever and every answer is `(0, false)`. -/
theorem linear_negative_rate_stops (p : LinearP K) (hf : 0 < p.freq) (hp : 0 < p.per)
    (t : Int) (n : Nat) (hn0 : n ≠ 0)
    (hrate : 1000000000 / linearRate (exactOps sin cos pi) p t ≤ -1)
    (hnb : ¬ (n : Int) < toU64K (linearHits (exactOps sin cos pi) p t)) :
    linearPace (exactOps sin cos pi) p t n = .stop := by
  obtain ⟨iv, hiv⟩ : ∃ iv, iv = 1000000000 / linearRate (exactOps sin cos pi) p t := ⟨_, rfl⟩
  rw [← hiv] at hrate
  -- uint64(interval) ≥ 2^63
  have hbig : (two63 : Int) ≤ toU64K iv ∧ toU64K iv < (two64 : Int) := by
    have hlt : iv < ((two63 : Nat) : K) := by
      have : (0 : K) ≤ ((two63 : Nat) : K) := by positivity
      linarith
    have hneg : ¬ (0 ≤ iv) := by intro h0; linarith
    have hceil : ⌈iv⌉ ≤ -1 := by
      have : ⌈iv⌉ ≤ ((-1 : Int)) := Int.ceil_le.2 (by push_cast; exact hrate)
      exact this
    have hI : toI64K iv ≤ -1 ∧ minInt64 ≤ toI64K iv := by
      unfold toI64K truncK
      rw [if_neg hneg]
      split
      · rename_i hr; exact ⟨hceil, hr.1⟩
      · unfold minInt64; omega
    unfold toU64K
    rw [if_pos hlt]
    unfold minInt64 at hI
    unfold wrapU64 two64 two63
    omega
  unfold linearPace
  rw [if_neg (by omega), if_neg (by omega)]
  simp only []
  rw [if_neg (by intro hcon; rcases hcon with h0 | hlt; exact hn0 h0; exact hnb hlt)]
  have hivdef : (exactOps sin cos pi).toUInt64 ((exactOps sin cos pi).round
      ((exactOps sin cos pi).div (exactOps sin cos pi).e9 (linearRate (exactOps sin cos pi) p t)))
      = toU64K iv := by rw [hiv]; rfl
  rw [hivdef]
  have hne : toU64K iv ≠ 0 := by unfold two63 at hbig; omega
  rw [if_pos hne]
  unfold udiv
  rw [if_neg hne]
  have hq : maxInt64.tdiv (toU64K iv) = 0 :=
    Int.tdiv_eq_zero_of_lt (by unfold maxInt64; omega) (by unfold maxInt64 two63 at *; omega)
  have hn1 : (0 : Int) < (n : Int) := by omega
  simp only [hq, hn1, decide_true]

/-- The known finding pinned in the exact model (ℚ, no rounding at all): 100 hits/s with slope
−50/s².  At t = 1.9 s with 100 hits sent the attacker is within one hit of the schedule
(H = 99.75), the pacer answers "wait 0.25 s", and at the release instant t = 2.15 s the schedule is
at 99.4375 — hit 101 is released 1.56 hits ahead of the declared schedule (which never exceeds
100).  The first-order wait undershoots when the rate falls. -/
theorem linear_negative_slope_counterexample :
    let o : FloatOps ℚ := exactOps (fun _ => 0) (fun _ => 0) 0
    let p : LinearP ℚ := { freq := 100, per := 1000000000, slope := -50 }
    ((100 : Nat) : ℚ) ≤ linearHits o p 1900000000 + 1 ∧
    linearPace o p 1900000000 100 = .wait 250000000 ∧
    linearHits o p (1900000000 + 250000000) + 1 < ((100 : Nat) : ℚ) + 1 := by
  decide +kernel

/-! ### Sine pacer (repaired code) over exact arithmetic, with the schedule as an abstract `H` -/

theorem aux_toI64K_range (x : K) : inS64 (toI64K x) := by
  unfold toI64K inS64
  split
  · assumption
  · unfold minInt64 maxInt64; omega

theorem aux_toI64K_intCast (z : Int) (hz : inS64 z) : toI64K ((z : Int) : K) = z := by
  unfold inS64 at hz
  unfold toI64K truncK
  split <;> simp [hz.1, hz.2]

/-- Along EVERY closed loop of the repaired sine pacer over exact arithmetic, every stall history:
`n_k ≤ H(t_k) + 1 + 1e-3`, where `H` stands for the cos-formula the code evaluates (`hHdef`).
All that is used of the float computation are three properties of `H` ALONE:
`hmono` — `H` is non-decreasing; `hgrow` — it grows by at least `Mean−|Amp|` per nanosecond
(so `[0, hi]` is a bracket); `hHmax` — at most `MaxInt64` hits are scheduled within representable
time (at most one hit per ns on average; keeps counters and conversions in range) — plus
`|Amp| < Mean`.  Every exit is covered: catch-up (`n+1 ≤ H(t)`), converged and bisected
(`n+1 < H(t+w) + 1e-3`), bracket (`n+1 ≤ H(t+w)`); stop exits release nothing.  For the cos-formula
itself these three properties are facts of calculus (`H' = Mean + Amp·sin ≥ Mean−|Amp| > 0`), a
stated assumption of this property, not a theorem here. -/
theorem sine_upper_exact (p : SineP K) (H : Int → K)
    (hHdef : ∀ t : Int, sineHits (exactOps sin cos pi) p t = H t)
    (hmono : ∀ a b : Int, a ≤ b → H a ≤ H b)
    (hvalid : |hitsPerNs (exactOps sin cos pi) p.ampFreq p.ampPer|
      < hitsPerNs (exactOps sin cos pi) p.meanFreq p.meanPer)
    (hgrow : ∀ t d : Int, 0 ≤ t → 0 ≤ d →
      (hitsPerNs (exactOps sin cos pi) p.meanFreq p.meanPer
        - |hitsPerNs (exactOps sin cos pi) p.ampFreq p.ampPer|) * (d : K) ≤ H (t + d) - H t)
    (hHmax : ∀ t : Int, t ≤ maxInt64 → H t ≤ ((maxInt64 : Int) : K))
    (stalls : List Nat) :
    ∀ x ∈ closedLoop (sinePace (exactOps sin cos pi) p) stalls 0 0,
      (x.2 : K) ≤ H x.1 + (1 + 1 / 1000) := by
  obtain ⟨o, ho⟩ : ∃ o, o = exactOps sin cos pi := ⟨_, rfl⟩
  rw [← ho] at hHdef hvalid hgrow ⊢
  obtain ⟨g, hgdef⟩ : ∃ g, g = hitsPerNs o p.meanFreq p.meanPer - |hitsPerNs o p.ampFreq p.ampPer| :=
    ⟨_, rfl⟩
  rw [← hgdef] at hgrow
  have hg0 : 0 < g := by rw [hgdef]; linarith
  have hH00 : H 0 = 0 := by
    rw [← hHdef 0]; unfold sineHits; rw [if_pos (Or.inl (le_refl _)), ho]; rfl
  have hHnn : ∀ t : Int, 0 ≤ t → 0 ≤ H t := fun t ht => by rw [← hH00]; exact hmono 0 t ht
  have hlt : ∀ a b : K, o.lt a b = true ↔ a < b := by intro a b; rw [ho]; simp [exactOps]
  have hM63 : ((maxInt64 : Int) : K) + 1 = ((two63 : Nat) : K) := by
    unfold maxInt64 two63; norm_num
  -- the error term over exact arithmetic
  have hErr : ∀ (t : Int) (n : Nat) (w : Int),
      sineErr o p t n w = ((wrapU64 ((n : Int) + 1) : Int) : K) - H (wrapS64 (t + w)) := by
    intro t n w; unfold sineErr; rw [hHdef, ho]; rfl
  have hconvI : ∀ x : K, inS64 (o.toInt64 x) := by intro x; rw [ho]; exact aux_toI64K_range x
  intro x hx
  have hres := closedLoop_upper_of_contract_field (sinePace o p) H (1 + 1 / 1000) maxInt64 (le_refl _)
    (fun a b _ hab _ => hmono a b hab) ?_ stalls ?_ x hx
  · exact hres.2 hres.1
  · intro t n d ht hle hinv hw
    have hm : (0 : Int) ≤ max d 0 := le_max_right _ _
    have htle : t ≤ maxInt64 := by omega
    have hHt0 := hHnn t ht
    have hHtM := hHmax t htle
    -- hits+1 does not wrap
    have hnle : (n : Int) ≤ maxInt64 + 1 := by
      have : ((n : Int) : K) < ((maxInt64 + 2 : Int) : K) := by
        push_cast; linarith
      have : (n : Int) < maxInt64 + 2 := by exact_mod_cast this
      omega
    have hwrap : wrapU64 ((n : Int) + 1) = (n : Int) + 1 :=
      wrapU64_id (by unfold inU64 two64; unfold maxInt64 at hnle; omega)
    -- a point w with `|err(w)| < 1e-3` in range is good enough
    have hclose : ∀ w : Int, inS64 w → t + max w 0 ≤ maxInt64 →
        o.lt (o.abs (sineErr o p t n w)) o.em3 = true →
        (n : K) + 1 ≤ H (t + max w 0) + (1 + 1 / 1000) := by
      intro w hwr hwle hc
      rw [hlt, hErr, hwrap] at hc
      have habs : |(((n : Int) + 1 : Int) : K) - H (wrapS64 (t + w))| < 1 / 1000 := by
        rw [ho] at hc; exact hc
      have h1 := (abs_lt.1 habs).2
      unfold inS64 at hwr
      have hm' : (0 : Int) ≤ max w 0 := le_max_right _ _
      have hwm : w ≤ max w 0 := le_max_left _ _
      have hid : wrapS64 (t + w) = t + w :=
        wrapS64_id (by unfold inS64; unfold minInt64 maxInt64 at *; omega)
      rw [hid] at h1
      have h2 := hmono (t + w) (t + max w 0) (by omega)
      push_cast at h1
      linarith
    have hnonpos : ∀ w : Int, 0 ≤ w → t + w ≤ maxInt64 →
        o.lt o.zero (sineErr o p t n w) = false → (n : K) + 1 ≤ H (t + w) := by
      intro w hw0 hwle hc
      have hnot : ¬ (o.zero < sineErr o p t n w) := by
        intro hcon; rw [← hlt, hc] at hcon; exact absurd hcon (by decide)
      rw [hErr, hwrap, wrapS64_id (by unfold inS64; unfold minInt64 maxInt64 at *; omega)] at hnot
      have hz : o.zero = (0 : K) := by rw [ho]; rfl
      rw [hz] at hnot
      push_cast at hnot
      linarith [not_lt.1 hnot]
    unfold sinePace at hw
    have hX : sinePaceX o p t n = (.wait d, (sinePaceX o p t n).2) := by rw [← hw]
    rcases aux_sinePaceX_cases o p t n with hc | hc | hc | hc | hc | hc
    · rw [hc.2] at hw; exact absurd hw PaceOut.noConfusion
    · rw [hc.2] at hw; exact absurd hw PaceOut.noConfusion
    · -- catch-up
      rw [hc.2.2] at hw
      injection hw with hw
      rw [← hw]
      simp only [max_self, add_zero]
      have hb := hc.2.1
      rw [hHdef] at hb
      have hb' : (n : Int) + 1 ≤ toU64K (H t) := by rw [ho] at hb; exact hb
      have hcast : (((n : Int) + 1 : Int) : K) ≤ ((toU64K (H t) : Int) : K) := by exact_mod_cast hb'
      have := aux_toU64K_le (H t) hHt0
      push_cast at hcast
      linarith
    · -- converged inside the fixed-point loop
      have hex := sine_converged_exit o p t n d (by rw [hX, hc.2.2.2])
      have hdr : inS64 d := by
        have hd : d = (sineIter o p t n 5 (sineFirstGuess o p t n)).1 := by
          rw [hc.2.2.2] at hw; injection hw with hw; exact hw.symm
        rw [hd]
        exact aux_sineIter_range o p t n hconvI 5 _ (hconvI _)
      exact hclose d hdr hle hex
    · rw [hc.2.2.2] at hw; exact absurd hw PaceOut.noConfusion
    · -- the bisection
      obtain ⟨hv, hnb, hnc, hXb⟩ := hc
      have hd : d = (sineBisect o p t n 64 0 (o.toInt64 (sineHi o p t n))).1 := by
        rw [hXb] at hw; injection hw with hw; exact hw.symm
      have he : (sinePaceX o p t n).2 = (sineBisect o p t n 64 0 (o.toInt64 (sineHi o p t n))).2 := by
        rw [hXb]
      -- the guard holds (otherwise the answer is a stop)
      have hguard : (o.le o.zero (sineHi o p t n) &&
          o.lt (sineHi o p t n) (o.ofInt64 (wrapS64 (maxInt64 - t)))) = true := by
        by_contra hcon
        have hf : (o.le o.zero (sineHi o p t n) &&
            o.lt (sineHi o p t n) (o.ofInt64 (wrapS64 (maxInt64 - t)))) = false := by simpa using hcon
        have hmx : ¬ (n : Int) = (two64 : Int) - 1 := by
          intro hm
          unfold sinePaceX at hXb
          rw [if_neg (by simp [hv]), if_pos hm] at hXb
          simp at hXb
        unfold sinePaceX at hXb
        rw [if_neg (by simp [hv]), if_neg hmx, if_neg hnb] at hXb
        simp only [] at hXb
        rw [if_neg (by simp [hnc]), if_pos hf] at hXb
        simp at hXb
      -- not behind: H(t) < n+1
      have hHlt63 : H t < ((two63 : Nat) : K) := by linarith
      have hfl : H t < (n : K) + 1 := by
        rw [hHdef] at hnb
        have hnb' : ¬ (n : Int) < toU64K (H t) := by rw [ho] at hnb; exact hnb
        rw [aux_toU64K_floor (H t) hHt0 hHlt63] at hnb'
        have h1 := Int.lt_floor_add_one (H t)
        have h2 : ((⌊H t⌋ : Int) : K) ≤ ((n : Int) : K) := by exact_mod_cast (not_lt.1 hnb')
        push_cast at h2
        linarith
      -- hi = ⌈(n+1−H(t))/g⌉ as an integer U with 0 ≤ U < MaxInt64 − t
      obtain ⟨U, hU⟩ : ∃ U : Int, U = ⌈((n : K) + 1 - H t) / g⌉ := ⟨_, rfl⟩
      have hhi : sineHi o p t n = ((U : Int) : K) := by
        unfold sineHi
        simp only []
        rw [hHdef, hwrap, hU, hgdef, ho]
        simp only [exactOps]
        push_cast
        rfl
      rw [hhi] at hguard hd he
      have hwrapM : wrapS64 (maxInt64 - t) = maxInt64 - t :=
        wrapS64_id (by unfold inS64; unfold minInt64 maxInt64 at *; omega)
      rw [hwrapM, Bool.and_eq_true] at hguard
      have hU0 : 0 ≤ U := by
        have h := hguard.1
        rw [ho] at h
        have : (0 : K) ≤ ((U : Int) : K) := by simpa [exactOps] using h
        exact_mod_cast this
      have hU1 : U < maxInt64 - t := by
        have h := hguard.2
        rw [ho] at h
        have : ((U : Int) : K) < ((maxInt64 - t : Int) : K) := by simpa [exactOps] using h
        exact_mod_cast this
      have hUI : o.toInt64 ((U : Int) : K) = U := by
        rw [ho]
        exact aux_toI64K_intCast U (by unfold inS64; unfold minInt64 maxInt64 at *; omega)
      rw [hUI] at hd he
      have hrange := aux_sineBisect_range o p t n 64 0 U (le_refl _) hU0 (by omega)
      rw [← hd] at hrange
      have hd0 : 0 ≤ d := hrange.1
      have hmax : max d 0 = d := max_eq_left hd0
      have hex := sine_bisect_exit o p t n d _ hX
      rcases aux_sineBisect_exits o p t n 64 0 U with hb | hb | hb
      · -- bisected: within 1e-3
        exact hclose d (by unfold inS64; unfold minInt64 maxInt64 at *; omega) hle
          (hex.1 (by rw [he, hb]))
      · -- bracket: its upper end has reached the new count, given that [0, U] is a bracket
        have hinit : Bracket o p t n 0 (o.toInt64 (sineHi o p t n)) := by
          rw [hhi, hUI]
          constructor
          · rw [hlt, hErr, hwrap, wrapS64_id (by unfold inS64; unfold minInt64 maxInt64 at *; omega)]
            have hz : o.zero = (0 : K) := by rw [ho]; rfl
            rw [hz]
            push_cast
            simp only [add_zero]
            linarith
          · have hgr := hgrow t U ht hU0
            have hceil : ((n : K) + 1 - H t) / g ≤ ((U : Int) : K) := by rw [hU]; exact Int.le_ceil _
            have hmul : (n : K) + 1 - H t ≤ g * ((U : Int) : K) := by
              rw [div_le_iff₀ hg0] at hceil; linarith
            by_contra hcon
            have hpos : o.lt o.zero (sineErr o p t n U) = true := by simpa using hcon
            rw [hlt, hErr, hwrap, wrapS64_id (by unfold inS64; unfold minInt64 maxInt64 at *; omega)] at hpos
            have hz : o.zero = (0 : K) := by rw [ho]; rfl
            rw [hz] at hpos
            push_cast at hpos
            linarith
        obtain ⟨lo, hbr, _⟩ := hex.2 (by rw [he, hb]) hinit
        rw [hmax]
        have := hnonpos d hd0 (by omega) hbr.2
        linarith
      · -- fuel cannot run out
        exact absurd hb (sine_bisect_fuel o p t n 63 0 U (le_refl _) hU0 (by omega)
          (by unfold maxInt64 at *; omega))
  · rw [hH00]; norm_num

/-! ### Sine pacer: closed forms for arbitrary pairs of units, phase-independent bound, accepted guesses -/

/-- What the code computes over exact arithmetic, for a valid configuration and `t > 0`: the
schedule `H(t) = M·t + (A·P/2π)(cos O − cos(O + 2πt/P))` and the rate `(M + A·sin(O + 2πt/P))·1e9`
with `M = Mean.Freq/Mean.Per` and `A = Amp.Freq/Amp.Per` — each rate in its OWN unit, the two units
need not agree. -/
theorem sine_closed_forms (p : SineP K) (t : Int) (ht : 0 < t)
    (hv : sineInvalid (exactOps sin cos pi) p = false) :
    sineHits (exactOps sin cos pi) p t
      = (p.meanFreq : K) / (p.meanPer : K) * (t : K)
        + (p.ampFreq : K) / (p.ampPer : K) * (p.period : K) / (2 * pi)
          * (cos p.startAt - cos (p.startAt + (t : K) * 2 * pi / (p.period : K))) ∧
    sineRate (exactOps sin cos pi) p t
      = ((p.meanFreq : K) / (p.meanPer : K)
        + (p.ampFreq : K) / (p.ampPer : K) * sin (p.startAt + (t : K) * 2 * pi / (p.period : K)))
        * 1000000000 := by
  constructor
  · unfold sineHits
    rw [if_neg (by rw [hv]; simp; omega)]
    rfl
  · rfl

/-- The best phase-independent bound on the schedule: for ANY start phase, period and pair of
units the sine term moves the count at most `2·|ampHits|` away from the mean line (only
`|cos| ≤ 1` is used) … -/
theorem sine_hits_phase_bound (p : SineP K) (t : Int) (ht : 0 < t)
    (hv : sineInvalid (exactOps sin cos pi) p = false) (hcos : ∀ x : K, |cos x| ≤ 1) :
    |sineHits (exactOps sin cos pi) p t - (p.meanFreq : K) / (p.meanPer : K) * (t : K)|
      ≤ 2 * |sineAmpHits (exactOps sin cos pi) p| := by
  rw [(sine_closed_forms sin cos pi p t ht hv).1]
  have hA : sineAmpHits (exactOps sin cos pi) p
      = (p.ampFreq : K) / (p.ampPer : K) * (p.period : K) / (2 * pi) := rfl
  rw [hA]
  have h1 := abs_le.1 (hcos p.startAt)
  have h2 := abs_le.1 (hcos (p.startAt + (t : K) * 2 * pi / (p.period : K)))
  have h3 : |cos p.startAt - cos (p.startAt + (t : K) * 2 * pi / (p.period : K))| ≤ 2 :=
    abs_le.2 ⟨by linarith [h1.1, h2.2], by linarith [h1.2, h2.1]⟩
  have : (p.meanFreq : K) / (p.meanPer : K) * (t : K)
      + (p.ampFreq : K) / (p.ampPer : K) * (p.period : K) / (2 * pi)
        * (cos p.startAt - cos (p.startAt + (t : K) * 2 * pi / (p.period : K)))
      - (p.meanFreq : K) / (p.meanPer : K) * (t : K)
      = (p.ampFreq : K) / (p.ampPer : K) * (p.period : K) / (2 * pi)
        * (cos p.startAt - cos (p.startAt + (t : K) * 2 * pi / (p.period : K))) := by ring
  rw [this, abs_mul]
  calc |(p.ampFreq : K) / (p.ampPer : K) * (p.period : K) / (2 * pi)|
        * |cos p.startAt - cos (p.startAt + (t : K) * 2 * pi / (p.period : K))|
      ≤ |(p.ampFreq : K) / (p.ampPer : K) * (p.period : K) / (2 * pi)| * 2 :=
        mul_le_mul_of_nonneg_left h3 (abs_nonneg _)
    _ = 2 * |(p.ampFreq : K) / (p.ampPer : K) * (p.period : K) / (2 * pi)| := by ring

/-- … and `1·|ampHits|` is NOT a bound (so "at least `Mean·t − |ampHits|` hits are due" is no valid
shortcut for the catch-up test): with a cosine that takes the values −1 at the start phase and +1
half a period later the schedule is `Mean·t − 2·ampHits`. -/
theorem sine_phase_bound_is_tight :
    let cs : ℚ → ℚ := fun x => if x = 0 then -1 else 1
    let o : FloatOps ℚ := exactOps (fun _ => 0) cs 1
    let p : SineP ℚ := { period := 2, meanFreq := 3, meanPer := 1, ampFreq := 2, ampPer := 1, startAt := 0 }
    (∀ x : ℚ, |cs x| ≤ 1) ∧ sineInvalid o p = false ∧
    sineHits o p 1 < 3 * 1 - |sineAmpHits o p| ∧ sineHits o p 1 = 3 * 1 - 2 * |sineAmpHits o p| := by
  refine ⟨?_, by decide +kernel, by decide +kernel, by decide +kernel⟩
  intro x
  by_cases h : x = 0 <;> simp [h]

/-- The convergence test uses the ABSOLUTE error: every guess the repaired sine pacer accepts —
from inside the fixed-point loop or from inside the bisection — satisfies
`|H(t+w) − (hits+1)| < 1e-3` over exact arithmetic, on both sides (a one-sided test would accept
guesses arbitrarily far beyond the deadline). -/
theorem sine_accepted_guess_exact (p : SineP K) (H : Int → K)
    (hHdef : ∀ t : Int, sineHits (exactOps sin cos pi) p t = H t)
    (t : Int) (n : Nat) (w : Int) (e : SineExit) (hn : (n : Int) + 1 < (two64 : Int))
    (h : sinePaceX (exactOps sin cos pi) p t n = (.wait w, e))
    (he : e = .converged ∨ e = .bisected) :
    |H (wrapS64 (t + w)) - ((n : K) + 1)| < 1 / 1000 := by
  have hwrap : wrapU64 ((n : Int) + 1) = (n : Int) + 1 :=
    wrapU64_id (by unfold inU64; constructor <;> omega)
  have hcomp : (exactOps sin cos pi).lt ((exactOps sin cos pi).abs
      (sineErr (exactOps sin cos pi) p t n w)) (exactOps sin cos pi).em3 = true := by
    rcases he with he | he
    · rw [he] at h; exact sine_converged_exit _ p t n w h
    · exact (sine_bisect_exit _ p t n w e h).1 he
  unfold sineErr at hcomp
  rw [hHdef, hwrap] at hcomp
  have : |(((n : Int) + 1 : Int) : K) - H (wrapS64 (t + w))| < 1 / 1000 := by
    simpa [exactOps] using hcomp
  rw [abs_sub_comm] at this
  push_cast at this
  exact this

example : sinePaceX (exactOps (fun _ => (0 : ℚ)) (fun _ => 0) 1)
    { period := 1000000000, meanFreq := 100, meanPer := 1000000000, ampFreq := 50, ampPer := 60000000000,
      startAt := 0 } 0 0 = (.wait 10000000, .converged) := by
  decide +kernel

/-! Non-vacuity of the exact-arithmetic theorems (ℚ): the hypotheses of `linear_upper_nonneg_slope`
hold for 100 hits/s rising by 10/s² over one hour (third conjunct: a start rate far above two hits per
`MaxInt64` ns, no longer needed since 4a0988c), and those of `sine_upper_exact` for a straight schedule. -/
example : (0 : ℚ) ≤ (10 : ℚ) ∧
    linearRate (exactOps (fun _ => (0 : ℚ)) (fun _ => 0) 0)
      { freq := 100, per := 1000000000, slope := 10 } 3600000000000 ≤ 1000000000 ∧
    2 * 1000000000 ≤ linearRate (exactOps (fun _ => (0 : ℚ)) (fun _ => 0) 0)
      { freq := 100, per := 1000000000, slope := 10 } 0 * ((maxInt64 : Int) : ℚ) := by
  decide +kernel

example : linearPace (exactOps (fun _ => (0 : ℚ)) (fun _ => 0) 0)
    { freq := 100, per := 1000000000, slope := 10 } 1000000000 105 = .wait 9090909 := by
  decide +kernel

example : sinePaceX (exactOps (fun _ => (0 : ℚ)) (fun _ => 0) 0)
    { period := 1000000000, meanFreq := 3, meanPer := 10, ampFreq := 0, ampPer := 10, startAt := 0 }
    0 0 = (.wait 4, .bracket) := by
  decide +kernel

end exact

/-! ### "The declared schedule is the integral of the instantaneous rate" for the sine pacer (ℝ) -/

/-- The real-time extension of the closed form of `sineHits`. -/
noncomputable def sineScheduleReal (p : SineP ℝ) (pi : ℝ) (τ : ℝ) : ℝ :=
  (p.meanFreq : ℝ) / (p.meanPer : ℝ) * τ
    + (p.ampFreq : ℝ) / (p.ampPer : ℝ) * (p.period : ℝ) / (2 * pi)
      * (Real.cos p.startAt - Real.cos (p.startAt + τ * 2 * pi / (p.period : ℝ)))

/-- Over the reals, with the real `sin`/`cos` (and any non-zero constant for `π`, in particular
`math.Pi`): the schedule `SinePacer.hits` computes is, at every instant of a valid configuration,
a function whose DERIVATIVE is the rate `SinePacer.Rate` computes (in hits per nanosecond) — so the
schedule is the integral of the instantaneous rate, for ARBITRARY pairs of units of `Mean` and
`Amp`.  (This is where `ampHits` must be `Amp.hitsPerNs·Period/2π` with Amp's own unit.) -/
theorem sine_schedule_is_rate_integral (p : SineP ℝ) (pi : ℝ) (hpi : pi ≠ 0) (t : Int) (ht : 0 < t)
    (hv : sineInvalid (exactOps Real.sin Real.cos pi) p = false) :
    sineHits (exactOps Real.sin Real.cos pi) p t = sineScheduleReal p pi (t : ℝ) ∧
    HasDerivAt (sineScheduleReal p pi)
      (sineRate (exactOps Real.sin Real.cos pi) p t / 1000000000) (t : ℝ) := by
  have hP : (p.period : ℝ) ≠ 0 := by
    have : ¬ p.period ≤ 0 := by
      intro hle
      have : sineInvalid (exactOps Real.sin Real.cos pi) p = true := by
        unfold sineInvalid; simp [hle]
      rw [hv] at this; exact absurd this (by decide)
    have : (0 : ℝ) < (p.period : ℝ) := by exact_mod_cast (by omega : 0 < p.period)
    exact ne_of_gt this
  obtain ⟨h1, h2⟩ := sine_closed_forms Real.sin Real.cos pi p t ht hv
  refine ⟨by rw [h1]; rfl, ?_⟩
  rw [h2]
  obtain ⟨M, hM⟩ : ∃ M : ℝ, M = (p.meanFreq : ℝ) / (p.meanPer : ℝ) := ⟨_, rfl⟩
  obtain ⟨A, hA⟩ : ∃ A : ℝ, A = (p.ampFreq : ℝ) / (p.ampPer : ℝ) := ⟨_, rfl⟩
  obtain ⟨P, hPd⟩ : ∃ P : ℝ, P = (p.period : ℝ) := ⟨_, rfl⟩
  obtain ⟨O, hO⟩ : ∃ O : ℝ, O = p.startAt := ⟨_, rfl⟩
  obtain ⟨τ, hτ⟩ : ∃ τ : ℝ, τ = (t : ℝ) := ⟨_, rfl⟩
  have hfun : sineScheduleReal p pi
      = fun x : ℝ => M * x + A * P / (2 * pi) * (Real.cos O - Real.cos (O + x * 2 * pi / P)) := by
    funext x; unfold sineScheduleReal; rw [hM, hA, hPd, hO]
  rw [hfun, ← hM, ← hA, ← hPd, ← hO, ← hτ]
  rw [← hPd] at hP
  have hd1 : HasDerivAt (fun x : ℝ => O + x * 2 * pi / P) (2 * pi / P) τ := by
    have h := ((hasDerivAt_id τ).mul_const (2 * pi / P)).const_add O
    have e1 : (fun x : ℝ => O + x * 2 * pi / P) = fun x => O + id x * (2 * pi / P) := by
      funext x; simp only [id]; ring
    rw [e1]; simpa using h
  have hd2 := (hd1.cos).const_sub (Real.cos O)
  have hd3 := ((hasDerivAt_id τ).const_mul M).add (hd2.const_mul (A * P / (2 * pi)))
  have e2 : (M + A * Real.sin (O + τ * 2 * pi / P)) * 1000000000 / 1000000000
      = M * 1 + A * P / (2 * pi) * -(-Real.sin (O + τ * 2 * pi / P) * (2 * pi / P)) := by
    field_simp
  rw [e2]
  exact hd3



/-- Non-vacuity: a configuration over ℝ with DIFFERENT units for mean (3 per 1ns) and amplitude
(1 per 2ns) is valid, so `sine_schedule_is_rate_integral` applies to it. -/
example : sineInvalid (exactOps Real.sin Real.cos 3)
    { period := 1000, meanFreq := 3, meanPer := 1, ampFreq := 1, ampPer := 2, startAt := 0 } = false := by
  simp [sineInvalid, exactOps, hitsPerNs]
  norm_num

end Vegeta.Props.C01
