/-
C01 — Pacers keep the hit count on their declared schedule in closed loop.

Constant pacer (repaired code, /repo a5c2a38): every clause at full strength over ALL integer
parameter values of the Go types, all elapsed times, all hit counts, all stall histories of
unbounded length.  The three defects of the code before the repair stay machine-checked on
`constPaceOld` (`*_old_counterexample`).
Sine / linear pacers: the decision structure of the code for ANY float operations.
-/
import Vegeta.Model.Pacer
import Mathlib.Tactic.Linarith
import Mathlib.Tactic.Ring
namespace Vegeta.Props.C01
open Vegeta.Go Vegeta.Model.Pacer

/-! ## Notation of the statement -/

/-- The exact deadline of hit number `hits+1`: `⌈(hits+1)·Per/Freq⌉` nanoseconds after the start. -/
def constDue (freq per : Int) (hits : Nat) : Int := (((hits : Int) + 1) * per + freq - 1) / freq

/-- Parameters and hit count lie in the ranges of their Go types
(`Freq int`, `Per time.Duration`, `hits uint64`); `elapsed` is any integer. -/
structure InRange (freq per : Int) (hits : Nat) : Prop where
  freq : inS64 freq
  per : inS64 per
  hits : (hits : Int) < (two64 : Int)

/-! ## Helper lemmas -/

/-- `⌈T/f⌉` as computed: `f·(due−1) < T ≤ f·due`. -/
theorem aux_ceil {T f : Int} (hf : 0 < f) :
    T ≤ (T + f - 1) / f * f ∧ (T + f - 1) / f * f ≤ T + f - 1 := by
  have h1 := Int.lt_ediv_add_one_mul_self (T + f - 1) hf
  have h2 := Int.ediv_mul_le (T + f - 1) (Int.ne_of_gt hf)
  have h3 : ((T + f - 1) / f + 1) * f = (T + f - 1) / f * f + f := by ring
  omega

/-- Normal form of the repaired `constPace` for positive in-range parameters: the 128-bit
`Mul64/Add64/Div64` sequence computes `constDue` exactly and never overflows. -/
theorem aux_constPace_pos {freq per elapsed : Int} {hits : Nat}
    (hf : 0 < freq) (hp : 0 < per) (hf' : freq ≤ maxInt64) (hp' : per ≤ maxInt64)
    (hh : (hits : Int) < (two64 : Int)) :
    constPace freq per elapsed hits =
      if (hits : Int) = (two64 : Int) - 1 ∨ maxInt64 < constDue freq per hits then .stop
      else if constDue freq per hits ≤ elapsed then .wait 0
      else .wait (constDue freq per hits - max elapsed 0) := by
  unfold constPace constDue
  rw [if_neg (by omega), if_neg (by omega)]
  by_cases hmax : (hits : Int) = (two64 : Int) - 1
  · rw [if_pos hmax, if_pos (Or.inl hmax)]
  · rw [if_neg hmax]
    have hh0 : (0 : Int) ≤ (hits : Int) := Int.natCast_nonneg _
    have w1 : wrapU64 ((hits : Int) + 1) = (hits : Int) + 1 :=
      wrapU64_id (by unfold inU64; unfold two64 at *; omega)
    have w2 : wrapU64 per = per :=
      wrapU64_id (by unfold inU64 two64; unfold maxInt64 at *; omega)
    have w3 : wrapU64 freq = freq :=
      wrapU64_id (by unfold inU64 two64; unfold maxInt64 at *; omega)
    have w4 : wrapU64 (freq - 1) = freq - 1 :=
      wrapU64_id (by unfold inU64 two64; unfold maxInt64 at *; omega)
    simp only [w1, w2, w3, w4]
    -- the product as one atom, with its bounds
    have hprod0 : 0 ≤ ((hits : Int) + 1) * per := Int.mul_nonneg (by omega) (Int.le_of_lt hp)
    have hprod1 : ((hits : Int) + 1) * per ≤ (two64 : Int) * maxInt64 :=
      Int.mul_le_mul (by omega) hp' (Int.le_of_lt hp) (by unfold two64; omega)
    generalize hx : ((hits : Int) + 1) * per = x at *
    -- hi, lo are the halves of total = x + freq - 1
    have hhi : x / (two64 : Int) + (x % (two64 : Int) + (freq - 1)) / (two64 : Int)
        = (x + freq - 1) / (two64 : Int) := by unfold two64; omega
    have hlo : (x % (two64 : Int) + (freq - 1)) % (two64 : Int) = (x + freq - 1) % (two64 : Int) := by
      unfold two64; omega
    have hhi_small : (x + freq - 1) / (two64 : Int) < (two64 : Int) ∧
        0 ≤ (x + freq - 1) / (two64 : Int) := by
      unfold two64 maxInt64 at *; omega
    rw [hhi, hlo, wrapU64_id (by unfold inU64; omega)]
    have hsplit : (x + freq - 1) / (two64 : Int) * (two64 : Int) + (x + freq - 1) % (two64 : Int)
        = x + freq - 1 := by unfold two64; omega
    have hc := @aux_ceil x freq hf
    by_cases hbig : freq ≤ (x + freq - 1) / (two64 : Int)
    · -- the quotient would not fit 64 bits
      rw [if_pos hbig, if_pos]
      right
      have h1 : freq * (two64 : Int) ≤ x + freq - 1 :=
        (Int.le_ediv_iff_mul_le (by unfold two64; omega)).1 hbig
      have h2 : (two64 : Int) ≤ (x + freq - 1) / freq :=
        Int.le_ediv_of_mul_le hf (by rw [Int.mul_comm]; exact h1)
      unfold two64 maxInt64 at *; omega
    · rw [if_neg hbig]
      unfold div64
      rw [if_neg (by omega), hsplit]
      simp only []
      have htot : 0 ≤ x + freq - 1 := by omega
      rw [Int.tdiv_eq_ediv_of_nonneg htot]
      have hdue0 : 0 ≤ (x + freq - 1) / freq := Int.ediv_nonneg htot (Int.le_of_lt hf)
      by_cases hov : maxInt64 < (x + freq - 1) / freq
      · rw [if_pos hov, if_pos (Or.inr hov)]
      · have hnor : ¬ ((hits : Int) = (two64 : Int) - 1 ∨ maxInt64 < (x + freq - 1) / freq) := by
          omega
        rw [if_neg hov, if_neg hnor]
        have hs : wrapS64 ((x + freq - 1) / freq) = (x + freq - 1) / freq :=
          wrapS64_id (by unfold inS64 minInt64; unfold maxInt64 at *; omega)
        rw [hs]
        by_cases hle : (x + freq - 1) / freq ≤ elapsed
        · rw [if_pos hle, if_pos hle]
        · rw [if_neg hle, if_neg hle]
          congr 1
          by_cases hneg : elapsed < 0
          · rw [if_pos hneg, Int.max_eq_right (by omega)]
            exact wrapS64_id (by unfold inS64 minInt64; unfold maxInt64 at *; omega)
          · rw [if_neg hneg, Int.max_eq_left (by omega)]
            exact wrapS64_id (by unfold inS64 minInt64; unfold maxInt64 at *; omega)

/-! ## Sign and zero cases -/

/-- "negative frequency/unit stops the attack" — for all elapsed times and hit counts
(a zero field takes precedence, see `const_zero_unlimited`). -/
theorem const_neg_stops (freq per elapsed : Int) (hits : Nat)
    (hf : freq ≠ 0) (hp : per ≠ 0) (hneg : freq < 0 ∨ per < 0) :
    constPace freq per elapsed hits = .stop := by
  unfold constPace
  rw [if_neg (by omega), if_pos (by omega)]

example : constPace (-1) 1000000000 1000000000 0 = .stop := by decide

/-- "a zero one means unlimited rate": the pacer never asks to wait and never stops. -/
theorem const_zero_unlimited (freq per elapsed : Int) (hits : Nat) (hz : freq = 0 ∨ per = 0) :
    constPace freq per elapsed hits = .wait 0 := by
  unfold constPace
  rw [if_pos (by omega)]

example : constPace 0 (-5) 17 3 = .wait 0 := by decide

/-! ## No panic -/

/-- "No parameter values make a pacer panic": for every frequency of type `int`, every time
unit, every elapsed time and every hit count (`bits.Div64` is reached only with
`0 < y` and `hi < y`). -/
theorem const_never_panics (freq per elapsed : Int) (hits : Nat) (hf : inS64 freq) :
    constPace freq per elapsed hits ≠ .panic := by
  unfold inS64 minInt64 maxInt64 at hf
  unfold constPace div64
  split
  · exact PaceOut.noConfusion
  · split
    · exact PaceOut.noConfusion
    · rename_i h1 h2
      have w3 : wrapU64 freq = freq := wrapU64_id (by unfold inU64 two64; omega)
      split
      · exact PaceOut.noConfusion
      · simp only [w3]
        split
        · exact PaceOut.noConfusion
        · rename_i hlt
          rw [if_neg (by omega)]
          simp only []
          split
          · exact PaceOut.noConfusion
          · split <;> exact PaceOut.noConfusion

/-- Before the repair: `ConstantPacer{Freq: 2, Per: 1ns}.Pace(0, 0)` divided by zero. -/
theorem const_never_panics_old_counterexample : constPaceOld 2 1 0 0 = .panic := by decide

example : constPace 2 1 0 0 = .wait 1 := by decide

/-! ## Overflow: stop instead of wrapping -/

/-- "arithmetic overflow stops the attack instead of wrapping": for all parameters of the Go
types, all elapsed times and hit counts — the attack is stopped exactly when the deadline
`⌈(hits+1)·Per/Freq⌉` does not fit `int64` or the hit counter is at `MaxUint64`; otherwise the
wait is exactly `deadline − max(elapsed, 0)` (0 once the deadline has passed), a value of `int64`
with no wrap-around anywhere. -/
theorem const_no_wrap (freq per elapsed : Int) (hits : Nat) (hr : InRange freq per hits)
    (hf : 0 < freq) (hp : 0 < per) :
    (constPace freq per elapsed hits = .stop ↔
        (hits : Int) = (two64 : Int) - 1 ∨ maxInt64 < constDue freq per hits) ∧
    (∀ d, constPace freq per elapsed hits = .wait d →
        d = max 0 (constDue freq per hits - max elapsed 0) ∧ 0 ≤ d ∧ d ≤ maxInt64 ∧
        constDue freq per hits ≤ maxInt64) := by
  obtain ⟨hfr, hpr, hh⟩ := hr
  unfold inS64 at hfr hpr
  rw [aux_constPace_pos hf hp hfr.2 hpr.2 hh]
  have hdue0 : 0 ≤ constDue freq per hits := by
    unfold constDue
    have : 0 ≤ ((hits : Int) + 1) * per := Int.mul_nonneg (by omega) (Int.le_of_lt hp)
    exact Int.ediv_nonneg (by omega) (Int.le_of_lt hf)
  constructor
  · constructor
    · intro h
      split at h
      · assumption
      · split at h <;> exact absurd h PaceOut.noConfusion
    · intro h; rw [if_pos h]
  · intro d h
    split at h
    · exact absurd h PaceOut.noConfusion
    · rename_i hns
      split at h
      · injection h with h; omega
      · injection h with h; omega

/-- Before the repair: `{1, MaxInt64/10}.Pace(0, 10)` returned a wrapped negative wait although
`(hits+1)·interval > MaxInt64` (guard off by one). -/
theorem const_no_wrap_old_counterexample :
    ∃ d, constPaceOld 1 922337203685477580 0 10 = .wait d ∧ d < 0 ∧
      maxInt64 < ((10 : Nat) + 1 : Int) * (922337203685477580 / 1) :=
  ⟨-8301034833169298236, by decide⟩

example : constPace 1 922337203685477580 0 10 = .stop := by decide
example : constPace 1 1000000000 1000000000 2 = .wait 2000000000 := by decide
example : constPace 1 3600000000000 9223372036854775807 2562048 = .stop := by decide
example : InRange 2 1000000000 9 := by refine ⟨?_, ?_, ?_⟩ <;> decide

/-! ## Positive wait only on or ahead of schedule; never more than one hit behind -/

/-- A positive wait is the exact distance to the deadline — for ALL parameter values. -/
theorem aux_positive_wait (freq per elapsed : Int) (hits : Nat) (d : Int)
    (hr : InRange freq per hits)
    (h : constPace freq per elapsed hits = .wait d) (hd : 0 < d) :
    0 < freq ∧ 0 < per ∧ elapsed < constDue freq per hits ∧
      max elapsed 0 + d = constDue freq per hits := by
  have hfr := hr.freq
  have hpr := hr.per
  unfold inS64 at hfr hpr
  by_cases hz : freq = 0 ∨ per = 0
  · rw [const_zero_unlimited _ _ _ _ hz] at h; injection h with h; omega
  · by_cases hn : freq < 0 ∨ per < 0
    · rw [const_neg_stops _ _ _ _ (by omega) (by omega) hn] at h; exact absurd h PaceOut.noConfusion
    · have hf : 0 < freq := by omega
      have hp : 0 < per := by omega
      rw [aux_constPace_pos hf hp hfr.2 hpr.2 hr.hits] at h
      split at h
      · exact absurd h PaceOut.noConfusion
      · split at h
        · injection h with h; omega
        · injection h with h; exact ⟨hf, hp, by omega, by omega⟩

/-- "the pacer asks for a positive wait only when the count is already on or ahead of that
schedule": a positive wait implies `hits + 1 > S(elapsed)` for the exact rational schedule
`S(t) = Freq·t/Per`, i.e. `hits ≥ ⌊S(elapsed)⌋` — all parameter values, elapsed times, hit counts. -/
theorem const_positive_wait_on_schedule (freq per elapsed : Int) (hits : Nat) (d : Int)
    (hr : InRange freq per hits)
    (h : constPace freq per elapsed hits = .wait d) (hd : 0 < d) :
    freq * elapsed < ((hits : Int) + 1) * per := by
  obtain ⟨hf, _, hlt, _⟩ := aux_positive_wait freq per elapsed hits d hr h hd
  have hc := @aux_ceil (((hits : Int) + 1) * per) freq hf
  unfold constDue at hlt
  have h1 : (elapsed + 1) * freq ≤ (((hits : Int) + 1) * per + freq - 1) / freq * freq :=
    Int.mul_le_mul_of_nonneg_right (by omega) (Int.le_of_lt hf)
  have h2 : (elapsed + 1) * freq = freq * elapsed + freq := by ring
  omega

/-- Contrapositive, as the statement puts it: "an attacker that fell behind is told to catch up
without waiting". -/
theorem const_behind_no_wait (freq per elapsed : Int) (hits : Nat) (d : Int)
    (hr : InRange freq per hits)
    (hbehind : ((hits : Int) + 1) * per ≤ freq * elapsed)
    (h : constPace freq per elapsed hits = .wait d) : d ≤ 0 := by
  by_cases hd : 0 < d
  · have := const_positive_wait_on_schedule freq per elapsed hits d hr h hd; omega
  · omega

/-- "the count never falls more than one hit (plus one nanosecond of quantisation per hit
interval) behind the schedule at the instants hits are released": at the release instant the pacer
prescribes, `tr = max(elapsed,0) + d`, the schedule has reached the new count and has passed it by
less than the one nanosecond of rounding: `hits+1 ≤ S(tr) < hits+1 + Freq/Per`. -/
theorem const_lower (freq per elapsed : Int) (hits : Nat) (d : Int)
    (hr : InRange freq per hits)
    (h : constPace freq per elapsed hits = .wait d) (hd : 0 < d) :
    ((hits : Int) + 1) * per ≤ freq * (max elapsed 0 + d) ∧
    freq * (max elapsed 0 + d) < ((hits : Int) + 1) * per + freq := by
  obtain ⟨hf, _, _, heq⟩ := aux_positive_wait freq per elapsed hits d hr h hd
  have hc := @aux_ceil (((hits : Int) + 1) * per) freq hf
  rw [heq]
  unfold constDue
  rw [Int.mul_comm freq]
  omega

example : constPace 2 1000000000 4900000000 9 = .wait 100000000 := by decide
example : constPace 3 10 (-5) 0 = .wait 4 := by decide

/-! ## The closed loop: count against schedule along every trajectory -/

/-- Invariants of the pacer's answers lift to every state of every closed-loop run, for any
pacer, any stall history, any length. -/
theorem closedLoop_invariant (p : Int → Nat → PaceOut) (Inv : Int → Nat → Prop)
    (hstep : ∀ (t : Int) (n : Nat) (d : Int) (s : Nat), Inv t n → p t n = .wait d →
      t + max d 0 + (s : Int) ≤ maxInt64 → Inv (t + max d 0 + (s : Int)) (n + 1)) :
    ∀ (stalls : List Nat) (t : Int) (n : Nat), Inv t n →
      ∀ x ∈ closedLoop p stalls t n, Inv x.1 x.2 := by
  intro stalls
  induction stalls with
  | nil => intro t n _ x hx; simp [closedLoop] at hx
  | cons s rest ih =>
    intro t n hinv x hx
    unfold closedLoop at hx
    split at hx
    · rename_i d hw
      simp only [] at hx
      split at hx
      · rename_i hle
        have hnext := hstep t n d s hinv hw hle
        rcases List.mem_cons.1 hx with h | h
        · rw [h]; exact hnext
        · exact ih _ _ hnext x h
      · simp at hx
    · simp at hx
    · simp at hx

/-- Generic form of the upper clause: if every answer of a pacer releases the next hit no earlier
than a monotone schedule `S` reaches it (`n + 1 ≤ S (t + max d 0) + 1`), the count never exceeds the
schedule by more than one hit along any closed loop with any stall history. -/
theorem closedLoop_upper_of_contract (p : Int → Nat → PaceOut) (S : Int → Int)
    (hmono : ∀ a b : Int, a ≤ b → S a ≤ S b)
    (hcontract : ∀ (t : Int) (n : Nat) (d : Int), (n : Int) ≤ S t + 1 → p t n = .wait d →
      ((n + 1 : Nat) : Int) ≤ S (t + max d 0) + 1)
    (stalls : List Nat) (t0 : Int) (n0 : Nat) (h0 : (n0 : Int) ≤ S t0 + 1) :
    ∀ x ∈ closedLoop p stalls t0 n0, (x.2 : Int) ≤ S x.1 + 1 := by
  apply closedLoop_invariant p (fun t n => (n : Int) ≤ S t + 1) _ stalls t0 n0 h0
  intro t n d s hinv hw _
  have h1 := hcontract t n d hinv hw
  have h2 := hmono (t + max d 0) (t + max d 0 + (s : Int)) (by omega)
  omega


/-- "the number of hits issued by any elapsed time t never exceeds the pacer's declared cumulative
schedule by more than one hit": along EVERY closed loop — every positive frequency and unit of the
Go types (also more than one hit per nanosecond, also `Freq ∤ Per`), every stall history, every
length — the count never exceeds the exact schedule at all: `n_k ≤ S(t_k) = Freq·t_k/Per`. -/
theorem const_upper (freq per : Int) (hf : 0 < freq) (hp : 0 < per)
    (hf' : freq ≤ maxInt64) (hp' : per ≤ maxInt64) (stalls : List Nat) :
    ∀ x ∈ closedLoop (constPace freq per) stalls 0 0, (x.2 : Int) * per ≤ freq * x.1 := by
  have key := closedLoop_invariant (constPace freq per)
    (fun t n => 0 ≤ t ∧ (n : Int) < (two64 : Int) ∧ (n : Int) * per ≤ freq * t) ?_ stalls 0 0
    ⟨by omega, by unfold two64; omega, by simp⟩
  · intro x hx; exact (key x hx).2.2
  · intro t n d s ⟨ht0, hn, _⟩ hw _
    have hcast : ((n + 1 : Nat) : Int) = (n : Int) + 1 := by push_cast; ring
    rw [hcast]
    have hpos := aux_constPace_pos (elapsed := t) hf hp hf' hp' hn
    rw [hpos] at hw
    have hc := @aux_ceil (((n : Int) + 1) * per) freq hf
    have hmono : ∀ t' : Int, constDue freq per n ≤ t' → ((n : Int) + 1) * per ≤ freq * t' := by
      intro t' ht'
      have h1 : constDue freq per n * freq ≤ t' * freq :=
        Int.mul_le_mul_of_nonneg_right ht' (Int.le_of_lt hf)
      have h2 : t' * freq = freq * t' := by ring
      unfold constDue at h1
      omega
    split at hw
    · exact absurd hw PaceOut.noConfusion
    · rename_i hns
      refine ⟨by omega, by omega, ?_⟩
      split at hw
      · rename_i hle
        have hd : (0 : Int) = d := PaceOut.wait.inj hw
        apply hmono
        have : 0 ≤ max d 0 := Int.le_max_right d 0
        omega
      · rename_i hle
        have hd : constDue freq per n - max t 0 = d := PaceOut.wait.inj hw
        apply hmono
        have h1 : d ≤ max d 0 := Int.le_max_left d 0
        have h2 : max t 0 = t := Int.max_eq_left ht0
        omega

/-- The statement's form of the bound, `n_k ≤ S(t_k) + 1`. -/
theorem const_upper_plus_one (freq per : Int) (hf : 0 < freq) (hp : 0 < per)
    (hf' : freq ≤ maxInt64) (hp' : per ≤ maxInt64) (stalls : List Nat) :
    ∀ x ∈ closedLoop (constPace freq per) stalls 0 0, (x.2 : Int) * per ≤ freq * x.1 + per := by
  intro x hx
  have := const_upper freq per hf hp hf' hp' stalls x hx
  omega

/-- Before the repair: 3 hits per 10ns, no stalls: 11 hits at t = 33ns, S(33) = 9.9 (the truncated
interval ⌊Per/Freq⌋ ran ahead without bound whenever `Freq ∤ Per`). -/
theorem const_upper_old_counterexample :
    ∃ stalls, ∃ x ∈ closedLoop (constPaceOld 3 10) stalls 0 0,
      ¬ ((x.2 : Int) * 10 ≤ 3 * x.1 + 10) :=
  ⟨List.replicate 11 0, (33, 11), by decide, by decide⟩

example : ∃ x ∈ closedLoop (constPace 3 10) (List.replicate 11 0) 0 0, x = ((37 : Int), (11 : Nat)) := by
  decide
example : ∃ x ∈ closedLoop (constPace 2 10) [0, 7, 0] 0 0, x = ((17 : Int), (3 : Nat)) := by decide

/-- Along every closed loop no call panics (end reason 2 = panic), for all parameters. -/
theorem const_loop_never_panics (freq per : Int) (hf : inS64 freq) (stalls : List Nat) :
    ∀ (t : Int) (n : Nat), closedLoopEnd (constPace freq per) stalls t n ≠ 2 := by
  induction stalls with
  | nil => intro t n; simp [closedLoopEnd]
  | cons s rest ih =>
    intro t n
    unfold closedLoopEnd
    have hnp := const_never_panics freq per t n hf
    split
    · simp only []
      split
      · exact ih _ _
      · omega
    · omega
    · rename_i hpanic; exact absurd hpanic hnp

/-! ## Sine and linear pacers: decision structure, for ANY float operations -/

section floats
variable {F : Type} (o : FloatOps F)

/-- An invalid configuration (`Period ≤ 0`, mean rate `≤ 0`, amplitude `≥` mean) stops the attack. -/
theorem sine_invalid_stops (p : SineP F) (t : Int) (n : Nat) (h : sineInvalid o p = true) :
    sinePace o p t n = .stop := by
  unfold sinePace sinePaceX
  rw [if_pos h]

/-- Case analysis of `sinePaceX` (repaired code): the five ways to an answer. -/
theorem aux_sinePaceX_cases (p : SineP F) (t : Int) (n : Nat) :
    (sineInvalid o p = true ∧ sinePaceX o p t n = (.stop, .invalid)) ∨
    (sineInvalid o p = false ∧ (n : Int) < o.toUInt64 (sineHits o p t) ∧
      sinePaceX o p t n = (.wait 0, .behind)) ∨
    (sineInvalid o p = false ∧ ¬ (n : Int) < o.toUInt64 (sineHits o p t) ∧
      (sineIter o p t n 5 (sineFirstGuess o p t n)).2 = true ∧
      sinePaceX o p t n = (.wait (sineIter o p t n 5 (sineFirstGuess o p t n)).1, .converged)) ∨
    (sineInvalid o p = false ∧ ¬ (n : Int) < o.toUInt64 (sineHits o p t) ∧
      (sineIter o p t n 5 (sineFirstGuess o p t n)).2 = false ∧
      sinePaceX o p t n = (.stop, .nobracket)) ∨
    (sineInvalid o p = false ∧ ¬ (n : Int) < o.toUInt64 (sineHits o p t) ∧
      (sineIter o p t n 5 (sineFirstGuess o p t n)).2 = false ∧
      sinePaceX o p t n =
        (.wait (sineBisect o p t n 64 0 (o.toInt64 (sineHi o p t n))).1,
         (sineBisect o p t n 64 0 (o.toInt64 (sineHi o p t n))).2)) := by
  unfold sinePaceX
  by_cases hv : sineInvalid o p = true
  · left; exact ⟨hv, by rw [if_pos hv]⟩
  · have hv' : sineInvalid o p = false := by simpa using hv
    rw [if_neg hv]
    by_cases hb : (n : Int) < o.toUInt64 (sineHits o p t)
    · right; left; exact ⟨hv', hb, by rw [if_pos hb]⟩
    · rw [if_neg hb]
      simp only []
      by_cases hc : (sineIter o p t n 5 (sineFirstGuess o p t n)).2 = true
      · right; right; left; exact ⟨hv', hb, hc, by rw [if_pos hc]⟩
      · have hc' : (sineIter o p t n 5 (sineFirstGuess o p t n)).2 = false := by simpa using hc
        rw [if_neg hc]
        split
        · right; right; right; left; exact ⟨hv', hb, hc', rfl⟩
        · right; right; right; right; exact ⟨hv', hb, hc', rfl⟩

/-- `SinePacer.Pace` has no partial operation on any path (float division, `math.Ceil`, the
float→integer conversions, the wrapping additions and the halving are total), whatever the float
operations do. -/
theorem sine_never_panics (p : SineP F) (t : Int) (n : Nat) : sinePace o p t n ≠ .panic := by
  unfold sinePace
  rcases aux_sinePaceX_cases o p t n with h | h | h | h | h
  · rw [h.2]; exact PaceOut.noConfusion
  · rw [h.2.2]; exact PaceOut.noConfusion
  · rw [h.2.2.2]; exact PaceOut.noConfusion
  · rw [h.2.2.2]; exact PaceOut.noConfusion
  · rw [h.2.2.2]; exact PaceOut.noConfusion

/-- A positive wait is returned only when the count has reached the schedule as computed:
`hits ≥ uint64(H(t))`, and the configuration is valid. -/
theorem sine_positive_wait_on_schedule (p : SineP F) (t : Int) (n : Nat) (d : Int)
    (h : sinePace o p t n = .wait d) (hd : 0 < d) :
    sineInvalid o p = false ∧ o.toUInt64 (sineHits o p t) ≤ (n : Int) := by
  unfold sinePace at h
  rcases aux_sinePaceX_cases o p t n with hc | hc | hc | hc | hc
  · rw [hc.2] at h; exact absurd h PaceOut.noConfusion
  · rw [hc.2.2] at h; injection h with h; omega
  · exact ⟨hc.1, by omega⟩
  · exact ⟨hc.1, by omega⟩
  · exact ⟨hc.1, by omega⟩

theorem aux_sineIter_converged (p : SineP F) (t : Int) (n : Nat) :
    ∀ (k : Nat) (g : Int), (sineIter o p t n k g).2 = true →
      o.lt (o.abs (sineErr o p t n (sineIter o p t n k g).1)) o.em3 = true := by
  intro k
  induction k with
  | zero => intro g h; simp [sineIter] at h
  | succ k ih =>
    intro g h
    unfold sineIter at h ⊢
    simp only [] at h ⊢
    split
    · rename_i hc; unfold sineErr; simpa using hc
    · rename_i hc
      rw [if_neg hc] at h
      exact ih _ h

/-- A return from inside the fixed-point loop is a converged one: the schedule at the prescribed
release instant is within 1e-3 hits of the new count, `|hits + 1 − H(t + wait)| < 1e-3`
(as computed). -/
theorem sine_converged_exit (p : SineP F) (t : Int) (n : Nat) (w : Int)
    (h : sinePaceX o p t n = (.wait w, .converged)) :
    o.lt (o.abs (sineErr o p t n w)) o.em3 = true := by
  have hbis : ∀ k lo up, (sineBisect o p t n k lo up).2 ≠ .converged := by
    intro k
    induction k with
    | zero => intro lo up; simp [sineBisect]
    | succ k ih =>
      intro lo up
      unfold sineBisect
      split
      · simp only []
        split
        · simp
        · split
          · exact ih _ _
          · exact ih _ _
      · simp
  rcases aux_sinePaceX_cases o p t n with hc | hc | hc | hc | hc
  · rw [hc.2] at h; simp at h
  · rw [hc.2.2] at h; simp at h
  · rw [hc.2.2.2] at h
    simp only [Prod.mk.injEq, PaceOut.wait.injEq, and_true] at h
    rw [← h]
    exact aux_sineIter_converged o p t n 5 _ hc.2.2.1
  · rw [hc.2.2.2] at h; simp at h
  · rw [hc.2.2.2] at h
    simp only [Prod.mk.injEq, PaceOut.wait.injEq] at h
    exact absurd h.2 (hbis _ _ _)

/-- The bracket invariant of the bisection, as computed: the error at the lower end is positive
(`H(t+lo) < hits+1`), the error at the upper end is not (`hits+1 ≤ H(t+up)`, unless NaN). -/
def Bracket (p : SineP F) (t : Int) (n : Nat) (lo up : Int) : Prop :=
  o.lt o.zero (sineErr o p t n lo) = true ∧ o.lt o.zero (sineErr o p t n up) = false

theorem aux_sineBisect_bisected (p : SineP F) (t : Int) (n : Nat) :
    ∀ (k : Nat) (lo up : Int), (sineBisect o p t n k lo up).2 = .bisected →
      o.lt (o.abs (sineErr o p t n (sineBisect o p t n k lo up).1)) o.em3 = true := by
  intro k
  induction k with
  | zero => intro lo up h; simp [sineBisect] at h
  | succ k ih =>
    intro lo up h
    unfold sineBisect at h ⊢
    split
    · rename_i hw
      rw [if_pos hw] at h
      simp only [] at h ⊢
      split
      · rename_i hc; exact hc
      · rename_i hc
        rw [if_neg hc] at h
        split
        · rename_i hpos; rw [if_pos hpos] at h; exact ih _ _ h
        · rename_i hpos; rw [if_neg hpos] at h; exact ih _ _ h
    · rename_i hw; rw [if_neg hw] at h; simp at h

/-- The bisection keeps the bracket invariant by its own branch conditions — NO assumption on the
float operations — so a `.bracket` exit returns the upper end of a bracket at most 1ns wide. -/
theorem aux_sineBisect_bracket (p : SineP F) (t : Int) (n : Nat) :
    ∀ (k : Nat) (lo up : Int), Bracket o p t n lo up →
      (sineBisect o p t n k lo up).2 = .bracket →
        ∃ lo', Bracket o p t n lo' (sineBisect o p t n k lo up).1 ∧
          ¬ 1 < wrapS64 ((sineBisect o p t n k lo up).1 - lo') := by
  intro k
  induction k with
  | zero => intro lo up _ h; simp [sineBisect] at h
  | succ k ih =>
    intro lo up hinv h
    unfold sineBisect at h ⊢
    split
    · rename_i hw
      rw [if_pos hw] at h
      simp only [] at h ⊢
      split
      · rename_i hc; rw [if_pos hc] at h; simp at h
      · rename_i hc
        rw [if_neg hc] at h
        split
        · rename_i hpos; rw [if_pos hpos] at h; exact ih _ _ ⟨hpos, hinv.2⟩ h
        · rename_i hpos; rw [if_neg hpos] at h; exact ih _ _ ⟨hinv.1, by simpa using hpos⟩ h
    · rename_i hw
      exact ⟨lo, hinv, hw⟩

/-- With `0 ≤ lo ≤ up ≤ MaxInt64` and `up − lo ≤ 2^k`, `k+1` units of fuel are never used up:
the Go loop `for up-lo > 1` ends within 64 iterations, the model's fuel 64 is not a restriction. -/
theorem sine_bisect_fuel (p : SineP F) (t : Int) (n : Nat) :
    ∀ (k : Nat) (lo up : Int), 0 ≤ lo → lo ≤ up → up ≤ maxInt64 → up - lo ≤ 2 ^ k →
      (sineBisect o p t n (k + 1) lo up).2 ≠ .unconverged := by
  intro k
  induction k with
  | zero =>
    intro lo up h0 h1 h2 h3
    have hw : wrapS64 (up - lo) = up - lo :=
      wrapS64_id (by unfold inS64 minInt64; unfold maxInt64 at *; omega)
    unfold sineBisect
    rw [hw, if_neg (by omega)]
    simp
  | succ k ih =>
    intro lo up h0 h1 h2 h3
    have hpow : (2 : Int) ^ (k + 1) = 2 ^ k * 2 := Int.pow_succ 2 k
    have hw : wrapS64 (up - lo) = up - lo :=
      wrapS64_id (by unfold inS64 minInt64; unfold maxInt64 at *; omega)
    have hhalf : (up - lo).tdiv 2 = (up - lo) / 2 := Int.tdiv_eq_ediv_of_nonneg (by omega)
    have hmid : wrapS64 (lo + (up - lo) / 2) = lo + (up - lo) / 2 :=
      wrapS64_id (by unfold inS64 minInt64; unfold maxInt64 at *; omega)
    unfold sineBisect
    rw [hw, hhalf, hmid]
    split
    · simp only []
      split
      · simp
      · split
        · exact ih _ _ (by omega) (by omega) h2 (by omega)
        · exact ih _ _ h0 (by omega) (by omega) (by omega)
    · simp

/-- The two exits of the fallback.  For ANY float operations:
(1) a return from inside the bisection has `|hits+1 − H(t+w)| < 1e-3` as computed;
(2) a return at the end of the bisection gives the upper end `w` of a bracket `[lo, w]` at most 1ns
wide that satisfies the bracket invariant `err(lo) > 0 ∧ ¬ err(w) > 0` as computed, i.e.
`H(t+lo) < hits+1 ≤ H(t+w)` — PROVIDED the initial bracket `[0, hi]` satisfies it.
Hypotheses about the float operations: only that proviso (it holds when `hits+1 > H(t)`, which the
catch-up test has established, and `H` grows by at least `Mean−|Amp|` per ns); reading the computed
comparisons as statements about the real schedule needs `sub`/`lt`/`abs` to be sound, which is a
hypothesis of `sine_upper_partial`, not of this theorem. -/
theorem sine_bisect_exit (p : SineP F) (t : Int) (n : Nat) (w : Int) (e : SineExit)
    (h : sinePaceX o p t n = (.wait w, e)) :
    (e = .bisected → o.lt (o.abs (sineErr o p t n w)) o.em3 = true) ∧
    (e = .bracket → Bracket o p t n 0 (o.toInt64 (sineHi o p t n)) →
      ∃ lo, Bracket o p t n lo w ∧ ¬ 1 < wrapS64 (w - lo)) := by
  rcases aux_sinePaceX_cases o p t n with hc | hc | hc | hc | hc
  · rw [hc.2] at h; simp at h
  · rw [hc.2.2] at h
    simp only [Prod.mk.injEq, PaceOut.wait.injEq] at h
    exact ⟨fun he => by rw [he] at h; simp at h, fun he => by rw [he] at h; simp at h⟩
  · rw [hc.2.2.2] at h
    simp only [Prod.mk.injEq, PaceOut.wait.injEq] at h
    exact ⟨fun he => by rw [he] at h; simp at h, fun he => by rw [he] at h; simp at h⟩
  · rw [hc.2.2.2] at h; simp at h
  · rw [hc.2.2.2] at h
    simp only [Prod.mk.injEq, PaceOut.wait.injEq] at h
    obtain ⟨hw, he⟩ := h
    constructor
    · intro hb
      rw [← hw]
      exact aux_sineBisect_bisected o p t n 64 0 _ (by rw [he, hb])
    · intro hb hinit
      rw [← hw]
      exact aux_sineBisect_bracket o p t n 64 0 _ hinit (by rw [he, hb])

/-- The repaired code has no un-converged exit: whenever the bracket end `time.Duration(hi)` lies
in `[0, MaxInt64]` (which the guard `hi >= 0 && hi < float64(MaxInt64-elapsed)` is there to ensure),
every answer is one of: stop (invalid / no bracket), catch-up, converged, bisected, bracket. -/
theorem sine_no_unconverged_exit (p : SineP F) (t : Int) (n : Nat)
    (hrange : 0 ≤ o.toInt64 (sineHi o p t n) ∧ o.toInt64 (sineHi o p t n) ≤ maxInt64) :
    (sinePaceX o p t n).2 ≠ .unconverged := by
  rcases aux_sinePaceX_cases o p t n with hc | hc | hc | hc | hc
  · rw [hc.2]; simp
  · rw [hc.2.2]; simp
  · rw [hc.2.2.2]; simp
  · rw [hc.2.2.2]; simp
  · rw [hc.2.2.2]
    simp only []
    apply sine_bisect_fuel o p t n 63 0 _ (by omega) hrange.1 hrange.2
    have : o.toInt64 (sineHi o p t n) ≤ maxInt64 := hrange.2
    unfold maxInt64 at this
    omega

/-- Zero `StartAt` frequency/unit: unlimited rate. -/
theorem linear_zero_unlimited (p : LinearP F) (t : Int) (n : Nat) (hz : p.per = 0 ∨ p.freq = 0) :
    linearPace o p t n = .wait 0 := by
  unfold linearPace
  rw [if_pos hz]

/-- Negative `StartAt` frequency/unit stops the attack. -/
theorem linear_invalid_stops (p : LinearP F) (t : Int) (n : Nat)
    (hz : p.per ≠ 0 ∧ p.freq ≠ 0) (hneg : p.per < 0 ∨ p.freq < 0) :
    linearPace o p t n = .stop := by
  unfold linearPace
  rw [if_neg (by omega), if_pos hneg]

/-- `LinearPacer.Pace` never panics: its only partial operation, `math.MaxInt64/n`, is guarded
by `n != 0`. -/
theorem linear_never_panics (p : LinearP F) (t : Int) (n : Nat) : linearPace o p t n ≠ .panic := by
  unfold linearPace udiv
  split
  · exact PaceOut.noConfusion
  · split
    · exact PaceOut.noConfusion
    · simp only []
      split
      · exact PaceOut.noConfusion
      · split
        · rename_i hg
          split at hg
          · simp at hg
          · simp at hg
        · exact PaceOut.noConfusion
        · exact PaceOut.noConfusion

/-- A positive wait is returned only when the count has reached the schedule as computed:
`hits ≥ uint64(H(t))` (and at least one hit was sent). -/
theorem linear_positive_wait_on_schedule (p : LinearP F) (t : Int) (n : Nat) (d : Int)
    (h : linearPace o p t n = .wait d) (hd : 0 < d) :
    n ≠ 0 ∧ o.toUInt64 (linearHits o p t) ≤ (n : Int) := by
  unfold linearPace at h
  split at h
  · injection h with h; omega
  · split at h
    · exact absurd h PaceOut.noConfusion
    · simp only [] at h
      split at h
      · injection h with h; omega
      · rename_i hb
        exact ⟨by omega, by omega⟩

/-
FULL STATEMENT (not provable here: it is about `sin`/`cos` and real analysis): along every closed
loop of the sine pacer the count never exceeds the schedule `H` by more than one hit.
What is proved: the closed-loop bound for ANY monotone schedule `S` (in hits) for which the float
computation is sound at the points the pacer returns.  Hypotheses about the float operations, all
of them and nothing else:
  hbehind   the catch-up test is sound:   hits < uint64(H(t))            ⇒ hits+1 ≤ S(t)+1
  hclose    the 1e-3 test is sound:       |hits+1 − H(t+w)| < 1e-3       ⇒ hits+1 ≤ S(t+w)+1
  hnonpos   the sign test is sound:       ¬ (hits+1 − H(t+w) > 0)        ⇒ hits+1 ≤ S(t+w)+1
  hinit     `[0, hi]` is a bracket whenever the fallback is reached (H grows ≥ Mean−|Amp| per ns)
  hrange    `time.Duration(hi)` lies in [0, MaxInt64]
There is no "no un-converged exit" hypothesis any more: the repaired code has no such exit
(`sine_no_unconverged_exit`), its exits are covered by `sine_converged_exit` and `sine_bisect_exit`.
-/
theorem sine_upper_partial (p : SineP F) (S : Int → Int)
    (hmono : ∀ a b : Int, a ≤ b → S a ≤ S b)
    (hbehind : ∀ (t : Int) (n : Nat), (n : Int) < o.toUInt64 (sineHits o p t) →
      ((n : Int) + 1) ≤ S t + 1)
    (hclose : ∀ (t : Int) (n : Nat) (w : Int),
      o.lt (o.abs (sineErr o p t n w)) o.em3 = true → ((n : Int) + 1) ≤ S (t + max w 0) + 1)
    (hnonpos : ∀ (t : Int) (n : Nat) (w : Int),
      o.lt o.zero (sineErr o p t n w) = false → ((n : Int) + 1) ≤ S (t + max w 0) + 1)
    (hinit : ∀ (t : Int) (n : Nat), ¬ (n : Int) < o.toUInt64 (sineHits o p t) →
      Bracket o p t n 0 (o.toInt64 (sineHi o p t n)))
    (hrange : ∀ (t : Int) (n : Nat),
      0 ≤ o.toInt64 (sineHi o p t n) ∧ o.toInt64 (sineHi o p t n) ≤ maxInt64)
    (stalls : List Nat) (h0 : 0 ≤ S 0 + 1) :
    ∀ x ∈ closedLoop (sinePace o p) stalls 0 0, (x.2 : Int) ≤ S x.1 + 1 := by
  apply closedLoop_upper_of_contract (sinePace o p) S hmono _ stalls 0 0 (by simpa using h0)
  intro t n d _ hw
  have hcast : ((n + 1 : Nat) : Int) = (n : Int) + 1 := by push_cast; ring
  rw [hcast]
  unfold sinePace at hw
  have hX : sinePaceX o p t n = (.wait d, (sinePaceX o p t n).2) := by rw [← hw]
  have hnf := sine_no_unconverged_exit o p t n (hrange t n)
  rcases aux_sinePaceX_cases o p t n with hc | hc | hc | hc | hc
  · rw [hc.2] at hw; exact absurd hw PaceOut.noConfusion
  · rw [hc.2.2] at hw
    injection hw with hw
    have := hbehind t n hc.2.1
    rw [← hw]; simpa using this
  · have := sine_converged_exit o p t n d (by rw [hX, hc.2.2.2])
    exact hclose t n d this
  · rw [hc.2.2.2] at hw; exact absurd hw PaceOut.noConfusion
  · have hex := sine_bisect_exit o p t n d _ hX
    -- which exit of the bisection?
    have hcases : ∀ k lo up, (sineBisect o p t n k lo up).2 = .bisected ∨
        (sineBisect o p t n k lo up).2 = .bracket ∨ (sineBisect o p t n k lo up).2 = .unconverged := by
      intro k
      induction k with
      | zero => intro lo up; simp [sineBisect]
      | succ k ih =>
        intro lo up
        unfold sineBisect
        split
        · simp only []
          split
          · simp
          · split
            · exact ih _ _
            · exact ih _ _
        · simp
    have he2 : (sinePaceX o p t n).2 = (sineBisect o p t n 64 0 (o.toInt64 (sineHi o p t n))).2 := by
      rw [hc.2.2.2]
    rcases hcases 64 0 (o.toInt64 (sineHi o p t n)) with hb | hb | hb
    · exact hclose t n d (hex.1 (by rw [he2, hb]))
    · obtain ⟨lo, hbr, _⟩ := hex.2 (by rw [he2, hb]) (hinit t n hc.2.1)
      exact hnonpos t n d hbr.2
    · exact absurd (by rw [he2, hb]) hnf

end floats

/-! Non-vacuity of the float theorems: a concrete instance (SoftF64 arithmetic, `sin = cos = 0`),
on which each exit of the sine pacer and a positive linear wait occur. -/
def nvOps : FloatOps F64 where
  ofInt64 := F64.ofInt
  ofUInt64 := F64.ofInt
  add := F64.add
  sub := F64.sub
  mul := F64.mul
  div := F64.div
  lt := F64.lt
  le := F64.le
  abs := F64.abs
  round := F64.round
  ceil := fun x => if x.isFinite then F64.ofInt (-(F64.floorInt (F64.neg x))) else x
  sin := fun _ => F64.posZero
  cos := fun _ => F64.posZero
  sq := fun x => F64.mul x x
  toInt64 := F64.toInt64
  toUInt64 := F64.toUInt64
  zero := F64.posZero
  one := F64.ofNat 1
  two := F64.ofNat 2
  pi := F64.ofDecimal 3141592653589793 (-15)
  twoPi := F64.ofDecimal 6283185307179586 (-15)
  e9 := F64.ofDecimal 1 9
  em3 := F64.ofDecimal 1 (-3)

def nvSine : SineP F64 :=
  { period := 1000000000, meanFreq := 100, meanPer := 1000000000, ampFreq := 50,
    ampPer := 1000000000, startAt := F64.posZero }

example : sinePaceX nvOps nvSine 0 0 = (.wait 10000000, .converged) := by decide +kernel
example : sinePaceX nvOps nvSine 1000000000 3 = (.wait 0, .behind) := by decide +kernel
example : sineInvalid nvOps { nvSine with ampFreq := 100 } = true := by decide +kernel

/-- 3 hits per 10ns, zero amplitude (a straight schedule, 0.3 hits/ns): whole-nanosecond guesses
cannot reach the 1e-3 target. -/
def nvSineFast : SineP F64 :=
  { period := 1000000000, meanFreq := 3, meanPer := 10, ampFreq := 0, ampPer := 10,
    startAt := F64.posZero }

/-- Before commit 7529829 the last guess was returned although it had not converged: 3ns, where
the schedule is at 0.9 < 1 hits — one hit released early, and so on for every hit. -/
theorem sine_unconverged_old_witness :
    sinePaceXOld nvOps nvSineFast 0 0 = (.wait 3, .unconverged) := by decide +kernel
/-- The repaired code bisects `[0, 4]` and returns the upper end of the 1ns bracket `[3, 4]`. -/
example : sinePaceX nvOps nvSineFast 0 0 = (.wait 4, .bracket) := by decide +kernel
example : Bracket nvOps nvSineFast 0 0 0 (nvOps.toInt64 (sineHi nvOps nvSineFast 0 0)) := by
  unfold Bracket; decide +kernel
example : linearPace nvOps { freq := 10, per := 1000000000, slope := F64.ofNat 1 } 1000000000 11
    = .wait 136363636 := by decide +kernel

end Vegeta.Props.C01
