/-
C01 — Pacers keep the hit count on their declared schedule in closed loop.

Constant pacer (repaired code, /repo a5c2a38): every clause at full strength over ALL integer
parameter values of the Go types, all elapsed times, all hit counts, all stall histories of
unbounded length.  The three defects of the code before the repair stay machine-checked on
`constPaceOld` (`*_old_counterexample`).
Sine / linear pacers: the decision structure of the code for ANY float operations.
-/
import Vegeta.Model.Pacer
import Mathlib.Tactic.Linarith
import Mathlib.Tactic.Ring
namespace Vegeta.Props.C01
open Vegeta.Go Vegeta.Model.Pacer

/-! ## Notation of the statement -/

/-- The exact deadline of hit number `hits+1`: `⌈(hits+1)·Per/Freq⌉` nanoseconds after the start. -/
def constDue (freq per : Int) (hits : Nat) : Int := (((hits : Int) + 1) * per + freq - 1) / freq

/-- Parameters and hit count lie in the ranges of their Go types
(`Freq int`, `Per time.Duration`, `hits uint64`); `elapsed` is any integer. -/
structure InRange (freq per : Int) (hits : Nat) : Prop where
  freq : inS64 freq
  per : inS64 per
  hits : (hits : Int) < (two64 : Int)

/-! ## Helper lemmas -/

/-- `⌈T/f⌉` as computed: `f·(due−1) < T ≤ f·due`. -/
theorem aux_ceil {T f : Int} (hf : 0 < f) :
    T ≤ (T + f - 1) / f * f ∧ (T + f - 1) / f * f ≤ T + f - 1 := by
  have h1 := Int.lt_ediv_add_one_mul_self (T + f - 1) hf
  have h2 := Int.ediv_mul_le (T + f - 1) (Int.ne_of_gt hf)
  have h3 : ((T + f - 1) / f + 1) * f = (T + f - 1) / f * f + f := by ring
  omega

/-- Normal form of the repaired `constPace` for positive in-range parameters: the 128-bit
`Mul64/Add64/Div64` sequence computes `constDue` exactly and never overflows. -/
theorem aux_constPace_pos {freq per elapsed : Int} {hits : Nat}
    (hf : 0 < freq) (hp : 0 < per) (hf' : freq ≤ maxInt64) (hp' : per ≤ maxInt64)
    (hh : (hits : Int) < (two64 : Int)) :
    constPace freq per elapsed hits =
      if (hits : Int) = (two64 : Int) - 1 ∨ maxInt64 < constDue freq per hits then .stop
      else if constDue freq per hits ≤ elapsed then .wait 0
      else .wait (constDue freq per hits - max elapsed 0) := by
  unfold constPace constDue
  rw [if_neg (by omega), if_neg (by omega)]
  by_cases hmax : (hits : Int) = (two64 : Int) - 1
  · rw [if_pos hmax, if_pos (Or.inl hmax)]
  · rw [if_neg hmax]
    have hh0 : (0 : Int) ≤ (hits : Int) := Int.natCast_nonneg _
    have w1 : wrapU64 ((hits : Int) + 1) = (hits : Int) + 1 :=
      wrapU64_id (by unfold inU64; unfold two64 at *; omega)
    have w2 : wrapU64 per = per :=
      wrapU64_id (by unfold inU64 two64; unfold maxInt64 at *; omega)
    have w3 : wrapU64 freq = freq :=
      wrapU64_id (by unfold inU64 two64; unfold maxInt64 at *; omega)
    have w4 : wrapU64 (freq - 1) = freq - 1 :=
      wrapU64_id (by unfold inU64 two64; unfold maxInt64 at *; omega)
    simp only [w1, w2, w3, w4]
    -- the product as one atom, with its bounds
    have hprod0 : 0 ≤ ((hits : Int) + 1) * per := Int.mul_nonneg (by omega) (Int.le_of_lt hp)
    have hprod1 : ((hits : Int) + 1) * per ≤ (two64 : Int) * maxInt64 :=
      Int.mul_le_mul (by omega) hp' (Int.le_of_lt hp) (by unfold two64; omega)
    generalize hx : ((hits : Int) + 1) * per = x at *
    -- hi, lo are the halves of total = x + freq - 1
    have hhi : x / (two64 : Int) + (x % (two64 : Int) + (freq - 1)) / (two64 : Int)
        = (x + freq - 1) / (two64 : Int) := by unfold two64; omega
    have hlo : (x % (two64 : Int) + (freq - 1)) % (two64 : Int) = (x + freq - 1) % (two64 : Int) := by
      unfold two64; omega
    have hhi_small : (x + freq - 1) / (two64 : Int) < (two64 : Int) ∧
        0 ≤ (x + freq - 1) / (two64 : Int) := by
      unfold two64 maxInt64 at *; omega
    rw [hhi, hlo, wrapU64_id (by unfold inU64; omega)]
    have hsplit : (x + freq - 1) / (two64 : Int) * (two64 : Int) + (x + freq - 1) % (two64 : Int)
        = x + freq - 1 := by unfold two64; omega
    have hc := @aux_ceil x freq hf
    by_cases hbig : freq ≤ (x + freq - 1) / (two64 : Int)
    · -- the quotient would not fit 64 bits
      rw [if_pos hbig, if_pos]
      right
      have h1 : freq * (two64 : Int) ≤ x + freq - 1 :=
        (Int.le_ediv_iff_mul_le (by unfold two64; omega)).1 hbig
      have h2 : (two64 : Int) ≤ (x + freq - 1) / freq :=
        Int.le_ediv_of_mul_le hf (by rw [Int.mul_comm]; exact h1)
      unfold two64 maxInt64 at *; omega
    · rw [if_neg hbig]
      unfold div64
      rw [if_neg (by omega), hsplit]
      simp only []
      have htot : 0 ≤ x + freq - 1 := by omega
      rw [Int.tdiv_eq_ediv_of_nonneg htot]
      have hdue0 : 0 ≤ (x + freq - 1) / freq := Int.ediv_nonneg htot (Int.le_of_lt hf)
      by_cases hov : maxInt64 < (x + freq - 1) / freq
      · rw [if_pos hov, if_pos (Or.inr hov)]
      · have hnor : ¬ ((hits : Int) = (two64 : Int) - 1 ∨ maxInt64 < (x + freq - 1) / freq) := by
          omega
        rw [if_neg hov, if_neg hnor]
        have hs : wrapS64 ((x + freq - 1) / freq) = (x + freq - 1) / freq :=
          wrapS64_id (by unfold inS64 minInt64; unfold maxInt64 at *; omega)
        rw [hs]
        by_cases hle : (x + freq - 1) / freq ≤ elapsed
        · rw [if_pos hle, if_pos hle]
        · rw [if_neg hle, if_neg hle]
          congr 1
          by_cases hneg : elapsed < 0
          · rw [if_pos hneg, Int.max_eq_right (by omega)]
            exact wrapS64_id (by unfold inS64 minInt64; unfold maxInt64 at *; omega)
          · rw [if_neg hneg, Int.max_eq_left (by omega)]
            exact wrapS64_id (by unfold inS64 minInt64; unfold maxInt64 at *; omega)

/-! ## Sign and zero cases -/

/-- "negative frequency/unit stops the attack" — for all elapsed times and hit counts
(a zero field takes precedence, see `const_zero_unlimited`). -/
theorem const_neg_stops (freq per elapsed : Int) (hits : Nat)
    (hf : freq ≠ 0) (hp : per ≠ 0) (hneg : freq < 0 ∨ per < 0) :
    constPace freq per elapsed hits = .stop := by
  unfold constPace
  rw [if_neg (by omega), if_pos (by omega)]

example : constPace (-1) 1000000000 1000000000 0 = .stop := by decide

/-- "a zero one means unlimited rate": the pacer never asks to wait and never stops. -/
theorem const_zero_unlimited (freq per elapsed : Int) (hits : Nat) (hz : freq = 0 ∨ per = 0) :
    constPace freq per elapsed hits = .wait 0 := by
  unfold constPace
  rw [if_pos (by omega)]

example : constPace 0 (-5) 17 3 = .wait 0 := by decide

/-! ## No panic -/

/-- "No parameter values make a pacer panic": for every frequency of type `int`, every time
unit, every elapsed time and every hit count (`bits.Div64` is reached only with
`0 < y` and `hi < y`). -/
theorem const_never_panics (freq per elapsed : Int) (hits : Nat) (hf : inS64 freq) :
    constPace freq per elapsed hits ≠ .panic := by
  unfold inS64 minInt64 maxInt64 at hf
  unfold constPace div64
  split
  · exact PaceOut.noConfusion
  · split
    · exact PaceOut.noConfusion
    · rename_i h1 h2
      have w3 : wrapU64 freq = freq := wrapU64_id (by unfold inU64 two64; omega)
      split
      · exact PaceOut.noConfusion
      · simp only [w3]
        split
        · exact PaceOut.noConfusion
        · rename_i hlt
          rw [if_neg (by omega)]
          simp only []
          split
          · exact PaceOut.noConfusion
          · split <;> exact PaceOut.noConfusion

/-- Before the repair: `ConstantPacer{Freq: 2, Per: 1ns}.Pace(0, 0)` divided by zero. -/
theorem const_never_panics_old_counterexample : constPaceOld 2 1 0 0 = .panic := by decide

example : constPace 2 1 0 0 = .wait 1 := by decide

/-! ## Overflow: stop instead of wrapping -/

/-- "arithmetic overflow stops the attack instead of wrapping": for all parameters of the Go
types, all elapsed times and hit counts — the attack is stopped exactly when the deadline
`⌈(hits+1)·Per/Freq⌉` does not fit `int64` or the hit counter is at `MaxUint64`; otherwise the
wait is exactly `deadline − max(elapsed, 0)` (0 once the deadline has passed), a value of `int64`
with no wrap-around anywhere. -/
theorem const_no_wrap (freq per elapsed : Int) (hits : Nat) (hr : InRange freq per hits)
    (hf : 0 < freq) (hp : 0 < per) :
    (constPace freq per elapsed hits = .stop ↔
        (hits : Int) = (two64 : Int) - 1 ∨ maxInt64 < constDue freq per hits) ∧
    (∀ d, constPace freq per elapsed hits = .wait d →
        d = max 0 (constDue freq per hits - max elapsed 0) ∧ 0 ≤ d ∧ d ≤ maxInt64 ∧
        constDue freq per hits ≤ maxInt64) := by
  obtain ⟨hfr, hpr, hh⟩ := hr
  unfold inS64 at hfr hpr
  rw [aux_constPace_pos hf hp hfr.2 hpr.2 hh]
  have hdue0 : 0 ≤ constDue freq per hits := by
    unfold constDue
    have : 0 ≤ ((hits : Int) + 1) * per := Int.mul_nonneg (by omega) (Int.le_of_lt hp)
    exact Int.ediv_nonneg (by omega) (Int.le_of_lt hf)
  constructor
  · constructor
    · intro h
      split at h
      · assumption
      · split at h <;> exact absurd h PaceOut.noConfusion
    · intro h; rw [if_pos h]
  · intro d h
    split at h
    · exact absurd h PaceOut.noConfusion
    · rename_i hns
      split at h
      · injection h with h; omega
      · injection h with h; omega

/-- Before the repair: `{1, MaxInt64/10}.Pace(0, 10)` returned a wrapped negative wait although
`(hits+1)·interval > MaxInt64` (guard off by one). -/
theorem const_no_wrap_old_counterexample :
    ∃ d, constPaceOld 1 922337203685477580 0 10 = .wait d ∧ d < 0 ∧
      maxInt64 < ((10 : Nat) + 1 : Int) * (922337203685477580 / 1) :=
  ⟨-8301034833169298236, by decide⟩

example : constPace 1 922337203685477580 0 10 = .stop := by decide
example : constPace 1 1000000000 1000000000 2 = .wait 2000000000 := by decide
example : constPace 1 3600000000000 9223372036854775807 2562048 = .stop := by decide
example : InRange 2 1000000000 9 := by refine ⟨?_, ?_, ?_⟩ <;> decide

/-! ## Positive wait only on or ahead of schedule; never more than one hit behind -/

/-- A positive wait is the exact distance to the deadline — for ALL parameter values. -/
theorem aux_positive_wait (freq per elapsed : Int) (hits : Nat) (d : Int)
    (hr : InRange freq per hits)
    (h : constPace freq per elapsed hits = .wait d) (hd : 0 < d) :
    0 < freq ∧ 0 < per ∧ elapsed < constDue freq per hits ∧
      max elapsed 0 + d = constDue freq per hits := by
  have hfr := hr.freq
  have hpr := hr.per
  unfold inS64 at hfr hpr
  by_cases hz : freq = 0 ∨ per = 0
  · rw [const_zero_unlimited _ _ _ _ hz] at h; injection h with h; omega
  · by_cases hn : freq < 0 ∨ per < 0
    · rw [const_neg_stops _ _ _ _ (by omega) (by omega) hn] at h; exact absurd h PaceOut.noConfusion
    · have hf : 0 < freq := by omega
      have hp : 0 < per := by omega
      rw [aux_constPace_pos hf hp hfr.2 hpr.2 hr.hits] at h
      split at h
      · exact absurd h PaceOut.noConfusion
      · split at h
        · injection h with h; omega
        · injection h with h; exact ⟨hf, hp, by omega, by omega⟩

/-- "the pacer asks for a positive wait only when the count is already on or ahead of that
schedule": a positive wait implies `hits + 1 > S(elapsed)` for the exact rational schedule
`S(t) = Freq·t/Per`, i.e. `hits ≥ ⌊S(elapsed)⌋` — all parameter values, elapsed times, hit counts. -/
theorem const_positive_wait_on_schedule (freq per elapsed : Int) (hits : Nat) (d : Int)
    (hr : InRange freq per hits)
    (h : constPace freq per elapsed hits = .wait d) (hd : 0 < d) :
    freq * elapsed < ((hits : Int) + 1) * per := by
  obtain ⟨hf, _, hlt, _⟩ := aux_positive_wait freq per elapsed hits d hr h hd
  have hc := @aux_ceil (((hits : Int) + 1) * per) freq hf
  unfold constDue at hlt
  have h1 : (elapsed + 1) * freq ≤ (((hits : Int) + 1) * per + freq - 1) / freq * freq :=
    Int.mul_le_mul_of_nonneg_right (by omega) (Int.le_of_lt hf)
  have h2 : (elapsed + 1) * freq = freq * elapsed + freq := by ring
  omega

/-- Contrapositive, as the statement puts it: "an attacker that fell behind is told to catch up
without waiting". -/
theorem const_behind_no_wait (freq per elapsed : Int) (hits : Nat) (d : Int)
    (hr : InRange freq per hits)
    (hbehind : ((hits : Int) + 1) * per ≤ freq * elapsed)
    (h : constPace freq per elapsed hits = .wait d) : d ≤ 0 := by
  by_cases hd : 0 < d
  · have := const_positive_wait_on_schedule freq per elapsed hits d hr h hd; omega
  · omega

/-- "the count never falls more than one hit (plus one nanosecond of quantisation per hit
interval) behind the schedule at the instants hits are released": at the release instant the pacer
prescribes, `tr = max(elapsed,0) + d`, the schedule has reached the new count and has passed it by
less than the one nanosecond of rounding: `hits+1 ≤ S(tr) < hits+1 + Freq/Per`. -/
theorem const_lower (freq per elapsed : Int) (hits : Nat) (d : Int)
    (hr : InRange freq per hits)
    (h : constPace freq per elapsed hits = .wait d) (hd : 0 < d) :
    ((hits : Int) + 1) * per ≤ freq * (max elapsed 0 + d) ∧
    freq * (max elapsed 0 + d) < ((hits : Int) + 1) * per + freq := by
  obtain ⟨hf, _, _, heq⟩ := aux_positive_wait freq per elapsed hits d hr h hd
  have hc := @aux_ceil (((hits : Int) + 1) * per) freq hf
  rw [heq]
  unfold constDue
  rw [Int.mul_comm freq]
  omega

example : constPace 2 1000000000 4900000000 9 = .wait 100000000 := by decide
example : constPace 3 10 (-5) 0 = .wait 4 := by decide

/-! ## The closed loop: count against schedule along every trajectory -/

/-- Invariants of the pacer's answers lift to every state of every closed-loop run, for any
pacer, any stall history, any length. -/
theorem closedLoop_invariant (p : Int → Nat → PaceOut) (Inv : Int → Nat → Prop)
    (hstep : ∀ (t : Int) (n : Nat) (d : Int) (s : Nat), Inv t n → p t n = .wait d →
      t + max d 0 + (s : Int) ≤ maxInt64 → Inv (t + max d 0 + (s : Int)) (n + 1)) :
    ∀ (stalls : List Nat) (t : Int) (n : Nat), Inv t n →
      ∀ x ∈ closedLoop p stalls t n, Inv x.1 x.2 := by
  intro stalls
  induction stalls with
  | nil => intro t n _ x hx; simp [closedLoop] at hx
  | cons s rest ih =>
    intro t n hinv x hx
    unfold closedLoop at hx
    split at hx
    · rename_i d hw
      simp only [] at hx
      split at hx
      · rename_i hle
        have hnext := hstep t n d s hinv hw hle
        rcases List.mem_cons.1 hx with h | h
        · rw [h]; exact hnext
        · exact ih _ _ hnext x h
      · simp at hx
    · simp at hx
    · simp at hx

/-- Generic form of the upper clause: if every answer of a pacer releases the next hit no earlier
than a monotone schedule `S` reaches it (`n + 1 ≤ S (t + max d 0) + 1`), the count never exceeds the
schedule by more than one hit along any closed loop with any stall history. -/
theorem closedLoop_upper_of_contract (p : Int → Nat → PaceOut) (S : Int → Int)
    (hmono : ∀ a b : Int, a ≤ b → S a ≤ S b)
    (hcontract : ∀ (t : Int) (n : Nat) (d : Int), (n : Int) ≤ S t + 1 → p t n = .wait d →
      ((n + 1 : Nat) : Int) ≤ S (t + max d 0) + 1)
    (stalls : List Nat) (t0 : Int) (n0 : Nat) (h0 : (n0 : Int) ≤ S t0 + 1) :
    ∀ x ∈ closedLoop p stalls t0 n0, (x.2 : Int) ≤ S x.1 + 1 := by
  apply closedLoop_invariant p (fun t n => (n : Int) ≤ S t + 1) _ stalls t0 n0 h0
  intro t n d s hinv hw _
  have h1 := hcontract t n d hinv hw
  have h2 := hmono (t + max d 0) (t + max d 0 + (s : Int)) (by omega)
  omega


/-- "the number of hits issued by any elapsed time t never exceeds the pacer's declared cumulative
schedule by more than one hit": along EVERY closed loop — every positive frequency and unit of the
Go types (also more than one hit per nanosecond, also `Freq ∤ Per`), every stall history, every
length — the count never exceeds the exact schedule at all: `n_k ≤ S(t_k) = Freq·t_k/Per`. -/
theorem const_upper (freq per : Int) (hf : 0 < freq) (hp : 0 < per)
    (hf' : freq ≤ maxInt64) (hp' : per ≤ maxInt64) (stalls : List Nat) :
    ∀ x ∈ closedLoop (constPace freq per) stalls 0 0, (x.2 : Int) * per ≤ freq * x.1 := by
  have key := closedLoop_invariant (constPace freq per)
    (fun t n => 0 ≤ t ∧ (n : Int) < (two64 : Int) ∧ (n : Int) * per ≤ freq * t) ?_ stalls 0 0
    ⟨by omega, by unfold two64; omega, by simp⟩
  · intro x hx; exact (key x hx).2.2
  · intro t n d s ⟨ht0, hn, _⟩ hw _
    have hcast : ((n + 1 : Nat) : Int) = (n : Int) + 1 := by push_cast; ring
    rw [hcast]
    have hpos := aux_constPace_pos (elapsed := t) hf hp hf' hp' hn
    rw [hpos] at hw
    have hc := @aux_ceil (((n : Int) + 1) * per) freq hf
    have hmono : ∀ t' : Int, constDue freq per n ≤ t' → ((n : Int) + 1) * per ≤ freq * t' := by
      intro t' ht'
      have h1 : constDue freq per n * freq ≤ t' * freq :=
        Int.mul_le_mul_of_nonneg_right ht' (Int.le_of_lt hf)
      have h2 : t' * freq = freq * t' := by ring
      unfold constDue at h1
      omega
    split at hw
    · exact absurd hw PaceOut.noConfusion
    · rename_i hns
      refine ⟨by omega, by omega, ?_⟩
      split at hw
      · rename_i hle
        have hd : (0 : Int) = d := PaceOut.wait.inj hw
        apply hmono
        have : 0 ≤ max d 0 := Int.le_max_right d 0
        omega
      · rename_i hle
        have hd : constDue freq per n - max t 0 = d := PaceOut.wait.inj hw
        apply hmono
        have h1 : d ≤ max d 0 := Int.le_max_left d 0
        have h2 : max t 0 = t := Int.max_eq_left ht0
        omega

/-- The statement's form of the bound, `n_k ≤ S(t_k) + 1`. -/
theorem const_upper_plus_one (freq per : Int) (hf : 0 < freq) (hp : 0 < per)
    (hf' : freq ≤ maxInt64) (hp' : per ≤ maxInt64) (stalls : List Nat) :
    ∀ x ∈ closedLoop (constPace freq per) stalls 0 0, (x.2 : Int) * per ≤ freq * x.1 + per := by
  intro x hx
  have := const_upper freq per hf hp hf' hp' stalls x hx
  omega

/-- Before the repair: 3 hits per 10ns, no stalls: 11 hits at t = 33ns, S(33) = 9.9 (the truncated
interval ⌊Per/Freq⌋ ran ahead without bound whenever `Freq ∤ Per`). -/
theorem const_upper_old_counterexample :
    ∃ stalls, ∃ x ∈ closedLoop (constPaceOld 3 10) stalls 0 0,
      ¬ ((x.2 : Int) * 10 ≤ 3 * x.1 + 10) :=
  ⟨List.replicate 11 0, (33, 11), by decide, by decide⟩

example : ∃ x ∈ closedLoop (constPace 3 10) (List.replicate 11 0) 0 0, x = ((37 : Int), (11 : Nat)) := by
  decide
example : ∃ x ∈ closedLoop (constPace 2 10) [0, 7, 0] 0 0, x = ((17 : Int), (3 : Nat)) := by decide

/-- Along every closed loop no call panics (end reason 2 = panic), for all parameters. -/
theorem const_loop_never_panics (freq per : Int) (hf : inS64 freq) (stalls : List Nat) :
    ∀ (t : Int) (n : Nat), closedLoopEnd (constPace freq per) stalls t n ≠ 2 := by
  induction stalls with
  | nil => intro t n; simp [closedLoopEnd]
  | cons s rest ih =>
    intro t n
    unfold closedLoopEnd
    have hnp := const_never_panics freq per t n hf
    split
    · simp only []
      split
      · exact ih _ _
      · omega
    · omega
    · rename_i hpanic; exact absurd hpanic hnp

/-! ## Sine and linear pacers: decision structure, for ANY float operations -/

section floats
variable {F : Type} (o : FloatOps F)

/-- An invalid configuration (`Period ≤ 0`, mean rate `≤ 0`, amplitude `≥` mean) stops the attack. -/
theorem sine_invalid_stops (p : SineP F) (t : Int) (n : Nat) (h : sineInvalid o p = true) :
    sinePace o p t n = .stop := by
  unfold sinePace sinePaceX
  rw [if_pos h]

/-- `SinePacer.Pace` has no partial operation on any path (float division, the float→integer
conversions and the wrapping additions are total), whatever the float operations do. -/
theorem sine_never_panics (p : SineP F) (t : Int) (n : Nat) : sinePace o p t n ≠ .panic := by
  unfold sinePace sinePaceX
  split
  · exact PaceOut.noConfusion
  · split <;> exact PaceOut.noConfusion

/-- A positive wait is returned only when the count has reached the schedule as computed:
`hits ≥ uint64(H(t))`, and the configuration is valid. -/
theorem sine_positive_wait_on_schedule (p : SineP F) (t : Int) (n : Nat) (d : Int)
    (h : sinePace o p t n = .wait d) (hd : 0 < d) :
    sineInvalid o p = false ∧ o.toUInt64 (sineHits o p t) ≤ (n : Int) := by
  unfold sinePace sinePaceX at h
  split at h
  · exact absurd h PaceOut.noConfusion
  · rename_i hv
    split at h
    · injection h with h; omega
    · rename_i hb
      exact ⟨by simpa using hv, by omega⟩

theorem aux_sineIter_converged (p : SineP F) (t : Int) (n : Nat) :
    ∀ (k : Nat) (g : Int), (sineIter o p t n k g).2 = true →
      o.lt (o.abs (o.sub (o.ofUInt64 (wrapU64 ((n : Int) + 1)))
        (sineHits o p (wrapS64 (t + (sineIter o p t n k g).1))))) o.em3 = true := by
  intro k
  induction k with
  | zero => intro g h; simp [sineIter] at h
  | succ k ih =>
    intro g h
    unfold sineIter at h ⊢
    simp only [] at h ⊢
    split
    · rename_i hc; simpa using hc
    · rename_i hc
      rw [if_neg hc] at h
      exact ih _ h

/-- A return from inside the inversion loop is a converged one: the schedule at the prescribed
release instant is within 1e-3 hits of the new count, `|hits + 1 − H(t + wait)| < 1e-3`
(as computed).  The exit after the fifth iteration carries no such guarantee — that is where the
unchanged code runs away when the amplitude approaches the mean. -/
theorem sine_converged_exit (p : SineP F) (t : Int) (n : Nat) (w : Int)
    (h : sinePaceX o p t n = (.wait w, .converged)) :
    o.lt (o.abs (o.sub (o.ofUInt64 (wrapU64 ((n : Int) + 1)))
      (sineHits o p (wrapS64 (t + w))))) o.em3 = true := by
  unfold sinePaceX at h
  split at h
  · simp at h
  · split at h
    · simp at h
    · simp only [Prod.mk.injEq, PaceOut.wait.injEq] at h
      obtain ⟨hw, hx⟩ := h
      have hconv : (sineIter o p t n 5 (sineFirstGuess o p t n)).2 = true := by
        by_cases hc : (sineIter o p t n 5 (sineFirstGuess o p t n)).2 = true
        · exact hc
        · rw [if_neg hc] at hx; exact absurd hx (by decide)
      rw [← hw]
      exact aux_sineIter_converged o p t n 5 _ hconv

/-- Zero `StartAt` frequency/unit: unlimited rate. -/
theorem linear_zero_unlimited (p : LinearP F) (t : Int) (n : Nat) (hz : p.per = 0 ∨ p.freq = 0) :
    linearPace o p t n = .wait 0 := by
  unfold linearPace
  rw [if_pos hz]

/-- Negative `StartAt` frequency/unit stops the attack. -/
theorem linear_invalid_stops (p : LinearP F) (t : Int) (n : Nat)
    (hz : p.per ≠ 0 ∧ p.freq ≠ 0) (hneg : p.per < 0 ∨ p.freq < 0) :
    linearPace o p t n = .stop := by
  unfold linearPace
  rw [if_neg (by omega), if_pos hneg]

/-- `LinearPacer.Pace` never panics: its only partial operation, `math.MaxInt64/n`, is guarded
by `n != 0`. -/
theorem linear_never_panics (p : LinearP F) (t : Int) (n : Nat) : linearPace o p t n ≠ .panic := by
  unfold linearPace udiv
  split
  · exact PaceOut.noConfusion
  · split
    · exact PaceOut.noConfusion
    · simp only []
      split
      · exact PaceOut.noConfusion
      · split
        · rename_i hg
          split at hg
          · simp at hg
          · simp at hg
        · exact PaceOut.noConfusion
        · exact PaceOut.noConfusion

/-- A positive wait is returned only when the count has reached the schedule as computed:
`hits ≥ uint64(H(t))` (and at least one hit was sent). -/
theorem linear_positive_wait_on_schedule (p : LinearP F) (t : Int) (n : Nat) (d : Int)
    (h : linearPace o p t n = .wait d) (hd : 0 < d) :
    n ≠ 0 ∧ o.toUInt64 (linearHits o p t) ≤ (n : Int) := by
  unfold linearPace at h
  split at h
  · injection h with h; omega
  · split at h
    · exact absurd h PaceOut.noConfusion
    · simp only [] at h
      split at h
      · injection h with h; omega
      · rename_i hb
        exact ⟨by omega, by omega⟩

/-- Every answer of the sine pacer is a stop or one of the three waiting exits. -/
theorem aux_sine_exits (p : SineP F) (t : Int) (n : Nat) (d : Int)
    (h : sinePace o p t n = .wait d) :
    sinePaceX o p t n = (.wait d, .behind) ∨ sinePaceX o p t n = (.wait d, .converged) ∨
      sinePaceX o p t n = (.wait d, .unconverged) := by
  unfold sinePace at h
  unfold sinePaceX at h ⊢
  split
  · rename_i hv; rw [if_pos hv] at h; exact absurd h PaceOut.noConfusion
  · rename_i hv
    rw [if_neg hv] at h
    split
    · rename_i hb; rw [if_pos hb] at h; left; simp only [] at h; rw [h]
    · rename_i hb
      rw [if_neg hb] at h
      simp only [] at h ⊢
      injection h with h
      rw [h]
      by_cases hc : (sineIter o p t n 5 (sineFirstGuess o p t n)).2 = true
      · right; left; rw [if_pos hc]
      · right; right; rw [if_neg hc]

/-
FULL STATEMENT (not provable: it is about `sin`/`cos` and it is false for the present code when
the amplitude approaches the mean): along every closed loop of the sine pacer the count never
exceeds the schedule `H` by more than one hit.
What is proved: the closed-loop bound for ANY monotone schedule `S` (in hits) that the float
computation is sound for on the two good exits — the catch-up test (`hits < uint64(H(t))` implies
`hits + 1 ≤ S(t) + 1`) and the converged exit (`|hits+1 − H(t+w)| < 1e-3` implies
`hits + 1 ≤ S(t+w) + 1`) — under the hypothesis that no call leaves through the un-converged exit.
-/
theorem sine_upper_partial (p : SineP F) (S : Int → Int)
    (hmono : ∀ a b : Int, a ≤ b → S a ≤ S b)
    (hbehind : ∀ (t : Int) (n : Nat) (w : Int), sinePaceX o p t n = (.wait w, .behind) →
      ((n : Int) + 1) ≤ S (t + max w 0) + 1)
    (hconv : ∀ (t : Int) (n : Nat) (w : Int), sinePaceX o p t n = (.wait w, .converged) →
      ((n : Int) + 1) ≤ S (t + max w 0) + 1)
    (hnever : ∀ (t : Int) (n : Nat) (w : Int), sinePaceX o p t n ≠ (.wait w, .unconverged))
    (stalls : List Nat) (h0 : 0 ≤ S 0 + 1) :
    ∀ x ∈ closedLoop (sinePace o p) stalls 0 0, (x.2 : Int) ≤ S x.1 + 1 := by
  apply closedLoop_upper_of_contract (sinePace o p) S hmono _ stalls 0 0 (by simpa using h0)
  intro t n d _ hw
  have hcast : ((n + 1 : Nat) : Int) = (n : Int) + 1 := by push_cast; ring
  rw [hcast]
  rcases aux_sine_exits o p t n d hw with h | h | h
  · exact hbehind t n d h
  · exact hconv t n d h
  · exact absurd h (hnever t n d)

end floats

/-! Non-vacuity of the float theorems: a concrete instance (SoftF64 arithmetic, `sin = cos = 0`),
on which each exit of the sine pacer and a positive linear wait occur. -/
def nvOps : FloatOps F64 where
  ofInt64 := F64.ofInt
  ofUInt64 := F64.ofInt
  add := F64.add
  sub := F64.sub
  mul := F64.mul
  div := F64.div
  lt := F64.lt
  le := F64.le
  abs := F64.abs
  round := F64.round
  sin := fun _ => F64.posZero
  cos := fun _ => F64.posZero
  sq := fun x => F64.mul x x
  toInt64 := F64.toInt64
  toUInt64 := F64.toUInt64
  zero := F64.posZero
  one := F64.ofNat 1
  two := F64.ofNat 2
  pi := F64.ofDecimal 3141592653589793 (-15)
  twoPi := F64.ofDecimal 6283185307179586 (-15)
  e9 := F64.ofDecimal 1 9
  em3 := F64.ofDecimal 1 (-3)

def nvSine : SineP F64 :=
  { period := 1000000000, meanFreq := 100, meanPer := 1000000000, ampFreq := 50,
    ampPer := 1000000000, startAt := F64.posZero }

example : sinePaceX nvOps nvSine 0 0 = (.wait 10000000, .converged) := by decide +kernel
example : sinePaceX nvOps nvSine 1000000000 3 = (.wait 0, .behind) := by decide +kernel
example : sineInvalid nvOps { nvSine with ampFreq := 100 } = true := by decide +kernel
example : linearPace nvOps { freq := 10, per := 1000000000, slope := F64.ofNat 1 } 1000000000 11
    = .wait 136363636 := by decide +kernel

end Vegeta.Props.C01
