/-
C04 — The attack loop obeys its pacer and its duration.
The main-loop fragment of the attack transition system with an abstract monotone clock
(`advance d` may fire at any moment, `wake` only once the requested wait has elapsed).
-/
import Vegeta.Proofs.AttackInv
import Vegeta.Extracted.Facts
namespace Vegeta.Props.C04
open Vegeta.Model.Attack Vegeta.Proofs.Attack

variable {w m d : Nat} {s : St}

theorem aux_log_counts : ∀ (l : List (Nat × Nat × Option Int)), LogOK l →
    l.reverse.map (·.2.1) = List.range l.length := by
  intro l
  induction l with
  | nil => intro _; rfl
  | cons x rest ih =>
    intro h
    obtain ⟨e, c, w⟩ := x
    obtain ⟨hc, _, hr⟩ := h
    simp only [List.reverse_cons, List.map_append, List.map_cons, List.map_nil, ih hr, List.length_cons]
    rw [List.range_succ]; simp [hc]

theorem aux_log_sorted : ∀ (l : List (Nat × Nat × Option Int)), LogOK l →
    (l.reverse.map (·.1)).Pairwise (· ≤ ·) := by
  intro l
  induction l with
  | nil => intro _; simp
  | cons x rest ih =>
    intro h
    obtain ⟨e, c, w⟩ := x
    obtain ⟨_, he, hr⟩ := h
    simp only [List.reverse_cons, List.map_append, List.map_cons, List.map_nil]
    rw [List.pairwise_append]
    refine ⟨ih hr, by simp, ?_⟩
    intro a ha b hb
    simp at hb; subst hb
    obtain ⟨y, hy, rfl⟩ := List.mem_map.mp ha
    exact he y (List.mem_reverse.mp hy)

/-- **Before each hit the pacer is consulted with the true number of hits released so far
(0, 1, 2, …)**: the `hits` arguments of the consultations, oldest first, are `0, 1, …, k-1`. -/
theorem pace_called_with_true_count (h : Reachable w m d s) :
    s.paceLog.reverse.map (·.2.1) = List.range s.paceLog.length :=
  aux_log_counts _ (pace_reachable h).log

/-- **… exactly once per hit**: the number of consultations is the number of released hits, plus
one while a consultation is outstanding (or was abandoned by a stop). -/
theorem one_consult_per_release (h : Reachable w m d s) :
    s.releases.length = s.count ∧ s.count ≤ s.paceLog.length ∧ s.paceLog.length ≤ s.count + 1 :=
  ⟨(pace_reachable h).rel, (pace_reachable h).lenle⟩

/-- **… and a non-decreasing elapsed time measured from the attack's start.** -/
theorem elapsed_monotone (h : Reachable w m d s) : (s.paceLog.reverse.map (·.1)).Pairwise (· ≤ ·) :=
  aux_log_sorted _ (pace_reachable h).log

/-- **The elapsed time handed to the pacer is the true one**: a consultation happens at the
current clock value, which is never earlier than any hit released before it (so time the loop
spent blocked handing over the previous hit is included). -/
theorem consult_not_before_previous_releases (h : Reachable w m d s) (s' : St) (wt : Int)
    (hp : step s (.paceWait wt) = some s') :
    ∃ rest, s'.paceLog = (s.now, s.count, some wt) :: rest ∧ ∀ r ∈ s.releases, r ≤ s.now := by
  have p := pace_reachable h
  simp only [step] at hp
  split at hp
  · simp at hp; subst hp; exact ⟨s.paceLog, rfl, p.relnow⟩
  · cases hp

/-- **No hit starts earlier than the wait the pacer returned for it**: whenever a tick is handed
to a worker, the latest consultation was made with the current count, returned a wait `w`
(not stop), and at least `w` has elapsed since it. -/
theorem no_early_start (h : Reachable w m d s) (s' : St) (ht : step s .tick = some s') :
    ∃ e wt rest, s.paceLog = (e, s.count, some wt) :: rest ∧ e + wt.toNat ≤ s.now := by
  have p := pace_reachable h
  simp only [step] at ht
  split at ht
  · rename_i hg
    have hp : pending s.pc := by rcases hg.1 with h | h <;> simp [pending, h]
    obtain ⟨e, wt, rest, h1, _, h3⟩ := p.pend hp
    refine ⟨e, wt, rest, h1, h3 ?_⟩
    rcases hg.1 with h | h <;> rw [h] <;> simp
  · cases ht

/-- **At no moment have more hits started than the pacer has released.** -/
theorem started_le_released (h : Reachable w m d s) : s.seq ≤ s.count ∧ s.hits.length ≤ s.releases.length := by
  have c := core_reachable h
  have p := pace_reachable h
  have := c.cnt; have := c.seqlen; have := p.rel
  exact ⟨by omega, by omega⟩

/-- **When a duration is set, the pacer is never consulted once more than that duration has
elapsed.** -/
theorem no_consult_after_deadline (h : Reachable w m d s) (hd : s.du > 0) : ∀ x ∈ s.paceLog, x.1 ≤ s.du :=
  (pace_reachable h).dead hd

/-- **… so at most the one hit whose wait had already been requested is released after the
deadline.** -/
theorem at_most_one_late_release (h : Reachable w m d s) (hd : s.du > 0) :
    (s.releases.filter (fun r => decide (r > s.du))).length ≤ 1 :=
  (pace_reachable h).late1 hd

/-- **When the pacer says stop no further hit is released**: once the latest consultation
answered stop, no tick can be handed over any more, and the loop is in its closing sequence. -/
theorem pacer_stop_is_final (h : Reachable w m d s) (hs : ∃ e c rest, s.paceLog = (e, c, none) :: rest) :
    step s .tick = none ∧ (s.pc = .closeTicks ∨ afterCloseTicks s.pc = true) := by
  have p := pace_reachable h
  have hc := p.stopFin hs
  refine ⟨?_, hc⟩
  simp only [step]
  split
  · rename_i hg
    rcases hc with h | h <;> rcases hg.1 with h' | h' <;> rw [h'] at h <;> simp [afterCloseTicks] at h
  · rfl

/-- **After the deadline or a pacer stop the attack ends**: the only step of the main loop at
`pace` once the deadline has passed is the one entering the closing sequence, and a pacer stop
enters it directly. -/
theorem deadline_enters_closing (s' : St) (hpc : s.pc = .pace) (hpast : pastDeadline s = true) :
    (∀ wt, step s (.paceWait wt) = none) ∧ step s .paceStop = none ∧
    (step s .deadline = some s' → s'.pc = .closeTicks) := by
  refine ⟨by intro wt; simp [step, hpast], by simp [step, hpast], ?_⟩
  intro h; simp [step, hpc, hpast] at h; subst h; rfl

/-- **Every hit the pacer released is carried out — none is parked and forgotten**: at every
moment the hits released are exactly those that hold a tick, are in the critical section, or have
been given a sequence number; and once the attack has ended (`done`) every released hit has started,
so the number of hits equals the number of releases (seed `c04l`: a buffered hand-off channel lets a
released hit sit in the buffer when the loop ends — with no worker it is never carried out). -/
theorem released_hits_all_carried_out (h : Reachable w m d s) :
    s.count = s.got + csN s + s.seq ∧
    (s.pc = .done → s.hits.length = s.count ∧ s.releases.length = s.hits.length ∧ busyHits s = 0) := by
  have c := core_reachable h
  refine ⟨c.cnt, fun hd => ?_⟩
  have hex := c.ex (by rw [hd]; rfl)
  have hpop := c.pop
  have hcnt := c.cnt
  have hrel := (pace_reachable h).rel
  have hsl := c.seqlen
  refine ⟨by omega, by omega, by omega⟩

/-! #### source fact (binding) -/

/-- The hand-off channel `ticks` (and `results`) is unbuffered: a released hit is in a worker's hands the moment
the loop moves on (the model's `tick`), so "released" and "handed to a worker" coincide and nothing can be parked
between the loop and the workers (seed `c04l` gave the channel one slot). -/
theorem facts_handoff_unbuffered : Vegeta.Extracted.attackChans =
    [[114, 101, 115, 117, 108, 116, 115, 32, 117, 110, 98, 117, 102, 102, 101, 114, 101, 100],
     [116, 105, 99, 107, 115, 32, 117, 110, 98, 117, 102, 102, 101, 114, 101, 100]] := by decide

/-! non-vacuity -/
example : (run (init 1 1 10) [.ready, .paceWait 4, .advance 4, .wake, .tick, .advance 7, .deadline]).map
    (fun s => (s.pc, s.paceLog.map (fun x => (x.1, x.2.1, x.2.2 == some 4)), s.releases, s.count))
    = some (.closeTicks, [(0, 0, true)], [4], 1) := by decide
example : (run (init 1 1 0) [.ready, .paceWait 0, .wake, .tick, .csEnter, .csLeave, .paceStop, .finish 0, .deliver 0,
    .closeTicks, .exit, .wgDone, .closeResults, .finalStop]).map
    (fun s => (s.pc, s.hits.length, s.count, s.releases.length)) = some (.done, 1, 1, 1) := by decide

end Vegeta.Props.C04
