/-
C18 — Connections spread over all resolved and mapped addresses.
Property theorems about the model `Vegeta.Model.Dial` (helper lemmas are named `aux_*`).
Race-freedom itself is not a theorem (the model has no memory accesses); the logical face of
the races is (`rotation_lost_update_witness`).
-/
import Vegeta.Model.Dial
import Vegeta.Extracted.Facts
namespace Vegeta.Props.C18
open Vegeta.Go Vegeta.Model.Dial

variable {α : Type}

/-! ### firstOfEachIPFamily: the in-place loop computes `pick` and rewrites the array -/

theorem aux_pickGo_two (fam : α → Family) (l : List α) (n : Nat) (b : Bool) (h : 2 ≤ n) : pickGo fam l n b = [] := by
  cases l with
  | nil => rfl
  | cons x r => unfold pickGo; rw [if_neg (by omega)]

/-- Loop invariant: with `e` picked so far, the array is `e ++ ips.drop e.length`; the loop
finishes with `e ++ p ++ ips.drop (e.length + p.length)`, `p` the further picks. -/
theorem aux_foeLoop (fam : α → Family) (ips : List α) : ∀ (fuel i : Nat) (e : List α) (last : Bool),
    e.length ≤ i → ips.length ≤ fuel + i →
    foeLoop fam fuel i (e ++ ips.drop e.length) e.length last =
      (e ++ pickGo fam (ips.drop i) e.length last ++ ips.drop (e.length + (pickGo fam (ips.drop i) e.length last).length),
       e.length + (pickGo fam (ips.drop i) e.length last).length) := by
  intro fuel
  induction fuel with
  | zero =>
    intro i e last _ hlen
    have : ips.drop i = [] := List.drop_eq_nil_of_le (by omega)
    simp [foeLoop, this, pickGo]
  | succ fuel ih =>
    intro i e last hei hlen
    unfold foeLoop
    by_cases hn : e.length < 2
    · rw [if_pos hn]
      have hget : (e ++ ips.drop e.length)[i]? = ips[i]? := by
        rw [List.getElem?_append_right hei, List.getElem?_drop]
        congr 1; omega
      rw [hget]
      by_cases hi : i < ips.length
      · have hdrop : ips.drop i = ips[i] :: ips.drop (i + 1) := List.drop_eq_getElem_cons hi
        have hset : ∀ x, (e ++ ips.drop e.length).set e.length x = (e ++ [x]) ++ ips.drop (e.length + 1) := by
          intro x
          have he : e.length < ips.length := by omega
          have hd : ips.drop e.length = ips[e.length] :: ips.drop (e.length + 1) := List.drop_eq_getElem_cons he
          rw [List.set_append, if_neg (by omega), Nat.sub_self, hd, List.set_cons_zero]
          simp
        have ih' : ∀ (x : α) (b : Bool),
            foeLoop fam fuel (i + 1) (e ++ [x] ++ ips.drop (e.length + 1)) (e.length + 1) b =
              (e ++ [x] ++ pickGo fam (ips.drop (i + 1)) (e.length + 1) b ++
                ips.drop (e.length + 1 + (pickGo fam (ips.drop (i + 1)) (e.length + 1) b).length),
               e.length + 1 + (pickGo fam (ips.drop (i + 1)) (e.length + 1) b).length) := by
          intro x b
          have := ih (i + 1) (e ++ [x]) b (by simp; omega) (by omega)
          simpa only [List.length_append, List.length_cons, List.length_nil, Nat.zero_add] using this
        rw [List.getElem?_eq_getElem hi]
        simp only
        rw [hdrop]
        cases hf : fam ips[i] with
        | invalid =>
          simp only [pickGo, if_pos hn, hf]
          exact ih (i + 1) e last (by omega) (by omega)
        | v4 =>
          simp only [pickGo, if_pos hn, hf]
          by_cases hc : e.length = 0 ∨ true ≠ last
          · rw [if_pos hc, if_pos hc, hset, ih' ips[i] true]
            simp [Nat.add_assoc, Nat.add_comm 1]
          · rw [if_neg hc, if_neg hc]
            exact ih (i + 1) e last (by omega) (by omega)
        | v6 =>
          simp only [pickGo, if_pos hn, hf]
          by_cases hc : e.length = 0 ∨ false ≠ last
          · rw [if_pos hc, if_pos hc, hset, ih' ips[i] false]
            simp [Nat.add_assoc, Nat.add_comm 1]
          · rw [if_neg hc, if_neg hc]
            exact ih (i + 1) e last (by omega) (by omega)
      · have : ips.drop i = [] := List.drop_eq_nil_of_le (by omega)
        rw [List.getElem?_eq_none (by omega), this]
        simp [pickGo]
    · rw [if_neg hn, aux_pickGo_two fam _ _ _ (by omega)]
      simp

/-- The in-place function returns the pure pick and leaves `pick ++ (rest of the old array)`. -/
theorem aux_firstOfEachInPlace (fam : α → Family) (ips : List α) :
    firstOfEachInPlace fam ips = (pick fam ips ++ ips.drop (pick fam ips).length, (pick fam ips).length) := by
  unfold firstOfEachInPlace
  by_cases h : ips.length = 0
  · have : ips = [] := List.eq_nil_of_length_eq_zero h
    subst this; simp [pick, pickGo]
  · rw [if_neg h]
    have := aux_foeLoop fam ips ips.length 0 [] false (by simp) (by omega)
    simpa [pick] using this

theorem aux_firstOfEach_eq_pick (fam : α → Family) (ips : List α) : firstOfEach fam ips = pick fam ips := by
  unfold firstOfEach
  rw [aux_firstOfEachInPlace]
  simp

/-! ### what `pick` picks -/

def famOfBool (b : Bool) : Family := if b then .v4 else .v6
def otherOfBool (b : Bool) : Family := if b then .v6 else .v4

/-- with one address picked (of family `famOfBool b`): at most one more, the first of the other family -/
theorem aux_pickGo_one (fam : α → Family) (b : Bool) : ∀ (l : List α),
    (pickGo fam l 1 b).length ≤ 1 ∧ List.Sublist (pickGo fam l 1 b) l ∧
    (∀ z ∈ pickGo fam l 1 b, fam z = otherOfBool b) ∧
    (pickGo fam l 1 b).find? (fun z => fam z = otherOfBool b) = l.find? (fun z => fam z = otherOfBool b) := by
  intro l
  induction l with
  | nil => simp [pickGo]
  | cons x r ih =>
    obtain ⟨i1, i2, i3, i4⟩ := ih
    unfold pickGo
    rw [if_pos (by omega)]
    cases hf : fam x with
    | invalid =>
      simp only
      refine ⟨i1, i2.cons _, i3, ?_⟩
      rw [i4, List.find?_cons_of_neg]
      cases b <;> simp [hf, otherOfBool]
    | v4 =>
      simp only
      cases b with
      | true =>
        rw [if_neg (by simp)]
        refine ⟨i1, i2.cons _, i3, ?_⟩
        rw [i4, List.find?_cons_of_neg]; simp [hf, otherOfBool]
      | false =>
        rw [if_pos (by simp), aux_pickGo_two fam _ _ _ (by omega)]
        refine ⟨by simp, by simp, by simp [hf, otherOfBool], ?_⟩
        simp [hf, otherOfBool]
    | v6 =>
      simp only
      cases b with
      | false =>
        rw [if_neg (by simp)]
        refine ⟨i1, i2.cons _, i3, ?_⟩
        rw [i4, List.find?_cons_of_neg]; simp [hf, otherOfBool]
      | true =>
        rw [if_pos (by simp), aux_pickGo_two fam _ _ _ (by omega)]
        refine ⟨by simp, by simp, by simp [hf, otherOfBool], ?_⟩
        simp [hf, otherOfBool]

/-- all facts about `pick` in one induction -/
theorem aux_pick_spec (fam : α → Family) : ∀ (l : List α) (b : Bool),
    (pickGo fam l 0 b).length ≤ 2 ∧ List.Sublist (pickGo fam l 0 b) l ∧
    (∀ z ∈ pickGo fam l 0 b, fam z ≠ .invalid) ∧
    ((pickGo fam l 0 b).map fam).Nodup ∧
    (∀ f, f ≠ .invalid → (pickGo fam l 0 b).find? (fun z => fam z = f) = l.find? (fun z => fam z = f)) := by
  intro l
  induction l with
  | nil => intro b; simp [pickGo]
  | cons x r ih =>
    intro b
    unfold pickGo
    rw [if_pos (by omega)]
    cases hf : fam x with
    | invalid =>
      obtain ⟨i1, i2, i3, i4, i5⟩ := ih b
      simp only
      refine ⟨i1, i2.cons _, i3, i4, ?_⟩
      intro f hfne
      rw [i5 f hfne, List.find?_cons_of_neg]; simp [hf]; exact fun h => hfne h.symm
    | v4 =>
      simp only
      rw [if_pos (by simp)]
      obtain ⟨j1, j2, j3, j4⟩ := aux_pickGo_one fam true r
      refine ⟨by simp; omega, j2.cons_cons _, ?_, ?_, ?_⟩
      · intro z hz
        rcases List.mem_cons.mp hz with h | h
        · subst h; rw [hf]; simp
        · rw [j3 z h]; simp [otherOfBool]
      · rw [List.map_cons, List.nodup_cons]
        refine ⟨?_, ?_⟩
        · intro hm
          obtain ⟨z, hz, hzf⟩ := List.mem_map.mp hm
          rw [j3 z hz, hf] at hzf; simp [otherOfBool] at hzf
        · match hp : pickGo fam r 1 true with
          | [] => simp
          | [z] => simp
          | _ :: _ :: _ => rw [hp] at j1; simp at j1
      · intro f hfne
        cases f with
        | invalid => exact absurd rfl hfne
        | v4 => simp [hf]
        | v6 =>
          rw [List.find?_cons_of_neg (by simp [hf]), List.find?_cons_of_neg (by simp [hf])]
          exact j4
    | v6 =>
      simp only
      rw [if_pos (by simp)]
      obtain ⟨j1, j2, j3, j4⟩ := aux_pickGo_one fam false r
      refine ⟨by simp; omega, j2.cons_cons _, ?_, ?_, ?_⟩
      · intro z hz
        rcases List.mem_cons.mp hz with h | h
        · subst h; rw [hf]; simp
        · rw [j3 z h]; simp [otherOfBool]
      · rw [List.map_cons, List.nodup_cons]
        refine ⟨?_, ?_⟩
        · intro hm
          obtain ⟨z, hz, hzf⟩ := List.mem_map.mp hm
          rw [j3 z hz, hf] at hzf; simp [otherOfBool] at hzf
        · match hp : pickGo fam r 1 false with
          | [] => simp
          | [z] => simp
          | _ :: _ :: _ => rw [hp] at j1; simp at j1
      · intro f hfne
        cases f with
        | invalid => exact absurd rfl hfne
        | v6 => simp [hf]
        | v4 =>
          rw [List.find?_cons_of_neg (by simp [hf]), List.find?_cons_of_neg (by simp [hf])]
          exact j4

/-- "one per IP family": `firstOfEachIPFamily` returns at most two addresses, in input order
(a sublist), none of them unparsable, no two of the same family, and for each family the
FIRST address of that family in the input (so every family present is represented).
It also rewrites the caller's array: afterwards the array holds the picks followed by the
old contents from that position on. -/
theorem first_of_each_family_spec (fam : α → Family) (ips : List α) :
    (firstOfEach fam ips).length ≤ 2 ∧
    List.Sublist (firstOfEach fam ips) ips ∧
    (∀ z ∈ firstOfEach fam ips, fam z ≠ .invalid) ∧
    ((firstOfEach fam ips).map fam).Nodup ∧
    (∀ f, f ≠ .invalid → (firstOfEach fam ips).find? (fun z => fam z = f) = ips.find? (fun z => fam z = f)) ∧
    (firstOfEachInPlace fam ips).1 = firstOfEach fam ips ++ ips.drop (firstOfEach fam ips).length := by
  rw [aux_firstOfEach_eq_pick, aux_firstOfEachInPlace]
  obtain ⟨h1, h2, h3, h4, h5⟩ := aux_pick_spec fam ips false
  exact ⟨h1, h2, h3, h4, h5, rfl⟩

/-- IPv4-mapped IPv6 addresses count as IPv4 because `net.IP.To4` accepts them: that is part
of the classification parameter `fam`, e.g. `::ffff:c000:280` ↦ v4 — nothing to prove here. -/
example : firstOfEach (fun n : Nat => if n < 10 then Family.v4 else if n < 20 then .v6 else .invalid)
    [25, 3, 4, 25, 12, 5, 13] = [3, 12] := by decide

/-! ### shuffle -/

theorem aux_swap_perm (l : List α) (i j : Nat) : (swap l i j).Perm l := by
  unfold swap
  cases hi : l[i]? with
  | none => exact List.Perm.refl _
  | some a =>
    cases hj : l[j]? with
    | none => exact List.Perm.refl _
    | some b =>
      have hil : i < l.length := by
        rcases Nat.lt_or_ge i l.length with h | h
        · exact h
        · rw [List.getElem?_eq_none h] at hi; cases hi
      have hjl : j < l.length := by
        rcases Nat.lt_or_ge j l.length with h | h
        · exact h
        · rw [List.getElem?_eq_none h] at hj; cases hj
      have ha : a = l[i] := by rw [List.getElem?_eq_getElem hil] at hi; injection hi with h; exact h.symm
      have hb : b = l[j] := by rw [List.getElem?_eq_getElem hjl] at hj; injection hj with h; exact h.symm
      subst ha; subst hb
      exact List.set_set_perm hil hjl

theorem aux_shuffleLoop_perm : ∀ (i : Nat) (js : List Nat) (l : List α), (shuffleLoop i js l).Perm l := by
  intro i
  induction i with
  | zero => intro js l; exact List.Perm.refl _
  | succ i ih => intro js l; unfold shuffleLoop; exact (ih _ _).trans (aux_swap_perm _ _ _)

/-- `rng.Shuffle` only permutes -/
theorem shuffle_perm (js : List Nat) (l : List α) : (shuffle js l).Perm l := aux_shuffleLoop_perm _ _ _

/-! ### dialling through the DNS cache -/

theorem aux_dialStep (fam : α → Family) (js : List Nat) (cache : List α) :
    (dialStep fam js cache).1 = pick fam (shuffle js cache) ∧
    (dialStep fam js cache).2 = pick fam (shuffle js cache) ++ (shuffle js cache).drop (pick fam (shuffle js cache)).length := by
  unfold dialStep
  simp only [aux_firstOfEachInPlace]
  simp

theorem aux_dialStep_subset (fam : α → Family) (js : List Nat) (cache : List α) :
    (∀ x ∈ (dialStep fam js cache).1, x ∈ cache) ∧ (∀ x ∈ (dialStep fam js cache).2, x ∈ cache) := by
  obtain ⟨h1, h2⟩ := aux_dialStep fam js cache
  have hsub := (aux_pick_spec fam (shuffle js cache) false).2.1
  have hp := shuffle_perm js cache
  constructor
  · intro x hx; rw [h1] at hx; exact hp.mem_iff.mp (hsub.subset hx)
  · intro x hx; rw [h2] at hx
    rcases List.mem_append.mp hx with h | h
    · exact hp.mem_iff.mp (hsub.subset h)
    · exact hp.mem_iff.mp (List.mem_of_mem_drop h)

/-- "every connection attempt for a host goes to an address currently resolved for it": in
any history of dials (any random choices) every dialled address is one of the addresses the
cache entry started with, and so is every element left in the cached array. -/
theorem dial_targets_subset_resolved (fam : α → Family) : ∀ (choices : List (List Nat)) (cache : List α),
    (∀ t ∈ (dialMany fam choices cache).1, ∀ x ∈ t, x ∈ cache) ∧ (∀ x ∈ (dialMany fam choices cache).2, x ∈ cache) := by
  intro choices
  induction choices with
  | nil => intro cache; simp [dialMany]
  | cons js rest ih =>
    intro cache
    obtain ⟨s1, s2⟩ := aux_dialStep_subset fam js cache
    obtain ⟨i1, i2⟩ := ih (dialStep fam js cache).2
    unfold dialMany
    simp only
    constructor
    · intro t ht x hx
      rcases List.mem_cons.mp ht with h | h
      · subst h; exact s1 x hx
      · exact s2 x (i1 t h x hx)
    · intro x hx; exact s2 x (i2 x hx)

/-- "one per IP family": each dial goes to at most two addresses, valid ones, of different
families, and to one of EVERY family that is (still) present in the cached array. -/
theorem dial_one_per_family (fam : α → Family) (js : List Nat) (cache : List α) :
    (dialStep fam js cache).1.length ≤ 2 ∧ (∀ z ∈ (dialStep fam js cache).1, fam z ≠ .invalid) ∧
    ((dialStep fam js cache).1.map fam).Nodup ∧
    (∀ x ∈ cache, fam x ≠ .invalid → ∃ z ∈ (dialStep fam js cache).1, fam z = fam x) := by
  rw [(aux_dialStep fam js cache).1]
  obtain ⟨h1, _, h3, h4, h5⟩ := aux_pick_spec fam (shuffle js cache) false
  refine ⟨h1, h3, h4, ?_⟩
  intro x hx hv
  have hx' : x ∈ shuffle js cache := (shuffle_perm js cache).mem_iff.mpr hx
  have := h5 (fam x) hv
  cases hfind : (shuffle js cache).find? (fun z => fam z = fam x) with
  | none =>
    have := List.find?_eq_none.mp hfind x hx'
    simp at this
  | some z =>
    rw [hfind] at this
    have hz := List.mem_of_find?_eq_some this
    have hzf := List.find?_some this
    exact ⟨z, hz, by simpa using hzf⟩

/-! #### the cached address multiset

Full statement of the clause ("repeated or concurrent dialling never shrinks or alters the
cached address set"):

    ∀ fam choices cache, (dialMany fam choices cache).2.Perm cache

FALSE for the code as it stands (DESIGN §8 #12): the compaction `each = ips[:0]; append` of
`firstOfEachIPFamily` overwrites the array it shares with the DNS cache. -/

def fam4 (n : Nat) : Family := if n < 2 then .v4 else .v6

/-- `[a4, b4, c6, d6]`, one dial whose shuffle leaves the order alone: dialled `a4, c6`, the
cache now holds `[a4, c6, c6, d6]` — `b4` is gone for good. -/
theorem cache_multiset_invariant_counterexample :
    dialStep fam4 [3, 2, 1] [0, 1, 2, 3] = ([0, 2], [0, 2, 2, 3]) ∧
    ¬ (dialStep fam4 [3, 2, 1] [0, 1, 2, 3]).2.Perm [0, 1, 2, 3] := by decide

/-- after a second dial (shuffled to `c6, d6, c6, a4`) exactly one address per family is left,
whatever is dialled afterwards (by `dial_targets_subset_resolved`) -/
theorem cache_collapse_witness :
    (dialMany fam4 [[3, 2, 1], [0, 1, 0]] [0, 1, 2, 3]).2 = [2, 0, 2, 0] ∧
    ∀ choices, ∀ t ∈ (dialMany fam4 choices [2, 0, 2, 0]).1, ∀ x ∈ t, x = 0 ∨ x = 2 := by
  refine ⟨by decide, ?_⟩
  intro choices t ht x hx
  have := (dial_targets_subset_resolved fam4 choices [2, 0, 2, 0]).1 t ht x hx
  simp at this; omega

/-- the cases in which dialling cannot alter the cached multiset: every address valid and
either all of one family or at most two addresses -/
def Harmless (fam : α → Family) (cache : List α) : Prop :=
  (∀ x ∈ cache, fam x ≠ .invalid) ∧ ((∀ x ∈ cache, ∀ y ∈ cache, fam x = fam y) ∨ cache.length ≤ 2)

theorem aux_pickGo_one_same (fam : α → Family) (b : Bool) : ∀ (l : List α),
    (∀ x ∈ l, fam x = famOfBool b) → pickGo fam l 1 b = [] := by
  intro l
  induction l with
  | nil => intro _; rfl
  | cons x r ih =>
    intro h
    have hx := h x (by simp)
    have hr := ih (fun y hy => h y (by simp [hy]))
    unfold pickGo
    rw [if_pos (by omega)]
    cases b <;> simp [famOfBool] at hx <;> simp [hx, hr]

theorem aux_pick_prefix (fam : α → Family) (l : List α) (h : Harmless fam l) : pick fam l <+: l := by
  obtain ⟨hv, hc⟩ := h
  cases l with
  | nil => simp [pick, pickGo]
  | cons x r =>
    have hvx := hv x (by simp)
    rcases hc with hsame | hlen
    · -- one family: only the head is picked
      have hr : ∀ y ∈ r, fam y = fam x := fun y hy => hsame y (by simp [hy]) x (by simp)
      unfold pick pickGo
      rw [if_pos (by omega)]
      cases hf : fam x with
      | invalid => exact absurd hf hvx
      | v4 =>
        simp only
        rw [if_pos (by simp), aux_pickGo_one_same fam true r (by intro y hy; rw [hr y hy, hf]; rfl)]
        exact ⟨r, rfl⟩
      | v6 =>
        simp only
        rw [if_pos (by simp), aux_pickGo_one_same fam false r (by intro y hy; rw [hr y hy, hf]; rfl)]
        exact ⟨r, rfl⟩
    · -- at most two valid addresses
      match r, hlen, hv with
      | [], _, _ =>
        unfold pick pickGo
        rw [if_pos (by omega)]
        cases hf : fam x with
        | invalid => exact absurd hf hvx
        | v4 => simp [pickGo]
        | v6 => simp [pickGo]
      | [y], _, hv =>
        have hvy := hv y (by simp)
        unfold pick pickGo
        rw [if_pos (by omega)]
        cases hf : fam x with
        | invalid => exact absurd hf hvx
        | v4 =>
          cases hg : fam y with
          | invalid => exact absurd hg hvy
          | v4 => simp [pickGo, hg]
          | v6 => simp [pickGo, hg]
        | v6 =>
          cases hg : fam y with
          | invalid => exact absurd hg hvy
          | v4 => simp [pickGo, hg]
          | v6 => simp [pickGo, hg]
      | _ :: _ :: _, hlen, _ => simp at hlen

theorem aux_harmless_perm (fam : α → Family) (l l' : List α) (hp : l'.Perm l) (h : Harmless fam l) : Harmless fam l' := by
  obtain ⟨hv, hc⟩ := h
  refine ⟨fun x hx => hv x (hp.mem_iff.mp hx), ?_⟩
  rcases hc with hs | hl
  · exact Or.inl (fun x hx y hy => hs x (hp.mem_iff.mp hx) y (hp.mem_iff.mp hy))
  · exact Or.inr (by rw [hp.length_eq]; exact hl)

theorem aux_dialStep_harmless (fam : α → Family) (js : List Nat) (cache : List α) (h : Harmless fam cache) :
    (dialStep fam js cache).2 = shuffle js cache := by
  rw [(aux_dialStep fam js cache).2]
  have hpre := aux_pick_prefix fam (shuffle js cache) (aux_harmless_perm fam cache _ (shuffle_perm js cache) h)
  generalize pick fam (shuffle js cache) = p at *
  obtain ⟨t, ht⟩ := hpre
  rw [← ht, List.drop_left]

/-- `cache_multiset_invariant`, proved for the address sets on which the compaction happens
to write every element onto itself: all addresses valid (DNS answers always are) and either a
single IP family (any number of addresses) or at most two addresses.  For mixed families with
three or more addresses the statement is false (`cache_multiset_invariant_counterexample`). -/
theorem cache_multiset_invariant_partial (fam : α → Family) : ∀ (choices : List (List Nat)) (cache : List α),
    Harmless fam cache → (dialMany fam choices cache).2.Perm cache := by
  intro choices
  induction choices with
  | nil => intro cache _; exact List.Perm.refl _
  | cons js rest ih =>
    intro cache h
    unfold dialMany
    simp only
    have hs := aux_dialStep_harmless fam js cache h
    have hp : (dialStep fam js cache).2.Perm cache := by rw [hs]; exact shuffle_perm js cache
    exact (ih _ (aux_harmless_perm fam cache _ hp h)).trans hp

example : Harmless fam4 [0, 1, 0, 1, 1] := ⟨by decide, Or.inl (by decide)⟩
example : Harmless fam4 [1, 3] := ⟨by decide, Or.inr (by decide)⟩

/-! ### every address can be chosen -/

theorem aux_swap_self (l : List α) (i : Nat) : swap l i i = l := by
  unfold swap
  cases h : l[i]? with
  | none => rfl
  | some a =>
    simp only
    have hil : i < l.length := by
      rcases Nat.lt_or_ge i l.length with h' | h'
      · exact h'
      · rw [List.getElem?_eq_none h'] at h; cases h
    rw [List.set_set]
    apply List.ext_getElem?
    intro k
    rw [List.getElem?_set]
    by_cases hk : i = k
    · subst hk
      have : a = l[i] := by rw [List.getElem?_eq_getElem hil] at h; injection h with h; exact h.symm
      simp [hil, this]
    · simp [hk]

theorem aux_swap_length (l : List α) (i j : Nat) : (swap l i j).length = l.length :=
  (aux_swap_perm l i j).length_eq

theorem aux_swap_zero (l : List α) (i : Nat) (x : α) (hx : l[i]? = some x) (h0 : 0 < l.length) :
    (swap l i 0)[0]? = some x := by
  unfold swap
  rw [hx]
  cases h : l[0]? with
  | none => rw [List.getElem?_eq_none_iff] at h; omega
  | some b =>
    simp only
    rw [List.getElem?_set]
    simp [h0]

/-- some sequence of random numbers brings the element at position `p ≤ i` to the front -/
theorem aux_shuffle_front (x : α) : ∀ (i : Nat) (l : List α) (p : Nat), p ≤ i → i < l.length → l[p]? = some x →
    ∃ js, (shuffleLoop i js l)[0]? = some x := by
  intro i
  induction i with
  | zero =>
    intro l p hp _ hx
    have : p = 0 := by omega
    subst this
    exact ⟨[], by simpa [shuffleLoop] using hx⟩
  | succ i ih =>
    intro l p hp hl hx
    by_cases hpi : p = i + 1
    · -- swap it to the front now, leave it there
      subst hpi
      have h0 := aux_swap_zero l (i + 1) x hx (by omega)
      obtain ⟨js, hjs⟩ := ih (swap l (i + 1) 0) 0 (by omega) (by rw [aux_swap_length]; omega) h0
      refine ⟨0 :: js, ?_⟩
      unfold shuffleLoop
      simpa using hjs
    · -- a swap of position i+1 with itself changes nothing
      obtain ⟨js, hjs⟩ := ih l p (by omega) (by omega) hx
      refine ⟨(i + 1) :: js, ?_⟩
      unfold shuffleLoop
      have : (i + 1) % (i + 2) = i + 1 := Nat.mod_eq_of_lt (by omega)
      simp only [List.headD_cons, List.tail_cons, this, aux_swap_self]
      exact hjs

theorem aux_pick_head (fam : α → Family) (x : α) (r : List α) (hv : fam x ≠ .invalid) : x ∈ pick fam (x :: r) := by
  unfold pick pickGo
  rw [if_pos (by omega)]
  cases hf : fam x with
  | invalid => exact absurd hf hv
  | v4 => simp
  | v6 => simp

/-- "one per IP family picked at random … so every resolved address keeps being used": every
valid address that is in the cached array is dialled for some outcome of the shuffle. -/
theorem every_address_reachable (fam : α → Family) (cache : List α) (x : α) (hx : x ∈ cache) (hv : fam x ≠ .invalid) :
    ∃ js, x ∈ (dialStep fam js cache).1 := by
  obtain ⟨p, hp, hget⟩ := List.mem_iff_getElem.mp hx
  have hget' : cache[p]? = some x := by rw [List.getElem?_eq_getElem hp, hget]
  obtain ⟨js, hjs⟩ := aux_shuffle_front x (cache.length - 1) cache p (by omega) (by omega) hget'
  refine ⟨js, ?_⟩
  rw [(aux_dialStep fam js cache).1]
  have hsh : shuffle js cache = shuffleLoop (cache.length - 1) js cache := rfl
  rw [hsh]
  cases hl : shuffleLoop (cache.length - 1) js cache with
  | nil => rw [hl] at hjs; simp at hjs
  | cons y r =>
    rw [hl] at hjs
    have : y = x := by simpa using hjs
    subst this
    exact aux_pick_head fam y r hv

example : ∃ js, 1 ∈ (dialStep fam4 js [0, 1, 2, 3]).1 := ⟨[3, 0, 1], by decide⟩
example : ∃ js, 3 ∈ (dialStep fam4 js [0, 1, 2, 3]).1 := ⟨[0, 2, 1], by decide⟩

/-! ### ConnectTo and the custom resolver: rotation -/

/-- distance (minus one) from counter `n` to the next use of index `i` -/
def gap (k n i : Nat) : Nat := if n < i then i - n - 1 else i + k - n - 1

theorem aux_succ_mod (k n : Nat) (hn : n < k) : (n + 1) % k = if n + 1 < k then n + 1 else 0 := by
  by_cases h : n + 1 < k
  · rw [if_pos h, Nat.mod_eq_of_lt h]
  · rw [if_neg h]
    have : n + 1 = k := by omega
    rw [this, Nat.mod_self]

/-- counting invariant of the rotation: with `c` uses of index `i` in `m` dials from counter `n`,
`k·c + gap + 1 ≤ m + k` and `m ≤ k·c + gap`. -/
theorem aux_rr_count (k i : Nat) (hi : i < k) : ∀ (m n : Nat), n < k →
    k * (rrSeq k m n).count i + gap k n i + 1 ≤ m + k ∧ m ≤ k * (rrSeq k m n).count i + gap k n i := by
  intro m
  induction m with
  | zero => intro n hn; simp [rrSeq, gap]; split <;> omega
  | succ m ih =>
    intro n hn
    unfold rrSeq
    have hmod := aux_succ_mod k n hn
    have hn' : (n + 1) % k < k := Nat.mod_lt _ (by omega)
    obtain ⟨i1, i2⟩ := ih ((n + 1) % k) hn'
    rw [List.count_cons]
    generalize (rrSeq k m ((n + 1) % k)).count i = c at *
    by_cases hhit : (n + 1) % k = i
    · have hb : ((n + 1) % k == i) = true := by simp [hhit]
      rw [hb, if_pos rfl, Nat.mul_add, Nat.mul_one]
      rw [hhit] at i1 i2
      have g1 : gap k i i = k - 1 := by unfold gap; rw [if_neg (by omega)]; omega
      have g2 : gap k n i = 0 := by
        unfold gap; rw [hmod] at hhit
        split at hhit <;> split <;> omega
      rw [g1] at i1 i2; rw [g2]
      omega
    · have hb : ((n + 1) % k == i) = false := by simp [hhit]
      rw [hb]
      simp only [Bool.false_eq_true, if_false, Nat.add_zero]
      have g : gap k n i = gap k ((n + 1) % k) i + 1 := by
        rw [hmod] at hhit ⊢
        unfold gap
        split at hhit <;> split <;> split <;> omega
      rw [g]; omega

/-- "dials to a mapped address rotate evenly over its replacement addresses": `m` sequential
dials (counter starting at 0, as `ConnectTo` creates it) over `k ≥ 1` replacements use
index `j mod k` for the j-th dial (j = 1, 2, …; so the first pick is index 1, or 0 when
k = 1), and every index is used ⌊m/k⌋ or ⌈m/k⌉ times. -/
theorem connect_to_rotation (k m : Nat) (hk : 0 < k) :
    rrSeq k m 0 = (List.range m).map (fun j => (j + 1) % k) ∧
    (∀ i, i < k → m / k ≤ (rrSeq k m 0).count i ∧ (rrSeq k m 0).count i ≤ (m + k - 1) / k) ∧
    (∀ x ∈ rrSeq k m 0, x < k) := by
  have hseq : ∀ (m n : Nat), rrSeq k m (n % k) = (List.range m).map (fun j => (n + j + 1) % k) := by
    intro m
    induction m with
    | zero => intro n; simp [rrSeq]
    | succ m ih =>
      intro n
      unfold rrSeq
      have h1 : (n % k + 1) % k = (n + 1) % k := by rw [Nat.add_mod, Nat.mod_mod, ← Nat.add_mod]
      rw [h1, ih (n + 1), List.range_succ_eq_map, List.map_cons, List.map_map]
      congr 1
      apply List.map_congr_left
      intro j _
      simp only [Function.comp]
      congr 1; omega
  have h0 := hseq m 0
  rw [Nat.zero_mod] at h0
  refine ⟨by rw [h0]; apply List.map_congr_left; intro j _; simp, ?_, ?_⟩
  · intro i hi
    obtain ⟨c1, c2⟩ := aux_rr_count k i hi m 0 hk
    have hg : gap k 0 i ≤ k - 1 := by unfold gap; split <;> omega
    generalize (rrSeq k m 0).count i = c at *
    constructor
    · -- m ≤ k*c + (k-1) < k*(c+1)
      have : m < k * (c + 1) := by rw [Nat.mul_add, Nat.mul_one]; omega
      have := (Nat.div_lt_iff_lt_mul hk).mpr (by rw [Nat.mul_comm] at this; exact this)
      omega
    · apply (Nat.le_div_iff_mul_le hk).mpr
      rw [Nat.mul_comm]; omega
  · intro x hx
    rw [h0] at hx
    obtain ⟨j, _, hj⟩ := List.mem_map.mp hx
    rw [← hj]; exact Nat.mod_lt _ hk

example : rrSeq 3 7 0 = [1, 2, 0, 1, 2, 0, 1] := by decide

/-- the sequential step is what the code does in one dial; an empty replacement list is a
division by zero -/
theorem rr_next_spec (k n : Nat) : (k = 0 → rrNext k n = .panic) ∧ (0 < k → rrNext k n = .ok ((n + 1) % k, (n + 1) % k)) := by
  unfold rrNext
  constructor
  · intro h; rw [if_pos h]
  · intro h; rw [if_neg (by omega)]

/-- "concurrent hits cause no data race in the dial path" is not provable of a model without
memory; its logical face is: the three memory operations of `ConnectTo`'s rotation are not
atomic, and two interleaved dials (reads first, then writes, then the second reads) pick the
SAME replacement while the counter advanced only once. -/
theorem rotation_lost_update_witness :
    ∃ s, rrRun (RRState.init 3 2) [0, 1, 0, 1, 0, 1] = some s ∧
      s.ws.map (·.picked) = [some 1, some 1] ∧ s.n = 1 := by
  exact ⟨_, rfl, by decide, by decide⟩

/-- …and even when the two increments do not collide, the second read of the counter lets
both dials use the address the later increment selected -/
theorem rotation_reread_witness :
    ∃ s, rrRun (RRState.init 3 2) [0, 0, 1, 1, 0, 1] = some s ∧
      s.ws.map (·.picked) = [some 2, some 2] ∧ s.n = 2 := by
  exact ⟨_, rfl, by decide, by decide⟩

/-- run without interleaving, a worker's three operations are exactly the sequential step -/
theorem rr_atomic_is_sequential (k n : Nat) (hk : 0 < k) :
    ∃ s, rrRun { n := n, k := k, ws := [{ pc := 0, tmp := 0, picked := none }] } [0, 0, 0] = some s ∧
      s.n = (n + 1) % k ∧ s.ws.map (·.picked) = [some ((n + 1) % k)] ∧ rrNext k n = .ok (s.n, (n + 1) % k) := by
  refine ⟨_, rfl, rfl, rfl, ?_⟩
  exact (rr_next_spec k n).2 hk

/-- "custom resolver rotation": `atomic.AddUint64(&idx, 1) % len` hands every call its own
ticket, so (before the 64-bit counter wraps) the calls use the addresses in strict rotation:
the same index sequence as the sequential ConnectTo rotation, hence the same even spread. -/
theorem resolver_rotation (k : Nat) (_hk : 0 < k) : ∀ (m idx : Nat), idx + m < two64 →
    resolverSeq k m idx = rrSeq k m (idx % k) ∧
    resolverSeq k m idx = (List.range m).map (fun j => (idx + j + 1) % k) := by
  intro m
  induction m with
  | zero => intro idx _; simp [resolverSeq, rrSeq]
  | succ m ih =>
    intro idx h
    have hw : (idx + 1) % two64 = idx + 1 := Nat.mod_eq_of_lt (by omega)
    obtain ⟨i1, i2⟩ := ih (idx + 1) (by omega)
    have h1 : (idx % k + 1) % k = (idx + 1) % k := by rw [Nat.add_mod, Nat.mod_mod, ← Nat.add_mod]
    constructor
    · unfold resolverSeq rrSeq
      rw [hw, h1, i1]
    · unfold resolverSeq
      rw [hw, i2, List.range_succ_eq_map, List.map_cons, List.map_map]
      congr 1
      apply List.map_congr_left
      intro j _
      simp only [Function.comp]
      congr 1; omega

example : resolverSeq 3 7 0 = [1, 2, 0, 1, 2, 0, 1] := by decide
example : resolverSeq 3 2 (two64 - 1) = [0, 1] := by decide   -- the counter wraps: outside the hypothesis

theorem resolver_rotation_even (k m : Nat) (hk : 0 < k) (hm : m < two64) (i : Nat) (hi : i < k) :
    m / k ≤ (resolverSeq k m 0).count i ∧ (resolverSeq k m 0).count i ≤ (m + k - 1) / k := by
  rw [(resolver_rotation k hk m 0 (by omega)).1, Nat.zero_mod]
  exact (connect_to_rotation k m hk).2.1 i hi

/-! ### composition: unmapped addresses pass through, mapped ones rotate -/

/-- "unmapped addresses pass through unchanged": a `ConnectTo` layer hands an address that is
not a key of its map to the dial function underneath, untouched, and keeps its counters. -/
theorem connect_to_unmapped_passthrough (w : World) (m : List (HP × (List HP × Nat))) (ch : List (List Nat)) (a : HP)
    (h : m.find? (·.1 = a) = none) :
    dialVia w [.connectTo m] ch a = .ok ([a], [.connectTo m], ch) := by
  unfold dialVia
  simp [dialViaF, h]

/-- a mapped address goes to the replacement selected by the rotation, and only the counter
of that key advances -/
theorem connect_to_mapped (w : World) (m : List (HP × (List HP × Nat))) (ch : List (List Nat)) (a a' : HP)
    (addrs : List HP) (n : Nat) (h : m.find? (·.1 = a) = some (a, (addrs, n)))
    (hk : 0 < addrs.length) (ha : addrs[(n + 1) % addrs.length]? = some a') :
    dialVia w [.connectTo m] ch a =
      .ok ([a'], [.connectTo (m.map (fun e => if e.1 = a then (e.1, (addrs, (n + 1) % addrs.length)) else e))], ch) := by
  unfold dialVia
  simp [dialViaF, h, (rr_next_spec addrs.length n).2 hk, ha]

/-- the two orders in which the command line could compose the options differ: with
`ConnectTo` applied after `DNSCaching` (the command's order) the replacement NAME is what gets
resolved; the other way round the resolved ADDRESS is looked up in the map. -/
example :
    let w : World := { answers := [([1], [[10]]), ([2], [[20]])], fam := [([10], .v4), ([20], .v4)] }
    let m : List (HP × (List HP × Nat)) := [({ host := [1], port := [80] }, ([{ host := [2], port := [81] }], 0))]
    (match dialVia w [.connectTo m, .dns []] [] { host := [1], port := [80] } with
      | .ok (out, _, _) => out | _ => []) = [{ host := [20], port := [81] }] ∧
    (match dialVia w [.dns [], .connectTo m] [] { host := [1], port := [80] } with
      | .ok (out, _, _) => out | _ => []) = [{ host := [10], port := [80] }] := by decide

/-! ### facts regenerated from the source (go/ast): what the correspondence cannot observe

The model treats the ConnectTo rotation as an unsynchronised read-modify-write followed by a
second read, the shuffle and the compaction as writes to the very slice the cache handed out,
and the custom resolver's rotation as one atomic step.  These obligations compare that with
the current source text; they break (and force the model to be revisited) when the code
changes, e.g. when a lock, an atomic operation or a copy is added. -/

/-- the two statements executed for a mapped address, with no lock and no atomic operation
anywhere in the dial closure of `ConnectTo` -/
theorem facts_connect_to_unsynchronised_rmw :
    Vegeta.Extracted.c18ConnectToFound = true ∧ Vegeta.Extracted.c18ConnectToSyncCalls = 0 ∧
    Vegeta.Extracted.c18ConnectToMappedStmts =
      [ [99, 109, 46, 110, 32, 61, 32, 40, 99, 109, 46, 110, 32, 43, 32, 49, 41, 32, 37, 32, 108, 101, 110, 40, 99, 109, 46, 97, 100, 100, 114, 115, 41],   -- cm.n = (cm.n + 1) % len(cm.addrs)
        [97, 100, 100, 114, 32, 61, 32, 99, 109, 46, 97, 100, 100, 114, 115, 91, 99, 109, 46, 110, 93] ]                -- addr = cm.addrs[cm.n]
    := by decide

/-- the slice returned by `resolver.LookupHost` is shuffled (swap on the same variable) and
handed to `firstOfEachIPFamily` without being reassigned/copied in between, inside a closure
with no lock and no atomic operation; `firstOfEachIPFamily` builds its result in `ips[:0]` -/
theorem facts_dns_shuffle_and_compaction_in_place :
    Vegeta.Extracted.c18DnsLookupVar = [105, 112, 115] ∧                                   -- ips
    Vegeta.Extracted.c18DnsShuffleLen = [108, 101, 110, 40, 105, 112, 115, 41] ∧                             -- len(ips)
    Vegeta.Extracted.c18DnsShuffleSwap = [105, 112, 115, 91, 105, 93, 44, 32, 105, 112, 115, 91, 106, 93, 32, 61, 32, 105, 112, 115, 91, 106, 93, 44, 32, 105, 112, 115, 91, 105, 93] ∧     -- ips[i], ips[j] = ips[j], ips[i]
    Vegeta.Extracted.c18DnsAssignsBeforeShuffle = 0 ∧
    Vegeta.Extracted.c18DnsFoeAssign = [105, 112, 115, 32, 61, 32, 102, 105, 114, 115, 116, 79, 102, 69, 97, 99, 104, 73, 80, 70, 97, 109, 105, 108, 121, 40, 105, 112, 115, 41] ∧        -- ips = firstOfEachIPFamily(ips)
    Vegeta.Extracted.c18DnsSyncCalls = 0 ∧
    Vegeta.Extracted.c18FoeEachInit = [101, 97, 99, 104, 32, 61, 32, 105, 112, 115, 91, 58, 48, 93] ∧                         -- each = ips[:0]
    Vegeta.Extracted.c18FoeEachAppend = [101, 97, 99, 104, 32, 61, 32, 97, 112, 112, 101, 110, 100, 40, 101, 97, 99, 104, 44, 32, 105, 112, 115, 91, 105, 93, 41]            -- each = append(each, ips[i])
    := by decide

/-- the custom resolver advances its counter with one atomic add and uses the returned value -/
theorem facts_resolver_rotation_atomic :
    Vegeta.Extracted.c18ResolverAddressBody =
      [114, 101, 116, 117, 114, 110, 32, 114, 46, 97, 100, 100, 114, 115, 91, 97, 116, 111, 109, 105, 99, 46, 65, 100, 100, 85, 105, 110, 116, 54, 52, 40, 38, 114, 46, 105, 100, 120, 44, 32, 49, 41, 37, 117, 105, 110, 116, 54, 52, 40, 108, 101, 110, 40, 114, 46, 97, 100, 100, 114, 115, 41, 41, 93]   -- return r.addrs[atomic.AddUint64(&r.idx, 1)%uint64(len(r.addrs))]
    := by decide

/-- the command applies `DNSCaching` before `ConnectTo` (so `ConnectTo` is the outer layer), after
every other option that replaces the transport's dial function -/
theorem facts_command_option_order :
    Vegeta.Extracted.c18CommandDialOptionOrder =
      [ [76, 111, 99, 97, 108, 65, 100, 100, 114], [75, 101, 101, 112, 65, 108, 105, 118, 101], [72, 50, 67], [85, 110, 105, 120, 83, 111, 99, 107, 101, 116], [68, 78, 83, 67, 97, 99, 104, 105, 110, 103], [67, 111, 110, 110, 101, 99, 116, 84, 111] ]
    := by decide

end Vegeta.Props.C18
