/-
C18 — Connections spread over all resolved and mapped addresses.
Property theorems about the model `Vegeta.Model.Dial` (helper lemmas are named `aux_*`).
Race-freedom itself is not a theorem (the model has no memory accesses); its logical face is
`connect_to_rotation_concurrent` / `connect_to_tickets_unique` (every interleaving of the atomic
step) against `rotation_lost_update_old_witness` (the former non-atomic shape).
-/
import Vegeta.Model.Dial
import Vegeta.Model.DialCompose
import Vegeta.Extracted.Facts
namespace Vegeta.Props.C18
open Vegeta.Go Vegeta.Model.Dial

variable {α : Type}

/-! ### firstOfEachIPFamily: the in-place loop computes `pick` and rewrites the array -/

theorem aux_pickGo_two (fam : α → Family) (l : List α) (n : Nat) (b : Bool) (h : 2 ≤ n) : pickGo fam l n b = [] := by
  cases l with
  | nil => rfl
  | cons x r => unfold pickGo; rw [if_neg (by omega)]

/-- Loop invariant: with `e` picked so far, the array is `e ++ ips.drop e.length`; the loop
finishes with `e ++ p ++ ips.drop (e.length + p.length)`, `p` the further picks. -/
theorem aux_foeLoop (fam : α → Family) (ips : List α) : ∀ (fuel i : Nat) (e : List α) (last : Bool),
    e.length ≤ i → ips.length ≤ fuel + i →
    foeLoop fam fuel i (e ++ ips.drop e.length) e.length last =
      (e ++ pickGo fam (ips.drop i) e.length last ++ ips.drop (e.length + (pickGo fam (ips.drop i) e.length last).length),
       e.length + (pickGo fam (ips.drop i) e.length last).length) := by
  intro fuel
  induction fuel with
  | zero =>
    intro i e last _ hlen
    have : ips.drop i = [] := List.drop_eq_nil_of_le (by omega)
    simp [foeLoop, this, pickGo]
  | succ fuel ih =>
    intro i e last hei hlen
    unfold foeLoop
    by_cases hn : e.length < 2
    · rw [if_pos hn]
      have hget : (e ++ ips.drop e.length)[i]? = ips[i]? := by
        rw [List.getElem?_append_right hei, List.getElem?_drop]
        congr 1; omega
      rw [hget]
      by_cases hi : i < ips.length
      · have hdrop : ips.drop i = ips[i] :: ips.drop (i + 1) := List.drop_eq_getElem_cons hi
        have hset : ∀ x, (e ++ ips.drop e.length).set e.length x = (e ++ [x]) ++ ips.drop (e.length + 1) := by
          intro x
          have he : e.length < ips.length := by omega
          have hd : ips.drop e.length = ips[e.length] :: ips.drop (e.length + 1) := List.drop_eq_getElem_cons he
          rw [List.set_append, if_neg (by omega), Nat.sub_self, hd, List.set_cons_zero]
          simp
        have ih' : ∀ (x : α) (b : Bool),
            foeLoop fam fuel (i + 1) (e ++ [x] ++ ips.drop (e.length + 1)) (e.length + 1) b =
              (e ++ [x] ++ pickGo fam (ips.drop (i + 1)) (e.length + 1) b ++
                ips.drop (e.length + 1 + (pickGo fam (ips.drop (i + 1)) (e.length + 1) b).length),
               e.length + 1 + (pickGo fam (ips.drop (i + 1)) (e.length + 1) b).length) := by
          intro x b
          have := ih (i + 1) (e ++ [x]) b (by simp; omega) (by omega)
          simpa only [List.length_append, List.length_cons, List.length_nil, Nat.zero_add] using this
        rw [List.getElem?_eq_getElem hi]
        simp only
        rw [hdrop]
        cases hf : fam ips[i] with
        | invalid =>
          simp only [pickGo, if_pos hn, hf]
          exact ih (i + 1) e last (by omega) (by omega)
        | v4 =>
          simp only [pickGo, if_pos hn, hf]
          by_cases hc : e.length = 0 ∨ true ≠ last
          · rw [if_pos hc, if_pos hc, hset, ih' ips[i] true]
            simp [Nat.add_assoc, Nat.add_comm 1]
          · rw [if_neg hc, if_neg hc]
            exact ih (i + 1) e last (by omega) (by omega)
        | v6 =>
          simp only [pickGo, if_pos hn, hf]
          by_cases hc : e.length = 0 ∨ false ≠ last
          · rw [if_pos hc, if_pos hc, hset, ih' ips[i] false]
            simp [Nat.add_assoc, Nat.add_comm 1]
          · rw [if_neg hc, if_neg hc]
            exact ih (i + 1) e last (by omega) (by omega)
      · have : ips.drop i = [] := List.drop_eq_nil_of_le (by omega)
        rw [List.getElem?_eq_none (by omega), this]
        simp [pickGo]
    · rw [if_neg hn, aux_pickGo_two fam _ _ _ (by omega)]
      simp

/-- The in-place function returns the pure pick and leaves `pick ++ (rest of the old array)`. -/
theorem aux_firstOfEachInPlace (fam : α → Family) (ips : List α) :
    firstOfEachInPlace fam ips = (pick fam ips ++ ips.drop (pick fam ips).length, (pick fam ips).length) := by
  unfold firstOfEachInPlace
  by_cases h : ips.length = 0
  · have : ips = [] := List.eq_nil_of_length_eq_zero h
    subst this; simp [pick, pickGo]
  · rw [if_neg h]
    have := aux_foeLoop fam ips ips.length 0 [] false (by simp) (by omega)
    simpa [pick] using this

theorem aux_firstOfEach_eq_pick (fam : α → Family) (ips : List α) : firstOfEach fam ips = pick fam ips := by
  unfold firstOfEach
  rw [aux_firstOfEachInPlace]
  simp

/-! ### what `pick` picks -/

def famOfBool (b : Bool) : Family := if b then .v4 else .v6
def otherOfBool (b : Bool) : Family := if b then .v6 else .v4

/-- with one address picked (of family `famOfBool b`): at most one more, the first of the other family -/
theorem aux_pickGo_one (fam : α → Family) (b : Bool) : ∀ (l : List α),
    (pickGo fam l 1 b).length ≤ 1 ∧ List.Sublist (pickGo fam l 1 b) l ∧
    (∀ z ∈ pickGo fam l 1 b, fam z = otherOfBool b) ∧
    (pickGo fam l 1 b).find? (fun z => fam z = otherOfBool b) = l.find? (fun z => fam z = otherOfBool b) := by
  intro l
  induction l with
  | nil => simp [pickGo]
  | cons x r ih =>
    obtain ⟨i1, i2, i3, i4⟩ := ih
    unfold pickGo
    rw [if_pos (by omega)]
    cases hf : fam x with
    | invalid =>
      simp only
      refine ⟨i1, i2.cons _, i3, ?_⟩
      rw [i4, List.find?_cons_of_neg]
      cases b <;> simp [hf, otherOfBool]
    | v4 =>
      simp only
      cases b with
      | true =>
        rw [if_neg (by simp)]
        refine ⟨i1, i2.cons _, i3, ?_⟩
        rw [i4, List.find?_cons_of_neg]; simp [hf, otherOfBool]
      | false =>
        rw [if_pos (by simp), aux_pickGo_two fam _ _ _ (by omega)]
        refine ⟨by simp, by simp, by simp [hf, otherOfBool], ?_⟩
        simp [hf, otherOfBool]
    | v6 =>
      simp only
      cases b with
      | false =>
        rw [if_neg (by simp)]
        refine ⟨i1, i2.cons _, i3, ?_⟩
        rw [i4, List.find?_cons_of_neg]; simp [hf, otherOfBool]
      | true =>
        rw [if_pos (by simp), aux_pickGo_two fam _ _ _ (by omega)]
        refine ⟨by simp, by simp, by simp [hf, otherOfBool], ?_⟩
        simp [hf, otherOfBool]

/-- all facts about `pick` in one induction -/
theorem aux_pick_spec (fam : α → Family) : ∀ (l : List α) (b : Bool),
    (pickGo fam l 0 b).length ≤ 2 ∧ List.Sublist (pickGo fam l 0 b) l ∧
    (∀ z ∈ pickGo fam l 0 b, fam z ≠ .invalid) ∧
    ((pickGo fam l 0 b).map fam).Nodup ∧
    (∀ f, f ≠ .invalid → (pickGo fam l 0 b).find? (fun z => fam z = f) = l.find? (fun z => fam z = f)) := by
  intro l
  induction l with
  | nil => intro b; simp [pickGo]
  | cons x r ih =>
    intro b
    unfold pickGo
    rw [if_pos (by omega)]
    cases hf : fam x with
    | invalid =>
      obtain ⟨i1, i2, i3, i4, i5⟩ := ih b
      simp only
      refine ⟨i1, i2.cons _, i3, i4, ?_⟩
      intro f hfne
      rw [i5 f hfne, List.find?_cons_of_neg]; simp [hf]; exact fun h => hfne h.symm
    | v4 =>
      simp only
      rw [if_pos (by simp)]
      obtain ⟨j1, j2, j3, j4⟩ := aux_pickGo_one fam true r
      refine ⟨by simp; omega, j2.cons_cons _, ?_, ?_, ?_⟩
      · intro z hz
        rcases List.mem_cons.mp hz with h | h
        · subst h; rw [hf]; simp
        · rw [j3 z h]; simp [otherOfBool]
      · rw [List.map_cons, List.nodup_cons]
        refine ⟨?_, ?_⟩
        · intro hm
          obtain ⟨z, hz, hzf⟩ := List.mem_map.mp hm
          rw [j3 z hz, hf] at hzf; simp [otherOfBool] at hzf
        · match hp : pickGo fam r 1 true with
          | [] => simp
          | [z] => simp
          | _ :: _ :: _ => rw [hp] at j1; simp at j1
      · intro f hfne
        cases f with
        | invalid => exact absurd rfl hfne
        | v4 => simp [hf]
        | v6 =>
          rw [List.find?_cons_of_neg (by simp [hf]), List.find?_cons_of_neg (by simp [hf])]
          exact j4
    | v6 =>
      simp only
      rw [if_pos (by simp)]
      obtain ⟨j1, j2, j3, j4⟩ := aux_pickGo_one fam false r
      refine ⟨by simp; omega, j2.cons_cons _, ?_, ?_, ?_⟩
      · intro z hz
        rcases List.mem_cons.mp hz with h | h
        · subst h; rw [hf]; simp
        · rw [j3 z h]; simp [otherOfBool]
      · rw [List.map_cons, List.nodup_cons]
        refine ⟨?_, ?_⟩
        · intro hm
          obtain ⟨z, hz, hzf⟩ := List.mem_map.mp hm
          rw [j3 z hz, hf] at hzf; simp [otherOfBool] at hzf
        · match hp : pickGo fam r 1 false with
          | [] => simp
          | [z] => simp
          | _ :: _ :: _ => rw [hp] at j1; simp at j1
      · intro f hfne
        cases f with
        | invalid => exact absurd rfl hfne
        | v6 => simp [hf]
        | v4 =>
          rw [List.find?_cons_of_neg (by simp [hf]), List.find?_cons_of_neg (by simp [hf])]
          exact j4

/-- "one per IP family": `firstOfEachIPFamily` returns at most two addresses, in input order
(a sublist), none of them unparsable, no two of the same family, and for each family the
FIRST address of that family in the input (so every family present is represented).
It also rewrites the caller's array: afterwards the array holds the picks followed by the
old contents from that position on. -/
theorem first_of_each_family_spec (fam : α → Family) (ips : List α) :
    (firstOfEach fam ips).length ≤ 2 ∧
    List.Sublist (firstOfEach fam ips) ips ∧
    (∀ z ∈ firstOfEach fam ips, fam z ≠ .invalid) ∧
    ((firstOfEach fam ips).map fam).Nodup ∧
    (∀ f, f ≠ .invalid → (firstOfEach fam ips).find? (fun z => fam z = f) = ips.find? (fun z => fam z = f)) ∧
    (firstOfEachInPlace fam ips).1 = firstOfEach fam ips ++ ips.drop (firstOfEach fam ips).length := by
  rw [aux_firstOfEach_eq_pick, aux_firstOfEachInPlace]
  obtain ⟨h1, h2, h3, h4, h5⟩ := aux_pick_spec fam ips false
  exact ⟨h1, h2, h3, h4, h5, rfl⟩

/-- IPv4-mapped IPv6 addresses count as IPv4 because `net.IP.To4` accepts them: that is part
of the classification parameter `fam`, e.g. `::ffff:c000:280` ↦ v4 — nothing to prove here. -/
example : firstOfEach (fun n : Nat => if n < 10 then Family.v4 else if n < 20 then .v6 else .invalid)
    [25, 3, 4, 25, 12, 5, 13] = [3, 12] := by decide

/-! ### shuffle -/

theorem aux_swap_perm (l : List α) (i j : Nat) : (swap l i j).Perm l := by
  unfold swap
  cases hi : l[i]? with
  | none => exact List.Perm.refl _
  | some a =>
    cases hj : l[j]? with
    | none => exact List.Perm.refl _
    | some b =>
      have hil : i < l.length := by
        rcases Nat.lt_or_ge i l.length with h | h
        · exact h
        · rw [List.getElem?_eq_none h] at hi; cases hi
      have hjl : j < l.length := by
        rcases Nat.lt_or_ge j l.length with h | h
        · exact h
        · rw [List.getElem?_eq_none h] at hj; cases hj
      have ha : a = l[i] := by rw [List.getElem?_eq_getElem hil] at hi; injection hi with h; exact h.symm
      have hb : b = l[j] := by rw [List.getElem?_eq_getElem hjl] at hj; injection hj with h; exact h.symm
      subst ha; subst hb
      exact List.set_set_perm hil hjl

theorem aux_shuffleLoop_perm : ∀ (i : Nat) (js : List Nat) (l : List α), (shuffleLoop i js l).Perm l := by
  intro i
  induction i with
  | zero => intro js l; exact List.Perm.refl _
  | succ i ih => intro js l; unfold shuffleLoop; exact (ih _ _).trans (aux_swap_perm _ _ _)

/-- `rng.Shuffle` only permutes -/
theorem shuffle_perm (js : List Nat) (l : List α) : (shuffle js l).Perm l := aux_shuffleLoop_perm _ _ _

/-! ### dialling through the DNS cache -/

def fam4 (n : Nat) : Family := if n < 2 then .v4 else .v6

theorem aux_dialStep (fam : α → Family) (js : List Nat) (cache : List α) :
    (dialStep fam js cache).1 = pick fam (shuffle js cache) ∧ (dialStep fam js cache).2 = cache := by
  unfold dialStep
  simp only [aux_firstOfEachInPlace]
  simp

/-- "repeated or concurrent dialling never shrinks or alters the cached address set": a dial
shuffles and compacts a COPY (fix da2a0f6), so after any history of dials, whatever the random
choices, the cached list is the very list that was resolved — same elements, same order.
(The in-place rewriting by `firstOfEachIPFamily`, `first_of_each_family_spec`, now hits the copy.) -/
theorem cache_multiset_invariant (fam : α → Family) : ∀ (choices : List (List Nat)) (cache : List α),
    (dialMany fam choices cache).2 = cache := by
  intro choices
  induction choices with
  | nil => intro cache; rfl
  | cons js rest ih =>
    intro cache
    unfold dialMany
    simp only
    rw [(aux_dialStep fam js cache).2]
    exact ih cache

/-- the former defect witness `[a4, b4, c6, d6]` (it became `[a4, c6, c6, d6]`): unchanged now -/
example : dialStep fam4 [3, 2, 1] [0, 1, 2, 3] = ([0, 2], [0, 1, 2, 3]) := by decide

/-- every dial of a history is a dial on the originally resolved list -/
theorem aux_dialMany_targets (fam : α → Family) : ∀ (choices : List (List Nat)) (cache : List α),
    ∀ t ∈ (dialMany fam choices cache).1, ∃ js, t = pick fam (shuffle js cache) := by
  intro choices
  induction choices with
  | nil => intro cache t ht; simp [dialMany] at ht
  | cons js rest ih =>
    intro cache t ht
    unfold dialMany at ht
    simp only at ht
    rw [(aux_dialStep fam js cache).2] at ht
    rcases List.mem_cons.mp ht with h | h
    · exact ⟨js, by rw [h, (aux_dialStep fam js cache).1]⟩
    · exact ih cache t h

/-- "every connection attempt for a host goes to an address currently resolved for it": in
any history of dials (any random choices) every dialled address is one of the resolved ones. -/
theorem dial_targets_subset_resolved (fam : α → Family) (choices : List (List Nat)) (cache : List α) :
    ∀ t ∈ (dialMany fam choices cache).1, ∀ x ∈ t, x ∈ cache := by
  intro t ht x hx
  obtain ⟨js, hjs⟩ := aux_dialMany_targets fam choices cache t ht
  rw [hjs] at hx
  have hsub := (aux_pick_spec fam (shuffle js cache) false).2.1
  exact (shuffle_perm js cache).mem_iff.mp (hsub.subset hx)

theorem aux_pick_one_per_family (fam : α → Family) (js : List Nat) (cache : List α) :
    (pick fam (shuffle js cache)).length ≤ 2 ∧ (∀ z ∈ pick fam (shuffle js cache), fam z ≠ .invalid) ∧
    ((pick fam (shuffle js cache)).map fam).Nodup ∧
    (∀ x ∈ cache, fam x ≠ .invalid → ∃ z ∈ pick fam (shuffle js cache), fam z = fam x) := by
  obtain ⟨h1, _, h3, h4, h5⟩ := aux_pick_spec fam (shuffle js cache) false
  refine ⟨h1, h3, h4, ?_⟩
  intro x hx hv
  have hx' : x ∈ shuffle js cache := (shuffle_perm js cache).mem_iff.mpr hx
  have := h5 (fam x) hv
  cases hfind : (shuffle js cache).find? (fun z => fam z = fam x) with
  | none =>
    have := List.find?_eq_none.mp hfind x hx'
    simp at this
  | some z =>
    rw [hfind] at this
    have hz := List.mem_of_find?_eq_some this
    have hzf := List.find?_some this
    exact ⟨z, hz, by simpa using hzf⟩

/-- "one per IP family": each dial goes to at most two addresses, valid ones, of different
families, and to one of EVERY family among the resolved addresses. -/
theorem dial_one_per_family (fam : α → Family) (js : List Nat) (cache : List α) :
    (dialStep fam js cache).1.length ≤ 2 ∧ (∀ z ∈ (dialStep fam js cache).1, fam z ≠ .invalid) ∧
    ((dialStep fam js cache).1.map fam).Nodup ∧
    (∀ x ∈ cache, fam x ≠ .invalid → ∃ z ∈ (dialStep fam js cache).1, fam z = fam x) := by
  rw [(aux_dialStep fam js cache).1]
  exact aux_pick_one_per_family fam js cache

/-- …and this holds for EVERY dial of every history, with respect to the originally resolved
set: no family (and, by `every_address_keeps_being_reachable`, no address) ever drops out. -/
theorem dial_history_one_per_family (fam : α → Family) (choices : List (List Nat)) (cache : List α) :
    ∀ t ∈ (dialMany fam choices cache).1,
      t.length ≤ 2 ∧ (t.map fam).Nodup ∧ (∀ x ∈ cache, fam x ≠ .invalid → ∃ z ∈ t, fam z = fam x) := by
  intro t ht
  obtain ⟨js, hjs⟩ := aux_dialMany_targets fam choices cache t ht
  obtain ⟨h1, _, h3, h4⟩ := aux_pick_one_per_family fam js cache
  rw [hjs]; exact ⟨h1, h3, h4⟩

/-! ### every address can be chosen -/

theorem aux_swap_self (l : List α) (i : Nat) : swap l i i = l := by
  unfold swap
  cases h : l[i]? with
  | none => rfl
  | some a =>
    simp only
    have hil : i < l.length := by
      rcases Nat.lt_or_ge i l.length with h' | h'
      · exact h'
      · rw [List.getElem?_eq_none h'] at h; cases h
    rw [List.set_set]
    apply List.ext_getElem?
    intro k
    rw [List.getElem?_set]
    by_cases hk : i = k
    · subst hk
      have : a = l[i] := by rw [List.getElem?_eq_getElem hil] at h; injection h with h; exact h.symm
      simp [hil, this]
    · simp [hk]

theorem aux_swap_length (l : List α) (i j : Nat) : (swap l i j).length = l.length :=
  (aux_swap_perm l i j).length_eq

theorem aux_swap_zero (l : List α) (i : Nat) (x : α) (hx : l[i]? = some x) (h0 : 0 < l.length) :
    (swap l i 0)[0]? = some x := by
  unfold swap
  rw [hx]
  cases h : l[0]? with
  | none => rw [List.getElem?_eq_none_iff] at h; omega
  | some b =>
    simp only
    rw [List.getElem?_set]
    simp [h0]

/-- some sequence of random numbers brings the element at position `p ≤ i` to the front -/
theorem aux_shuffle_front (x : α) : ∀ (i : Nat) (l : List α) (p : Nat), p ≤ i → i < l.length → l[p]? = some x →
    ∃ js, (shuffleLoop i js l)[0]? = some x := by
  intro i
  induction i with
  | zero =>
    intro l p hp _ hx
    have : p = 0 := by omega
    subst this
    exact ⟨[], by simpa [shuffleLoop] using hx⟩
  | succ i ih =>
    intro l p hp hl hx
    by_cases hpi : p = i + 1
    · -- swap it to the front now, leave it there
      subst hpi
      have h0 := aux_swap_zero l (i + 1) x hx (by omega)
      obtain ⟨js, hjs⟩ := ih (swap l (i + 1) 0) 0 (by omega) (by rw [aux_swap_length]; omega) h0
      refine ⟨0 :: js, ?_⟩
      unfold shuffleLoop
      simpa using hjs
    · -- a swap of position i+1 with itself changes nothing
      obtain ⟨js, hjs⟩ := ih l p (by omega) (by omega) hx
      refine ⟨(i + 1) :: js, ?_⟩
      unfold shuffleLoop
      have : (i + 1) % (i + 2) = i + 1 := Nat.mod_eq_of_lt (by omega)
      simp only [List.headD_cons, List.tail_cons, this, aux_swap_self]
      exact hjs

theorem aux_pick_head (fam : α → Family) (x : α) (r : List α) (hv : fam x ≠ .invalid) : x ∈ pick fam (x :: r) := by
  unfold pick pickGo
  rw [if_pos (by omega)]
  cases hf : fam x with
  | invalid => exact absurd hf hv
  | v4 => simp
  | v6 => simp

/-- "one per IP family picked at random … so every resolved address keeps being used": every
valid address that is in the cached array is dialled for some outcome of the shuffle. -/
theorem every_address_reachable (fam : α → Family) (cache : List α) (x : α) (hx : x ∈ cache) (hv : fam x ≠ .invalid) :
    ∃ js, x ∈ (dialStep fam js cache).1 := by
  obtain ⟨p, hp, hget⟩ := List.mem_iff_getElem.mp hx
  have hget' : cache[p]? = some x := by rw [List.getElem?_eq_getElem hp, hget]
  obtain ⟨js, hjs⟩ := aux_shuffle_front x (cache.length - 1) cache p (by omega) (by omega) hget'
  refine ⟨js, ?_⟩
  rw [(aux_dialStep fam js cache).1]
  have hsh : shuffle js cache = shuffleLoop (cache.length - 1) js cache := rfl
  rw [hsh]
  cases hl : shuffleLoop (cache.length - 1) js cache with
  | nil => rw [hl] at hjs; simp at hjs
  | cons y r =>
    rw [hl] at hjs
    have : y = x := by simpa using hjs
    subst this
    exact aux_pick_head fam y r hv

example : ∃ js, 1 ∈ (dialStep fam4 js [0, 1, 2, 3]).1 := ⟨[3, 0, 1], by decide⟩
example : ∃ js, 3 ∈ (dialStep fam4 js [0, 1, 2, 3]).1 := ⟨[0, 2, 1], by decide⟩

/-- "so every resolved address keeps being used over time": after ANY history of dials every
valid resolved address is still dialled for some outcome of the next shuffle. -/
theorem every_address_keeps_being_reachable (fam : α → Family) (choices : List (List Nat)) (cache : List α) (x : α)
    (hx : x ∈ cache) (hv : fam x ≠ .invalid) :
    ∃ js, x ∈ (dialStep fam js (dialMany fam choices cache).2).1 := by
  rw [cache_multiset_invariant]
  exact every_address_reachable fam cache x hx hv

/-! ### ConnectTo and the custom resolver: rotation -/

/-- distance (minus one) from counter `n` to the next use of index `i` -/
def gap (k n i : Nat) : Nat := if n < i then i - n - 1 else i + k - n - 1

theorem aux_succ_mod (k n : Nat) (hn : n < k) : (n + 1) % k = if n + 1 < k then n + 1 else 0 := by
  by_cases h : n + 1 < k
  · rw [if_pos h, Nat.mod_eq_of_lt h]
  · rw [if_neg h]
    have : n + 1 = k := by omega
    rw [this, Nat.mod_self]

/-- counting invariant of the rotation: with `c` uses of index `i` in `m` dials from counter `n`,
`k·c + gap + 1 ≤ m + k` and `m ≤ k·c + gap`. -/
theorem aux_rr_count (k i : Nat) (hi : i < k) : ∀ (m n : Nat), n < k →
    k * (rrSeq k m n).count i + gap k n i + 1 ≤ m + k ∧ m ≤ k * (rrSeq k m n).count i + gap k n i := by
  intro m
  induction m with
  | zero => intro n hn; simp [rrSeq, gap]; split <;> omega
  | succ m ih =>
    intro n hn
    unfold rrSeq
    have hmod := aux_succ_mod k n hn
    have hn' : (n + 1) % k < k := Nat.mod_lt _ (by omega)
    obtain ⟨i1, i2⟩ := ih ((n + 1) % k) hn'
    rw [List.count_cons]
    generalize (rrSeq k m ((n + 1) % k)).count i = c at *
    by_cases hhit : (n + 1) % k = i
    · have hb : ((n + 1) % k == i) = true := by simp [hhit]
      rw [hb, if_pos rfl, Nat.mul_add, Nat.mul_one]
      rw [hhit] at i1 i2
      have g1 : gap k i i = k - 1 := by unfold gap; rw [if_neg (by omega)]; omega
      have g2 : gap k n i = 0 := by
        unfold gap; rw [hmod] at hhit
        split at hhit <;> split <;> omega
      rw [g1] at i1 i2; rw [g2]
      omega
    · have hb : ((n + 1) % k == i) = false := by simp [hhit]
      rw [hb]
      simp only [Bool.false_eq_true, if_false, Nat.add_zero]
      have g : gap k n i = gap k ((n + 1) % k) i + 1 := by
        rw [hmod] at hhit ⊢
        unfold gap
        split at hhit <;> split <;> split <;> omega
      rw [g]; omega

/-- the reference rotation: index `j mod k` for the j-th step (first index 1), every index
used ⌊m/k⌋ or ⌈m/k⌉ times -/
theorem aux_rotation (k m : Nat) (hk : 0 < k) :
    rrSeq k m 0 = (List.range m).map (fun j => (j + 1) % k) ∧
    (∀ i, i < k → m / k ≤ (rrSeq k m 0).count i ∧ (rrSeq k m 0).count i ≤ (m + k - 1) / k) ∧
    (∀ x ∈ rrSeq k m 0, x < k) := by
  have hseq : ∀ (m n : Nat), rrSeq k m (n % k) = (List.range m).map (fun j => (n + j + 1) % k) := by
    intro m
    induction m with
    | zero => intro n; simp [rrSeq]
    | succ m ih =>
      intro n
      unfold rrSeq
      have h1 : (n % k + 1) % k = (n + 1) % k := by rw [Nat.add_mod, Nat.mod_mod, ← Nat.add_mod]
      rw [h1, ih (n + 1), List.range_succ_eq_map, List.map_cons, List.map_map]
      congr 1
      apply List.map_congr_left
      intro j _
      simp only [Function.comp]
      congr 1; omega
  have h0 := hseq m 0
  rw [Nat.zero_mod] at h0
  refine ⟨by rw [h0]; apply List.map_congr_left; intro j _; simp, ?_, ?_⟩
  · intro i hi
    obtain ⟨c1, c2⟩ := aux_rr_count k i hi m 0 hk
    have hg : gap k 0 i ≤ k - 1 := by unfold gap; split <;> omega
    generalize (rrSeq k m 0).count i = c at *
    constructor
    · have : m < k * (c + 1) := by rw [Nat.mul_add, Nat.mul_one]; omega
      have := (Nat.div_lt_iff_lt_mul hk).mpr (by rw [Nat.mul_comm] at this; exact this)
      omega
    · apply (Nat.le_div_iff_mul_le hk).mpr
      rw [Nat.mul_comm]; omega
  · intro x hx
    rw [h0] at hx
    obtain ⟨j, _, hj⟩ := List.mem_map.mp hx
    rw [← hj]; exact Nat.mod_lt _ hk

/-- a 64-bit ticket counter that does not wrap walks the reference rotation -/
theorem aux_ticket_seq (k : Nat) : ∀ (m idx : Nat), idx + m < two64 →
    resolverSeq k m idx = rrSeq k m (idx % k) ∧
    resolverSeq k m idx = (List.range m).map (fun j => (idx + j + 1) % k) := by
  intro m
  induction m with
  | zero => intro idx _; simp [resolverSeq, rrSeq]
  | succ m ih =>
    intro idx h
    have hw : (idx + 1) % two64 = idx + 1 := Nat.mod_eq_of_lt (by omega)
    obtain ⟨i1, i2⟩ := ih (idx + 1) (by omega)
    have h1 : (idx % k + 1) % k = (idx + 1) % k := by rw [Nat.add_mod, Nat.mod_mod, ← Nat.add_mod]
    constructor
    · unfold resolverSeq rrSeq
      rw [hw, h1, i1]
    · unfold resolverSeq
      rw [hw, i2, List.range_succ_eq_map, List.map_cons, List.map_map]
      congr 1
      apply List.map_congr_left
      intro j _
      simp only [Function.comp]
      congr 1; omega

theorem aux_ctSeq_eq (k : Nat) : ∀ (m n : Nat), ctSeq k m n = resolverSeq k m n := by
  intro m
  induction m with
  | zero => intro n; rfl
  | succ m ih => intro n; unfold ctSeq resolverSeq; rw [ih]

/-- "dials to a mapped address rotate evenly over its replacement addresses": `m` sequential
dials (counter starting at 0, as `ConnectTo` creates it; fewer than 2^64 of them) over `k ≥ 1`
replacements use index `j mod k` for the j-th dial (j = 1, 2, …; so the first pick is index 1,
or 0 when k = 1), and every index is used ⌊m/k⌋ or ⌈m/k⌉ times. -/
theorem connect_to_rotation (k m : Nat) (hk : 0 < k) (hm : m < two64) :
    ctSeq k m 0 = (List.range m).map (fun j => (j + 1) % k) ∧
    (∀ i, i < k → m / k ≤ (ctSeq k m 0).count i ∧ (ctSeq k m 0).count i ≤ (m + k - 1) / k) ∧
    (∀ x ∈ ctSeq k m 0, x < k) := by
  have h : ctSeq k m 0 = rrSeq k m 0 := by
    rw [aux_ctSeq_eq, (aux_ticket_seq k m 0 (by omega)).1, Nat.zero_mod]
  rw [h]; exact aux_rotation k m hk

example : ctSeq 3 7 0 = [1, 2, 0, 1, 2, 0, 1] := by decide

/-- one dial run alone: the counter advances by one (mod 2^64) and the NEW value selects the
replacement; an empty replacement list is a division by zero -/
theorem rr_next_spec (k n : Nat) :
    (k = 0 → rrNext k n = .panic) ∧ (0 < k → rrNext k n = .ok ((n + 1) % two64, ((n + 1) % two64) % k)) := by
  unfold rrNext
  constructor
  · intro h; rw [if_pos h]
  · intro h; rw [if_neg (by omega)]

/-! #### all interleavings of concurrently dialling workers -/

/-- tickets handed out so far: those of completed dials and those of dials in flight -/
def tickets (s : CTState) : List Nat :=
  s.ws.flatMap (fun w => w.done ++ if w.pc = 0 then [] else [w.tmp])

theorem aux_flatMap_set {β γ : Type} (f : β → List γ) : ∀ (ws : List β) (i : Nat) (w w' : β) (x : List γ),
    ws[i]? = some w → f w' = f w ++ x → ((ws.set i w').flatMap f).Perm (ws.flatMap f ++ x) := by
  intro ws
  induction ws with
  | nil => intro i w w' x h; simp at h
  | cons a r ih =>
    intro i w w' x h hf
    cases i with
    | zero =>
      simp at h; subst h
      simp only [List.set_cons_zero, List.flatMap_cons, hf, List.append_assoc]
      exact List.Perm.append_left _ List.perm_append_comm
    | succ i =>
      simp only [List.set_cons_succ, List.flatMap_cons, List.append_assoc]
      exact List.Perm.append_left _ (ih i w w' x (by simpa using h) hf)

/-- one step of any worker keeps "the tickets handed out are exactly 1 … n" -/
theorem aux_ctStep (s : CTState) (w : Nat) (hinv : (tickets s).Perm (List.range' 1 s.n)) (hn : s.n + 1 < two64) :
    (tickets (ctStep s w)).Perm (List.range' 1 (ctStep s w).n) ∧ (ctStep s w).n ≤ s.n + 1 ∧
    (ctStep s w).k = s.k ∧ (ctStep s w).ws.length = s.ws.length := by
  unfold ctStep
  cases hw : s.ws[w]? with
  | none => exact ⟨hinv, Nat.le_succ _, rfl, rfl⟩
  | some wk =>
    simp only
    by_cases hpc : wk.pc = 0
    · rw [if_pos hpc]
      have hmod : (s.n + 1) % two64 = s.n + 1 := Nat.mod_eq_of_lt hn
      refine ⟨?_, by simp [hmod], rfl, by simp⟩
      simp only [hmod]
      have := aux_flatMap_set (fun w : CTWorker => w.done ++ if w.pc = 0 then [] else [w.tmp]) s.ws w wk
        { wk with pc := 1, tmp := s.n + 1 } [s.n + 1] hw (by simp [hpc])
      have key : (tickets { s with n := s.n + 1, ws := s.ws.set w { wk with pc := 1, tmp := s.n + 1 } }).Perm
          (tickets s ++ [s.n + 1]) := this
      refine key.trans ?_
      rw [List.range'_1_concat, Nat.add_comm 1]
      exact List.Perm.append_right _ hinv
    · rw [if_neg hpc]
      refine ⟨?_, Nat.le_succ _, rfl, by simp⟩
      have := aux_flatMap_set (fun w : CTWorker => w.done ++ if w.pc = 0 then [] else [w.tmp]) s.ws w wk
        { wk with pc := 0, done := wk.done ++ [wk.tmp] } [] hw (by simp [hpc])
      simp only [List.append_nil] at this
      have key : (tickets { s with ws := s.ws.set w { wk with pc := 0, done := wk.done ++ [wk.tmp] } }).Perm (tickets s) := this
      exact key.trans hinv

theorem aux_flatMap_congr {β γ : Type} (f g : β → List γ) : ∀ (ws : List β), (∀ w ∈ ws, f w = g w) →
    ws.flatMap f = ws.flatMap g := by
  intro ws
  induction ws with
  | nil => intro _; rfl
  | cons a r ih =>
    intro h
    simp only [List.flatMap_cons]
    rw [h a (by simp), ih (fun w hw => h w (by simp [hw]))]

theorem aux_ctRun : ∀ (sched : List Nat) (s : CTState), (tickets s).Perm (List.range' 1 s.n) →
    s.n + sched.length < two64 →
    (tickets (ctRun s sched)).Perm (List.range' 1 (ctRun s sched).n) ∧ (ctRun s sched).k = s.k ∧
    (ctRun s sched).ws.length = s.ws.length := by
  intro sched
  induction sched with
  | nil => intro s h _; exact ⟨h, rfl, rfl⟩
  | cons w rest ih =>
    intro s h hlen
    obtain ⟨h1, h2, h3, h4⟩ := aux_ctStep s w h (by simp at hlen; omega)
    obtain ⟨i1, i2, i3⟩ := ih (ctStep s w) h1 (by simp at hlen; omega)
    exact ⟨i1, by rw [← h3]; exact i2, by rw [← h4]; exact i3⟩

/-- Under EVERY interleaving of any number of concurrently dialling workers, each dialling any
number of times (schedules shorter than 2^64 steps), the atomic add hands every dial its own
ticket: the tickets of completed and in-flight dials are exactly 1, …, n (no lost update, no
ticket used twice). -/
theorem connect_to_tickets_unique (k workers : Nat) (sched : List Nat) (hs : sched.length < two64) :
    (tickets (ctRun (CTState.init k workers) sched)).Perm (List.range' 1 (ctRun (CTState.init k workers) sched).n) := by
  have h0 : (tickets (CTState.init k workers)).Perm (List.range' 1 (CTState.init k workers).n) := by
    unfold tickets CTState.init
    simp
  exact (aux_ctRun sched (CTState.init k workers) h0 (by simpa [CTState.init] using hs)).1

/-- "dials to a mapped address rotate evenly … for all interleavings of 1..64 concurrent
dialling workers": whenever no dial is in flight, after `n` completed dials by any number of
workers under any interleaving, every one of the `k` replacements was used ⌊n/k⌋ or ⌈n/k⌉
times (and `n` is the counter value). -/
theorem connect_to_rotation_concurrent (k workers : Nat) (hk : 0 < k) (sched : List Nat) (hs : sched.length < two64)
    (hq : ∀ w ∈ (ctRun (CTState.init k workers) sched).ws, w.pc = 0) :
    (ctRun (CTState.init k workers) sched).indices.length = (ctRun (CTState.init k workers) sched).n ∧
    ∀ i, i < k →
      (ctRun (CTState.init k workers) sched).indices.length / k ≤ (ctRun (CTState.init k workers) sched).indices.count i ∧
      (ctRun (CTState.init k workers) sched).indices.count i ≤
        ((ctRun (CTState.init k workers) sched).indices.length + k - 1) / k := by
  have hinv := connect_to_tickets_unique k workers sched hs
  have hk' : (ctRun (CTState.init k workers) sched).k = k :=
    (aux_ctRun sched (CTState.init k workers) (by unfold tickets CTState.init; simp)
      (by simpa [CTState.init] using hs)).2.1
  generalize ctRun (CTState.init k workers) sched = s at *
  -- nothing in flight: the tickets are those of the completed dials
  have hdone : tickets s = s.ws.flatMap (·.done) := by
    unfold tickets
    apply aux_flatMap_congr
    intro w hw
    rw [if_pos (hq w hw)]; simp
  rw [hdone] at hinv
  have hperm : s.indices.Perm (rrSeq k s.n 0) := by
    unfold CTState.indices
    rw [hk', (aux_rotation k s.n hk).1]
    have : (List.range s.n).map (fun j => (j + 1) % k) = (List.range' 1 s.n).map (· % k) := by
      rw [List.range'_eq_map_range, List.map_map]
      apply List.map_congr_left
      intro j _
      simp [Nat.add_comm]
    rw [this]
    exact hinv.map _
  have hlen : s.indices.length = s.n := by
    rw [hperm.length_eq, (aux_rotation k s.n hk).1]; simp
  refine ⟨hlen, ?_⟩
  intro i hi
  rw [hperm.count_eq, hlen]
  exact (aux_rotation k s.n hk).2.1 i hi

/-- two workers, their steps interleaved in every which way: distinct tickets, even spread -/
example : (ctRun (CTState.init 3 2) [0, 1, 0, 1]).indices = [1, 2] := by decide
example : (ctRun (CTState.init 3 2) [0, 1, 1, 0, 1, 1, 0, 0]).ws.map (·.done) = [[1, 4], [2, 3]] := by decide
example : ∀ w ∈ (ctRun (CTState.init 3 2) [0, 1, 1, 0, 1, 1, 0, 0]).ws, w.pc = 0 := by decide

/-- a single worker's two steps are the sequential dial -/
theorem ct_single_worker_is_sequential (k n : Nat) (hk : 0 < k) :
    (ctRun { n := n, k := k, ws := [{ pc := 0, tmp := 0, done := [] }] } [0, 0]).n = (n + 1) % two64 ∧
    (ctRun { n := n, k := k, ws := [{ pc := 0, tmp := 0, done := [] }] } [0, 0]).indices = [((n + 1) % two64) % k] ∧
    rrNext k n = .ok ((n + 1) % two64, ((n + 1) % two64) % k) :=
  ⟨rfl, rfl, (rr_next_spec k n).2 hk⟩

/-! #### the former, non-atomic shape (before fix 42475d9), kept as a witness of what the
atomic add rules out: `cm.n = (cm.n + 1) % len(cm.addrs); addr = cm.addrs[cm.n]` as three
separate memory operations — pc 0 `t := cm.n`; pc 1 `cm.n = (t + 1) % k`; pc 2
`addr = cm.addrs[cm.n]` (reads `cm.n` again). -/
namespace Old

structure RRWorker where
  pc : Nat
  tmp : Nat
  picked : Option Nat
  deriving Repr, DecidableEq

structure RRState where
  n : Nat
  k : Nat
  ws : List RRWorker
  deriving Repr, DecidableEq

def RRState.init (k workers : Nat) : RRState :=
  { n := 0, k := k, ws := List.replicate workers { pc := 0, tmp := 0, picked := none } }

def rrStep (s : RRState) (w : Nat) : Option RRState :=
  match s.ws[w]? with
  | none => none
  | some wk =>
    match wk.pc with
    | 0 => some { s with ws := s.ws.set w { wk with pc := 1, tmp := s.n } }
    | 1 => some { s with n := (wk.tmp + 1) % s.k, ws := s.ws.set w { wk with pc := 2 } }
    | 2 => some { s with ws := s.ws.set w { wk with pc := 3, picked := some s.n } }
    | _ => none

def rrRun : RRState → List Nat → Option RRState
  | s, [] => some s
  | s, w :: ws => match rrStep s w with
    | some s' => rrRun s' ws
    | none => none

end Old

/-- OLD shape only: two interleaved non-atomic dials (reads first, then writes, then the second
reads) pick the SAME replacement while the counter advanced only once — impossible now by
`connect_to_tickets_unique`. -/
theorem rotation_lost_update_old_witness :
    ∃ s, Old.rrRun (Old.RRState.init 3 2) [0, 1, 0, 1, 0, 1] = some s ∧
      s.ws.map (·.picked) = [some 1, some 1] ∧ s.n = 1 := by
  exact ⟨_, rfl, by decide, by decide⟩

/-- OLD shape only: even when the two increments did not collide, the second read of the counter
let both dials use the address the later increment selected -/
theorem rotation_reread_old_witness :
    ∃ s, Old.rrRun (Old.RRState.init 3 2) [0, 0, 1, 1, 0, 1] = some s ∧
      s.ws.map (·.picked) = [some 2, some 2] ∧ s.n = 2 := by
  exact ⟨_, rfl, by decide, by decide⟩

/-- "custom resolver rotation": `atomic.AddUint64(&idx, 1) % len` hands every call its own
ticket, so (before the 64-bit counter wraps) the calls use the addresses in strict rotation:
the same index sequence as the ConnectTo rotation, hence the same even spread. -/
theorem resolver_rotation (k : Nat) (_hk : 0 < k) (m idx : Nat) (h : idx + m < two64) :
    resolverSeq k m idx = rrSeq k m (idx % k) ∧
    resolverSeq k m idx = (List.range m).map (fun j => (idx + j + 1) % k) :=
  aux_ticket_seq k m idx h

example : resolverSeq 3 7 0 = [1, 2, 0, 1, 2, 0, 1] := by decide
example : resolverSeq 3 2 (two64 - 1) = [0, 1] := by decide   -- the counter wraps: outside the hypothesis

theorem resolver_rotation_even (k m : Nat) (hk : 0 < k) (hm : m < two64) (i : Nat) (hi : i < k) :
    m / k ≤ (resolverSeq k m 0).count i ∧ (resolverSeq k m 0).count i ≤ (m + k - 1) / k := by
  rw [(resolver_rotation k hk m 0 (by omega)).1, Nat.zero_mod]
  exact (aux_rotation k m hk).2.1 i hi

/-! ### composition: unmapped addresses pass through, mapped ones rotate -/

/-- "unmapped addresses pass through unchanged": a `ConnectTo` layer hands an address that is
not a key of its map to the dial function underneath, untouched, and keeps its counters. -/
theorem connect_to_unmapped_passthrough (w : World) (m : List (HP × (List HP × Nat))) (ch : List (List Nat)) (a : HP)
    (h : m.find? (·.1 = a) = none) :
    dialVia w [.connectTo m] ch a = .ok ([a], [.connectTo m], ch) := by
  unfold dialVia
  simp [dialViaF, h]

/-- a mapped address goes to the replacement selected by the rotation, and only the counter
of that key advances -/
theorem connect_to_mapped (w : World) (m : List (HP × (List HP × Nat))) (ch : List (List Nat)) (a a' : HP)
    (addrs : List HP) (n : Nat) (h : m.find? (·.1 = a) = some (a, (addrs, n)))
    (hk : 0 < addrs.length) (ha : addrs[((n + 1) % two64) % addrs.length]? = some a') :
    dialVia w [.connectTo m] ch a =
      .ok ([a'], [.connectTo (m.map (fun e => if e.1 = a then (e.1, (addrs, (n + 1) % two64)) else e))], ch) := by
  unfold dialVia
  simp [dialViaF, h, (rr_next_spec addrs.length n).2 hk, ha]

/-- the two orders in which the command line could compose the options differ: with
`ConnectTo` applied after `DNSCaching` (the command's order) the replacement NAME is what gets
resolved; the other way round the resolved ADDRESS is looked up in the map. -/
example :
    let w : World := { answers := [([1], [[10]]), ([2], [[20]])], fam := [([10], .v4), ([20], .v4)] }
    let m : List (HP × (List HP × Nat)) := [({ host := [1], port := [80] }, ([{ host := [2], port := [81] }], 0))]
    (match dialVia w [.connectTo m, .dns []] [] { host := [1], port := [80] } with
      | .ok (out, _, _) => out | _ => []) = [{ host := [20], port := [81] }] ∧
    (match dialVia w [.dns [], .connectTo m] [] { host := [1], port := [80] } with
      | .ok (out, _, _) => out | _ => []) = [{ host := [10], port := [80] }] := by decide

/-! ### facts regenerated from the source (go/ast): what the correspondence cannot observe

The model treats the ConnectTo rotation as ONE atomic step on the shared counter followed by
a local computation, the shuffle as one critical section, the shuffle and the compaction as
writes to a private copy of the slice the cache handed out, and the custom resolver's
rotation as one atomic step.  These obligations compare that with the current source text;
reverting any of the fixes da2a0f6 (copy) or 42475d9 (mutex, atomic add) breaks one of them. -/

/-- the two statements executed for a mapped address: the counter is advanced by
`atomic.AddUint64` and the returned value (a local) selects the replacement; the counter field
is mentioned nowhere else in the dial closure -/
theorem facts_connect_to_atomic_add :
    Vegeta.Extracted.c18ConnectToFound = true ∧ Vegeta.Extracted.c18ConnectToSyncCalls = 1 ∧
    Vegeta.Extracted.c18ConnectToCounterMentions = 1 ∧
    Vegeta.Extracted.c18ConnectToMappedStmts =
      [ [110, 32, 58, 61, 32, 97, 116, 111, 109, 105, 99, 46, 65, 100, 100, 85, 105, 110, 116, 54, 52, 40, 38, 99, 109, 46, 110, 44, 32, 49, 41],   -- n := atomic.AddUint64(&cm.n, 1)
        [97, 100, 100, 114, 32, 61, 32, 99, 109, 46, 97, 100, 100, 114, 115, 91, 110, 37, 117, 105, 110, 116, 54, 52, 40, 108, 101, 110, 40, 99, 109, 46, 97, 100, 100, 114, 115, 41, 41, 93] ]   -- addr = cm.addrs[n%uint64(len(cm.addrs))]
    := by decide

/-- between `resolver.LookupHost` and `rng.Shuffle` the slice variable is reassigned exactly
once, to a fresh copy; the shuffle (the only mention of `rng` in the dial closure) stands
directly between `rngmu.Lock()` and `rngmu.Unlock()`, `rngmu` being a `sync.Mutex` of the
option; these are the only lock operations; the shuffled copy goes to `firstOfEachIPFamily`,
which builds its result in `ips[:0]` of that copy -/
theorem facts_dns_copy_before_shuffle_under_mutex :
    Vegeta.Extracted.c18DnsLookupVar = [105, 112, 115] ∧                                   -- ips
    Vegeta.Extracted.c18DnsAssignsBeforeShuffle = 1 ∧
    Vegeta.Extracted.c18DnsAssignTextsBeforeShuffle =
      [ [105, 112, 115, 32, 61, 32, 97, 112, 112, 101, 110, 100, 40, 91, 93, 115, 116, 114, 105, 110, 103, 40, 110, 105, 108, 41, 44, 32, 105, 112, 115, 46, 46, 46, 41] ] ∧                               -- ips = append([]string(nil), ips...)
    Vegeta.Extracted.c18DnsShuffleNeighbours =
      [ [114, 110, 103, 109, 117, 46, 76, 111, 99, 107, 40, 41], [114, 110, 103, 109, 117, 46, 85, 110, 108, 111, 99, 107, 40, 41] ] ∧                               -- rngmu.Lock() / rngmu.Unlock()
    Vegeta.Extracted.c18DnsMutexDecl = [114, 110, 103, 109, 117, 32, 115, 121, 110, 99, 46, 77, 117, 116, 101, 120] ∧                      -- rngmu sync.Mutex
    Vegeta.Extracted.c18DnsRngMentions = 1 ∧
    Vegeta.Extracted.c18DnsSyncCalls = 2 ∧
    Vegeta.Extracted.c18DnsShuffleLen = [108, 101, 110, 40, 105, 112, 115, 41] ∧                             -- len(ips)
    Vegeta.Extracted.c18DnsShuffleSwap = [105, 112, 115, 91, 105, 93, 44, 32, 105, 112, 115, 91, 106, 93, 32, 61, 32, 105, 112, 115, 91, 106, 93, 44, 32, 105, 112, 115, 91, 105, 93] ∧     -- ips[i], ips[j] = ips[j], ips[i]
    Vegeta.Extracted.c18DnsFoeAssign = [105, 112, 115, 32, 61, 32, 102, 105, 114, 115, 116, 79, 102, 69, 97, 99, 104, 73, 80, 70, 97, 109, 105, 108, 121, 40, 105, 112, 115, 41] ∧        -- ips = firstOfEachIPFamily(ips)
    Vegeta.Extracted.c18FoeEachInit = [101, 97, 99, 104, 32, 61, 32, 105, 112, 115, 91, 58, 48, 93] ∧                         -- each = ips[:0]
    Vegeta.Extracted.c18FoeEachAppend = [101, 97, 99, 104, 32, 61, 32, 97, 112, 112, 101, 110, 100, 40, 101, 97, 99, 104, 44, 32, 105, 112, 115, 91, 105, 93, 41]            -- each = append(each, ips[i])
    := by decide

/-- the custom resolver advances its counter with one atomic add and uses the returned value -/
theorem facts_resolver_rotation_atomic :
    Vegeta.Extracted.c18ResolverAddressBody =
      [114, 101, 116, 117, 114, 110, 32, 114, 46, 97, 100, 100, 114, 115, 91, 97, 116, 111, 109, 105, 99, 46, 65, 100, 100, 85, 105, 110, 116, 54, 52, 40, 38, 114, 46, 105, 100, 120, 44, 32, 49, 41, 37, 117, 105, 110, 116, 54, 52, 40, 108, 101, 110, 40, 114, 46, 97, 100, 100, 114, 115, 41, 41, 93]   -- return r.addrs[atomic.AddUint64(&r.idx, 1)%uint64(len(r.addrs))]
    := by decide

/-- the command applies `DNSCaching` before `ConnectTo` (so `ConnectTo` is the outer layer), after
every other option that replaces the transport's dial function -/
theorem facts_command_option_order :
    Vegeta.Extracted.c18CommandDialOptionOrder =
      [ [76, 111, 99, 97, 108, 65, 100, 100, 114], [75, 101, 101, 112, 65, 108, 105, 118, 101], [72, 50, 67], [85, 110, 105, 120, 83, 111, 99, 107, 101, 116], [68, 78, 83, 67, 97, 99, 104, 105, 110, 103], [67, 111, 110, 110, 101, 99, 116, 84, 111] ]
    := by decide

/-! ### composition of the options on the dial function -/

/-- the wrappers a list of options installs, in application order, provided none of them resets
the dial function or swaps the transport -/
def Harmless : Opt → Bool
  | .keepAlive on => on
  | .h2c on => !on
  | .unixSocket given => !given
  | .dnsCaching _ => true
  | .connectTo _ => true
  | .other => true
  | .localAddr => false
  | .baseDial => false

def wrapOf : Opt → List Wrap
  | .dnsCaching neg => if neg then [] else [.dns]
  | .connectTo empty => if empty then [] else [.connectTo]
  | _ => []

theorem aux_applyOpt_harmless (st : TrState) (h : st.isHTTP = true) (o : Opt) (ho : Harmless o = true) :
    applyOpt st o = .ok { st with wraps := wrapOf o ++ st.wraps } := by
  obtain ⟨ih, b, w⟩ := st
  simp only at h; subst h
  cases o with
  | localAddr => simp [Harmless] at ho
  | baseDial => simp [Harmless] at ho
  | keepAlive on => simp [Harmless] at ho; subst ho; simp [applyOpt, wrapOf]
  | h2c on => simp [Harmless] at ho; subst ho; simp [applyOpt, wrapOf]
  | unixSocket g => simp [Harmless] at ho; subst ho; simp [applyOpt, wrapOf]
  | other => simp [applyOpt, wrapOf]
  | dnsCaching neg => cases neg <;> simp [applyOpt, wrapOf]
  | connectTo e => cases e <;> simp [applyOpt, wrapOf]

theorem aux_wrapOf_reverse (o : Opt) : (wrapOf o).reverse = wrapOf o := by
  cases o <;> simp [wrapOf] <;> split <;> simp

/-- options that only wrap: each `DNSCaching` (ttl ≥ 0) / `ConnectTo` (non-empty map) goes AROUND
what is there, so the option applied last is outermost -/
theorem aux_apply_wrapping : ∀ (os : List Opt) (st : TrState), st.isHTTP = true → (∀ o ∈ os, Harmless o = true) →
    applyAll st os = .ok { st with wraps := (os.flatMap wrapOf).reverse ++ st.wraps } := by
  intro os
  induction os with
  | nil => intro st _ _; simp [applyAll]
  | cons o r ih =>
    intro st h hh
    have ho := hh o (by simp)
    have hr : ∀ o ∈ r, Harmless o = true := fun x hx => hh x (by simp [hx])
    unfold applyAll
    rw [aux_applyOpt_harmless st h o ho]
    simp only
    rw [ih { st with wraps := wrapOf o ++ st.wraps } h hr]
    simp [aux_wrapOf_reverse]

/-- For EVERY sequence of options: if it has the form `pre ++ [reset] ++ post` where `reset`
re-installs a bare dial function (`LocalAddr`, `KeepAlive(false)`, a unix socket, VerifBaseDial)
and `post` only wraps, then whatever `pre` installed is gone: the dial function is exactly the
wrappers of `post` (last applied outermost) around the function `reset` installed. -/
theorem options_after_reset (pre post : List Opt) (st : TrState) (r : Opt) (b : Base)
    (hpre : applyAll TrState.init pre = .ok st) (hst : st.isHTTP = true)
    (hr : applyOpt st r = .ok { st with base := b, wraps := [] })
    (hpost : ∀ o ∈ post, Harmless o = true) :
    applyAll TrState.init (pre ++ [r] ++ post) = .ok { st with base := b, wraps := (post.flatMap wrapOf).reverse } := by
  have happ : ∀ (a c : List Opt) (s s' : TrState), applyAll s a = .ok s' → applyAll s (a ++ c) = applyAll s' c := by
    intro a
    induction a with
    | nil => intro c s s' h; simp [applyAll] at h; subst h; rfl
    | cons o os ih =>
      intro c s s' h
      simp only [List.cons_append, applyAll] at h ⊢
      cases ho : applyOpt s o with
      | ok s1 => rw [ho] at h; simp only at h ⊢; exact ih c s1 s' h
      | error e => rw [ho] at h; cases h
      | panic => rw [ho] at h; cases h
  rw [List.append_assoc, happ pre ([r] ++ post) _ st hpre]
  simp only [List.singleton_append, applyAll, hr]
  have := aux_apply_wrapping post { st with base := b, wraps := [] } hst hpost
  rw [this]; simp

/-- The command's order (`LocalAddr, KeepAlive, H2C, UnixSocket, DNSCaching, ConnectTo`), for
EVERY combination of the dial-related flags without -h2c: the dial function is
`connectTo ∘ dnsCache ∘ base` — ConnectTo outermost (present iff a mapping was given), the DNS
cache inside it (present iff the ttl is not negative), around the attacker's own dialer or the
unix-socket dial — and this is so for BOTH values of -keepalive. -/
theorem command_dial_composition (f : DialFlags) (hh : f.h2c = false) :
    applyAll TrState.init (cmdOpts f) =
      .ok { isHTTP := true, base := if f.unixSocket then .unix else .dialer,
            wraps := (if f.emptyMap then [] else [.connectTo]) ++ (if f.negativeTTL then [] else [.dns]) } := by
  obtain ⟨k, h, u, n, e⟩ := f
  simp only at hh; subst hh
  cases k <;> cases u <;> cases n <;> cases e <;> rfl

/-- with -h2c the transport is swapped before `DNSCaching` and `ConnectTo` are applied: both (and a
unix socket) are silently ignored — the dial function stays the bare dialer -/
theorem command_dial_composition_h2c (f : DialFlags) (hh : f.h2c = true) :
    applyAll TrState.init (cmdOpts f) = .ok { isHTTP := false, base := .dialer, wraps := [] } := by
  obtain ⟨k, h, u, n, e⟩ := f
  simp only at hh; subst hh
  cases k <;> cases u <;> cases n <;> cases e <;> rfl

/-- the order of the seeded change (wrappers installed before `KeepAlive`): with -keepalive=false
every wrapper is dropped, for every other flag value; with keep-alive on nothing differs from
the command's order -/
theorem moved_up_order_counterexample (f : DialFlags) (hh : f.h2c = false) :
    (f.keepAlive = false → applyAll TrState.init (cmdOptsMovedUp f) =
      .ok { isHTTP := true, base := if f.unixSocket then .unix else .dialer, wraps := [] }) ∧
    (f.keepAlive = true → f.unixSocket = false → applyAll TrState.init (cmdOptsMovedUp f) = applyAll TrState.init (cmdOpts f)) := by
  obtain ⟨k, h, u, n, e⟩ := f
  simp only at hh; subst hh
  constructor
  · intro hk; simp only at hk; subst hk
    cases u <;> cases n <;> cases e <;> rfl
  · intro hk hu; simp only at hk hu; subst hk; subst hu
    cases n <;> cases e <;> rfl

/-- options that type-assert the transport panic once H2C(true) has swapped it -/
theorem options_after_h2c (st : TrState) (h : st.isHTTP = false) :
    applyOpt st .localAddr = .panic ∧ (∀ b, applyOpt st (.keepAlive b) = .panic) ∧ (∀ b, applyOpt st (.h2c b) = .panic) ∧
    (∀ b, applyOpt st (.dnsCaching b) = .ok st) ∧ (∀ b, applyOpt st (.connectTo b) = .ok st) ∧
    (∀ b, applyOpt st (.unixSocket b) = .ok st) ∧ applyOpt st .baseDial = .ok st := by
  simp [applyOpt, h]

example : applyAll TrState.init [.baseDial, .dnsCaching false, .connectTo false] =
    .ok { isHTTP := true, base := .custom, wraps := [.connectTo, .dns] } := by decide

example : applyAll TrState.init ([.dnsCaching false] ++ [.keepAlive false] ++ [.connectTo false, .other]) =
    .ok { isHTTP := true, base := .dialer, wraps := [.connectTo] } :=
  options_after_reset [.dnsCaching false] [.connectTo false, .other] _ (.keepAlive false) .dialer rfl rfl rfl (by decide)

/-! ### the DNS cache with a positive ttl: refresh -/

/-- the entry, if any, holds what the DNS answers now -/
def Fresh (st : CacheSt α) : Prop := ∀ e, st.entry = some e → e.addrs = st.dns

/-- `Refresh(true)` leaves the cache fresh, whatever the state before: a used entry is re-resolved,
an unused one is deleted -/
theorem refresh_makes_fresh (fam : α → Family) (st : CacheSt α) : Fresh (cacheStep fam true st .refresh).1 := by
  unfold cacheStep
  cases he : st.entry with
  | none => simp only; intro e h; rw [he] at h; cases h
  | some e =>
    simp only
    by_cases hused : e.used = true
    · rw [if_pos hused]; intro e' h; simp at h; rw [← h]
    · rw [if_neg hused]; simp only [if_true]; intro e' h; cases h

theorem aux_step_preserves_fresh (fam : α → Family) (c : Bool) (st : CacheSt α) (hf : Fresh st) (ev : CEv α)
    (hev : ∀ a, ev ≠ .change a) : Fresh (cacheStep fam c st ev).1 := by
  cases ev with
  | change a => exact absurd rfl (hev a)
  | dial js =>
    unfold cacheStep
    cases he : st.entry with
    | none => simp only; intro e h; simp at h; rw [← h]
    | some e =>
      simp only; intro e' h; simp at h; rw [← h]; exact hf e he
  | refresh =>
    unfold cacheStep
    cases he : st.entry with
    | none => simp only; intro e h; rw [he] at h; cases h
    | some e =>
      simp only
      split
      · intro e' h; simp at h; rw [← h]
      · split
        · intro e' h; cases h
        · exact hf

def isChange : CEv α → Bool
  | .change _ => true
  | _ => false

theorem aux_run_preserves_fresh (fam : α → Family) (c : Bool) : ∀ (evs : List (CEv α)) (st : CacheSt α), Fresh st →
    (∀ ev ∈ evs, isChange ev = false) → Fresh (cacheRun fam c st evs).1 ∧ (cacheRun fam c st evs).1.dns = st.dns := by
  intro evs
  induction evs with
  | nil => intro st hf _; exact ⟨hf, rfl⟩
  | cons ev r ih =>
    intro st hf hno
    have hev : ∀ a, ev ≠ .change a := by
      intro a h; have := hno ev (by simp); rw [h] at this; simp [isChange] at this
    have h1 := aux_step_preserves_fresh fam c st hf ev hev
    have hd : (cacheStep fam c st ev).1.dns = st.dns := by
      cases ev with
      | change a => exact absurd rfl (hev a)
      | dial js => unfold cacheStep; cases st.entry <;> rfl
      | refresh =>
        unfold cacheStep; cases st.entry with
        | none => rfl
        | some e => simp only; split; · rfl
                    split <;> rfl
    obtain ⟨i1, i2⟩ := ih (cacheStep fam c st ev).1 h1 (fun x hx => hno x (by simp [hx]))
    unfold cacheRun
    exact ⟨i1, by rw [← hd]; exact i2⟩

/-- a dial in a fresh state is a dial on the CURRENT answer -/
theorem aux_dial_fresh (fam : α → Family) (c : Bool) (st : CacheSt α) (hf : Fresh st) (js : List Nat) :
    (cacheStep fam c st (.dial js)).2 = (dialStep fam js st.dns).1 := by
  unfold cacheStep
  cases he : st.entry with
  | none => rfl
  | some e => simp only; rw [hf e he]

/-- "every connection attempt … goes to an address currently resolved for it", with the delay
stated exactly: take ANY history (dials, refresh ticks, changes of the DNS answer, in any order
and number), then ONE refresh tick, then any number of dials and ticks but no further change.
Every dial after that tick goes only to addresses of the answer current at that time, one of
every family in it, and every valid address of that answer can be picked. -/
theorem no_withdrawn_address_after_refresh (fam : α → Family) (st0 : CacheSt α) (before after : List (CEv α)) (js : List Nat)
    (hno : ∀ ev ∈ after, isChange ev = false) :
    let st1 := (cacheRun fam true st0 before).1
    let st := (cacheRun fam true (cacheStep fam true st1 .refresh).1 after).1
    st.dns = st1.dns ∧
    (cacheStep fam true st (.dial js)).2 = (dialStep fam js st1.dns).1 ∧
    (∀ x ∈ (cacheStep fam true st (.dial js)).2, x ∈ st1.dns) ∧
    (∀ x ∈ st1.dns, fam x ≠ .invalid → ∃ z ∈ (cacheStep fam true st (.dial js)).2, fam z = fam x) ∧
    (∀ x ∈ st1.dns, fam x ≠ .invalid → ∃ js', x ∈ (cacheStep fam true st (.dial js')).2) := by
  intro st1 st
  have hfresh := refresh_makes_fresh fam st1
  have hdns1 : (cacheStep fam true st1 .refresh).1.dns = st1.dns := by
    unfold cacheStep; cases st1.entry with
    | none => rfl
    | some e => simp only; split <;> rfl
  obtain ⟨hf, hd⟩ := aux_run_preserves_fresh fam true after _ hfresh hno
  have hdns : st.dns = st1.dns := by rw [← hdns1]; exact hd
  have hdial : ∀ js', (cacheStep fam true st (.dial js')).2 = (dialStep fam js' st1.dns).1 := by
    intro js'; rw [aux_dial_fresh fam true st hf js', hdns]
  refine ⟨hdns, hdial js, ?_, ?_, ?_⟩
  · intro x hx; rw [hdial js] at hx
    have := dial_targets_subset_resolved fam [js] st1.dns (dialStep fam js st1.dns).1 (by simp [dialMany]) x hx
    exact this
  · intro x hx hv; rw [hdial js]; exact (dial_one_per_family fam js st1.dns).2.2.2 x hx hv
  · intro x hx hv
    obtain ⟨js', h⟩ := every_address_reachable fam st1.dns x hx hv
    exact ⟨js', by rw [hdial js']; exact h⟩

/-- the delay is real: until the next tick an entry keeps the list it was resolved with — dials go
to withdrawn addresses (here: answer `[0]` cached, changed to `[1]`, dialled before the tick) -/
example : (cacheRun fam4 true { entry := none, dns := [0] } [.dial [], .change [1], .dial []]).2 = [[0], [0]] := by decide
example : (cacheRun fam4 true { entry := none, dns := [0] } [.dial [], .change [1], .refresh, .dial []]).2 = [[0], [1]] := by decide

/-- A host that is not dialled between two ticks is dropped from the cache (`Refresh(true)` clears
entries not used since the previous refresh): whatever happened before, after a tick, any changes
of the DNS answer, and another tick — no dial in between — nothing is cached, so the next dial
resolves anew and goes to the current answer. -/
theorem idle_entry_dropped (fam : α → Family) (st0 : CacheSt α) (ch1 ch2 : List (CEv α)) (js : List Nat)
    (h1 : ∀ ev ∈ ch1, isChange ev = true) (h2 : ∀ ev ∈ ch2, isChange ev = true) :
    let st := (cacheRun fam true st0 ([.refresh] ++ ch1 ++ [.refresh] ++ ch2)).1
    st.entry = none ∧ (cacheStep fam true st (.dial js)).2 = (dialStep fam js st.dns).1 := by
  intro st
  -- changes touch only the DNS answer
  have hch : ∀ (ch : List (CEv α)) (s : CacheSt α), (∀ ev ∈ ch, isChange ev = true) → (cacheRun fam true s ch).1.entry = s.entry := by
    intro ch
    induction ch with
    | nil => intro s _; rfl
    | cons ev r ih =>
      intro s hh
      cases ev with
      | change a => unfold cacheRun; simp only [cacheStep]; exact ih _ (fun x hx => hh x (by simp [hx]))
      | dial js => have := hh (.dial js) (by simp); simp [isChange] at this
      | refresh => have := hh .refresh (by simp); simp [isChange] at this
  have happ : ∀ (a c : List (CEv α)) (s : CacheSt α), (cacheRun fam true s (a ++ c)).1 = (cacheRun fam true (cacheRun fam true s a).1 c).1 := by
    intro a
    induction a with
    | nil => intro c s; rfl
    | cons ev r ih => intro c s; simp only [List.cons_append, cacheRun]; exact ih c _
  -- after the first tick the entry, if any, is unused
  have hun : ∀ (s : CacheSt α) e, (cacheStep fam true s .refresh).1.entry = some e → e.used = false := by
    intro s e h
    cases hs : s.entry with
    | none => simp [cacheStep, hs] at h
    | some e0 =>
      by_cases hu : e0.used = true
      · simp [cacheStep, hs, hu] at h; rw [← h]
      · simp [cacheStep, hs, hu] at h
  have hent : st.entry = none := by
    show (cacheRun fam true st0 ([.refresh] ++ ch1 ++ [.refresh] ++ ch2)).1.entry = none
    rw [happ, hch ch2 _ h2, happ, happ]
    generalize hs1 : (cacheRun fam true st0 [.refresh]).1 = s1
    have hs1' : s1 = (cacheStep fam true st0 .refresh).1 := by rw [← hs1]; rfl
    generalize hs2 : (cacheRun fam true s1 ch1).1 = s2
    have he2 : s2.entry = s1.entry := by rw [← hs2]; exact hch ch1 s1 h1
    show (cacheStep fam true s2 .refresh).1.entry = none
    cases h : s2.entry with
    | none => simp [cacheStep, h]
    | some e =>
      have : e.used = false := hun st0 e (by rw [← hs1', ← he2]; exact h)
      simp [cacheStep, h, this]
  refine ⟨hent, ?_⟩
  simp [cacheStep, hent]

/-- `Refresh(false)` instead (a seeded change): an entry that is not dialled between two ticks is
kept but never re-resolved — it keeps a withdrawn answer through any number of ticks, and the next
dial goes there -/
theorem refresh_keeping_unused_entries_is_stale_witness :
    (cacheRun fam4 false { entry := none, dns := [0] } [.dial [], .refresh, .change [1], .refresh, .refresh, .refresh, .dial []]).2 = [[0], [0]] ∧
    (cacheRun fam4 true { entry := none, dns := [0] } [.dial [], .refresh, .change [1], .refresh, .refresh, .refresh, .dial []]).2 = [[0], [1]] := by
  decide


/-- the ticker goroutine of `DNSCaching` calls `Refresh(true)`: entries not used since the previous
refresh are cleared (the `clearUnused = true` of the cache model) -/
theorem facts_dns_refresh_clears_unused :
    Vegeta.Extracted.c18DnsRefreshCall = [114, 101, 115, 111, 108, 118, 101, 114, 46, 82, 101, 102, 114, 101, 115, 104, 40, 116, 114, 117, 101, 41]   -- resolver.Refresh(true)
    := by decide

/-- every option of lib/attack.go that assigns the transport's dial function or the transport: the
two that re-install the bare dialer (`LocalAddr`; `KeepAlive` when off), `H2C` swapping the transport,
the unix-socket dial, and the two wrappers; and which options type-assert the transport without the
`ok` form (they panic once it was swapped) — the transition function `applyOpt` of the model -/
theorem facts_options_on_dial_function :
    Vegeta.Extracted.c18DialAssignments =
      [ [76, 111, 99, 97, 108, 65, 100, 100, 114, 58, 32, 116, 114, 46, 68, 105, 97, 108, 67, 111, 110, 116, 101, 120, 116, 32, 61, 32, 97, 46, 100, 105, 97, 108, 101, 114, 46, 68, 105, 97, 108, 67, 111, 110, 116, 101, 120, 116],   -- LocalAddr: tr.DialContext = a.dialer.DialContext
        [75, 101, 101, 112, 65, 108, 105, 118, 101, 32, 91, 105, 102, 32, 33, 107, 101, 101, 112, 97, 108, 105, 118, 101, 93, 58, 32, 116, 114, 46, 68, 105, 97, 108, 67, 111, 110, 116, 101, 120, 116, 32, 61, 32, 97, 46, 100, 105, 97, 108, 101, 114, 46, 68, 105, 97, 108, 67, 111, 110, 116, 101, 120, 116],   -- KeepAlive [if !keepalive]: tr.DialContext = a.dialer.DialContext
        [72, 50, 67, 32, 91, 105, 102, 32, 101, 110, 97, 98, 108, 101, 100, 93, 58, 32, 97, 46, 99, 108, 105, 101, 110, 116, 46, 84, 114, 97, 110, 115, 112, 111, 114, 116, 32, 61, 32, 38, 104, 116, 116, 112, 50, 46, 84, 114, 97, 110, 115, 112, 111, 114, 116],   -- H2C [if enabled]: a.client.Transport = &http2.Transport
        [85, 110, 105, 120, 83, 111, 99, 107, 101, 116, 32, 91, 105, 102, 32, 115, 111, 99, 107, 101, 116, 32, 33, 61, 32, 34, 34, 32, 38, 38, 32, 111, 107, 93, 58, 32, 116, 114, 46, 68, 105, 97, 108, 67, 111, 110, 116, 101, 120, 116, 32, 61, 32, 102, 117, 110, 99],   -- UnixSocket [if socket != "" && ok]: tr.DialContext = func
        [67, 111, 110, 110, 101, 99, 116, 84, 111, 58, 32, 116, 114, 46, 68, 105, 97, 108, 67, 111, 110, 116, 101, 120, 116, 32, 61, 32, 102, 117, 110, 99],   -- ConnectTo: tr.DialContext = func
        [68, 78, 83, 67, 97, 99, 104, 105, 110, 103, 32, 91, 105, 102, 32, 111, 107, 93, 58, 32, 116, 114, 46, 68, 105, 97, 108, 67, 111, 110, 116, 101, 120, 116, 32, 61, 32, 102, 117, 110, 99] ]   -- DNSCaching [if ok]: tr.DialContext = func
    ∧ Vegeta.Extracted.c18TransportAssertions =
      [ [67, 111, 110, 110, 101, 99, 116, 105, 111, 110, 115, 58, 32, 117, 110, 99, 104, 101, 99, 107, 101, 100],   -- Connections: unchecked
        [77, 97, 120, 67, 111, 110, 110, 101, 99, 116, 105, 111, 110, 115, 58, 32, 117, 110, 99, 104, 101, 99, 107, 101, 100],   -- MaxConnections: unchecked
        [80, 114, 111, 120, 121, 58, 32, 117, 110, 99, 104, 101, 99, 107, 101, 100],   -- Proxy: unchecked
        [76, 111, 99, 97, 108, 65, 100, 100, 114, 58, 32, 117, 110, 99, 104, 101, 99, 107, 101, 100],   -- LocalAddr: unchecked
        [75, 101, 101, 112, 65, 108, 105, 118, 101, 58, 32, 117, 110, 99, 104, 101, 99, 107, 101, 100],   -- KeepAlive: unchecked
        [84, 76, 83, 67, 111, 110, 102, 105, 103, 58, 32, 117, 110, 99, 104, 101, 99, 107, 101, 100],   -- TLSConfig: unchecked
        [72, 84, 84, 80, 50, 58, 32, 117, 110, 99, 104, 101, 99, 107, 101, 100],   -- HTTP2: unchecked
        [72, 50, 67, 58, 32, 117, 110, 99, 104, 101, 99, 107, 101, 100],   -- H2C: unchecked
        [85, 110, 105, 120, 83, 111, 99, 107, 101, 116, 58, 32, 99, 104, 101, 99, 107, 101, 100],   -- UnixSocket: checked
        [80, 114, 111, 120, 121, 72, 101, 97, 100, 101, 114, 58, 32, 99, 104, 101, 99, 107, 101, 100],   -- ProxyHeader: checked
        [67, 111, 110, 110, 101, 99, 116, 84, 111, 58, 32, 99, 104, 101, 99, 107, 101, 100],   -- ConnectTo: checked
        [68, 78, 83, 67, 97, 99, 104, 105, 110, 103, 58, 32, 99, 104, 101, 99, 107, 101, 100] ]   -- DNSCaching: checked
    := by decide


end Vegeta.Props.C18
