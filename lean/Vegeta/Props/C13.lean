/-
C13 — Reports over several files equal the report over their union.

The theorems are about `Vegeta.Model.RoundRobin` (the loop of `NewRoundRobinDecoder`, the
single-decoder shortcut, and `drain` = what `report`/`encode` do with the combined decoder).
Inputs are well-formed streams: `ofInputs inputs`, one decoder per input that yields the input's
records in order and then `io.EOF` for ever.  Everything is for every number `n ≥ 1` of inputs of
arbitrary lengths (empty ones included) and every start value of the rotation counter; the only
side condition is that the `uint64` counter does not wrap during the calls considered
(`seq + n·calls < 2^64`).
-/
import Vegeta.Model.RoundRobin
import Vegeta.Extracted.Facts
import Vegeta.Props.C10
import Vegeta.Model.Commands
namespace Vegeta.Props.C13
open Vegeta.Go Vegeta.Model.RoundRobin Vegeta.Model.Commands

/-- all inputs are exhausted -/
def AllEmpty {α} (rem : List (List α)) : Prop := ∀ l ∈ rem, l = []

/-! ### helper lemmas -/

theorem aux_len {α} (rem : List (List α)) : (ofInputs rem).length = rem.length := by
  simp [ofInputs]

theorem aux_getD {α} (rem : List (List α)) (i : Nat) :
    (ofInputs rem).getD i [] = ofRecords (rem.getD i []) := by
  simp only [ofInputs, List.getD_eq_getElem?_getD, List.getElem?_map]
  cases rem[i]? <;> simp [ofRecords]

theorem aux_set {α} (rem : List (List α)) (i : Nat) (t : List α) :
    (ofInputs rem).set i (ofRecords t) = ofInputs (rem.set i t) := by
  simp [ofInputs, List.map_set]

theorem aux_set_self {α} (rem : List (List α)) (i : Nat) (h : rem.getD i [] = []) :
    rem.set i [] = rem := by
  apply List.ext_getElem?
  intro k
  by_cases hk : i = k
  · subst hk
    by_cases hl : i < rem.length
    · rw [List.getElem?_set_self hl]
      simp only [List.getD_eq_getElem?_getD, List.getElem?_eq_getElem hl, Option.getD_some] at h
      rw [List.getElem?_eq_getElem hl, h]
    · have : rem.length ≤ i := by omega
      simp [this]
  · rw [List.getElem?_set_ne hk]

theorem aux_incSeq (seq : Nat) (h : seq + 1 < two64) : incSeq seq = seq + 1 := by
  unfold incSeq; exact Nat.mod_eq_of_lt h

/-- in `n` consecutive values of the counter every residue modulo `n` occurs -/
theorem aux_cover (n seq i : Nat) (hi : i < n) : ∃ m, m < n ∧ (seq + m) % n = i := by
  have hr : seq % n < n := Nat.mod_lt _ (by omega)
  by_cases h : seq % n ≤ i
  · refine ⟨i - seq % n, by omega, ?_⟩
    rw [Nat.add_mod, Nat.mod_eq_of_lt (show i - seq % n < n by omega)]
    have : seq % n + (i - seq % n) = i := by omega
    rw [this, Nat.mod_eq_of_lt hi]
  · refine ⟨n - seq % n + i, by omega, ?_⟩
    rw [Nat.add_mod, Nat.mod_eq_of_lt (show n - seq % n + i < n by omega)]
    have : seq % n + (n - seq % n + i) = n + i := by omega
    rw [this, Nat.add_mod_left, Nat.mod_eq_of_lt hi]

/-- result of a loop that tried `fuel` decoders in vain -/
def endOf {α} (fuel : Nat) (last : Option Nat) : Step α :=
  match (if fuel = 0 then last else some eEOF) with
  | some e => .err e
  | none => .nothing

/-- The loop on well-formed inputs: it returns the head of the first non-empty input in rotation
order (and pops it), or — all `fuel` tried inputs being empty — the last error, leaving the inputs
as they were. -/
theorem aux_loop {α} (rem : List (List α)) :
    ∀ (fuel seq : Nat) (last : Option Nat), seq + fuel < two64 →
      (∃ m a t, m < fuel ∧ rem.getD ((seq + m) % rem.length) [] = a :: t ∧
        rrLoop fuel (ofInputs rem) seq last =
          (.got ((seq + m) % rem.length) a, ofInputs (rem.set ((seq + m) % rem.length) t), seq + m + 1))
      ∨ ((∀ m, m < fuel → rem.getD ((seq + m) % rem.length) [] = []) ∧
        rrLoop fuel (ofInputs rem) seq last = (endOf fuel last, ofInputs rem, seq + fuel)) := by
  intro fuel
  induction fuel with
  | zero =>
    intro seq last _
    right
    refine ⟨by intro m hm; omega, ?_⟩
    simp only [rrLoop, endOf]
    cases last <;> rfl
  | succ fuel ih =>
    intro seq last hw
    have hinc : incSeq seq = seq + 1 := aux_incSeq seq (by omega)
    cases hx : rem.getD (seq % rem.length) [] with
    | nil =>
      rcases ih (seq + 1) (some eEOF) (by omega) with ⟨m, a, t, hm, hget, hres⟩ | ⟨hall, hres⟩
      · left
        have e : seq + 1 + m = seq + (m + 1) := by omega
        refine ⟨m + 1, a, t, by omega, by rw [← e]; exact hget, ?_⟩
        simp only [rrLoop, aux_len, aux_getD, hx, ofRecords, List.map_nil, pop, hinc]
        have : (ofInputs rem).set (seq % rem.length) [] = ofInputs rem := by
          have := aux_set rem (seq % rem.length) []
          simp only [ofRecords, List.map_nil] at this
          rw [this, aux_set_self rem _ hx]
        rw [this, hres, ← e]
      · right
        refine ⟨?_, ?_⟩
        · intro m hm
          cases m with
          | zero => simpa using hx
          | succ m =>
            have e : seq + 1 + m = seq + (m + 1) := by omega
            rw [← e]; exact hall m (by omega)
        · simp only [rrLoop, aux_len, aux_getD, hx, ofRecords, List.map_nil, pop, hinc]
          have : (ofInputs rem).set (seq % rem.length) [] = ofInputs rem := by
            have := aux_set rem (seq % rem.length) []
            simp only [ofRecords, List.map_nil] at this
            rw [this, aux_set_self rem _ hx]
          rw [this, hres]
          have e : seq + 1 + fuel = seq + (fuel + 1) := by omega
          rw [e]
          congr 1
          unfold endOf
          cases fuel <;> simp
    | cons a t =>
      left
      refine ⟨0, a, t, by omega, by simpa using hx, ?_⟩
      simp only [rrLoop, aux_len, aux_getD, hx, ofRecords, List.map_cons, pop, hinc, Nat.add_zero]
      have := aux_set rem (seq % rem.length) t
      simp only [ofRecords] at this
      rw [this]

theorem aux_getD_lt {α} (rem : List (List α)) (j : Nat) (a : α) (t : List α)
    (h : rem.getD j [] = a :: t) : j < rem.length := by
  rcases Nat.lt_or_ge j rem.length with hl | hl
  · exact hl
  · simp [List.getD_eq_getElem?_getD, List.getElem?_eq_none hl] at h

/-- **One call of the combined decoder on well-formed inputs** (`n ≥ 1`): either it returns the head
record of some non-empty input `j` and pops exactly that record, or all inputs are empty, it
returns `io.EOF`, and the inputs stay as they are. -/
theorem aux_decode_spec {α} (rem : List (List α)) (seq : Nat) (hn : 0 < rem.length)
    (hw : seq + rem.length < two64) :
    (∃ j a t seq', rem.getD j [] = a :: t ∧ j < rem.length ∧ seq' ≤ seq + rem.length ∧
        rrDecode ⟨ofInputs rem, seq⟩ = (.got j a, ⟨ofInputs (rem.set j t), seq'⟩))
    ∨ (AllEmpty rem ∧ ∃ seq', seq' ≤ seq + rem.length ∧
        rrDecode ⟨ofInputs rem, seq⟩ = (.err eEOF, ⟨ofInputs rem, seq'⟩)) := by
  cases rem with
  | nil => simp at hn
  | cons l1 rest =>
  cases rest with
  | nil =>
    cases l1 with
    | nil =>
      right
      refine ⟨by intro l hl; simpa using hl, seq, by omega, ?_⟩
      simp [rrDecode, ofInputs, ofRecords, pop]
    | cons a t =>
      left
      refine ⟨0, a, t, seq, by simp, by simp, by omega, ?_⟩
      simp [rrDecode, ofInputs, ofRecords, pop]
  | cons l2 rest =>
    have hne : ∀ d, ofInputs (l1 :: l2 :: rest) ≠ [d] := by intro d h; simp [ofInputs] at h
    have hdec : rrDecode ⟨ofInputs (l1 :: l2 :: rest), seq⟩ =
        (let r := rrLoop (ofInputs (l1 :: l2 :: rest)).length (ofInputs (l1 :: l2 :: rest)) seq none
         (r.1, ⟨r.2.1, r.2.2⟩)) := by
      simp [rrDecode, ofInputs]
    rw [hdec, aux_len]
    rcases aux_loop (l1 :: l2 :: rest) (l1 :: l2 :: rest).length seq none hw with
      ⟨m, a, t, hm, hget, hres⟩ | ⟨hall, hres⟩
    · left
      refine ⟨_, a, t, seq + m + 1, hget, aux_getD_lt _ _ _ _ hget, by omega, ?_⟩
      rw [hres]
    · right
      refine ⟨?_, seq + (l1 :: l2 :: rest).length, by omega, ?_⟩
      · intro l hl
        obtain ⟨i, hi, hli⟩ := List.getElem_of_mem hl
        obtain ⟨m, hm, hmi⟩ := aux_cover (l1 :: l2 :: rest).length seq i hi
        have := hall m hm
        rw [hmi] at this
        simp only [List.getD_eq_getElem?_getD, List.getElem?_eq_getElem hi, Option.getD_some] at this
        rw [← hli]; exact this
      · rw [hres]
        simp [endOf]

theorem aux_allEmpty_getD {α} (rem : List (List α)) (h : AllEmpty rem) (j : Nat) : rem.getD j [] = [] := by
  rcases Nat.lt_or_ge j rem.length with hl | hl
  · simp only [List.getD_eq_getElem?_getD, List.getElem?_eq_getElem hl, Option.getD_some]
    exact h _ (List.getElem_mem hl)
  · simp [List.getD_eq_getElem?_getD, List.getElem?_eq_none hl]

theorem aux_flatten_set {α} : ∀ (rem : List (List α)) (j : Nat) (a : α) (t : List α),
    rem.getD j [] = a :: t → rem.flatten.Perm (a :: (rem.set j t).flatten) := by
  intro rem
  induction rem with
  | nil => intro j a t h; simp at h
  | cons r rs ih =>
    intro j a t h
    cases j with
    | zero =>
      simp at h; subst h; simp
    | succ j =>
      have h' : rs.getD j [] = a :: t := by simpa using h
      have := ih j a t h'
      simp only [List.flatten_cons, List.set_cons_succ]
      exact (List.Perm.append_left r this).trans List.perm_middle

theorem aux_allEmpty_flatten {α} (rem : List (List α)) (h : AllEmpty rem) : rem.flatten = [] := by
  induction rem with
  | nil => rfl
  | cons r rs ih =>
    have hr : r = [] := h r (by simp)
    have := ih (by intro l hl; exact h l (by simp [hl]))
    simp [hr, this]

/-- the records of input `i` inside a tagged output -/
def fromInput {α} (out : List (Nat × α)) (i : Nat) : List α :=
  (out.filter (fun x => x.1 == i)).map (·.2)

/-- Draining well-formed inputs: the loop ends with `io.EOF` after exactly the records of all
inputs; the part of the output that came from input `i` is input `i`, in order. -/
theorem aux_drain {α} : ∀ (fuel : Nat) (rem : List (List α)) (seq : Nat), 0 < rem.length →
    rem.flatten.length < fuel → seq + rem.length * fuel < two64 →
    ∃ out rem' seq', drain fuel ⟨ofInputs rem, seq⟩ = (out, ⟨ofInputs rem', seq'⟩, some eEOF) ∧
      AllEmpty rem' ∧ rem'.length = rem.length ∧ seq' ≤ seq + rem.length * fuel ∧
      (out.map (·.2)).Perm rem.flatten ∧
      (∀ i, fromInput out i = rem.getD i []) ∧
      (∀ x ∈ out, x.1 < rem.length) := by
  intro fuel
  induction fuel with
  | zero => intro rem seq _ h; omega
  | succ fuel ih =>
    intro rem seq hn htot hw
    have hmul : rem.length * (fuel + 1) = rem.length * fuel + rem.length := Nat.mul_succ _ _
    rcases aux_decode_spec rem seq hn (by omega) with
      ⟨j, a, t, seq1, hget, hj, hseq1, hdec⟩ | ⟨hall, seq1, hseq1, hdec⟩
    · have hperm := aux_flatten_set rem j a t hget
      have hlen : (rem.set j t).length = rem.length := by simp
      have hfl : (rem.set j t).flatten.length + 1 = rem.flatten.length := by
        have := hperm.length_eq; simp only [List.length_cons] at this; omega
      obtain ⟨out, rem', seq', hdr, hemp, hl', hs', hp, hf, htag⟩ :=
        ih (rem.set j t) seq1 (by omega) (by omega) (by rw [hlen]; omega)
      refine ⟨(j, a) :: out, rem', seq', ?_, hemp, by omega, by rw [hlen] at hs'; omega, ?_, ?_, ?_⟩
      · simp only [drain, hdec, hdr]
      · simp only [List.map_cons]
        exact (List.Perm.cons a hp).trans hperm.symm
      · intro i
        have hi := hf i
        by_cases hji : j = i
        · subst hji
          simp only [fromInput, List.filter_cons, beq_self_eq_true, ↓reduceIte, List.map_cons]
          simp only [fromInput] at hi
          rw [hi, hget]
          simp [List.getD_eq_getElem?_getD, List.getElem?_set_self hj]
        · have hne : ((j, a).1 == i) = false := by simpa using hji
          simp only [fromInput, List.filter_cons, hne]
          simp only [fromInput] at hi
          simp only [Bool.false_eq_true, ↓reduceIte]
          rw [hi]
          simp [List.getD_eq_getElem?_getD, List.getElem?_set_ne hji]
      · intro x hx
        rcases List.mem_cons.mp hx with h | h
        · subst h; exact hj
        · have := htag x h; omega
    · refine ⟨[], rem, seq1, ?_, hall, rfl, by omega, ?_, ?_, ?_⟩
      · simp only [drain, hdec]
      · simp [aux_allEmpty_flatten rem hall]
      · intro i
        have := aux_allEmpty_getD rem hall i
        simpa [fromInput] using this.symm
      · intro x hx; cases hx

/-! ### the property theorems -/

/-- **"Reading results from several inputs at once yields every record of every input exactly
once … and signals the end only when all inputs are exhausted."**  For every `n ≥ 1` inputs of any
lengths: calling the combined decoder until it reports an error ends with `io.EOF`, and the records
returned up to then are a permutation of the concatenation of all inputs. -/
theorem rr_output_perm_concat {α} (inputs : List (List α)) (seq fuel : Nat) (hn : 0 < inputs.length)
    (hfuel : inputs.flatten.length < fuel) (hw : seq + inputs.length * fuel < two64) :
    ∃ out s', drain fuel ⟨ofInputs inputs, seq⟩ = (out, s', some eEOF) ∧
      (out.map (·.2)).Perm inputs.flatten := by
  obtain ⟨out, rem', seq', h, _, _, _, hp, _, _⟩ := aux_drain fuel inputs seq hn hfuel hw
  exact ⟨out, _, h, hp⟩

/-- **"… keeps each input's own order."**  The records of the output that came from input `i`
(ghost source tag) are exactly input `i`, in its own order — neither lost, duplicated nor reordered. -/
theorem rr_each_input_exact {α} (inputs : List (List α)) (seq fuel : Nat) (hn : 0 < inputs.length)
    (hfuel : inputs.flatten.length < fuel) (hw : seq + inputs.length * fuel < two64) :
    ∃ out s', drain fuel ⟨ofInputs inputs, seq⟩ = (out, s', some eEOF) ∧
      (∀ i, i < inputs.length → fromInput out i = inputs.getD i []) ∧
      (∀ x ∈ out, x.1 < inputs.length) := by
  obtain ⟨out, rem', seq', h, _, _, _, _, hf, ht⟩ := aux_drain fuel inputs seq hn hfuel hw
  exact ⟨out, _, h, fun i _ => hf i, ht⟩

/-- Each input is a subsequence of the (untagged) output. -/
theorem rr_each_input_sublist {α} (inputs : List (List α)) (seq fuel : Nat) (hn : 0 < inputs.length)
    (hfuel : inputs.flatten.length < fuel) (hw : seq + inputs.length * fuel < two64) :
    ∃ out s', drain fuel ⟨ofInputs inputs, seq⟩ = (out, s', some eEOF) ∧
      ∀ l ∈ inputs, l.Sublist (out.map (·.2)) := by
  obtain ⟨out, rem', seq', h, _, _, _, _, hf, _⟩ := aux_drain fuel inputs seq hn hfuel hw
  refine ⟨out, _, h, ?_⟩
  intro l hl
  obtain ⟨i, hi, hli⟩ := List.getElem_of_mem hl
  have := hf i
  simp only [List.getD_eq_getElem?_getD, List.getElem?_eq_getElem hi, Option.getD_some, hli] at this
  rw [← this]
  exact List.Sublist.map _ List.filter_sublist

/-- **"… signals the end only when all inputs are exhausted."**  On well-formed inputs a call of
the combined decoder returns an error exactly when every input is exhausted; the error is then
`io.EOF`, and otherwise a record is returned (never `nil` without a record). -/
theorem rr_eof_iff_all_exhausted {α} (rem : List (List α)) (seq : Nat) (hn : 0 < rem.length)
    (hw : seq + rem.length < two64) :
    ((∃ e s', rrDecode ⟨ofInputs rem, seq⟩ = (.err e, s')) ↔ AllEmpty rem) ∧
    (AllEmpty rem → ∃ s', rrDecode ⟨ofInputs rem, seq⟩ = (.err eEOF, s')) ∧
    (¬ AllEmpty rem → ∃ j a s', rrDecode ⟨ofInputs rem, seq⟩ = (.got j a, s')) := by
  rcases aux_decode_spec rem seq hn hw with ⟨j, a, t, seq1, hget, hj, _, hdec⟩ | ⟨hall, seq1, _, hdec⟩
  · have hne : ¬ AllEmpty rem := by
      intro h
      have := aux_allEmpty_getD rem h j
      rw [hget] at this; cases this
    refine ⟨⟨?_, fun h => absurd h hne⟩, fun h => absurd h hne, fun _ => ⟨j, a, _, hdec⟩⟩
    rintro ⟨e, s', h⟩
    rw [hdec] at h; cases h
  · exact ⟨⟨fun _ => hall, fun _ => ⟨eEOF, _, hdec⟩⟩, fun _ => ⟨_, hdec⟩, fun h => absurd hall h⟩

/-- **End of input is stable**: once the combined decoder has reported an error on well-formed
inputs, every further call reports `io.EOF` again (for any number `k` of further calls). -/
theorem rr_eof_stable {α} (rem : List (List α)) (seq : Nat) (hn : 0 < rem.length) (e : Nat) (s' : RR α)
    (hw : seq + rem.length < two64) (h : rrDecode ⟨ofInputs rem, seq⟩ = (.err e, s')) :
    ∀ k, s'.seq + rem.length * k < two64 → (calls k s').1 = List.replicate k (.err eEOF) := by
  rcases aux_decode_spec rem seq hn hw with ⟨j, a, t, seq1, _, _, _, hdec⟩ | ⟨hall, seq1, _, hdec⟩
  · rw [hdec] at h; cases h
  · rw [hdec] at h
    have hs : s' = ⟨ofInputs rem, seq1⟩ := by cases h; rfl
    subst hs
    intro k
    generalize seq1 = sq
    induction k generalizing sq with
    | zero => intro _; rfl
    | succ k ih =>
      intro hk
      have hmul : rem.length * (k + 1) = rem.length * k + rem.length := Nat.mul_succ _ _
      simp only [] at hk
      rcases aux_decode_spec rem sq hn (by omega) with ⟨j, a, t, seq2, hget, _, _, _⟩ | ⟨_, seq2, hseq2, hdec2⟩
      · have := aux_allEmpty_getD rem hall j
        rw [hget] at this; cases this
      · have := ih seq2 (by simp only []; omega)
        simp only [calls, hdec2, List.replicate_succ, this]

/-- **"Consequently the … encode command produce[s] … the same multiset of records for a result
set no matter how it is split across files."**  Two splits of the same result set (their
concatenations are permutations of each other — in particular any split against the unsplit file
`[all]`) drain to outputs that are permutations of each other. -/
theorem encode_split_multiset {α} (inputs₁ inputs₂ : List (List α)) (fuel₁ fuel₂ : Nat)
    (hsame : inputs₁.flatten.Perm inputs₂.flatten)
    (hn₁ : 0 < inputs₁.length) (hn₂ : 0 < inputs₂.length)
    (hf₁ : inputs₁.flatten.length < fuel₁) (hf₂ : inputs₂.flatten.length < fuel₂)
    (hw₁ : inputs₁.length * fuel₁ < two64) (hw₂ : inputs₂.length * fuel₂ < two64) :
    ∃ out₁ s₁ out₂ s₂,
      drain fuel₁ (RR.init (ofInputs inputs₁)) = (out₁, s₁, some eEOF) ∧
      drain fuel₂ (RR.init (ofInputs inputs₂)) = (out₂, s₂, some eEOF) ∧
      (out₁.map (·.2)).Perm (out₂.map (·.2)) := by
  obtain ⟨o1, s1, h1, p1⟩ := rr_output_perm_concat inputs₁ 0 fuel₁ hn₁ hf₁ (by omega)
  obtain ⟨o2, s2, h2, p2⟩ := rr_output_perm_concat inputs₂ 0 fuel₂ hn₂ hf₂ (by omega)
  exact ⟨o1, s1, o2, s2, h1, h2, (p1.trans hsame).trans p2.symm⟩

/-- **"… the report … command produce[s] the same exact metrics … no matter how it is split."**
Every report that is a permutation-invariant function of the records it was fed (the exact metrics
are: sums, extrema, counts, sets) has the same value for any two splits of the same result set. -/
theorem report_split_invariant {α β} (metric : List α → β)
    (hinv : ∀ l₁ l₂ : List α, l₁.Perm l₂ → metric l₁ = metric l₂)
    (inputs₁ inputs₂ : List (List α)) (fuel₁ fuel₂ : Nat)
    (hsame : inputs₁.flatten.Perm inputs₂.flatten)
    (hn₁ : 0 < inputs₁.length) (hn₂ : 0 < inputs₂.length)
    (hf₁ : inputs₁.flatten.length < fuel₁) (hf₂ : inputs₂.flatten.length < fuel₂)
    (hw₁ : inputs₁.length * fuel₁ < two64) (hw₂ : inputs₂.length * fuel₂ < two64) :
    metric ((drain fuel₁ (RR.init (ofInputs inputs₁))).1.map (·.2)) =
      metric ((drain fuel₂ (RR.init (ofInputs inputs₂))).1.map (·.2)) := by
  obtain ⟨o1, s1, o2, s2, h1, h2, p⟩ :=
    encode_split_multiset inputs₁ inputs₂ fuel₁ fuel₂ hsame hn₁ hn₂ hf₁ hf₂ hw₁ hw₂
  rw [h1, h2]; exact hinv _ _ p

/-! ### the report command: composition with C10 (no abstract metric left) -/

section Report
open Vegeta.Model.Metrics Vegeta.Spec.Metrics Vegeta.Props.C10

/-- the closed metrics report computed by the `report` command's loop from the records it was fed:
`Metrics.Add` for each record in arrival order, then `Close` (model of lib/metrics.go, C10) -/
def closedReport (fed : List Result) : Report := report (close (addAll Metrics.init fed))

/-- **"Consequently the report … command[s] produce the same exact metrics … for a result set no
matter how it is split across files."**  For any two splits of the same result multiset into
`n ≥ 1` inputs each (of any lengths; in particular any split against the unsplit file `[all]`),
in C10's domain (timestamps ≥ 1970, latencies ≥ 0, ends and totals inside their Go types):
draining the round-robin decoder over either split and folding `Metrics.Add`/`Close` over the
records in the order they come out gives the same closed report — every field equal, the error
texts the same set (equal up to permutation: their order is the order of first arrival) — and
this report is the reference report `ref` of the union of the files. -/
theorem report_metrics_split_invariant (inputs₁ inputs₂ : List (List Result)) (fuel₁ fuel₂ : Nat)
    (hsame : inputs₁.flatten.Perm inputs₂.flatten) (hd : Domain inputs₁.flatten)
    (hn₁ : 0 < inputs₁.length) (hn₂ : 0 < inputs₂.length)
    (hf₁ : inputs₁.flatten.length < fuel₁) (hf₂ : inputs₂.flatten.length < fuel₂)
    (hw₁ : inputs₁.length * fuel₁ < two64) (hw₂ : inputs₂.length * fuel₂ < two64) :
    ∃ out₁ s₁ out₂ s₂,
      drain fuel₁ (RR.init (ofInputs inputs₁)) = (out₁, s₁, some eEOF) ∧
      drain fuel₂ (RR.init (ofInputs inputs₂)) = (out₂, s₂, some eEOF) ∧
      withoutErrors (closedReport (out₁.map (·.2))) = withoutErrors (closedReport (out₂.map (·.2))) ∧
      (closedReport (out₁.map (·.2))).errors.Perm (closedReport (out₂.map (·.2))).errors ∧
      withoutErrors (closedReport (out₁.map (·.2))) = withoutErrors (ref inputs₁.flatten) ∧
      (closedReport (out₁.map (·.2))).errors.Perm (ref inputs₁.flatten).errors := by
  obtain ⟨o1, s1, h1, p1⟩ := rr_output_perm_concat inputs₁ 0 fuel₁ hn₁ hf₁ (by omega)
  obtain ⟨o2, s2, h2, p2⟩ := rr_output_perm_concat inputs₂ 0 fuel₂ hn₂ hf₂ (by omega)
  have hd1 : Domain (o1.map (·.2)) := aux_domain_perm p1.symm hd
  have p12 : (o1.map (·.2)).Perm (o2.map (·.2)) := (p1.trans hsame).trans p2.symm
  obtain ⟨a, b⟩ := metrics_order_independent _ _ hd1 p12
  have hr1 : closedReport (o1.map (·.2)) = ref (o1.map (·.2)) := metrics_eq_ref _ hd1
  obtain ⟨c, d⟩ := ref_perm _ _ p1
  exact ⟨o1, s1, o2, s2, h1, h2, a, b, by rw [hr1]; exact c, by rw [hr1]; exact d⟩

/-- non-vacuity: a concrete result set (C10's sample), its unsplit file and a split into three files
of unequal lengths (one of them empty) satisfy the hypotheses -/
example : ∃ out₁ s₁ out₂ s₂,
    drain 10 (RR.init (ofInputs [sample])) = (out₁, s₁, some eEOF) ∧
    drain 10 (RR.init (ofInputs [sample.drop 2, [], sample.take 2])) = (out₂, s₂, some eEOF) ∧
    withoutErrors (closedReport (out₁.map (·.2))) = withoutErrors (closedReport (out₂.map (·.2))) := by
  have hp : ([sample] : List (List Result)).flatten.Perm [sample.drop 2, [], sample.take 2].flatten := by decide
  have hdom : Domain ([sample] : List (List Result)).flatten :=
    { ts_nonneg := by decide, lat_nonneg := by decide, end_fits := by decide, lat_sum := by decide,
      in_sum := by decide, out_sum := by decide }
  obtain ⟨o1, s1, o2, s2, h1, h2, h3, _⟩ := report_metrics_split_invariant _ _ 10 10 hp hdom
    (by decide) (by decide) (by decide) (by decide) (by decide) (by decide)
  exact ⟨o1, s1, o2, s2, h1, h2, h3⟩

end Report

/-! ### the rotation counter at its wrap (exactly what holds) -/

theorem aux_incSeq_mod (n seq : Nat) (hd : n ∣ two64) : incSeq seq % n = (seq + 1) % n := by
  unfold incSeq; exact Nat.mod_mod_of_dvd _ hd

/-- if the number of decoders divides 2^64, the loop depends on the counter only through its residue -/
theorem aux_loop_congr {α} (n : Nat) (hd : n ∣ two64) : ∀ (fuel : Nat) (decs : List (Dec α)) (s1 s2 : Nat)
    (last : Option Nat), decs.length = n → s1 % n = s2 % n →
    (rrLoop fuel decs s1 last).1 = (rrLoop fuel decs s2 last).1 ∧
    (rrLoop fuel decs s1 last).2.1 = (rrLoop fuel decs s2 last).2.1 ∧
    (rrLoop fuel decs s1 last).2.2 % n = (rrLoop fuel decs s2 last).2.2 % n := by
  intro fuel
  induction fuel with
  | zero => intro decs s1 s2 last _ h; exact ⟨rfl, rfl, h⟩
  | succ fuel ih =>
    intro decs s1 s2 last hl h
    have hinc : incSeq s1 % n = incSeq s2 % n := by
      rw [aux_incSeq_mod n s1 hd, aux_incSeq_mod n s2 hd, Nat.add_mod, h, ← Nat.add_mod]
    simp only [rrLoop, hl, h]
    cases hp : pop (decs.getD (s2 % n) []) with
    | mk res d' =>
      cases res with
      | ok a => exact ⟨rfl, rfl, hinc⟩
      | error e => exact ih _ _ _ _ (by simp [hl]) hinc

theorem aux_decode_congr {α} (decs : List (Dec α)) (hd : decs.length ∣ two64) (s1 s2 : Nat)
    (h : s1 % decs.length = s2 % decs.length) :
    (rrDecode ⟨decs, s1⟩).1 = (rrDecode ⟨decs, s2⟩).1 ∧
    (rrDecode ⟨decs, s1⟩).2.decs = (rrDecode ⟨decs, s2⟩).2.decs ∧
    (rrDecode ⟨decs, s1⟩).2.seq % decs.length = (rrDecode ⟨decs, s2⟩).2.seq % decs.length := by
  match decs, hd, h with
  | [d], _, h =>
    simp only [rrDecode]
    cases pop d with
    | mk res d' => cases res <;> exact ⟨rfl, rfl, h⟩
  | [], hd, _ => exact absurd (show two64 = 0 by simpa using hd) (by decide)
  | d1 :: d2 :: ds, hd, h =>
    have := aux_loop_congr _ hd (d1 :: d2 :: ds).length (d1 :: d2 :: ds) s1 s2 none rfl h
    simpa [rrDecode] using this

theorem aux_half (n : Nat) (hd : n ∣ two64) (hlt : n < two64) : n + n ≤ two64 := by
  obtain ⟨k, hk⟩ := hd
  have hk2 : 2 ≤ k := by
    rcases k with _ | _ | k
    · simp [two64] at hk
    · omega
    · omega
  calc n + n = n * 2 := by omega
    _ ≤ n * k := Nat.mul_le_mul_left n hk2
    _ = two64 := hk.symm

/-- one call, any counter value, when the number of inputs divides 2^64: as `aux_decode_spec`, without
the no-wrap condition -/
theorem aux_decode_spec_dvd {α} (rem : List (List α)) (seq : Nat) (hn : 0 < rem.length)
    (hd : rem.length ∣ two64) (hlt : rem.length < two64) :
    (∃ j a t seq', rem.getD j [] = a :: t ∧ j < rem.length ∧
        rrDecode ⟨ofInputs rem, seq⟩ = (.got j a, ⟨ofInputs (rem.set j t), seq'⟩))
    ∨ (AllEmpty rem ∧ ∃ seq', rrDecode ⟨ofInputs rem, seq⟩ = (.err eEOF, ⟨ofInputs rem, seq'⟩)) := by
  have hmod : seq % rem.length < rem.length := Nat.mod_lt _ hn
  have hhalf := aux_half _ hd hlt
  have hc := aux_decode_congr (ofInputs rem) (by rw [aux_len]; exact hd) seq (seq % rem.length)
    (by rw [aux_len, Nat.mod_mod])
  obtain ⟨c1, c2, _⟩ := hc
  have heta : rrDecode ⟨ofInputs rem, seq⟩ =
      ((rrDecode ⟨ofInputs rem, seq⟩).1, ⟨(rrDecode ⟨ofInputs rem, seq⟩).2.decs, (rrDecode ⟨ofInputs rem, seq⟩).2.seq⟩) := rfl
  rcases aux_decode_spec rem (seq % rem.length) hn (by omega) with
    ⟨j, a, t, seq1, hget, hj, _, hdec⟩ | ⟨hall, seq1, _, hdec⟩
  · left
    refine ⟨j, a, t, (rrDecode ⟨ofInputs rem, seq⟩).2.seq, hget, hj, ?_⟩
    rw [heta, c1, c2, hdec]
  · right
    refine ⟨hall, (rrDecode ⟨ofInputs rem, seq⟩).2.seq, ?_⟩
    rw [heta, c1, c2, hdec]

theorem aux_drain_dvd {α} : ∀ (fuel : Nat) (rem : List (List α)) (seq : Nat), 0 < rem.length →
    rem.length ∣ two64 → rem.length < two64 → rem.flatten.length < fuel →
    ∃ out rem' seq', drain fuel ⟨ofInputs rem, seq⟩ = (out, ⟨ofInputs rem', seq'⟩, some eEOF) ∧
      AllEmpty rem' ∧ rem'.length = rem.length ∧
      (out.map (·.2)).Perm rem.flatten ∧
      (∀ i, fromInput out i = rem.getD i []) ∧
      (∀ x ∈ out, x.1 < rem.length) := by
  intro fuel
  induction fuel with
  | zero => intro rem seq _ _ _ h; omega
  | succ fuel ih =>
    intro rem seq hn hd hlt htot
    rcases aux_decode_spec_dvd rem seq hn hd hlt with ⟨j, a, t, seq1, hget, hj, hdec⟩ | ⟨hall, seq1, hdec⟩
    · have hperm := aux_flatten_set rem j a t hget
      have hlen : (rem.set j t).length = rem.length := by simp
      have hfl : (rem.set j t).flatten.length + 1 = rem.flatten.length := by
        have := hperm.length_eq; simp only [List.length_cons] at this; omega
      obtain ⟨out, rem', seq', hdr, hemp, hl', hp, hf, htag⟩ :=
        ih (rem.set j t) seq1 (by omega) (by rw [hlen]; exact hd) (by omega) (by omega)
      refine ⟨(j, a) :: out, rem', seq', ?_, hemp, by omega, ?_, ?_, ?_⟩
      · simp only [drain, hdec, hdr]
      · simp only [List.map_cons]
        exact (List.Perm.cons a hp).trans hperm.symm
      · intro i
        have hi := hf i
        by_cases hji : j = i
        · subst hji
          simp only [fromInput, List.filter_cons, beq_self_eq_true, ↓reduceIte, List.map_cons]
          simp only [fromInput] at hi
          rw [hi, hget]
          simp [List.getD_eq_getElem?_getD, List.getElem?_set_self hj]
        · have hne : ((j, a).1 == i) = false := by simpa using hji
          simp only [fromInput, List.filter_cons, hne]
          simp only [fromInput] at hi
          simp only [Bool.false_eq_true, ↓reduceIte]
          rw [hi]
          simp [List.getD_eq_getElem?_getD, List.getElem?_set_ne hji]
      · intro x hx
        rcases List.mem_cons.mp hx with h | h
        · subst h; exact hj
        · have := htag x h; omega
    · refine ⟨[], rem, seq1, ?_, hall, rfl, ?_, ?_, ?_⟩
      · simp only [drain, hdec]
      · simp [aux_allEmpty_flatten rem hall]
      · intro i
        have := aux_allEmpty_getD rem hall i
        simpa [fromInput] using this.symm
      · intro x hx; cases hx

/-- **The wrap of the `uint64` rotation counter is harmless when the number of inputs divides 2^64**
(1, 2, 4, 8, … inputs): `seq % n` then continues across the wrap, and for EVERY counter value and any
number of calls draining yields every record exactly once, each input in its own order, and ends with
`io.EOF` only when all inputs are exhausted — no no-wrap hypothesis. -/
theorem rr_wrap_harmless_when_length_divides {α} (inputs : List (List α)) (seq fuel : Nat)
    (hn : 0 < inputs.length) (hd : inputs.length ∣ two64) (hlt : inputs.length < two64)
    (hfuel : inputs.flatten.length < fuel) :
    ∃ out s', drain fuel ⟨ofInputs inputs, seq⟩ = (out, s', some eEOF) ∧
      (out.map (·.2)).Perm inputs.flatten ∧ (∀ i, fromInput out i = inputs.getD i []) ∧
      (∀ x ∈ out, x.1 < inputs.length) := by
  obtain ⟨out, rem', seq', h, _, _, hp, hf, ht⟩ := aux_drain_dvd fuel inputs seq hn hd hlt hfuel
  exact ⟨out, _, h, hp, hf, ht⟩

/-- … and a call returns an error exactly when all inputs are exhausted, at every counter value. -/
theorem rr_eof_iff_all_exhausted_when_length_divides {α} (rem : List (List α)) (seq : Nat)
    (hn : 0 < rem.length) (hd : rem.length ∣ two64) (hlt : rem.length < two64) :
    (∃ e s', rrDecode ⟨ofInputs rem, seq⟩ = (.err e, s')) ↔ AllEmpty rem := by
  rcases aux_decode_spec_dvd rem seq hn hd hlt with ⟨j, a, t, seq1, hget, hj, hdec⟩ | ⟨hall, seq1, hdec⟩
  · constructor
    · rintro ⟨e, s', h⟩; rw [hdec] at h; cases h
    · intro h
      have := aux_allEmpty_getD rem h j
      rw [hget] at this; cases this
  · exact ⟨fun _ => hall, fun _ => ⟨_, _, hdec⟩⟩

/-- **For other numbers of inputs the wrap is not harmless**: with three inputs and the counter two
below 2^64, the three attempts of one call have the residues 2, 0, 0 (2^64 ≡ 1 mod 3): input 1 is
never asked, and the call reports `io.EOF` although input 1 still holds a record.  (Reaching this
state takes 2^64 − 2 decode attempts; it is the reason for the no-wrap hypothesis of the theorems
for arbitrary `n`.) -/
theorem rr_wrap_counterexample_three_inputs :
    (rrDecode ⟨ofInputs [[], [7], []], 18446744073709551614⟩).1 = (Step.err eEOF : Step Nat) ∧
    ¬ AllEmpty ([[], [7], []] : List (List Nat)) := by
  refine ⟨by decide, ?_⟩
  intro h; have := h [7] (by simp); cases this

example : (4 : Nat) ∣ two64 ∧ (4 : Nat) < two64 := by decide

/-! ### the report loop with intermediate reports (ticks) -/

def tickPrefixes {α} : List α → List (Ev α) → List (List α)
  | _, [] => []
  | acc, .got a :: es => tickPrefixes (acc ++ [a]) es
  | acc, .tick :: es => acc :: tickPrefixes acc es

theorem aux_reportRun {α ρ β} (R : Report α ρ β)
    (hcl : ∀ s a, R.close (R.add (R.close s) a) = R.close (R.add s a))
    (hcc : ∀ s, R.close (R.close s) = R.close s) (init : ρ) :
    ∀ (evs : List (Ev α)) (s : ρ) (acc : List α), R.close s = R.close (acc.foldl R.add init) →
      R.close (reportRun R s evs).2 = R.close ((acc ++ recordsOf evs).foldl R.add init) ∧
      (reportRun R s evs).1 = (tickPrefixes acc evs).map (fun rs => R.render (R.close (rs.foldl R.add init))) := by
  intro evs
  induction evs with
  | nil => intro s acc h; simpa [reportRun, recordsOf, tickPrefixes] using h
  | cons e es ih =>
    intro s acc h
    cases e with
    | got a =>
      have h' : R.close (R.add s a) = R.close ((acc ++ [a]).foldl R.add init) := by
        rw [List.foldl_append, List.foldl_cons, List.foldl_nil, ← hcl s a, h, hcl]
      have := ih (R.add s a) (acc ++ [a]) h'
      simpa [reportRun, recordsOf, tickPrefixes, List.append_assoc] using this
    | tick =>
      have h' : R.close (R.close s) = R.close (acc.foldl R.add init) := by rw [hcc, h]
      have := ih (R.close s) acc h'
      simp only [reportRun, recordsOf, tickPrefixes, List.map_cons]
      exact ⟨this.1, by rw [this.2, h]⟩

/-- **Intermediate reports do not change the final report** (generic form): for a report whose `Close`
is idempotent and transparent to a following `Add`, and for ANY placement of ticks between the
records, the final report is the report over the records without ticks, and the report written at a
tick is the report over the records read so far. -/
theorem report_ticks_invisible {α ρ β} (R : Report α ρ β)
    (hcl : ∀ s a, R.close (R.add (R.close s) a) = R.close (R.add s a))
    (hcc : ∀ s, R.close (R.close s) = R.close s) (init : ρ) (evs : List (Ev α)) :
    (reportCmd R init evs).2 = R.render (R.close ((recordsOf evs).foldl R.add init)) ∧
    (reportCmd R init evs).1 = (tickPrefixes [] evs).map (fun rs => R.render (R.close (rs.foldl R.add init))) := by
  have := aux_reportRun R hcl hcc init evs init [] rfl
  simp only [List.nil_append] at this
  exact ⟨by simp only [reportCmd]; rw [this.1], this.2⟩

/-- reports that are no `Closer` (the histogram report): both laws hold trivially -/
theorem report_ticks_invisible_no_closer {α ρ β} (add : ρ → α → ρ) (render : ρ → β) (init : ρ) (evs : List (Ev α)) :
    (reportCmd ⟨add, id, render⟩ init evs).2 = render ((recordsOf evs).foldl add init) :=
  (report_ticks_invisible ⟨add, id, render⟩ (fun _ _ => rfl) (fun _ => rfl) init evs).1

section MetricsTicks
open Vegeta.Model.Metrics Vegeta.Spec.Metrics Vegeta.Props.C10

/-- the metrics report of lib/metrics.go as the `report` command uses it (types text, json, hdrplot) -/
def metricsReport : Report Result Metrics Vegeta.Model.Metrics.Report := ⟨Vegeta.Model.Metrics.add, Vegeta.Model.Metrics.close, report⟩

def opsOf : List (Ev Result) → List Op
  | [] => []
  | .got r :: es => .add r :: opsOf es
  | .tick :: es => .close :: opsOf es

theorem aux_adds_opsOf (evs : List (Ev Result)) : adds (opsOf evs) = recordsOf evs := by
  induction evs with
  | nil => rfl
  | cons e es ih => cases e <;> simp [opsOf, adds, recordsOf, ih]

theorem aux_adds_append (o1 o2 : List Op) : adds (o1 ++ o2) = adds o1 ++ adds o2 := by
  induction o1 with
  | nil => rfl
  | cons o os ih => cases o <;> simp [adds, ih]

theorem aux_metricsRun : ∀ (evs : List (Ev Result)) (ops0 : List Op),
    (reportRun metricsReport (run Metrics.init ops0) evs).2 = run Metrics.init (ops0 ++ opsOf evs) ∧
    (reportRun metricsReport (run Metrics.init ops0) evs).1 =
      (tickPrefixes (adds ops0) evs).map closedReport := by
  intro evs
  induction evs with
  | nil => intro ops0; simp [reportRun, opsOf, tickPrefixes]
  | cons e es ih =>
    intro ops0
    cases e with
    | got r =>
      have hs : Vegeta.Model.Metrics.add (run Metrics.init ops0) r = run Metrics.init (ops0 ++ [.add r]) := by
        simp [run, List.foldl_append, step]
      have := ih (ops0 ++ [.add r])
      simp only [reportRun, metricsReport, opsOf, tickPrefixes] at this ⊢
      rw [hs]
      refine ⟨by rw [this.1, List.append_assoc]; rfl, ?_⟩
      rw [this.2, aux_adds_append]; rfl
    | tick =>
      have hs : Vegeta.Model.Metrics.close (run Metrics.init ops0) = run Metrics.init (ops0 ++ [.close]) := by
        simp [run, List.foldl_append, step]
      have := ih (ops0 ++ [.close])
      simp only [reportRun, metricsReport, opsOf, tickPrefixes, List.map_cons] at this ⊢
      rw [hs]
      refine ⟨by rw [this.1, List.append_assoc]; rfl, ?_⟩
      rw [this.2, aux_adds_append]
      simp only [adds, List.append_nil, List.cons.injEq, and_true]
      -- the report written at the tick
      have hc : report (run Metrics.init (ops0 ++ [.close])) = closedReport (adds ops0) := by
        have h1 : run Metrics.init (ops0 ++ [.close]) = close (run Metrics.init ops0) := by
          simp [run, List.foldl_append, step]
        rw [h1, interleaved_close]; rfl
      exact hc

/-- **Intermediate reports do not change the final metrics report**: for ANY placement of ticks between
the records the `report` command reads, the final report is the closed report over the records
without ticks, and each intermediate report is the closed report over the records read so far. -/
theorem report_ticks_invisible_metrics (evs : List (Ev Result)) :
    (reportCmd metricsReport Metrics.init evs).2 = closedReport (recordsOf evs) ∧
    (reportCmd metricsReport Metrics.init evs).1 = (tickPrefixes [] evs).map closedReport := by
  have := aux_metricsRun evs []
  simp only [List.nil_append, run, List.foldl_nil] at this
  refine ⟨?_, by simpa [reportCmd, adds] using this.2⟩
  simp only [reportCmd, metricsReport]
  have h1 : (reportRun metricsReport Metrics.init evs).2 = run Metrics.init (opsOf evs) := this.1
  simp only [metricsReport] at h1
  rw [h1, interleaved_close, aux_adds_opsOf]; rfl

/-- **The `report` command over split files with periodic reporting**: for any two splits of the same
result multiset and ANY placements of ticks in either run, the final reports agree in every field
(error texts as a set), and equal the reference report of the union. -/
theorem report_cmd_split_invariant_with_ticks (inputs₁ inputs₂ : List (List Result)) (fuel₁ fuel₂ : Nat)
    (evs₁ evs₂ : List (Ev Result))
    (hsame : inputs₁.flatten.Perm inputs₂.flatten) (hd : Domain inputs₁.flatten)
    (hn₁ : 0 < inputs₁.length) (hn₂ : 0 < inputs₂.length)
    (hf₁ : inputs₁.flatten.length < fuel₁) (hf₂ : inputs₂.flatten.length < fuel₂)
    (hw₁ : inputs₁.length * fuel₁ < two64) (hw₂ : inputs₂.length * fuel₂ < two64)
    (he₁ : recordsOf evs₁ = (drain fuel₁ (RR.init (ofInputs inputs₁))).1.map (·.2))
    (he₂ : recordsOf evs₂ = (drain fuel₂ (RR.init (ofInputs inputs₂))).1.map (·.2)) :
    withoutErrors (reportCmd metricsReport Metrics.init evs₁).2 = withoutErrors (reportCmd metricsReport Metrics.init evs₂).2 ∧
    (reportCmd metricsReport Metrics.init evs₁).2.errors.Perm (reportCmd metricsReport Metrics.init evs₂).2.errors ∧
    withoutErrors (reportCmd metricsReport Metrics.init evs₁).2 = withoutErrors (ref inputs₁.flatten) := by
  obtain ⟨o1, s1, o2, s2, h1, h2, a, b, c, _⟩ :=
    report_metrics_split_invariant inputs₁ inputs₂ fuel₁ fuel₂ hsame hd hn₁ hn₂ hf₁ hf₂ hw₁ hw₂
  rw [(report_ticks_invisible_metrics evs₁).1, (report_ticks_invisible_metrics evs₂).1, he₁, he₂, h1, h2]
  exact ⟨a, b, c⟩

example : (reportCmd metricsReport Metrics.init [.got sample[0], .tick, .tick, .got sample[1], .got sample[2], .tick]).2 =
    closedReport sample := (report_ticks_invisible_metrics _).1

end MetricsTicks

/-! ### source fact (regenerated from /repo by every check run) -/

/-- the whole body of `NewRoundRobinDecoder`, canonically printed, is the text the model was written from:
`{ if len(dec) == 1 { return dec[0] } var seq uint64 return func(r *Result) (err error) { for range dec { robin := seq % uint64(len(dec)) seq++ if err = dec[robin].Decode(r); err != nil { continue } return nil } return err } }` -/
theorem facts_roundRobin_body : Vegeta.Extracted.c13RoundRobinBody =
    [123, 32, 105, 102, 32, 108, 101, 110, 40, 100, 101, 99, 41, 32, 61, 61, 32, 49, 32, 123, 32,
    114, 101, 116, 117, 114, 110, 32, 100, 101, 99, 91, 48, 93, 32, 125, 32, 118, 97, 114, 32, 115,
    101, 113, 32, 117, 105, 110, 116, 54, 52, 32, 114, 101, 116, 117, 114, 110, 32, 102, 117, 110,
    99, 40, 114, 32, 42, 82, 101, 115, 117, 108, 116, 41, 32, 40, 101, 114, 114, 32, 101, 114, 114,
    111, 114, 41, 32, 123, 32, 102, 111, 114, 32, 114, 97, 110, 103, 101, 32, 100, 101, 99, 32, 123,
    32, 114, 111, 98, 105, 110, 32, 58, 61, 32, 115, 101, 113, 32, 37, 32, 117, 105, 110, 116, 54,
    52, 40, 108, 101, 110, 40, 100, 101, 99, 41, 41, 32, 115, 101, 113, 43, 43, 32, 105, 102, 32,
    101, 114, 114, 32, 61, 32, 100, 101, 99, 91, 114, 111, 98, 105, 110, 93, 46, 68, 101, 99, 111,
    100, 101, 40, 114, 41, 59, 32, 101, 114, 114, 32, 33, 61, 32, 110, 105, 108, 32, 123, 32, 99,
    111, 110, 116, 105, 110, 117, 101, 32, 125, 32, 114, 101, 116, 117, 114, 110, 32, 110, 105, 108,
    32, 125, 32, 114, 101, 116, 117, 114, 110, 32, 101, 114, 114, 32, 125, 32, 125] := rfl

/-! ### outside the quantifier (recorded, not part of the claim) -/

/-- With zero decoders every call returns `nil` without writing a record: `report`/`encode`
would never see an end. -/
theorem rr_zero_decoders_endless {α} (k seq : Nat) :
    (calls k (⟨[], seq⟩ : RR α)).1 = List.replicate k .nothing := by
  induction k with
  | zero => rfl
  | succ k ih => simp only [calls, rrDecode, rrLoop, List.length_nil, List.replicate_succ, ih]

/-- A failing call of one input is skipped silently when another input still has a record. -/
example : (calls 3 (RR.init [[Item.bad 7, Item.ok 1], [Item.ok 2]])).1 =
    [Step.got 1 2, Step.got 0 1, Step.err 0] := by decide

/-! ### non-vacuity -/

example : drain 10 (RR.init (ofInputs [[1, 2, 3], [], [4], [5, 6]])) =
    ([(0, 1), (2, 4), (3, 5), (0, 2), (3, 6), (0, 3)], ⟨ofInputs [[], [], [], []], 13⟩, some eEOF) := by decide

example : (0 : Nat) < ([[1, 2, 3], [], [4], [5, 6]] : List (List Nat)).length ∧
    ([[1, 2, 3], [], [4], [5, 6]] : List (List Nat)).flatten.length < 10 ∧
    0 + ([[1, 2, 3], [], [4], [5, 6]] : List (List Nat)).length * 10 < two64 := by decide

example : ([[1, 2, 3], [], [4], [5, 6]] : List (List Nat)).flatten.Perm [[1, 2, 3, 4, 5, 6]].flatten := by decide

end Vegeta.Props.C13
