/-
C13 — Reports over several files equal the report over their union.

The theorems are about `Vegeta.Model.RoundRobin` (the loop of `NewRoundRobinDecoder`, the
single-decoder shortcut, and `drain` = what `report`/`encode` do with the combined decoder).
Inputs are well-formed streams: `ofInputs inputs`, one decoder per input that yields the input's
records in order and then `io.EOF` for ever.  Everything is for every number `n ≥ 1` of inputs of
arbitrary lengths (empty ones included) and every start value of the rotation counter; the only
side condition is that the `uint64` counter does not wrap during the calls considered
(`seq + n·calls < 2^64`).
-/
import Vegeta.Model.RoundRobin
import Vegeta.Extracted.Facts
import Vegeta.Props.C10
namespace Vegeta.Props.C13
open Vegeta.Go Vegeta.Model.RoundRobin

/-- all inputs are exhausted -/
def AllEmpty {α} (rem : List (List α)) : Prop := ∀ l ∈ rem, l = []

/-! ### helper lemmas -/

theorem aux_len {α} (rem : List (List α)) : (ofInputs rem).length = rem.length := by
  simp [ofInputs]

theorem aux_getD {α} (rem : List (List α)) (i : Nat) :
    (ofInputs rem).getD i [] = ofRecords (rem.getD i []) := by
  simp only [ofInputs, List.getD_eq_getElem?_getD, List.getElem?_map]
  cases rem[i]? <;> simp [ofRecords]

theorem aux_set {α} (rem : List (List α)) (i : Nat) (t : List α) :
    (ofInputs rem).set i (ofRecords t) = ofInputs (rem.set i t) := by
  simp [ofInputs, List.map_set]

theorem aux_set_self {α} (rem : List (List α)) (i : Nat) (h : rem.getD i [] = []) :
    rem.set i [] = rem := by
  apply List.ext_getElem?
  intro k
  by_cases hk : i = k
  · subst hk
    by_cases hl : i < rem.length
    · rw [List.getElem?_set_self hl]
      simp only [List.getD_eq_getElem?_getD, List.getElem?_eq_getElem hl, Option.getD_some] at h
      rw [List.getElem?_eq_getElem hl, h]
    · have : rem.length ≤ i := by omega
      simp [this]
  · rw [List.getElem?_set_ne hk]

theorem aux_incSeq (seq : Nat) (h : seq + 1 < two64) : incSeq seq = seq + 1 := by
  unfold incSeq; exact Nat.mod_eq_of_lt h

/-- in `n` consecutive values of the counter every residue modulo `n` occurs -/
theorem aux_cover (n seq i : Nat) (hi : i < n) : ∃ m, m < n ∧ (seq + m) % n = i := by
  have hr : seq % n < n := Nat.mod_lt _ (by omega)
  by_cases h : seq % n ≤ i
  · refine ⟨i - seq % n, by omega, ?_⟩
    rw [Nat.add_mod, Nat.mod_eq_of_lt (show i - seq % n < n by omega)]
    have : seq % n + (i - seq % n) = i := by omega
    rw [this, Nat.mod_eq_of_lt hi]
  · refine ⟨n - seq % n + i, by omega, ?_⟩
    rw [Nat.add_mod, Nat.mod_eq_of_lt (show n - seq % n + i < n by omega)]
    have : seq % n + (n - seq % n + i) = n + i := by omega
    rw [this, Nat.add_mod_left, Nat.mod_eq_of_lt hi]

/-- result of a loop that tried `fuel` decoders in vain -/
def endOf {α} (fuel : Nat) (last : Option Nat) : Step α :=
  match (if fuel = 0 then last else some eEOF) with
  | some e => .err e
  | none => .nothing

/-- The loop on well-formed inputs: it returns the head of the first non-empty input in rotation
order (and pops it), or — all `fuel` tried inputs being empty — the last error, leaving the inputs
as they were. -/
theorem aux_loop {α} (rem : List (List α)) :
    ∀ (fuel seq : Nat) (last : Option Nat), seq + fuel < two64 →
      (∃ m a t, m < fuel ∧ rem.getD ((seq + m) % rem.length) [] = a :: t ∧
        rrLoop fuel (ofInputs rem) seq last =
          (.got ((seq + m) % rem.length) a, ofInputs (rem.set ((seq + m) % rem.length) t), seq + m + 1))
      ∨ ((∀ m, m < fuel → rem.getD ((seq + m) % rem.length) [] = []) ∧
        rrLoop fuel (ofInputs rem) seq last = (endOf fuel last, ofInputs rem, seq + fuel)) := by
  intro fuel
  induction fuel with
  | zero =>
    intro seq last _
    right
    refine ⟨by intro m hm; omega, ?_⟩
    simp only [rrLoop, endOf]
    cases last <;> rfl
  | succ fuel ih =>
    intro seq last hw
    have hinc : incSeq seq = seq + 1 := aux_incSeq seq (by omega)
    cases hx : rem.getD (seq % rem.length) [] with
    | nil =>
      rcases ih (seq + 1) (some eEOF) (by omega) with ⟨m, a, t, hm, hget, hres⟩ | ⟨hall, hres⟩
      · left
        have e : seq + 1 + m = seq + (m + 1) := by omega
        refine ⟨m + 1, a, t, by omega, by rw [← e]; exact hget, ?_⟩
        simp only [rrLoop, aux_len, aux_getD, hx, ofRecords, List.map_nil, pop, hinc]
        have : (ofInputs rem).set (seq % rem.length) [] = ofInputs rem := by
          have := aux_set rem (seq % rem.length) []
          simp only [ofRecords, List.map_nil] at this
          rw [this, aux_set_self rem _ hx]
        rw [this, hres, ← e]
      · right
        refine ⟨?_, ?_⟩
        · intro m hm
          cases m with
          | zero => simpa using hx
          | succ m =>
            have e : seq + 1 + m = seq + (m + 1) := by omega
            rw [← e]; exact hall m (by omega)
        · simp only [rrLoop, aux_len, aux_getD, hx, ofRecords, List.map_nil, pop, hinc]
          have : (ofInputs rem).set (seq % rem.length) [] = ofInputs rem := by
            have := aux_set rem (seq % rem.length) []
            simp only [ofRecords, List.map_nil] at this
            rw [this, aux_set_self rem _ hx]
          rw [this, hres]
          have e : seq + 1 + fuel = seq + (fuel + 1) := by omega
          rw [e]
          congr 1
          unfold endOf
          cases fuel <;> simp
    | cons a t =>
      left
      refine ⟨0, a, t, by omega, by simpa using hx, ?_⟩
      simp only [rrLoop, aux_len, aux_getD, hx, ofRecords, List.map_cons, pop, hinc, Nat.add_zero]
      have := aux_set rem (seq % rem.length) t
      simp only [ofRecords] at this
      rw [this]

theorem aux_getD_lt {α} (rem : List (List α)) (j : Nat) (a : α) (t : List α)
    (h : rem.getD j [] = a :: t) : j < rem.length := by
  rcases Nat.lt_or_ge j rem.length with hl | hl
  · exact hl
  · simp [List.getD_eq_getElem?_getD, List.getElem?_eq_none hl] at h

/-- **One call of the combined decoder on well-formed inputs** (`n ≥ 1`): either it returns the head
record of some non-empty input `j` and pops exactly that record, or all inputs are empty, it
returns `io.EOF`, and the inputs stay as they are. -/
theorem aux_decode_spec {α} (rem : List (List α)) (seq : Nat) (hn : 0 < rem.length)
    (hw : seq + rem.length < two64) :
    (∃ j a t seq', rem.getD j [] = a :: t ∧ j < rem.length ∧ seq' ≤ seq + rem.length ∧
        rrDecode ⟨ofInputs rem, seq⟩ = (.got j a, ⟨ofInputs (rem.set j t), seq'⟩))
    ∨ (AllEmpty rem ∧ ∃ seq', seq' ≤ seq + rem.length ∧
        rrDecode ⟨ofInputs rem, seq⟩ = (.err eEOF, ⟨ofInputs rem, seq'⟩)) := by
  cases rem with
  | nil => simp at hn
  | cons l1 rest =>
  cases rest with
  | nil =>
    cases l1 with
    | nil =>
      right
      refine ⟨by intro l hl; simpa using hl, seq, by omega, ?_⟩
      simp [rrDecode, ofInputs, ofRecords, pop]
    | cons a t =>
      left
      refine ⟨0, a, t, seq, by simp, by simp, by omega, ?_⟩
      simp [rrDecode, ofInputs, ofRecords, pop]
  | cons l2 rest =>
    have hne : ∀ d, ofInputs (l1 :: l2 :: rest) ≠ [d] := by intro d h; simp [ofInputs] at h
    have hdec : rrDecode ⟨ofInputs (l1 :: l2 :: rest), seq⟩ =
        (let r := rrLoop (ofInputs (l1 :: l2 :: rest)).length (ofInputs (l1 :: l2 :: rest)) seq none
         (r.1, ⟨r.2.1, r.2.2⟩)) := by
      simp [rrDecode, ofInputs]
    rw [hdec, aux_len]
    rcases aux_loop (l1 :: l2 :: rest) (l1 :: l2 :: rest).length seq none hw with
      ⟨m, a, t, hm, hget, hres⟩ | ⟨hall, hres⟩
    · left
      refine ⟨_, a, t, seq + m + 1, hget, aux_getD_lt _ _ _ _ hget, by omega, ?_⟩
      rw [hres]
    · right
      refine ⟨?_, seq + (l1 :: l2 :: rest).length, by omega, ?_⟩
      · intro l hl
        obtain ⟨i, hi, hli⟩ := List.getElem_of_mem hl
        obtain ⟨m, hm, hmi⟩ := aux_cover (l1 :: l2 :: rest).length seq i hi
        have := hall m hm
        rw [hmi] at this
        simp only [List.getD_eq_getElem?_getD, List.getElem?_eq_getElem hi, Option.getD_some] at this
        rw [← hli]; exact this
      · rw [hres]
        simp [endOf]

theorem aux_allEmpty_getD {α} (rem : List (List α)) (h : AllEmpty rem) (j : Nat) : rem.getD j [] = [] := by
  rcases Nat.lt_or_ge j rem.length with hl | hl
  · simp only [List.getD_eq_getElem?_getD, List.getElem?_eq_getElem hl, Option.getD_some]
    exact h _ (List.getElem_mem hl)
  · simp [List.getD_eq_getElem?_getD, List.getElem?_eq_none hl]

theorem aux_flatten_set {α} : ∀ (rem : List (List α)) (j : Nat) (a : α) (t : List α),
    rem.getD j [] = a :: t → rem.flatten.Perm (a :: (rem.set j t).flatten) := by
  intro rem
  induction rem with
  | nil => intro j a t h; simp at h
  | cons r rs ih =>
    intro j a t h
    cases j with
    | zero =>
      simp at h; subst h; simp
    | succ j =>
      have h' : rs.getD j [] = a :: t := by simpa using h
      have := ih j a t h'
      simp only [List.flatten_cons, List.set_cons_succ]
      exact (List.Perm.append_left r this).trans List.perm_middle

theorem aux_allEmpty_flatten {α} (rem : List (List α)) (h : AllEmpty rem) : rem.flatten = [] := by
  induction rem with
  | nil => rfl
  | cons r rs ih =>
    have hr : r = [] := h r (by simp)
    have := ih (by intro l hl; exact h l (by simp [hl]))
    simp [hr, this]

/-- the records of input `i` inside a tagged output -/
def fromInput {α} (out : List (Nat × α)) (i : Nat) : List α :=
  (out.filter (fun x => x.1 == i)).map (·.2)

/-- Draining well-formed inputs: the loop ends with `io.EOF` after exactly the records of all
inputs; the part of the output that came from input `i` is input `i`, in order. -/
theorem aux_drain {α} : ∀ (fuel : Nat) (rem : List (List α)) (seq : Nat), 0 < rem.length →
    rem.flatten.length < fuel → seq + rem.length * fuel < two64 →
    ∃ out rem' seq', drain fuel ⟨ofInputs rem, seq⟩ = (out, ⟨ofInputs rem', seq'⟩, some eEOF) ∧
      AllEmpty rem' ∧ rem'.length = rem.length ∧ seq' ≤ seq + rem.length * fuel ∧
      (out.map (·.2)).Perm rem.flatten ∧
      (∀ i, fromInput out i = rem.getD i []) ∧
      (∀ x ∈ out, x.1 < rem.length) := by
  intro fuel
  induction fuel with
  | zero => intro rem seq _ h; omega
  | succ fuel ih =>
    intro rem seq hn htot hw
    have hmul : rem.length * (fuel + 1) = rem.length * fuel + rem.length := Nat.mul_succ _ _
    rcases aux_decode_spec rem seq hn (by omega) with
      ⟨j, a, t, seq1, hget, hj, hseq1, hdec⟩ | ⟨hall, seq1, hseq1, hdec⟩
    · have hperm := aux_flatten_set rem j a t hget
      have hlen : (rem.set j t).length = rem.length := by simp
      have hfl : (rem.set j t).flatten.length + 1 = rem.flatten.length := by
        have := hperm.length_eq; simp only [List.length_cons] at this; omega
      obtain ⟨out, rem', seq', hdr, hemp, hl', hs', hp, hf, htag⟩ :=
        ih (rem.set j t) seq1 (by omega) (by omega) (by rw [hlen]; omega)
      refine ⟨(j, a) :: out, rem', seq', ?_, hemp, by omega, by rw [hlen] at hs'; omega, ?_, ?_, ?_⟩
      · simp only [drain, hdec, hdr]
      · simp only [List.map_cons]
        exact (List.Perm.cons a hp).trans hperm.symm
      · intro i
        have hi := hf i
        by_cases hji : j = i
        · subst hji
          simp only [fromInput, List.filter_cons, beq_self_eq_true, ↓reduceIte, List.map_cons]
          simp only [fromInput] at hi
          rw [hi, hget]
          simp [List.getD_eq_getElem?_getD, List.getElem?_set_self hj]
        · have hne : ((j, a).1 == i) = false := by simpa using hji
          simp only [fromInput, List.filter_cons, hne]
          simp only [fromInput] at hi
          simp only [Bool.false_eq_true, ↓reduceIte]
          rw [hi]
          simp [List.getD_eq_getElem?_getD, List.getElem?_set_ne hji]
      · intro x hx
        rcases List.mem_cons.mp hx with h | h
        · subst h; exact hj
        · have := htag x h; omega
    · refine ⟨[], rem, seq1, ?_, hall, rfl, by omega, ?_, ?_, ?_⟩
      · simp only [drain, hdec]
      · simp [aux_allEmpty_flatten rem hall]
      · intro i
        have := aux_allEmpty_getD rem hall i
        simpa [fromInput] using this.symm
      · intro x hx; cases hx

/-! ### the property theorems -/

/-- **"Reading results from several inputs at once yields every record of every input exactly
once … and signals the end only when all inputs are exhausted."**  For every `n ≥ 1` inputs of any
lengths: calling the combined decoder until it reports an error ends with `io.EOF`, and the records
returned up to then are a permutation of the concatenation of all inputs. -/
theorem rr_output_perm_concat {α} (inputs : List (List α)) (seq fuel : Nat) (hn : 0 < inputs.length)
    (hfuel : inputs.flatten.length < fuel) (hw : seq + inputs.length * fuel < two64) :
    ∃ out s', drain fuel ⟨ofInputs inputs, seq⟩ = (out, s', some eEOF) ∧
      (out.map (·.2)).Perm inputs.flatten := by
  obtain ⟨out, rem', seq', h, _, _, _, hp, _, _⟩ := aux_drain fuel inputs seq hn hfuel hw
  exact ⟨out, _, h, hp⟩

/-- **"… keeps each input's own order."**  The records of the output that came from input `i`
(ghost source tag) are exactly input `i`, in its own order — neither lost, duplicated nor reordered. -/
theorem rr_each_input_exact {α} (inputs : List (List α)) (seq fuel : Nat) (hn : 0 < inputs.length)
    (hfuel : inputs.flatten.length < fuel) (hw : seq + inputs.length * fuel < two64) :
    ∃ out s', drain fuel ⟨ofInputs inputs, seq⟩ = (out, s', some eEOF) ∧
      (∀ i, i < inputs.length → fromInput out i = inputs.getD i []) ∧
      (∀ x ∈ out, x.1 < inputs.length) := by
  obtain ⟨out, rem', seq', h, _, _, _, _, hf, ht⟩ := aux_drain fuel inputs seq hn hfuel hw
  exact ⟨out, _, h, fun i _ => hf i, ht⟩

/-- Each input is a subsequence of the (untagged) output. -/
theorem rr_each_input_sublist {α} (inputs : List (List α)) (seq fuel : Nat) (hn : 0 < inputs.length)
    (hfuel : inputs.flatten.length < fuel) (hw : seq + inputs.length * fuel < two64) :
    ∃ out s', drain fuel ⟨ofInputs inputs, seq⟩ = (out, s', some eEOF) ∧
      ∀ l ∈ inputs, l.Sublist (out.map (·.2)) := by
  obtain ⟨out, rem', seq', h, _, _, _, _, hf, _⟩ := aux_drain fuel inputs seq hn hfuel hw
  refine ⟨out, _, h, ?_⟩
  intro l hl
  obtain ⟨i, hi, hli⟩ := List.getElem_of_mem hl
  have := hf i
  simp only [List.getD_eq_getElem?_getD, List.getElem?_eq_getElem hi, Option.getD_some, hli] at this
  rw [← this]
  exact List.Sublist.map _ List.filter_sublist

/-- **"… signals the end only when all inputs are exhausted."**  On well-formed inputs a call of
the combined decoder returns an error exactly when every input is exhausted; the error is then
`io.EOF`, and otherwise a record is returned (never `nil` without a record). -/
theorem rr_eof_iff_all_exhausted {α} (rem : List (List α)) (seq : Nat) (hn : 0 < rem.length)
    (hw : seq + rem.length < two64) :
    ((∃ e s', rrDecode ⟨ofInputs rem, seq⟩ = (.err e, s')) ↔ AllEmpty rem) ∧
    (AllEmpty rem → ∃ s', rrDecode ⟨ofInputs rem, seq⟩ = (.err eEOF, s')) ∧
    (¬ AllEmpty rem → ∃ j a s', rrDecode ⟨ofInputs rem, seq⟩ = (.got j a, s')) := by
  rcases aux_decode_spec rem seq hn hw with ⟨j, a, t, seq1, hget, hj, _, hdec⟩ | ⟨hall, seq1, _, hdec⟩
  · have hne : ¬ AllEmpty rem := by
      intro h
      have := aux_allEmpty_getD rem h j
      rw [hget] at this; cases this
    refine ⟨⟨?_, fun h => absurd h hne⟩, fun h => absurd h hne, fun _ => ⟨j, a, _, hdec⟩⟩
    rintro ⟨e, s', h⟩
    rw [hdec] at h; cases h
  · exact ⟨⟨fun _ => hall, fun _ => ⟨eEOF, _, hdec⟩⟩, fun _ => ⟨_, hdec⟩, fun h => absurd hall h⟩

/-- **End of input is stable**: once the combined decoder has reported an error on well-formed
inputs, every further call reports `io.EOF` again (for any number `k` of further calls). -/
theorem rr_eof_stable {α} (rem : List (List α)) (seq : Nat) (hn : 0 < rem.length) (e : Nat) (s' : RR α)
    (hw : seq + rem.length < two64) (h : rrDecode ⟨ofInputs rem, seq⟩ = (.err e, s')) :
    ∀ k, s'.seq + rem.length * k < two64 → (calls k s').1 = List.replicate k (.err eEOF) := by
  rcases aux_decode_spec rem seq hn hw with ⟨j, a, t, seq1, _, _, _, hdec⟩ | ⟨hall, seq1, _, hdec⟩
  · rw [hdec] at h; cases h
  · rw [hdec] at h
    have hs : s' = ⟨ofInputs rem, seq1⟩ := by cases h; rfl
    subst hs
    intro k
    generalize seq1 = sq
    induction k generalizing sq with
    | zero => intro _; rfl
    | succ k ih =>
      intro hk
      have hmul : rem.length * (k + 1) = rem.length * k + rem.length := Nat.mul_succ _ _
      simp only [] at hk
      rcases aux_decode_spec rem sq hn (by omega) with ⟨j, a, t, seq2, hget, _, _, _⟩ | ⟨_, seq2, hseq2, hdec2⟩
      · have := aux_allEmpty_getD rem hall j
        rw [hget] at this; cases this
      · have := ih seq2 (by simp only []; omega)
        simp only [calls, hdec2, List.replicate_succ, this]

/-- **"Consequently the … encode command produce[s] … the same multiset of records for a result
set no matter how it is split across files."**  Two splits of the same result set (their
concatenations are permutations of each other — in particular any split against the unsplit file
`[all]`) drain to outputs that are permutations of each other. -/
theorem encode_split_multiset {α} (inputs₁ inputs₂ : List (List α)) (fuel₁ fuel₂ : Nat)
    (hsame : inputs₁.flatten.Perm inputs₂.flatten)
    (hn₁ : 0 < inputs₁.length) (hn₂ : 0 < inputs₂.length)
    (hf₁ : inputs₁.flatten.length < fuel₁) (hf₂ : inputs₂.flatten.length < fuel₂)
    (hw₁ : inputs₁.length * fuel₁ < two64) (hw₂ : inputs₂.length * fuel₂ < two64) :
    ∃ out₁ s₁ out₂ s₂,
      drain fuel₁ (RR.init (ofInputs inputs₁)) = (out₁, s₁, some eEOF) ∧
      drain fuel₂ (RR.init (ofInputs inputs₂)) = (out₂, s₂, some eEOF) ∧
      (out₁.map (·.2)).Perm (out₂.map (·.2)) := by
  obtain ⟨o1, s1, h1, p1⟩ := rr_output_perm_concat inputs₁ 0 fuel₁ hn₁ hf₁ (by omega)
  obtain ⟨o2, s2, h2, p2⟩ := rr_output_perm_concat inputs₂ 0 fuel₂ hn₂ hf₂ (by omega)
  exact ⟨o1, s1, o2, s2, h1, h2, (p1.trans hsame).trans p2.symm⟩

/-- **"… the report … command produce[s] the same exact metrics … no matter how it is split."**
Every report that is a permutation-invariant function of the records it was fed (the exact metrics
are: sums, extrema, counts, sets) has the same value for any two splits of the same result set. -/
theorem report_split_invariant {α β} (metric : List α → β)
    (hinv : ∀ l₁ l₂ : List α, l₁.Perm l₂ → metric l₁ = metric l₂)
    (inputs₁ inputs₂ : List (List α)) (fuel₁ fuel₂ : Nat)
    (hsame : inputs₁.flatten.Perm inputs₂.flatten)
    (hn₁ : 0 < inputs₁.length) (hn₂ : 0 < inputs₂.length)
    (hf₁ : inputs₁.flatten.length < fuel₁) (hf₂ : inputs₂.flatten.length < fuel₂)
    (hw₁ : inputs₁.length * fuel₁ < two64) (hw₂ : inputs₂.length * fuel₂ < two64) :
    metric ((drain fuel₁ (RR.init (ofInputs inputs₁))).1.map (·.2)) =
      metric ((drain fuel₂ (RR.init (ofInputs inputs₂))).1.map (·.2)) := by
  obtain ⟨o1, s1, o2, s2, h1, h2, p⟩ :=
    encode_split_multiset inputs₁ inputs₂ fuel₁ fuel₂ hsame hn₁ hn₂ hf₁ hf₂ hw₁ hw₂
  rw [h1, h2]; exact hinv _ _ p

/-! ### the report command: composition with C10 (no abstract metric left) -/

section Report
open Vegeta.Model.Metrics Vegeta.Spec.Metrics Vegeta.Props.C10

/-- the closed metrics report computed by the `report` command's loop from the records it was fed:
`Metrics.Add` for each record in arrival order, then `Close` (model of lib/metrics.go, C10) -/
def closedReport (fed : List Result) : Report := report (close (addAll Metrics.init fed))

/-- **"Consequently the report … command[s] produce the same exact metrics … for a result set no
matter how it is split across files."**  For any two splits of the same result multiset into
`n ≥ 1` inputs each (of any lengths; in particular any split against the unsplit file `[all]`),
in C10's domain (timestamps ≥ 1970, latencies ≥ 0, ends and totals inside their Go types):
draining the round-robin decoder over either split and folding `Metrics.Add`/`Close` over the
records in the order they come out gives the same closed report — every field equal, the error
texts the same set (equal up to permutation: their order is the order of first arrival) — and
this report is the reference report `ref` of the union of the files. -/
theorem report_metrics_split_invariant (inputs₁ inputs₂ : List (List Result)) (fuel₁ fuel₂ : Nat)
    (hsame : inputs₁.flatten.Perm inputs₂.flatten) (hd : Domain inputs₁.flatten)
    (hn₁ : 0 < inputs₁.length) (hn₂ : 0 < inputs₂.length)
    (hf₁ : inputs₁.flatten.length < fuel₁) (hf₂ : inputs₂.flatten.length < fuel₂)
    (hw₁ : inputs₁.length * fuel₁ < two64) (hw₂ : inputs₂.length * fuel₂ < two64) :
    ∃ out₁ s₁ out₂ s₂,
      drain fuel₁ (RR.init (ofInputs inputs₁)) = (out₁, s₁, some eEOF) ∧
      drain fuel₂ (RR.init (ofInputs inputs₂)) = (out₂, s₂, some eEOF) ∧
      withoutErrors (closedReport (out₁.map (·.2))) = withoutErrors (closedReport (out₂.map (·.2))) ∧
      (closedReport (out₁.map (·.2))).errors.Perm (closedReport (out₂.map (·.2))).errors ∧
      withoutErrors (closedReport (out₁.map (·.2))) = withoutErrors (ref inputs₁.flatten) ∧
      (closedReport (out₁.map (·.2))).errors.Perm (ref inputs₁.flatten).errors := by
  obtain ⟨o1, s1, h1, p1⟩ := rr_output_perm_concat inputs₁ 0 fuel₁ hn₁ hf₁ (by omega)
  obtain ⟨o2, s2, h2, p2⟩ := rr_output_perm_concat inputs₂ 0 fuel₂ hn₂ hf₂ (by omega)
  have hd1 : Domain (o1.map (·.2)) := aux_domain_perm p1.symm hd
  have p12 : (o1.map (·.2)).Perm (o2.map (·.2)) := (p1.trans hsame).trans p2.symm
  obtain ⟨a, b⟩ := metrics_order_independent _ _ hd1 p12
  have hr1 : closedReport (o1.map (·.2)) = ref (o1.map (·.2)) := metrics_eq_ref _ hd1
  obtain ⟨c, d⟩ := ref_perm _ _ p1
  exact ⟨o1, s1, o2, s2, h1, h2, a, b, by rw [hr1]; exact c, by rw [hr1]; exact d⟩

/-- non-vacuity: a concrete result set (C10's sample), its unsplit file and a split into three files
of unequal lengths (one of them empty) satisfy the hypotheses -/
example : ∃ out₁ s₁ out₂ s₂,
    drain 10 (RR.init (ofInputs [sample])) = (out₁, s₁, some eEOF) ∧
    drain 10 (RR.init (ofInputs [sample.drop 2, [], sample.take 2])) = (out₂, s₂, some eEOF) ∧
    withoutErrors (closedReport (out₁.map (·.2))) = withoutErrors (closedReport (out₂.map (·.2))) := by
  have hp : ([sample] : List (List Result)).flatten.Perm [sample.drop 2, [], sample.take 2].flatten := by decide
  have hdom : Domain ([sample] : List (List Result)).flatten :=
    { ts_nonneg := by decide, lat_nonneg := by decide, end_fits := by decide, lat_sum := by decide,
      in_sum := by decide, out_sum := by decide }
  obtain ⟨o1, s1, o2, s2, h1, h2, h3, _⟩ := report_metrics_split_invariant _ _ 10 10 hp hdom
    (by decide) (by decide) (by decide) (by decide) (by decide) (by decide)
  exact ⟨o1, s1, o2, s2, h1, h2, h3⟩

end Report

/-! ### source fact (regenerated from /repo by every check run) -/

/-- the whole body of `NewRoundRobinDecoder`, canonically printed, is the text the model was written from:
`{ if len(dec) == 1 { return dec[0] } var seq uint64 return func(r *Result) (err error) { for range dec { robin := seq % uint64(len(dec)) seq++ if err = dec[robin].Decode(r); err != nil { continue } return nil } return err } }` -/
theorem facts_roundRobin_body : Vegeta.Extracted.c13RoundRobinBody =
    [123, 32, 105, 102, 32, 108, 101, 110, 40, 100, 101, 99, 41, 32, 61, 61, 32, 49, 32, 123, 32,
    114, 101, 116, 117, 114, 110, 32, 100, 101, 99, 91, 48, 93, 32, 125, 32, 118, 97, 114, 32, 115,
    101, 113, 32, 117, 105, 110, 116, 54, 52, 32, 114, 101, 116, 117, 114, 110, 32, 102, 117, 110,
    99, 40, 114, 32, 42, 82, 101, 115, 117, 108, 116, 41, 32, 40, 101, 114, 114, 32, 101, 114, 114,
    111, 114, 41, 32, 123, 32, 102, 111, 114, 32, 114, 97, 110, 103, 101, 32, 100, 101, 99, 32, 123,
    32, 114, 111, 98, 105, 110, 32, 58, 61, 32, 115, 101, 113, 32, 37, 32, 117, 105, 110, 116, 54,
    52, 40, 108, 101, 110, 40, 100, 101, 99, 41, 41, 32, 115, 101, 113, 43, 43, 32, 105, 102, 32,
    101, 114, 114, 32, 61, 32, 100, 101, 99, 91, 114, 111, 98, 105, 110, 93, 46, 68, 101, 99, 111,
    100, 101, 40, 114, 41, 59, 32, 101, 114, 114, 32, 33, 61, 32, 110, 105, 108, 32, 123, 32, 99,
    111, 110, 116, 105, 110, 117, 101, 32, 125, 32, 114, 101, 116, 117, 114, 110, 32, 110, 105, 108,
    32, 125, 32, 114, 101, 116, 117, 114, 110, 32, 101, 114, 114, 32, 125, 32, 125] := rfl

/-! ### outside the quantifier (recorded, not part of the claim) -/

/-- With zero decoders every call returns `nil` without writing a record: `report`/`encode`
would never see an end. -/
theorem rr_zero_decoders_endless {α} (k seq : Nat) :
    (calls k (⟨[], seq⟩ : RR α)).1 = List.replicate k .nothing := by
  induction k with
  | zero => rfl
  | succ k ih => simp only [calls, rrDecode, rrLoop, List.length_nil, List.replicate_succ, ih]

/-- A failing call of one input is skipped silently when another input still has a record. -/
example : (calls 3 (RR.init [[Item.bad 7, Item.ok 1], [Item.ok 2]])).1 =
    [Step.got 1 2, Step.got 0 1, Step.err 0] := by decide

/-! ### non-vacuity -/

example : drain 10 (RR.init (ofInputs [[1, 2, 3], [], [4], [5, 6]])) =
    ([(0, 1), (2, 4), (3, 5), (0, 2), (3, 6), (0, 3)], ⟨ofInputs [[], [], [], []], 13⟩, some eEOF) := by decide

example : (0 : Nat) < ([[1, 2, 3], [], [4], [5, 6]] : List (List Nat)).length ∧
    ([[1, 2, 3], [], [4], [5, 6]] : List (List Nat)).flatten.length < 10 ∧
    0 + ([[1, 2, 3], [], [4], [5, 6]] : List (List Nat)).length * 10 < two64 := by decide

example : ([[1, 2, 3], [], [4], [5, 6]] : List (List Nat)).flatten.Perm [[1, 2, 3, 4, 5, 6]].flatten := by decide

end Vegeta.Props.C13
