/-
C20 — Prometheus metrics equal the sums over observed results.

Property theorems (the rest are helper lemmas `aux_*`):
  bytes_counters_are_sums                     bytes-in/out counter per label set = sum over its results
  hist_count_and_sum                          histogram sample count and (binary64, in-order) sum per label set
  buckets_cumulative_consistent               cumulative bucket `le=b` = number of results with Seconds() ≤ b
  fail_counter_counts_errors                  failure counter per (labels, message) = number of failed results
  fail_counter_only_errors                    results without an error touch no failure counter
  fail_counter_old_counterexample             the behaviour before the fix (created, never incremented)
  observe_order_independent                   any order of observation (hence concurrent observation) shows the same scrape
Extension (attack.go processAttack, NewMetrics):
  pump_output_is_observed / pump_scrape_eq_output / pump_scrape_covers_output   every written result has been observed, at every
                                              prefix of events (signals, drains, failed Encode): scrape = sums over the output
  pump_without_metrics                        pm == nil observes nothing
  instances_independent / instance_shows_own_results   Metrics instances do not share tables
  register_keeps_registered / rejected_register_changes_nothing / register_rejected_iff / register_fresh / register_whole
                                              Register never removes a registered collector; a rejected call changes nothing
-/
import Vegeta.Model.Prom
import Vegeta.Proofs.F64Order
namespace Vegeta.Props.C20
open Vegeta.Go Vegeta.Model Vegeta.Model.Prom

/-! ### children of a vector: lookups after a fold of `WithLabelValues(k)`-then-update steps -/

theorem aux_lookup_upsert_same {κ ν : Type} [DecidableEq κ] (k : κ) (f : ν → ν) (d : ν) (l : List (κ × ν)) :
    lookup k (upsert k f d l) = some (f ((lookup k l).getD d)) := by
  induction l with
  | nil => simp [upsert, lookup]
  | cons p t ih =>
    obtain ⟨k', v⟩ := p
    simp only [upsert, lookup]
    by_cases h : k' = k
    · simp [h, lookup]
    · simp [h, lookup, ih]

theorem aux_lookup_upsert_other {κ ν : Type} [DecidableEq κ] (k k' : κ) (f : ν → ν) (d : ν) (l : List (κ × ν))
    (hne : k ≠ k') : lookup k' (upsert k f d l) = lookup k' l := by
  induction l with
  | nil => simp [upsert, lookup, hne]
  | cons p t ih =>
    obtain ⟨k'', v⟩ := p
    simp only [upsert, lookup]
    by_cases h : k'' = k
    · subst h; simp [lookup, hne]
    · by_cases h2 : k'' = k'
      · subst h2; simp [h, lookup]
      · simp [h, h2, lookup, ih]

/-- After a fold of steps `upsert (key r) (g r) d`, the child of `k` exists iff some step had key `k`, and
its value is the fold of exactly those steps' updates, in order, starting from the default. -/
theorem aux_fold_upsert {ρ κ ν : Type} [DecidableEq κ] (key : ρ → κ) (g : ρ → ν → ν) (d : ν) (k : κ) (rs : List ρ) :
    ∀ l : List (κ × ν),
    lookup k (rs.foldl (fun l r => upsert (key r) (g r) d l) l) =
      if rs.filter (fun r => key r = k) = [] then lookup k l
      else some ((rs.filter (fun r => key r = k)).foldl (fun v r => g r v) ((lookup k l).getD d)) := by
  induction rs with
  | nil => intro l; simp
  | cons r t ih =>
    intro l
    simp only [List.foldl_cons]
    rw [ih]
    by_cases h : key r = k
    · subst h
      simp only [List.filter_cons, decide_true, ↓reduceIte, aux_lookup_upsert_same, Option.getD_some, List.foldl_cons]
      split
      · rename_i h0; simp [h0]
      · simp
    · simp only [List.filter_cons, h, decide_false, Bool.false_eq_true, ↓reduceIte, aux_lookup_upsert_other _ _ _ _ _ h]



/-! ### the four vectors after observing `rs` -/

theorem aux_bytesIn_fold (rs : List Result) : ∀ s : State, (observeAll s rs).bytesIn =
    rs.foldl (fun l r => upsert (labelsOf r) (fun v => v + r.bytesIn) 0 l) s.bytesIn := by
  induction rs with
  | nil => intro s; rfl
  | cons r t ih => intro s; simp only [observeAll, List.foldl_cons] at ih ⊢; rw [ih]; rfl

theorem aux_bytesOut_fold (rs : List Result) : ∀ s : State, (observeAll s rs).bytesOut =
    rs.foldl (fun l r => upsert (labelsOf r) (fun v => v + r.bytesOut) 0 l) s.bytesOut := by
  induction rs with
  | nil => intro s; rfl
  | cons r t ih => intro s; simp only [observeAll, List.foldl_cons] at ih ⊢; rw [ih]; rfl

theorem aux_hist_fold (rs : List Result) : ∀ s : State, (observeAll s rs).hist =
    rs.foldl (fun l r => upsert (labelsOf r) (observeChild (Metrics.seconds r.latency)) HistChild.empty l) s.hist := by
  induction rs with
  | nil => intro s; rfl
  | cons r t ih => intro s; simp only [observeAll, List.foldl_cons] at ih ⊢; rw [ih]; rfl

/-- the results carrying the label values `k`, in order of observation -/
def matching (k : Labels) (rs : List Result) : List Result := rs.filter (fun r => labelsOf r = k)

def sumNat : List Nat → Nat
  | [] => 0
  | x :: xs => x + sumNat xs

theorem aux_foldl_add (f : Result → Nat) (rs : List Result) : ∀ v0 : Nat,
    rs.foldl (fun v r => v + f r) v0 = v0 + sumNat (rs.map f) := by
  induction rs with
  | nil => intro v0; simp [sumNat]
  | cons r t ih => intro v0; simp only [List.foldl_cons, List.map_cons, sumNat, ih]; omega

/-- **Bytes counters are sums per label set**: after observing any sequence, the bytes-in / bytes-out
counter of a (method, url, status) label set exists iff a result with these labels was observed, and
its value is the sum of `BytesIn` / `BytesOut` over exactly those results. -/
theorem bytes_counters_are_sums (rs : List Result) (k : Labels) :
    lookup k (observeAll State.init rs).bytesIn =
      (if matching k rs = [] then none else some (sumNat ((matching k rs).map (·.bytesIn)))) ∧
    lookup k (observeAll State.init rs).bytesOut =
      (if matching k rs = [] then none else some (sumNat ((matching k rs).map (·.bytesOut)))) := by
  constructor
  · rw [aux_bytesIn_fold, aux_fold_upsert labelsOf (fun r v => v + r.bytesIn) 0 k rs]
    simp only [matching, State.init, lookup, Option.getD_none, aux_foldl_add, Nat.zero_add]
    rfl
  · rw [aux_bytesOut_fold, aux_fold_upsert labelsOf (fun r v => v + r.bytesOut) 0 k rs]
    simp only [matching, State.init, lookup, Option.getD_none, aux_foldl_add, Nat.zero_add]
    rfl

/-! ### histogram children -/

/-- the histogram child after observing the values `vs`, starting from `c` -/
def childAfter (c : HistChild) (vs : List F64) : HistChild := vs.foldl (fun c v => observeChild v c) c

theorem aux_child_count (vs : List F64) : ∀ c, (childAfter c vs).count = c.count + vs.length := by
  induction vs with
  | nil => intro c; rfl
  | cons v t ih => intro c; simp only [childAfter, List.foldl_cons, List.length_cons] at ih ⊢; rw [ih]; simp only [observeChild]; omega

theorem aux_child_sum (vs : List F64) : ∀ c, (childAfter c vs).sum = vs.foldl F64.add c.sum := by
  induction vs with
  | nil => intro c; rfl
  | cons v t ih => intro c; simp only [childAfter, List.foldl_cons] at ih ⊢; rw [ih]; rfl

theorem aux_child_of_results (rs : List Result) : ∀ c,
    rs.foldl (fun v r => observeChild (Metrics.seconds r.latency) v) c =
      childAfter c (rs.map (fun r => Metrics.seconds r.latency)) := by
  induction rs with
  | nil => intro c; rfl
  | cons r t ih => intro c; simp only [List.foldl_cons, List.map_cons, childAfter] at ih ⊢; rw [ih]

/-- the observed values (`Latency.Seconds()`) of the results with labels `k` -/
def secondsOf (k : Labels) (rs : List Result) : List F64 := (matching k rs).map (fun r => Metrics.seconds r.latency)

theorem aux_hist_child (rs : List Result) (k : Labels) :
    lookup k (observeAll State.init rs).hist =
      if matching k rs = [] then none else some (childAfter HistChild.empty (secondsOf k rs)) := by
  rw [aux_hist_fold, aux_fold_upsert labelsOf (fun r c => observeChild (Metrics.seconds r.latency) c) HistChild.empty k rs]
  simp only [matching, State.init, lookup, Option.getD_none, aux_child_of_results, secondsOf]
  rfl

/-- **Histogram count and sum per label set**: the latency histogram of a label set exists iff a result with
these labels was observed; its sample count is the number of those results and its sum is the binary64 sum
of their `Latency.Seconds()` values, added in order of observation starting from 0. -/
theorem hist_count_and_sum (rs : List Result) (k : Labels) :
    (matching k rs = [] → lookup k (observeAll State.init rs).hist = none) ∧
    (matching k rs ≠ [] → ∃ c, lookup k (observeAll State.init rs).hist = some c ∧
      c.count = (matching k rs).length ∧ c.sum = (secondsOf k rs).foldl F64.add F64.posZero) := by
  rw [aux_hist_child]
  constructor
  · intro h; simp [h]
  · intro h
    refine ⟨childAfter HistChild.empty (secondsOf k rs), by simp [h], ?_, ?_⟩
    · rw [aux_child_count]; simp [HistChild.empty, secondsOf]
    · rw [aux_child_sum]; rfl



/-! ### cumulative buckets -/

theorem aux_cum_shift (xs : List Nat) : ∀ (a d j : Nat),
    (cumulative (a + d) xs)[j]? = ((cumulative a xs)[j]?).map (· + d) := by
  induction xs with
  | nil => intro a d j; simp [cumulative]
  | cons x t ih =>
    intro a d j
    cases j with
    | zero => simp [cumulative]; omega
    | succ j =>
      simp only [cumulative, List.getElem?_cons_succ]
      have : a + d + x = (a + x) + d := by omega
      rw [this, ih]

theorem aux_cum_bump (xs : List Nat) : ∀ (a i j : Nat),
    (cumulative a (bumpAt xs i))[j]? = ((cumulative a xs)[j]?).map (fun v => if i ≤ j then v + 1 else v) := by
  induction xs with
  | nil => intro a i j; simp [bumpAt, cumulative]
  | cons x t ih =>
    intro a i j
    cases i with
    | zero =>
      cases j with
      | zero => simp [bumpAt, cumulative]; omega
      | succ j =>
        simp only [bumpAt, cumulative, List.getElem?_cons_succ, Nat.zero_le, ↓reduceIte]
        have : a + (x + 1) = (a + x) + 1 := by omega
        rw [this, aux_cum_shift]
    | succ i =>
      cases j with
      | zero => simp [bumpAt, cumulative]
      | succ j =>
        simp only [bumpAt, cumulative, List.getElem?_cons_succ, ih, Nat.add_le_add_iff_right]

theorem aux_cum_replicate (n : Nat) : ∀ (a j : Nat),
    (cumulative a (List.replicate n 0))[j]? = if j < n then some a else none := by
  induction n with
  | zero => intro a j; simp [cumulative]
  | succ n ih =>
    intro a j
    cases j with
    | zero => simp [List.replicate, cumulative]
    | succ j => simp only [List.replicate, cumulative, List.getElem?_cons_succ, Nat.add_zero, ih, Nat.add_lt_add_iff_right]

theorem aux_bumpAt_length (xs : List Nat) (i : Nat) : (bumpAt xs i).length = xs.length := by
  induction xs generalizing i with
  | nil => rfl
  | cons x t ih => cases i <;> simp [bumpAt, ih]

theorem aux_cum_length (xs : List Nat) (a : Nat) : (cumulative a xs).length = xs.length := by
  induction xs generalizing a with
  | nil => rfl
  | cons x t ih => simp [cumulative, ih]

theorem aux_child_buckets_length (vs : List F64) : ∀ c, (childAfter c vs).buckets.length = c.buckets.length := by
  induction vs with
  | nil => intro c; rfl
  | cons v t ih =>
    intro c; simp only [childAfter, List.foldl_cons] at ih ⊢; rw [ih]; simp [observeChild, aux_bumpAt_length]

/-- cumulative bucket `j` after observing `vs` = before + number of values whose bucket index is `≤ j` -/
theorem aux_child_buckets (vs : List F64) : ∀ (c : HistChild) (j : Nat),
    (cumulative 0 (childAfter c vs).buckets)[j]? =
      ((cumulative 0 c.buckets)[j]?).map (· + vs.countP (fun v => findBucket defBuckets v ≤ j)) := by
  induction vs with
  | nil => intro c j; simp [childAfter]
  | cons v t ih =>
    intro c j
    simp only [childAfter, List.foldl_cons] at ih ⊢
    rw [ih (observeChild v c) j]
    simp only [observeChild, aux_cum_bump, Option.map_map, List.countP_cons]
    congr 1
    funext x
    simp only [Function.comp, decide_eq_true_eq]
    split <;> omega

/-- the bounds are finite and increasing -/
def chainB : List F64 → Bool
  | [] => true
  | [b] => b.isFinite
  | a :: b :: t => a.isFinite && F64.le a b && chainB (b :: t)

theorem aux_chain_head (b : F64) (t : List F64) (h : chainB (b :: t) = true) : b.isFinite = true := by
  cases t with
  | nil => simpa [chainB] using h
  | cons b' t' => simp [chainB] at h; exact h.1.1

/-- For finite increasing bounds the bucket index found by the scan is `≤ j` exactly when the value is
`≤` the `j`-th bound: the cumulative bucket `le = bound_j` counts the values `≤ bound_j`. -/
theorem aux_findBucket_le (bs : List F64) (v : F64) : chainB bs = true → ∀ (j : Nat) (b : F64), bs[j]? = some b →
    (findBucket bs v ≤ j ↔ F64.le v b = true) := by
  induction bs with
  | nil => intro _ j b h; simp at h
  | cons b0 t ih =>
    intro hc j b hb
    cases j with
    | zero =>
      simp only [List.getElem?_cons_zero, Option.some.injEq] at hb
      subst hb
      simp only [findBucket]
      split
      · rename_i h; simp [h]
      · rename_i h; simp [h]
    | succ j =>
      simp only [List.getElem?_cons_succ] at hb
      cases t with
      | nil => simp at hb
      | cons b1 t' =>
        have hc' : b0.isFinite = true ∧ F64.le b0 b1 = true ∧ chainB (b1 :: t') = true := by
          simp [chainB] at hc; exact ⟨hc.1.1, hc.1.2, hc.2⟩
        have hb1 := aux_chain_head b1 t' hc'.2.2
        have ih' := ih hc'.2.2 j b hb
        simp only [findBucket]
        split
        · rename_i h
          have h1 : F64.le v b1 = true := Vegeta.Proofs.F64Order.le_mono_right v b0 b1 hc'.1 hb1 hc'.2.1 h
          have h0 : findBucket (b1 :: t') v = 0 := by simp [findBucket, h1]
          have := ih'.mp (by rw [h0]; omega)
          simp [this]
        · rename_i h
          rw [← ih']
          simp only [findBucket]
          omega

theorem aux_defBuckets_chain : chainB defBuckets = true := by decide +kernel

/-- **Cumulative buckets are consistent with the individual latencies**: for every label set with at least one
observed result, the histogram child shows eleven finite buckets (`prometheus.DefBuckets`), and the cumulative
count of the bucket with upper bound `b` is the number of those results whose `Latency.Seconds()` (binary64)
is `≤ b`; each is at most the sample count. -/
theorem buckets_cumulative_consistent (rs : List Result) (k : Labels) (hne : matching k rs ≠ []) :
    ∃ c, lookup k (observeAll State.init rs).hist = some c ∧
      (cumulative 0 c.buckets).length = defBuckets.length ∧
      ∀ (j : Nat) (b : F64), defBuckets[j]? = some b →
        (cumulative 0 c.buckets)[j]? = some ((secondsOf k rs).countP (fun v => F64.le v b)) ∧
        (secondsOf k rs).countP (fun v => F64.le v b) ≤ c.count := by
  refine ⟨childAfter HistChild.empty (secondsOf k rs), by rw [aux_hist_child]; simp [hne], ?_, ?_⟩
  · rw [aux_cum_length, aux_child_buckets_length]; simp [HistChild.empty]
  · intro j b hb
    have hj : j < defBuckets.length := by
      rcases Nat.lt_or_ge j defBuckets.length with h | h
      · exact h
      · rw [List.getElem?_eq_none h] at hb; cases hb
    constructor
    · rw [aux_child_buckets]
      simp only [HistChild.empty, aux_cum_replicate, hj, ↓reduceIte, Option.map_some, Nat.zero_add]
      congr 1
      apply List.countP_congr
      intro v _
      simp only [decide_eq_true_eq]
      exact aux_findBucket_le defBuckets v aux_defBuckets_chain j b hb
    · rw [aux_child_count]
      have := List.countP_le_length (p := fun v => F64.le v b) (l := secondsOf k rs)
      simp only [HistChild.empty]; omega



/-! ### the failure counter -/

/-- the failed results (non-empty error) with labels `k` and error text `msg` -/
def failing (k : Labels) (msg : Bytes) (rs : List Result) : List Result :=
  rs.filter (fun r => labelsOf r = k ∧ r.error = msg ∧ r.error ≠ [])

theorem aux_fail_fold (rs : List Result) : ∀ s : State, (observeAll s rs).fail =
    (rs.filter (fun r => r.error ≠ [])).foldl (fun l r => upsert (labelsOf r, r.error) (· + 1) 0 l) s.fail := by
  induction rs with
  | nil => intro s; rfl
  | cons r t ih =>
    intro s
    simp only [observeAll, List.foldl_cons] at ih ⊢
    rw [ih]
    by_cases h : r.error = []
    · simp [observe, h]
    · simp [observe, h]

theorem aux_foldl_inc (rs : List Result) (v0 : Nat) : rs.foldl (fun v _ => v + 1) v0 = v0 + rs.length := by
  induction rs generalizing v0 with
  | nil => rfl
  | cons r t ih => simp only [List.foldl_cons, List.length_cons, ih]; omega

theorem aux_failing_filter (rs : List Result) (k : Labels) (msg : Bytes) :
    (rs.filter (fun r => r.error ≠ [])).filter (fun r => (labelsOf r, r.error) = (k, msg)) = failing k msg rs := by
  simp only [failing, List.filter_filter]
  apply List.filter_congr
  intro r _
  simp only [Prod.mk.injEq, ne_eq, decide_not, Bool.decide_and]
  by_cases h1 : labelsOf r = k <;> by_cases h2 : r.error = msg <;> by_cases h3 : r.error = [] <;> simp [h1, h2, h3]

/-- **The failure counter counts the failed results**: the failure counter of a (method, url, status, message)
label set exists iff a result with these labels, this error text and a non-empty error was observed, and its
value is the number of those results. -/
theorem fail_counter_counts_errors (rs : List Result) (k : Labels) (msg : Bytes) :
    lookup (k, msg) (observeAll State.init rs).fail =
      if failing k msg rs = [] then none else some (failing k msg rs).length := by
  rw [aux_fail_fold, aux_fold_upsert (fun r => (labelsOf r, r.error)) (fun _ v => v + 1) 0 (k, msg), aux_failing_filter]
  simp only [State.init, lookup, Option.getD_none, aux_foldl_inc, Nat.zero_add]

/-- Results without an error never create or change a failure counter. -/
theorem fail_counter_only_errors (rs : List Result) (k : Labels) :
    lookup (k, []) (observeAll State.init rs).fail = none := by
  rw [fail_counter_counts_errors]
  have : failing k [] rs = [] := by
    simp only [failing, List.filter_eq_nil_iff]
    intro r _; simp only [ne_eq, decide_eq_true_eq]; intro h; exact h.2.2 h.2.1
  simp [this]

/-! #### before the fix (DESIGN §8 #14) -/

/-- the failure-counter step of `Observe` before commit "fix: prometheus failure counter is incremented…":
`pm.requestFailCounter.WithLabelValues(…, res.Error)` — the child is created, nothing is added. -/
def observeFailOld (fail : List ((Labels × Bytes) × Nat)) (r : Result) : List ((Labels × Bytes) × Nat) :=
  if r.error ≠ [] then upsert (labelsOf r, r.error) (fun v => v) 0 fail else fail

/-- One failed result (`GET http://h/` → 500, error "x"): the old code showed 0, the property requires 1 — and
the repaired code shows 1. -/
theorem fail_counter_old_counterexample :
    let r : Result := { method := [71, 69, 84], url := [104, 116, 116, 112, 58, 47, 47, 104, 47], code := 500,
                        bytesIn := 0, bytesOut := 0, latency := 1000000, error := [120] }
    (failing (labelsOf r) r.error [r]).length = 1 ∧
    lookup (labelsOf r, r.error) ([r].foldl observeFailOld []) = some 0 ∧
    lookup (labelsOf r, r.error) (observeAll State.init [r]).fail = some 1 := by
  decide

/-! ### order independence (concurrent observation = some sequential order) -/

theorem aux_sumNat_perm {l1 l2 : List Nat} (h : l1.Perm l2) : sumNat l1 = sumNat l2 := by
  induction h with
  | nil => rfl
  | cons x _ ih => simp only [sumNat, ih]
  | swap x y l => simp only [sumNat]; omega
  | trans _ _ ih1 ih2 => rw [ih1, ih2]

theorem aux_perm_nil_iff {α : Type} {l1 l2 : List α} (h : l1.Perm l2) : l1 = [] ↔ l2 = [] := by
  constructor
  · intro e; subst e; exact h.nil_eq.symm
  · intro e; subst e; exact h.eq_nil

/-- what a scrape shows of a histogram child apart from the float sum: sample count and cumulative buckets -/
def countsOf (c : HistChild) : Nat × List Nat := (c.count, cumulative 0 c.buckets)

/-- **The scrape does not depend on the order of observation** (so observing from concurrent goroutines,
whose atomic updates take effect in *some* order, shows the same values as any sequential order): for any
permutation of the sequence every bytes counter, every failure counter and every histogram's sample count
and cumulative bucket counts are the same. (The histogram's binary64 sum depends on the order of the
additions in its last bits only; it is compared numerically by the harness.) -/
theorem observe_order_independent (rs1 rs2 : List Result) (h : rs1.Perm rs2) (k : Labels) :
    lookup k (observeAll State.init rs1).bytesIn = lookup k (observeAll State.init rs2).bytesIn ∧
    lookup k (observeAll State.init rs1).bytesOut = lookup k (observeAll State.init rs2).bytesOut ∧
    (∀ msg, lookup (k, msg) (observeAll State.init rs1).fail = lookup (k, msg) (observeAll State.init rs2).fail) ∧
    (lookup k (observeAll State.init rs1).hist).map countsOf = (lookup k (observeAll State.init rs2).hist).map countsOf := by
  have hm : (matching k rs1).Perm (matching k rs2) := h.filter _
  have hnil := aux_perm_nil_iff hm
  refine ⟨?_, ?_, ?_, ?_⟩
  · rw [(bytes_counters_are_sums rs1 k).1, (bytes_counters_are_sums rs2 k).1, aux_sumNat_perm (hm.map _)]
    simp only [hnil]
  · rw [(bytes_counters_are_sums rs1 k).2, (bytes_counters_are_sums rs2 k).2, aux_sumNat_perm (hm.map _)]
    simp only [hnil]
  · intro msg
    have hf : (failing k msg rs1).Perm (failing k msg rs2) := h.filter _
    rw [fail_counter_counts_errors, fail_counter_counts_errors, hf.length_eq]
    simp only [aux_perm_nil_iff hf]
  · by_cases h1 : matching k rs1 = []
    · have h2 := hnil.mp h1
      rw [(hist_count_and_sum rs1 k).1 h1, (hist_count_and_sum rs2 k).1 h2]
    · have h2 : matching k rs2 ≠ [] := fun e => h1 (hnil.mpr e)
      obtain ⟨c1, l1, n1, b1⟩ := buckets_cumulative_consistent rs1 k h1
      obtain ⟨c2, l2, n2, b2⟩ := buckets_cumulative_consistent rs2 k h2
      obtain ⟨c1', l1', m1, _⟩ := (hist_count_and_sum rs1 k).2 h1
      obtain ⟨c2', l2', m2, _⟩ := (hist_count_and_sum rs2 k).2 h2
      rw [l1] at l1'; rw [l2] at l2'
      simp only [Option.some.injEq] at l1' l2'
      subst l1'; subst l2'
      rw [l1, l2]
      simp only [Option.map_some, countsOf, Option.some.injEq, Prod.mk.injEq]
      refine ⟨by rw [m1, m2, hm.length_eq], ?_⟩
      apply List.ext_getElem?
      intro j
      by_cases hj : j < defBuckets.length
      · have hb : defBuckets[j]? = some defBuckets[j] := List.getElem?_eq_getElem hj
        rw [(b1 j _ hb).1, (b2 j _ hb).1]
        have hs : (secondsOf k rs1).Perm (secondsOf k rs2) := hm.map _
        rw [hs.countP_eq]
      · rw [List.getElem?_eq_none (by omega), List.getElem?_eq_none (by omega)]

/-! ### non-vacuity -/

def sample : List Result :=
  [⟨[71], [97], 200, 10, 20, 5000000, []⟩, ⟨[71], [97], 500, 1, 2, 5000001, [120]⟩, ⟨[71], [97], 200, 3, 4, 2500000000, []⟩,
   ⟨[71], [97], 500, 0, 0, 0, [120]⟩]

example : matching ⟨[71], [97], 200⟩ sample ≠ [] := by decide

example : lookup ⟨[71], [97], 200⟩ (observeAll State.init sample).bytesIn = some 13 ∧
    (lookup ⟨[71], [97], 200⟩ (observeAll State.init sample).hist).map countsOf = some (2, [1, 1, 1, 1, 1, 1, 1, 1, 2, 2, 2]) ∧
    (failing ⟨[71], [97], 500⟩ [120] sample).length = 2 ∧
    lookup (⟨[71], [97], 500⟩, [120]) (observeAll State.init sample).fail = some 2 := by decide +kernel

/-! ## Extension: the attack command's glue (attack.go) and independent `Metrics` instances -/

theorem aux_observeAll_snoc (s : State) (rs : List Result) (r : Result) :
    observeAll s (rs ++ [r]) = observe (observeAll s rs) r := by
  simp [observeAll, List.foldl_append]

/-- invariant of `processAttack`: the metrics hold exactly the encoded results, plus the one result whose
`Encode` failed (it was observed before the failing `Encode`; the function then returned the error) -/
def PumpInv (st0 : State) (s : Pump) : Prop :=
  ∃ extra : List Result, s.pm = some (observeAll st0 (s.encoded ++ extra)) ∧
    (extra ≠ [] → s.ret = .retErr) ∧ extra.length ≤ 1

theorem aux_pumpStep_inv (st0 : State) (s : Pump) (e : PEv) (h : PumpInv st0 s) : PumpInv st0 (pumpStep s e) := by
  unfold pumpStep
  split
  · exact h
  · rename_i hrun
    have hrun' : s.ret = .running := by simpa using hrun
    obtain ⟨extra, hpm, hext, hlen⟩ := h
    have hnil : extra = [] := by
      by_cases he : extra = []
      · exact he
      · have := hext he; rw [hrun'] at this; cases this
    subst hnil
    simp only [List.append_nil] at hpm
    cases e with
    | signal =>
      simp only []
      split
      · exact ⟨[], by simpa using hpm, by simp, by simp⟩
      · exact ⟨[], by simpa using hpm, by simp, by simp⟩
    | closed => exact ⟨[], by simpa using hpm, by simp, by simp⟩
    | result r encOk =>
      simp only []
      split
      · exact ⟨[], by simp [hpm, aux_observeAll_snoc], by simp, by simp⟩
      · exact ⟨[r], by simp [hpm, aux_observeAll_snoc], by simp, by simp⟩

theorem aux_pumpRun_inv (st0 : State) (evs : List PEv) : ∀ s, PumpInv st0 s → PumpInv st0 (evs.foldl pumpStep s) := by
  induction evs with
  | nil => intro s h; exact h
  | cons e t ih => intro s h; exact ih _ (aux_pumpStep_inv st0 s e h)

/-- **Every result in the encoder's output has been observed** — after every prefix of events of
`processAttack` (signals, results with succeeding or failing `Encode`, the channel closing, in any order and
number), the metrics are exactly the observation of the written results, in order, plus at most the one result
whose `Encode` failed and made the function return that error. Results that arrive after the first signal are
no exception. -/
theorem pump_output_is_observed (st0 : State) (evs : List PEv) :
    ∃ extra : List Result, (pumpRun (some st0) evs).pm = some (observeAll st0 ((pumpRun (some st0) evs).encoded ++ extra)) ∧
      (extra ≠ [] → (pumpRun (some st0) evs).ret = .retErr) ∧ extra.length ≤ 1 :=
  aux_pumpRun_inv st0 evs (Pump.start (some st0)) ⟨[], by simp [Pump.start, observeAll], by simp, by simp⟩

/-- **The scrape equals the sums over the output** whenever no `Encode` has failed — during the attack, after
the first signal while in-flight results drain, and when the attack has ended: with fresh metrics the state is
`observeAll State.init encoded`, so every theorem of this file applies to the written results. -/
theorem pump_scrape_eq_output (evs : List PEv) (h : (pumpRun (some State.init) evs).ret ≠ .retErr) :
    (pumpRun (some State.init) evs).pm = some (observeAll State.init (pumpRun (some State.init) evs).encoded) := by
  obtain ⟨extra, hpm, hext, _⟩ := pump_output_is_observed State.init evs
  have : extra = [] := by
    by_cases he : extra = []
    · exact he
    · exact absurd (hext he) h
  subst this
  simpa using hpm

theorem aux_matching_append (k : Labels) (a b : List Result) : matching k (a ++ b) = matching k a ++ matching k b := by
  simp [matching]

theorem aux_sumNat_append (a b : List Nat) : sumNat (a ++ b) = sumNat a + sumNat b := by
  induction a with
  | nil => simp [sumNat]
  | cons x t ih => simp only [List.cons_append, sumNat, ih]; omega

/-- **A scrape never falls short of the output file**: at every moment, for every label set with a written
result, the bytes counters are at least the sums over the written results and the histogram has at least as
many samples as there are written results (they exceed them only by the one result of a failed `Encode`). -/
theorem pump_scrape_covers_output (evs : List PEv) (k : Labels)
    (hne : matching k (pumpRun (some State.init) evs).encoded ≠ []) :
    ∃ st, (pumpRun (some State.init) evs).pm = some st ∧
      (∃ v, lookup k st.bytesIn = some v ∧ sumNat ((matching k (pumpRun (some State.init) evs).encoded).map (·.bytesIn)) ≤ v) ∧
      (∃ v, lookup k st.bytesOut = some v ∧ sumNat ((matching k (pumpRun (some State.init) evs).encoded).map (·.bytesOut)) ≤ v) ∧
      (∃ c, lookup k st.hist = some c ∧ (matching k (pumpRun (some State.init) evs).encoded).length ≤ c.count) := by
  obtain ⟨extra, hpm, _, _⟩ := pump_output_is_observed State.init evs
  generalize (pumpRun (some State.init) evs).encoded = enc at hne hpm ⊢
  have hne' : matching k (enc ++ extra) ≠ [] := by
    rw [aux_matching_append]; intro h; exact hne (List.append_eq_nil_iff.mp h).1
  refine ⟨_, hpm, ?_, ?_, ?_⟩
  · refine ⟨sumNat ((matching k (enc ++ extra)).map (·.bytesIn)), by rw [(bytes_counters_are_sums _ k).1]; simp [hne'], ?_⟩
    rw [aux_matching_append, List.map_append, aux_sumNat_append]; omega
  · refine ⟨sumNat ((matching k (enc ++ extra)).map (·.bytesOut)), by rw [(bytes_counters_are_sums _ k).2]; simp [hne'], ?_⟩
    rw [aux_matching_append, List.map_append, aux_sumNat_append]; omega
  · obtain ⟨c, hc, hcount, _⟩ := (hist_count_and_sum (enc ++ extra) k).2 hne'
    refine ⟨c, hc, ?_⟩
    rw [hcount, aux_matching_append, List.length_append]; omega

/-- Without `-prometheus-addr` (`pm == nil`) nothing is observed and the output is written all the same. -/
theorem pump_without_metrics (evs : List PEv) : (pumpRun none evs).pm = none := by
  have : ∀ s : Pump, s.pm = none → (evs.foldl pumpStep s).pm = none := by
    induction evs with
    | nil => intro s h; exact h
    | cons e t ih =>
      intro s h
      apply ih
      unfold pumpStep
      split
      · exact h
      · cases e with
        | signal => simp only []; split <;> exact h
        | closed => exact h
        | result r ok => simp only []; split <;> simp [h]
  exact this _ rfl

example : (pumpRun (some State.init)
    [.result ⟨[71], [97], 200, 1, 2, 5, []⟩ true, .signal, .result ⟨[71], [97], 500, 3, 4, 6, [120]⟩ true, .closed]).encoded.length = 2 ∧
    (pumpRun (some State.init)
    [.result ⟨[71], [97], 200, 1, 2, 5, []⟩ true, .signal, .result ⟨[71], [97], 500, 3, 4, 6, [120]⟩ true, .closed]).ret = .retNil := by
  decide +kernel

/-! ### independent instances -/

theorem aux_modifyAt_other {α : Type} (f : α → α) (l : List α) (i j : Nat) (h : i ≠ j) : (modifyAt f l i)[j]? = l[j]? := by
  induction l generalizing i j with
  | nil => rfl
  | cons x t ih =>
    cases i with
    | zero => cases j with
      | zero => exact absurd rfl h
      | succ j => rfl
    | succ i => cases j with
      | zero => rfl
      | succ j => simp only [modifyAt, List.getElem?_cons_succ]; exact ih i j (by omega)

theorem aux_modifyAt_same {α : Type} (f : α → α) (l : List α) (i : Nat) : (modifyAt f l i)[i]? = (l[i]?).map f := by
  induction l generalizing i with
  | nil => rfl
  | cons x t ih => cases i with
    | zero => rfl
    | succ i => simp only [modifyAt, List.getElem?_cons_succ]; exact ih i

theorem aux_modifyAt_length {α : Type} (f : α → α) (l : List α) (i : Nat) : (modifyAt f l i).length = l.length := by
  induction l generalizing i with
  | nil => rfl
  | cons x t ih => cases i <;> simp [modifyAt, ih]

/-- **Two `Metrics` instances are independent**: observing into one instance leaves the tables of every
other instance unchanged, and creating a new instance changes none of the existing ones. -/
theorem instances_independent (w : List State) (i j : Nat) (r : Result) (h : i ≠ j) :
    (worldStep w (.observe i r))[j]? = w[j]? ∧ (j < w.length → (worldStep w .new)[j]? = w[j]?) := by
  refine ⟨aux_modifyAt_other _ w i j h, ?_⟩
  intro hj
  simp only [worldStep]
  rw [List.getElem?_append_left hj]

/-- the results observed into instance `j`, given that `n` instances exist already -/
def directedTo (j : Nat) : Nat → List WOp → List Result
  | _, [] => []
  | n, .new :: ops => directedTo j (n + 1) ops
  | n, .observe i r :: ops => if i = j ∧ j < n then r :: directedTo j n ops else directedTo j n ops

def newCount : List WOp → Nat
  | [] => 0
  | .new :: ops => newCount ops + 1
  | .observe _ _ :: ops => newCount ops

theorem aux_world (j : Nat) (ops : List WOp) : ∀ w : List State,
    (ops.foldl worldStep w)[j]? =
      if j < w.length then (w[j]?).map (fun st => observeAll st (directedTo j w.length ops))
      else if j < w.length + newCount ops then some (observeAll State.init (directedTo j w.length ops)) else none := by
  induction ops with
  | nil =>
    intro w
    simp only [List.foldl_nil, directedTo, observeAll, newCount, Nat.add_zero]
    by_cases h : j < w.length
    · simp [h]
    · simp [h]
  | cons op t ih =>
    intro w
    simp only [List.foldl_cons]
    rw [ih]
    cases op with
    | new =>
      simp only [worldStep, List.length_append, List.length_singleton, directedTo, newCount]
      by_cases h : j < w.length
      · have h' : j < w.length + 1 := by omega
        simp only [h, h', ↓reduceIte, List.getElem?_append_left h]
      · by_cases h2 : j = w.length
        · subst h2
          have : w.length < w.length + 1 := by omega
          simp only [this, ↓reduceIte, Nat.lt_irrefl]
          have hh : w.length < w.length + (newCount t + 1) := by omega
          simp [hh, observeAll]
        · have h' : ¬ j < w.length + 1 := by omega
          have e : w.length + 1 + newCount t = w.length + (newCount t + 1) := by omega
          simp only [h, h', ↓reduceIte, e]
          by_cases hc : j < w.length + (newCount t + 1) <;> simp [hc]
    | observe i r =>
      simp only [worldStep, aux_modifyAt_length, directedTo, newCount]
      by_cases h : j < w.length
      · by_cases hi : i = j
        · subst hi
          simp [h, aux_modifyAt_same, observeAll]
        · simp [h, hi, aux_modifyAt_other _ w i j hi]
      · simp [h]

/-- **Every instance shows exactly its own observations**: after any sequence of `NewMetrics()` calls and
`Observe` calls on arbitrary instances, instance `j` exists iff it was created, and its tables are those of
observing — into fresh metrics — exactly the results that were observed into instance `j`, in order. -/
theorem instance_shows_own_results (ops : List WOp) (j : Nat) :
    (worldRun ops)[j]? = if j < newCount ops then some (observeAll State.init (directedTo j 0 ops)) else none := by
  have := aux_world j ops []
  simpa [worldRun] using this

example : (worldRun [.new, .new, .observe 0 ⟨[71], [97], 200, 1, 2, 5, []⟩, .observe 1 ⟨[71], [98], 200, 7, 2, 5, []⟩])[1]? =
    some (observeAll State.init [⟨[71], [98], 200, 7, 2, 5, []⟩]) := by decide +kernel

/-! ### registering several instances -/

theorem aux_registerFrom_keeps (i : Nat) (cs : List Nat) : ∀ (reg : Registry) (e : Nat × Nat), e ∈ reg → e ∈ (registerFrom i cs reg).1 := by
  induction cs with
  | nil => intro reg e h; exact h
  | cons c t ih =>
    intro reg e h
    simp only [registerFrom]
    split
    · exact h
    · exact ih _ e (by simp [h])

/-- **`Register` never removes anything from a registry**: whatever it returns, every collector that was
registered before the call still is — in particular a rejected registration of a second instance (or of the
same instance again) leaves the first instance's collectors, and so its exported series, in place. -/
theorem register_keeps_registered (i : Nat) (reg : Registry) (e : Nat × Nat) (h : e ∈ reg) : e ∈ (register i reg).1 :=
  aux_registerFrom_keeps i _ reg e h

/-- **A rejected `Register` changes nothing** on a registry in the state `Register` leaves behind (empty, or
holding all four collectors): the very first collector is refused and the registry is what it was. -/
theorem rejected_register_changes_nothing (i : Nat) (reg : Registry) (hw : Whole reg)
    (hrej : (register i reg).2 = false) : (register i reg).1 = reg := by
  rcases hw with h | h
  · subst h; simp [register, registerFrom] at hrej
  · obtain ⟨j, hj⟩ := h 0 (by omega)
    have : reg.any (fun e => e.2 == 0) = true := List.any_eq_true.mpr ⟨(j, 0), hj, by simp⟩
    simp [register, registerFrom, this]

/-- A registration is rejected exactly when the registry already holds collectors (of any instance). -/
theorem register_rejected_iff (i : Nat) (reg : Registry) (hw : Whole reg) : (register i reg).2 = false ↔ reg ≠ [] := by
  rcases hw with h | h
  · subst h; simp [register, registerFrom]
  · obtain ⟨j, hj⟩ := h 0 (by omega)
    have hany : reg.any (fun e => e.2 == 0) = true := List.any_eq_true.mpr ⟨(j, 0), hj, by simp⟩
    constructor
    · intro _ hnil; subst hnil; simp at hj
    · intro _; simp [register, registerFrom, hany]

/-- On a fresh registry `Register` succeeds and registers the four collectors of that instance; the result
is again whole, and stays whole under every further `Register` call. -/
theorem register_fresh (i : Nat) : register i [] = ([(i, 0), (i, 1), (i, 2), (i, 3)], true) := by simp [register, registerFrom]

theorem register_whole (i : Nat) (reg : Registry) (hw : Whole reg) : Whole (register i reg).1 := by
  by_cases hnil : reg = []
  · subst hnil
    rw [register_fresh]
    right
    intro c hc
    refine ⟨i, ?_⟩
    have : c = 0 ∨ c = 1 ∨ c = 2 ∨ c = 3 := by omega
    rcases this with rfl | rfl | rfl | rfl <;> simp
  · have hrej := (register_rejected_iff i reg hw).mpr hnil
    rw [rejected_register_changes_nothing i reg hw hrej]; exact hw

example : Whole [(0, 0), (0, 1), (0, 2), (0, 3)] ∧ (register 1 [(0, 0), (0, 1), (0, 2), (0, 3)]).2 = false := by
  refine ⟨Or.inr ?_, by decide⟩
  intro c hc
  refine ⟨0, ?_⟩
  have : c = 0 ∨ c = 1 ∨ c = 2 ∨ c = 3 := by omega
  rcases this with rfl | rfl | rfl | rfl <;> simp

end Vegeta.Props.C20
