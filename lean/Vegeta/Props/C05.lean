/-
C05 — Sequence order and timestamp order of results agree.
The worker's critical section is modelled as its two halves under the mutex (`csEnter` reads the
clock, `csLeave` assigns the sequence number), any number of workers interleaving around it.
That the timestamp and the sequence number are taken inside one critical section is a
regenerated source fact (see `facts_*` below).
-/
import Vegeta.Proofs.AttackInv
import Vegeta.Extracted.Facts
namespace Vegeta.Props.C05
open Vegeta.Model.Attack Vegeta.Proofs.Attack

variable {w m d : Nat} {s : St}

theorem aux_pairwise_get (l : List Nat) (hp : l.Pairwise (· ≤ ·)) (i j : Nat) (a b : Nat)
    (hij : i < j) (hi : l[i]? = some a) (hj : l[j]? = some b) : a ≤ b := by
  induction l generalizing i j with
  | nil => simp at hi
  | cons x xs ih =>
    rw [List.pairwise_cons] at hp
    cases j with
    | zero => omega
    | succ j =>
      cases i with
      | zero =>
        simp at hi; subst hi
        simp at hj
        exact hp.1 b (List.mem_of_getElem? hj)
      | succ i =>
        simp at hi hj
        exact ih hp.2 i j (by omega) hi hj

/-- **For any two results the one with the smaller sequence number has a timestamp that is not
later than the other's**, however many workers run concurrently. -/
theorem seq_lt_imp_ts_le (h : Reachable w m d s) (i j : Nat) (hi hj : Hit)
    (hij : i < j) (h1 : s.hits[i]? = some hi) (h2 : s.hits[j]? = some hj) : hi.ts ≤ hj.ts := by
  have t := times_reachable h
  apply aux_pairwise_get _ t.sorted i j _ _ hij <;> simp [h1, h2]

/-- … and the index of a hit is its sequence number, so the statement is about `Result.Seq`. -/
theorem index_is_seq (h : Reachable w m d s) (i : Nat) (hi : Hit) (h1 : s.hits[i]? = some hi) : hi.seq = i :=
  (core_reachable h).seqidx i hi h1

/-- **Sorting by either key gives the same order**: the timestamps listed in sequence order are
already sorted. -/
theorem ts_sorted_in_seq_order (h : Reachable w m d s) : (s.hits.map (·.ts)).Pairwise (· ≤ ·) :=
  (times_reachable h).sorted

/-- **Every timestamp is before the request reaches the transport; every latency is at least the
time the transport took (hence non-negative); a result's end equals timestamp plus latency.**
(`ts ≥ 0`, i.e. at or after the attack's start, holds by construction: `began = 0`, clock in ℕ.) -/
theorem timestamps_and_latency (h : Reachable w m d s) (hh : Hit) (hm : hh ∈ s.hits) (f : Nat) (hf : hh.fin = some f) :
    hh.ts ≤ f ∧ hh.ts + (f - hh.ts) = f ∧
    (∀ e, hh.entered = some e → hh.ts ≤ e ∧ ∃ l, hh.left = some l ∧ e ≤ l ∧ l - e ≤ f - hh.ts) := by
  have t := times_reachable h
  obtain ⟨_, b, c, dd, _, _, _⟩ := t.hit hh hm
  obtain ⟨h1, _, h3⟩ := dd f hf
  refine ⟨h1, by omega, ?_⟩
  intro e he
  obtain ⟨l, hl, hlf⟩ := h3 e he
  obtain ⟨e', he', hel, _⟩ := c l hl
  rw [he] at he'; cases he'
  have := (b e he).1
  exact ⟨this, l, hl, hel, by omega⟩

/-- every delivered or pending result carries its latency measurement -/
theorem result_has_latency (h : Reachable w m d s) (hh : Hit) (hm : hh ∈ s.hits)
    (hp : hh.phase = .sending ∨ hh.phase = .delivered) : ∃ f, hh.fin = some f := by
  have t := times_reachable h
  obtain ⟨_, _, _, _, _, _, g⟩ := t.hit hh hm
  cases hf : hh.fin with
  | none => exact absurd hf (g hp)
  | some f => exact ⟨f, rfl⟩

/-! #### source facts (binding): the timestamp and the sequence number are taken in one critical section -/

/-- In `hit`, between `seqmu.Lock()` and `seqmu.Unlock()` lie exactly: the assignment of the
result's Timestamp, the assignment of its Seq, and the increment of the attack's counter. -/
theorem facts_critical_section : Vegeta.Extracted.hitCriticalSection =
    [[97, 115, 115, 105, 103, 110, 32, 84, 105, 109, 101, 115, 116, 97, 109, 112],
     [97, 115, 115, 105, 103, 110, 32, 83, 101, 113],
     [105, 110, 99, 100, 101, 99, 32, 115, 101, 113]] := by decide

/-- Nowhere else in `hit` is a Timestamp or a sequence number assigned; the timestamp derives
from the attack's start instant (monotonic clock); the latency is measured in a deferred
function from that same timestamp; the clock itself is read (time.Since/time.Now) in the expression assigned
inside the critical section, not before it. -/
theorem facts_no_assignment_outside :
    Vegeta.Extracted.hitTimestampAssignsOutsideCS = 0 ∧ Vegeta.Extracted.hitSeqAssignsOutsideCS = 0 ∧
    Vegeta.Extracted.hitTimestampFromBegan = true ∧ Vegeta.Extracted.hitLatencyInDeferFromTimestamp = true ∧
    Vegeta.Extracted.hitTimestampClockReadInCS = true := by decide

/-! non-vacuity: two workers, the second timestamp is read later but both orders agree -/
example : (run (init 2 2 0) [.ready, .ready, .paceWait 0, .wake, .tick, .paceWait 0, .wake, .tick, .advance 3, .csEnter,
    .advance 2, .csLeave, .csEnter, .csLeave, .enter 1, .advance 1, .enter 0, .advance 4, .leave 0, .finish 0]).map
    (fun s => s.hits.map (fun h => (h.seq, h.ts, h.entered, h.fin))) = some [(0, 3, some 6, some 10), (1, 5, some 5, none)] := by
  decide

end Vegeta.Props.C05
