/-
Model of the encoders as objects that are called repeatedly (lib/results.go: the closures returned by
`NewCSVEncoder`, `NewJSONEncoder`, `NewEncoder`), including what a call that FAILS leaves behind, and
of the loop of the `encode` command (encode.go):

    for { var r vegeta.Result
          if err = dec.Decode(&r); err != nil { if err == io.EOF { break }; return err }
          if err = enc.Encode(&r); err != nil { return err } }

* CSV: a call cannot fail; it hands the writer one record (Write + Flush).
* JSON: `MarshalEasyJSON` into the encoder's own jwriter; when the result cannot be marshalled
  (`Time.MarshalJSON` fails: year outside 0..9999) the jwriter's error is set, nothing is dumped to the
  writer, the error is returned — and it is never cleared: every later call returns it again and writes
  nothing (the unchanged encoder stays failed).
* gob: the first call sends the type definitions before the value; when the value cannot be encoded
  (`Time.MarshalBinary` rejects the zone) the call fails after the type definitions went out (first call)
  or without writing anything (later calls); later calls work normally.
* the command decodes every record into a FRESH `Result` (`var r` inside the loop), so each record is
  decoded on its own (the command is a map over the records); it encodes a record before it looks at the
  next one and stops at the first error of either side.  Which decoder reads the input (`DecoderFor`,
  property C08) is a parameter here.
-/
import Vegeta.Model.GobValue
namespace Vegeta.Model.EncodeCmd
open Vegeta.Go Vegeta.Model.Codec Vegeta.Model.GobFrame Vegeta.Model.GobValue

inductive Codec where
  | csv
  | json
  | gob
  deriving Repr, DecidableEq

/-- the zone offset in whole minutes `Time.MarshalJSON` prints (zones of whole minutes) -/
def zoneMin : Zone → Int
  | .utc => 0
  | .fixed s => Int.tdiv s 60

/-- what an encoder remembers between calls -/
structure EncState where
  jsonFailed : Bool := false      -- jwriter.Error is set (sticky)
  gobTypesSent : Bool := false    -- the type definitions went out
  deriving Repr, DecidableEq

/-- one `Encode` call: the bytes handed to the writer, whether it returned nil, the encoder afterwards -/
structure CallOut where
  bytes : Bytes
  ok : Bool
  st : EncState
  deriving Repr, DecidableEq

def encCall (c : Codec) (st : EncState) (z : Zone) (r : Result) : CallOut :=
  match c with
  | .csv => { bytes := encodeCSV r, ok := true, st := st }
  | .json =>
    if st.jsonFailed then { bytes := [], ok := false, st := st }
    else match encodeJSON (zoneMin z) r with
      | some b => { bytes := b, ok := true, st := st }
      | none => { bytes := [], ok := false, st := { st with jsonFailed := true } }
  | .gob =>
    let pre := if st.gobTypesSent then [] else preamble
    match valuePayload z r with
    | some p => { bytes := pre ++ encodeFrame p, ok := true, st := { st with gobTypesSent := true } }
    | none => { bytes := pre, ok := false, st := { st with gobTypesSent := true } }

/-- a caller that keeps calling whatever the calls return (library use): everything handed to the writer,
and the outcome of every call -/
def encCalls (c : Codec) : EncState → List (Zone × Result) → Bytes × List Bool
  | _, [] => ([], [])
  | st, (z, r) :: rest =>
    let o := encCall c st z r
    let q := encCalls c o.st rest
    (o.bytes ++ q.1, o.ok :: q.2)

/-- the command's use: stop at the first call that fails -/
def cmdEncode (c : Codec) (z : Zone) : EncState → List Result → Bytes × Bool
  | _, [] => ([], true)
  | st, r :: rest =>
    let o := encCall c st z r
    if o.ok then
      let q := cmdEncode c z o.st rest
      (o.bytes ++ q.1, q.2)
    else (o.bytes, false)

/-- repeated `Decode` with the decoder of a codec: the records and how the input ended -/
def decodeWith : Codec → Bytes → List Result × Term
  | .csv, s => decodeCSV s
  | .json, s => decodeJSON s
  | .gob, s => decodeGob s

/-- the `encode` command on one input read with the decoder `from`, writing `to`; `z` is the zone the
decoded timestamps carry. Returns what reached the output and whether the command returned nil. -/
def encodeCmd (src dst : Codec) (z : Zone) (input : Bytes) : Bytes × Bool :=
  let d := decodeWith src input
  let e := cmdEncode dst z {} d.1
  (e.1, e.2 && d.2 == .eof)

end Vegeta.Model.EncodeCmd
