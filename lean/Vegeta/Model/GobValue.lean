/-
Model of the byte stream `gob.NewEncoder(w).Encode(&Result{…})` produces for a sequence of results
(lib/results.go `NewEncoder`), and of a decoder for that image (`NewDecoder`).

On the first `Encode` the encoder sends the type definitions: four messages describing the struct
`Result` (type id 64), `time.Time` as a GobEncoder (65), `http.Header` = map[string][]string (67) and
`[]string` (66); their payloads are fixed byte strings for this struct (type ids are handed out in
order of first use: `Result` is the first gob type of the vegeta process) and are embedded below as
constants — the harness compares them with the real encoder's preamble on every run.  Then one value
message per result: type id 64, then the non-zero fields as (field-number delta, value) pairs in field
order, closed by a zero delta.  Unsigned integers are gob varints (one byte below 128, else the negated
byte count and the big-endian bytes), signed integers are zig-zagged into unsigned ones, strings and
[]byte are length-prefixed, a map is its entry count and the key/value pairs in iteration order (the
order of the association list stands for it), a slice its count and elements, `time.Time` is the
length-prefixed output of `Time.MarshalBinary`.
-/
import Vegeta.Model.GobFrame
namespace Vegeta.Model.GobValue
open Vegeta.Go Vegeta.Model.Codec Vegeta.Model.GobFrame

/-- the location a `time.Time` carries: UTC, or some other zone with the given offset (seconds east) -/
inductive Zone where
  | utc
  | fixed (offSec : Int)
  deriving Repr, DecidableEq

/-! ### type definitions (payloads of the four preamble messages) -/

/-- `-64, wireType{StructT: {CommonType{Name:"Result", Id:64}, Field: [Attack string, Seq uint, Code uint,
Timestamp 65, Latency int, BytesOut uint, BytesIn uint, Error string, Body []byte, Method string,
URL string, Headers 67]}}` -/
def preResult : Bytes :=
  [127, 3, 1, 1, 6, 82, 101, 115, 117, 108, 116, 1, 255, 128, 0, 1, 12, 1, 6, 65, 116, 116, 97, 99, 107, 1, 12, 0,
   1, 3, 83, 101, 113, 1, 6, 0, 1, 4, 67, 111, 100, 101, 1, 6, 0, 1, 9, 84, 105, 109, 101, 115, 116, 97, 109, 112,
   1, 255, 130, 0, 1, 7, 76, 97, 116, 101, 110, 99, 121, 1, 4, 0, 1, 8, 66, 121, 116, 101, 115, 79, 117, 116, 1, 6,
   0, 1, 7, 66, 121, 116, 101, 115, 73, 110, 1, 6, 0, 1, 5, 69, 114, 114, 111, 114, 1, 12, 0, 1, 4, 66, 111, 100,
   121, 1, 10, 0, 1, 6, 77, 101, 116, 104, 111, 100, 1, 12, 0, 1, 3, 85, 82, 76, 1, 12, 0, 1, 7, 72, 101, 97, 100,
   101, 114, 115, 1, 255, 134, 0, 0, 0]

/-- `-65, wireType{GobEncoderT: {CommonType{Name:"Time", Id:65}}}` -/
def preTime : Bytes := [255, 129, 5, 1, 1, 4, 84, 105, 109, 101, 1, 255, 130, 0, 0, 0]

/-- `-67, wireType{MapT: {CommonType{Name:"Header", Id:67}, Key: string, Elem: 66}}` -/
def preHeader : Bytes :=
  [255, 133, 4, 1, 1, 6, 72, 101, 97, 100, 101, 114, 1, 255, 134, 0, 1, 12, 1, 255, 132, 0, 0]

/-- `-66, wireType{SliceT: {CommonType{Id:66}, Elem: string}}` -/
def preStrings : Bytes := [255, 131, 2, 1, 2, 255, 132, 0, 1, 12, 0, 0]

def preFrames : List Bytes := [preResult, preTime, preHeader, preStrings]

/-- the bytes of the type-definition messages, sent once, before the first value -/
def preamble : Bytes := encodeFrames preFrames

/-! ### value encoding -/

/-- `encodeInt`: zig-zag into an unsigned integer -/
def gInt (i : Int) : Bytes :=
  if i < 0 then encodeUint ((-i - 1).toNat * 2 + 1) else encodeUint (i.toNat * 2)

/-- strings and []byte: length, then the bytes -/
def gBytes (b : Bytes) : Bytes := encodeUint b.length ++ b

/-- big-endian bytes of `n mod 256^width` -/
def beFixed : Nat → Nat → Bytes
  | 0, _ => []
  | w+1, n => beFixed w (n / 256) ++ [n % 256]

/-- seconds between 0001-01-01 and 1970-01-01 (`unixToInternal`) -/
def unixToInternal : Int := 62135596800

/-- the zero `time.Time`: 0001-01-01T00:00:00Z -/
def zeroTime : Int := -62135596800000000000

/-- `Time.MarshalBinary`: version, seconds since year 1 (int64), nanoseconds (int32), zone offset in
minutes (int16, -1 = UTC) and, in version 2, the offset's odd seconds; `none` = "unexpected zone offset" -/
def timeBinary (z : Zone) (ts : Int) : Option Bytes :=
  let sec := ts / 1000000000 + unixToInternal
  let nsec := (ts % 1000000000).toNat
  let core := beFixed 8 (sec % 18446744073709551616).toNat ++ beFixed 4 nsec
  match z with
  | .utc => some (1 :: (core ++ [255, 255]))
  | .fixed off =>
    let m := Int.tdiv off 60
    let s := Int.tmod off 60
    if m < -32768 ∨ m = -1 ∨ m > 32767 then none
    else if s = 0 then some (1 :: (core ++ beFixed 2 (m % 65536).toNat))
    else some (2 :: (core ++ beFixed 2 (m % 65536).toNat ++ [(s % 256).toNat]))

def fString (s : Bytes) : Option Bytes := if s.isEmpty then none else some (gBytes s)
def fUint (n : Nat) : Option Bytes := if n = 0 then none else some (encodeUint n)
def fInt (i : Int) : Option Bytes := if i = 0 then none else some (gInt i)

/-- a `[]string`: count and elements (a nil slice and an empty one both have count 0) -/
def gStrings (vs : List Bytes) : Bytes := encodeUint vs.length ++ vs.flatMap gBytes

/-- a `map[string][]string`: count, then key and value of every entry in iteration order -/
def gHeader (h : Header) : Bytes :=
  encodeUint h.length ++ h.flatMap (fun kv => gBytes kv.1 ++ gStrings kv.2)

/-- the twelve fields in struct order; `none` = zero value, not sent -/
def fieldPayloads (z : Zone) (r : Result) : Option (List (Option Bytes)) :=
  let tsField : Option (Option Bytes) :=
    if r.timestamp = zeroTime ∧ z = .utc then some none          -- the zero Time is omitted like any zero field
    else (timeBinary z r.timestamp).map (fun b => some (gBytes b))
  tsField.map fun tf =>
    [ fString r.attack, fUint r.seq, fUint r.code, tf, fInt r.latency, fUint r.bytesOut, fUint r.bytesIn,
      fString r.error, fString (r.body.getD []), fString r.method, fString r.url,
      r.headers.map gHeader ]

/-- field-number deltas: `gap` = distance from the last field sent (initially from -1); closing 0 -/
def encFields : Nat → List (Option Bytes) → Bytes
  | _, [] => [0]
  | gap, none :: fs => encFields (gap + 1) fs
  | gap, some p :: fs => encodeUint gap ++ p ++ encFields 1 fs

/-- payload of the value message of one result: type id 64, then the struct -/
def valuePayload (z : Zone) (r : Result) : Option Bytes :=
  (fieldPayloads z r).map fun fs => 255 :: 128 :: encFields 1 fs

def valueFrames (z : Zone) : List Result → Option (List Bytes)
  | [] => some []
  | r :: rs =>
    match valuePayload z r, valueFrames z rs with
    | some p, some ps => some (p :: ps)
    | _, _ => none

/-- everything a gob encoder writes for the results `rs` (nothing at all for no results) -/
def encodeGobAll (z : Zone) (rs : List Result) : Option Bytes :=
  match rs with
  | [] => some []
  | _ => (valueFrames z rs).map fun ps => encodeFrames (preFrames ++ ps)

/-- one `Encode` call: the bytes it hands to the writer (`first` = first call on this encoder) -/
def encodeGobCall (z : Zone) (first : Bool) (r : Result) : Option Bytes :=
  (valuePayload z r).map fun p => (if first then preamble else []) ++ encodeFrame p

/-! ### decoding the encoder's image -/

/-- `decodeUint` -/
def decUint : Bytes → Option (Nat × Bytes)
  | [] => none
  | b :: r =>
    if b ≤ 127 then some (b, r)
    else
      let n := 256 - b
      if n > 8 ∨ r.length < n then none else some (beValue (r.take n), r.drop n)

/-- `decodeInt` -/
def decInt (s : Bytes) : Option (Int × Bytes) :=
  (decUint s).map fun p => (if p.1 % 2 = 1 then -((p.1 / 2 : Nat) : Int) - 1 else ((p.1 / 2 : Nat) : Int), p.2)

def decBytes (s : Bytes) : Option (Bytes × Bytes) :=
  match decUint s with
  | none => none
  | some (n, r) => if r.length < n then none else some (r.take n, r.drop n)

/-- `Time.UnmarshalBinary`: the instant (the zone it also restores does not matter for `Equal`) -/
def decTimeBinary (b : Bytes) : Option Int :=
  match b with
  | v :: r =>
    if (v = 1 ∧ r.length = 14) ∨ (v = 2 ∧ r.length = 15) then
      let secU := beValue (r.take 8)
      let sec : Int := if secU ≥ 9223372036854775808 then (secU : Int) - 18446744073709551616 else (secU : Int)
      let nsec := beValue ((r.drop 8).take 4)
      some ((sec - unixToInternal) * 1000000000 + (nsec : Int))
    else none
  | [] => none

def decStrings : Nat → Bytes → Option (List Bytes × Bytes)
  | 0, s => some ([], s)
  | n+1, s =>
    match decBytes s with
    | none => none
    | some (v, r) => (decStrings n r).map fun p => (v :: p.1, p.2)

def decStringSlice (s : Bytes) : Option (List Bytes × Bytes) :=
  match decUint s with
  | none => none
  | some (n, r) => decStrings n r

/-- `n` map entries; `m[key] = value` on the association list -/
def decEntries : Nat → Bytes → Header → Option (Header × Bytes)
  | 0, s, m => some (m, s)
  | n+1, s, m =>
    match decBytes s with
    | none => none
    | some (k, r) =>
      match decStringSlice r with
      | none => none
      | some (vs, r') => decEntries n r' (headerSet k vs m)

def decHeader (s : Bytes) : Option (Header × Bytes) :=
  match decUint s with
  | none => none
  | some (n, r) => decEntries n r []

/-- one field value by field number -/
def decField (i : Nat) (s : Bytes) (r : Result) : Option (Result × Bytes) :=
  match i with
  | 0 => (decBytes s).map fun p => ({ r with attack := p.1 }, p.2)
  | 1 => (decUint s).map fun p => ({ r with seq := p.1 }, p.2)
  | 2 => (decUint s).bind fun p => if p.1 < 65536 then some ({ r with code := p.1 }, p.2) else none
  | 3 => (decBytes s).bind fun p => (decTimeBinary p.1).map fun t => ({ r with timestamp := t }, p.2)
  | 4 => (decInt s).map fun p => ({ r with latency := p.1 }, p.2)
  | 5 => (decUint s).map fun p => ({ r with bytesOut := p.1 }, p.2)
  | 6 => (decUint s).map fun p => ({ r with bytesIn := p.1 }, p.2)
  | 7 => (decBytes s).map fun p => ({ r with error := p.1 }, p.2)
  | 8 => (decBytes s).map fun p => ({ r with body := some p.1 }, p.2)
  | 9 => (decBytes s).map fun p => ({ r with method := p.1 }, p.2)
  | 10 => (decBytes s).map fun p => ({ r with url := p.1 }, p.2)
  | 11 => (decHeader s).map fun p => ({ r with headers := some p.1 }, p.2)
  | _ => none

/-- the struct: (delta, value) pairs until the zero delta; `next` = last field number + 1 -/
def decFields : Nat → Nat → Bytes → Result → Option Result
  | 0, _, _, _ => none
  | fuel+1, next, s, r =>
    match decUint s with
    | none => none
    | some (d, rest) =>
      if d = 0 then (if rest.isEmpty then some r else none)
      else
        match decField (next + d - 1) rest r with
        | none => none
        | some (r', rest') => decFields fuel (next + d) rest' r'

/-- a value message's payload decoded into a zero `Result` -/
def decValue (p : Bytes) : Option Result :=
  match p with
  | 255 :: 128 :: s => decFields (s.length + 1) 0 s {}
  | _ => none

def decValues : List Bytes → List Result × Bool
  | [] => ([], true)
  | p :: ps =>
    match decValue p with
    | none => ([], false)
    | some r => let q := decValues ps; (r :: q.1, q.2)

/-- drop the expected type-definition frames; `none` if the stream starts differently -/
def stripPre : List Bytes → List Bytes → Option (List Bytes)
  | [], fs => some fs
  | _ :: _, [] => some []                    -- stream ends inside the preamble: no value yet
  | p :: ps, f :: fs => if p = f then stripPre ps fs else none

/-- how a stream whose complete messages are `frames` and which ends with `t` ends for the caller:
io.EOF only at a message boundary *between* records — "if we read one or more type spec messages,
require a data item message to follow" (decodeTypeSequence), otherwise io.ErrUnexpectedEOF -/
def gobTerm (frames : List Bytes) (t : FrameRes) (allDecoded : Bool) : Term :=
  if allDecoded && t == .eof && (frames.isEmpty || preFrames.length < frames.length) then .eof else .err

/-- repeated `Decode` on a gob stream written by one encoder: results and how the stream ended -/
def decodeGob (s : Bytes) : List Result × Term :=
  let pf := parseFrames s
  match stripPre preFrames pf.1 with
  | none => ([], .err)
  | some vals =>
    let q := decValues vals
    (q.1, gobTerm pf.1 pf.2 q.2)

end Vegeta.Model.GobValue
