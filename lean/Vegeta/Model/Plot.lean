/-
Model of lib/plot/plot.go (`labeledSeries.add`, `Plot.Add`, `Plot.data`) and
lib/plot/timeseries.go (`timeSeries.add`, `timeSeries.iter`).

* Time stamps are integers: nanoseconds since the Unix epoch (no monotonic reading: results
  decoded from files carry none).  `Time.Sub` saturates at the `Duration` range.
* The compressed store (github.com/tsenart/go-tsz) is a *parameter* `store` of `Plot.data`:
  the function from the `(time stamp, value)` pairs pushed into a `tsz.Series` to the pairs its
  iterator hands back.  `timeSeries.add` creates the series at its first point (`tsz.New(t+1)`)
  and pushes `t+1` (go-tsz reads a time stamp 0 as "no point yet"); `timeSeries.iter` subtracts
  the 1 again; a series without points has no store and iterates over nothing.  The store is
  *assumed lossless inside its limits* (`Lossless`, `tszDomain`: stored time stamps are
  positive, do not decrease, and consecutive ones are less than 2^31 ms apart — go-tsz keeps the
  delta between consecutive time stamps as a `uint32` and the delta of deltas in at most 32
  bits); nothing is assumed outside them.  The driver instantiates `store := id`.
* `uint64` sequence numbers are unbounded `Nat` (`ls.seq++` is not wrapped at 2^64).
* The label of a result is the output of the `Labeler` (for `ErrorLabeler`: "OK"/"ERROR").
-/
import Vegeta.Go.Proto
import Vegeta.Model.LTTB
import Vegeta.Model.RoundRobin
namespace Vegeta.Model.Plot
open Vegeta.Go Vegeta.Model.LTTB

structure Result where
  attack  : Bytes
  seq     : Nat
  ts      : Int      -- Timestamp, ns since the epoch
  latency : Int      -- Latency, ns
  label   : Bytes    -- label(r)
  deriving DecidableEq, Repr

def labelOK : Bytes := [79, 75]                 -- "OK"
def labelERROR : Bytes := [69, 82, 82, 79, 82]  -- "ERROR"

/-- `Duration.Seconds()`: `float64(d / Second) + float64(d % Second)/1e9` -/
def durSeconds (d : Int) : F64 :=
  F64.add (F64.ofInt (d.tdiv 1000000000)) (F64.div (F64.ofInt (d.tmod 1000000000)) (F64.ofDecimal 1 9))

/-- `r.Latency.Seconds() * 1000` -/
def latencyMs (lat : Int) : F64 := F64.mul (durSeconds lat) (F64.ofNat 1000)

/-- `t.Sub(u)` on wall-clock times: the difference, saturated to the `Duration` range. -/
def timeSub (t u : Int) : Int :=
  let d := t - u
  if d > maxInt64 then maxInt64 else if d < minInt64 then minInt64 else d

/-- `uint64(p.t.Sub(ls.began)) / 1e6`: milliseconds; a negative difference wraps. -/
def msSince (t began : Int) : Nat := (wrapU64 (timeSub t began)).toNat / 1000000

/-- `time.Duration(t * 1e6).Seconds()` for a stored `uint64` millisecond value. -/
def msToSeconds (t : Nat) : F64 := durSeconds (wrapS64 (wrapU64 ((t : Int) * 1000000)))

structure TimeSeries where
  attack : Bytes
  label  : Bytes
  prev   : Nat
  pts    : List (Nat × F64)      -- pushed (ms, value) pairs; `len` = `pts.length`
  deriving DecidableEq, Repr

def eMonotonic : Nat := 2   -- errMonotonicTimestamp

/-- `timeSeries.add` -/
def TimeSeries.add (s : TimeSeries) (t : Nat) (v : F64) : Outcome TimeSeries :=
  if s.prev > t then .error eMonotonic
  else .ok { s with prev := t, pts := s.pts ++ [(t, v)] }

/-- a buffered point (its `ts` pointer is the series of its label) -/
structure BufPoint where
  label : Bytes
  seq   : Nat
  t     : Int
  v     : F64
  deriving DecidableEq, Repr

structure LabeledSeries where
  began  : Int
  seq    : Nat
  buf    : List (Nat × BufPoint)        -- map seq → point (keys unique)
  series : List (Bytes × TimeSeries)    -- map label → series (keys unique)
  deriving DecidableEq, Repr

/-- the zero `time.Time` (January 1, year 1) in ns relative to the Unix epoch -/
def zeroTime : Int := -62135596800000000000

def LabeledSeries.new : LabeledSeries := { began := zeroTime, seq := 0, buf := [], series := [] }

def bufLookup (buf : List (Nat × BufPoint)) (k : Nat) : Option BufPoint :=
  match buf with
  | [] => none
  | (k', p) :: rest => if k' == k then some p else bufLookup rest k

def bufErase (buf : List (Nat × BufPoint)) (k : Nat) : List (Nat × BufPoint) :=
  buf.filter (fun e => e.1 != k)

/-- `ls.buf[k] = p` -/
def bufInsert (buf : List (Nat × BufPoint)) (k : Nat) (p : BufPoint) : List (Nat × BufPoint) :=
  (k, p) :: bufErase buf k

def seriesLookup (ss : List (Bytes × TimeSeries)) (l : Bytes) : Option TimeSeries :=
  match ss with
  | [] => none
  | (l', s) :: rest => if l' == l then some s else seriesLookup rest l

def seriesSet (ss : List (Bytes × TimeSeries)) (l : Bytes) (s : TimeSeries) : List (Bytes × TimeSeries) :=
  match ss with
  | [] => [(l, s)]
  | (l', s') :: rest => if l' == l then (l, s) :: rest else (l', s') :: seriesSet rest l s

/-- The release loop of `labeledSeries.add` (`for len(ls.buf) > 0 { … }`), on fuel. -/
def release : Nat → LabeledSeries → Outcome LabeledSeries
  | 0, ls => .ok ls
  | fuel+1, ls =>
    match bufLookup ls.buf ls.seq with
    | none => .ok ls
    | some p =>
      match seriesLookup ls.series p.label with
      | none => .panic                  -- unreachable: the series is created before buffering
      | some s =>
        match s.add (msSince p.t ls.began) p.v with
        | .ok s' =>
          release fuel { ls with buf := bufErase ls.buf ls.seq,
                                 series := seriesSet ls.series p.label s', seq := ls.seq + 1 }
        | .error e => .error e
        | .panic => .panic

/-- `ts, ok := ls.series[label]; if !ok { ts = newTimeSeries(r.Attack, label); ls.series[label] = ts }` -/
def ensureSeries (ss : List (Bytes × TimeSeries)) (r : Result) : List (Bytes × TimeSeries) :=
  match seriesLookup ss r.label with
  | some _ => ss
  | none => ss ++ [(r.label, { attack := r.attack, label := r.label, prev := 0, pts := [] })]

/-- `labeledSeries.add` -/
def LabeledSeries.add (ls : LabeledSeries) (r : Result) : Outcome LabeledSeries :=
  let series := ensureSeries ls.series r
  let p : BufPoint := { label := r.label, seq := r.seq, t := r.ts, v := latencyMs r.latency }
  let buf := bufInsert ls.buf r.seq p
  if r.seq ≠ ls.seq then .ok { ls with series := series, buf := buf }
  else
    let began := if ls.seq == 0 then r.ts else ls.began
    release (buf.length + 1) { ls with series := series, buf := buf, began := began }

/-- `Plot.series`: map attack name → labeledSeries. -/
abbrev Plot := List (Bytes × LabeledSeries)

def plotLookup (p : Plot) (a : Bytes) : Option LabeledSeries :=
  match p with
  | [] => none
  | (a', s) :: rest => if a' == a then some s else plotLookup rest a

def plotSet (p : Plot) (a : Bytes) (s : LabeledSeries) : Plot :=
  match p with
  | [] => [(a, s)]
  | (a', s') :: rest => if a' == a then (a, s) :: rest else (a', s') :: plotSet rest a s

/-- `Plot.Add` -/
def Plot.add (p : Plot) (r : Result) : Outcome Plot :=
  let ls := (plotLookup p r.attack).getD LabeledSeries.new
  match ls.add r with
  | .ok ls' => .ok (plotSet p r.attack ls')
  | .error e => .error e
  | .panic => .panic

def Plot.addAll (p : Plot) : List Result → Outcome Plot
  | [] => .ok p
  | r :: rs =>
    match Plot.add p r with
    | .ok p' => Plot.addAll p' rs
    | .error e => .error e
    | .panic => .panic

/-! ### Plot.data -/

/-- Go's `<` on strings: byte-wise lexicographic. -/
def bytesLt : Bytes → Bytes → Bool
  | [], [] => false
  | [], _ :: _ => true
  | _ :: _, [] => false
  | a :: as, b :: bs => if a < b then true else if b < a then false else bytesLt as bs

def seriesKey (s : TimeSeries) : Bytes := s.attack ++ s.label

/-- insertion into a list sorted by `lt` (after the elements that are not greater: stable) -/
def insertBy {α} (lt : α → α → Bool) (x : α) : List α → List α
  | [] => [x]
  | y :: ys => if lt x y then x :: y :: ys else y :: insertBy lt x ys

/-- stable insertion sort -/
def sortBy {α} (lt : α → α → Bool) (xs : List α) : List α := xs.foldr (insertBy lt) []

/-- all series of all attacks, `sort.Slice`d by `attack+label`.  (`sort.Slice` is not stable;
with `ErrorLabeler` the keys are pairwise different, so the order is determined.) -/
def allSeries (p : Plot) : List TimeSeries :=
  sortBy (fun a b => bytesLt (seriesKey a) (seriesKey b)) (p.flatMap (fun e => e.2.series.map (·.2)))

/-- The compressed store: pushed pairs ↦ pairs read back by the iterator. -/
abbrev Store := List (Nat × F64) → List (Nat × F64)

/-- consecutive time stamps do not decrease and are less than `bound` apart -/
def gapsBelow (bound : Nat) : Nat → List Nat → Bool
  | _, [] => true
  | t, t' :: rest => decide (t ≤ t') && decide (t' - t < bound) && gapsBelow bound t' rest

/-- The limits of go-tsz as `timeSeries` uses it (`tsz.New(first)`, `Series.Push`), on the
*stored* time stamps: positive (0 is go-tsz's "no point yet" sentinel), non-decreasing, and
consecutive ones less than 2^31 apart (`tDelta := uint32(t - s.t)`, `d := int32(tDelta - s.tDelta)`,
`dod` written in at most 32 bits).  The first stored time stamp equals the series' `T0`, so its
27-bit delta is 0.  (Reading the code and experiment both indicate that gaps up to 2^32−1 are
still exact; the assumption is stated for the smaller domain.) -/
def tszDomain (stored : List Nat) : Bool :=
  match stored with
  | [] => true
  | t :: rest => decide (0 < t) && gapsBelow (2 ^ 31) t rest

/-- **Assumption** on the third-party store: inside `tszDomain` the iterator returns exactly
the pushed pairs. -/
def Lossless (store : Store) : Prop :=
  ∀ pts : List (Nat × F64), tszDomain (pts.map (·.1)) = true → store pts = pts

/-- the same limit on the plotted millisecond values of a series (before the shift by one):
consecutive points of a series are less than 2^31 ms (24.8 days) apart -/
def msDomain (ms : List Nat) : Bool :=
  match ms with
  | [] => true
  | t :: rest => gapsBelow (2 ^ 31) t rest

/-- `ts.data.Push(t+1, v)`.  (`t + 1` cannot wrap: `t ≤ (2^64−1)/10^6`.) -/
def shiftUp (p : Nat × F64) : Nat × F64 := (p.1 + 1, p.2)

/-- `t - 1` on `uint64` -/
def unshift (t : Nat) : Nat := if t = 0 then 18446744073709551615 else t - 1

/-- the points handed out by `timeSeries.iter`: nothing when no point was added (`data == nil`),
otherwise the stored pairs with `X = time.Duration((t-1) * 1e6).Seconds()` -/
def seriesPoints (store : Store) (s : TimeSeries) : List Point :=
  if s.pts.isEmpty then []
  else (store (s.pts.map shiftUp)).map (fun (t, v) => ⟨msToSeconds (unshift t), v⟩)

/-- `math.NaN()` -/
def goNaN : F64 := ⟨0x7FF8000000000001⟩

/-- one row: `[X, NaN, …, Y (column i+1), …, NaN]` of width `1 + n` -/
def mkRow (n i : Nat) (p : Point) : List F64 :=
  p.x :: (List.range n).map (fun j => if j == i then p.y else goNaN)

/-- rows of the series from index `i` on (before the final sort) -/
def rowsFrom (store : Store) (threshold : Int) (n : Nat) : Nat → List TimeSeries → Outcome (List (List F64))
  | _, [] => .ok []
  | i, s :: rest =>
    match downsample (s.pts.length : Int) threshold (seriesPoints store s) with
    | .ok ps =>
      match rowsFrom store threshold n (i+1) rest with
      | .ok rs => .ok (ps.map (mkRow n i) ++ rs)
      | .error e => .error e
      | .panic => .panic
    | .error e => .error e
    | .panic => .panic

def rowX (r : List F64) : F64 := r.headD F64.posZero

/-- `Less`: `ps[i][0] < ps[j][0]` -/
def rowLt (a b : List F64) : Bool := F64.lt (rowX a) (rowX b)

/-- labels: "Seconds", then `attack + ": " + label` per series -/
def dataLabels (ss : List TimeSeries) : List Bytes :=
  [83, 101, 99, 111, 110, 100, 115] :: ss.map (fun s => s.attack ++ [58, 32] ++ s.label)

/-- `Plot.data()`.  `sort.Sort` is not stable: the real rows are *some* permutation of these
that is sorted by X; the model returns the stable one. -/
def Plot.data (store : Store) (p : Plot) (threshold : Int) : Outcome (List (List F64) × List Bytes) :=
  let ss := allSeries p
  match rowsFrom store threshold ss.length 0 ss with
  | .ok rows => .ok (sortBy rowLt rows, dataLabels ss)
  | .error e => .error e
  | .panic => .panic

/-! ### the `plot` command (plot.go `plotRun`) -/

def eDecode : Nat := 3     -- a decoder returned an error other than io.EOF
def eNotDone : Nat := 4    -- (model only) the decode loop did not finish within the fuel

/-- `plotRun(files, threshold, title, output)`:

    dec := decoder(files)                      -- round robin over the files' decoders (C13)
    for { if err = dec.Decode(&r); err != nil { if err == io.EOF { break }; return err }
          if err = p.Add(&r); err != nil { return err } }
    p.Close(); p.WriteTo(out)                  -- WriteTo renders p.data()

as a fold: the decoded records (`RoundRobin.drain`: call the combined decoder until its first
error) are added one by one; the page's data block is `Plot.data` of the resulting plot.  Since
nothing is written unless every step succeeds, adding while decoding and adding after decoding
have the same outcome.  `Close` only finishes the store's streams (no effect on the model).
The `os.Interrupt` branch of the loop (stop reading early) is not modelled. -/
def plotCommand (store : Store) (threshold : Int) (fuel : Nat) (files : List (RoundRobin.Dec Result)) :
    Outcome (List (List F64) × List Bytes) :=
  match RoundRobin.drain fuel (RoundRobin.RR.init files) with
  | (out, _, some e) =>
    if e = RoundRobin.eEOF then
      match Plot.addAll [] (out.map (·.2)) with
      | .ok p => Plot.data store p threshold
      | .error e => .error e
      | .panic => .panic
    else .error eDecode
  | (_, _, none) => .error eNotDone

/-- `threshold := fs.Int("threshold", 4000, …)` in `plotCmd` (bound to the source by a regenerated fact) -/
def defaultThreshold : Int := 4000

/-- `vegeta plot [-threshold N] [-title T] [-output F] [file…]` (plot.go `plotCmd`): the flags are
parsed and `plotRun(files, *threshold, *title, *output)` is called — the threshold is the flag's
value when the flag is given and 4000 otherwise.  Title and output path do not influence the data. -/
def plotCmdLine (store : Store) (thresholdFlag : Option Int) (fuel : Nat) (files : List (RoundRobin.Dec Result)) :
    Outcome (List (List F64) × List Bytes) :=
  plotCommand store (thresholdFlag.getD defaultThreshold) fuel files

end Vegeta.Model.Plot
