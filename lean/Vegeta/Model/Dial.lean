/-
Model of the dial path of lib/attack.go: `DNSCaching` (323-405), `firstOfEachIPFamily`
(408-432), `ConnectTo` (281-315), and of `resolver.address()` (internal/resolver/resolver.go:76).

* The DNS cache entry is a heap array handed out BY REFERENCE (`dnscache.Resolver.load`
  returns `entry.rrs` itself).  Since fix da2a0f6 (DESIGN §8 #12) the dial function copies it
  (`ips = append([]string(nil), ips...)`) before the in-place `rng.Shuffle` and the in-place
  compaction `each = ips[:0]; each = append(each, ips[i])` of `firstOfEachIPFamily`, so both
  rewrite only the private copy.  The model keeps the cached array as a `List` that every
  dial maps to its successor contents (now: itself).
* `net.ParseIP` / `To4` are a parameter `fam : α → Family`.
* `rng.Shuffle` is Fisher–Yates over an explicit list of choices (the random source is a
  parameter; since fix 42475d9 the call is one critical section of `rngmu`).
* `ConnectTo`'s round-robin is `n := atomic.AddUint64(&cm.n, 1); addr = cm.addrs[n%uint64(len(cm.addrs))]`
  (fix 42475d9): ONE atomic step on the shared counter, then a computation on the local `n`
  (`ctStep`, all interleavings).
* The custom resolver rotates with `atomic.AddUint64`: one atomic step per call.
-/
import Vegeta.Go.Proto
namespace Vegeta.Model.Dial
open Vegeta.Go

inductive Family where
  | v4 | v6 | invalid
  deriving Repr, DecidableEq

section generic
variable {α : Type}

/-! ### firstOfEachIPFamily -/

/-- The loop of `firstOfEachIPFamily` on the array itself:
`for i := 0; i < len(ips) && len(each) < 2; i++ { … each = append(each, ips[i]) … }` with
`each = ips[:0]`, so `append` writes `ips[len(each)] = ips[i]`.
State: index `i`, array, `len(each)`, `lastV4`.  Returns the array and `len(each)`. -/
def foeLoop (fam : α → Family) : Nat → Nat → List α → Nat → Bool → List α × Nat
  | 0, _, arr, n, _ => (arr, n)
  | fuel+1, i, arr, n, lastV4 =>
    if n < 2 then
      match arr[i]? with
      | none => (arr, n)
      | some x =>
        match fam x with
        | .invalid => foeLoop fam fuel (i+1) arr n lastV4
        | .v4 =>
          if n = 0 ∨ true ≠ lastV4 then foeLoop fam fuel (i+1) (arr.set n x) (n+1) true
          else foeLoop fam fuel (i+1) arr n lastV4
        | .v6 =>
          if n = 0 ∨ false ≠ lastV4 then foeLoop fam fuel (i+1) (arr.set n x) (n+1) false
          else foeLoop fam fuel (i+1) arr n lastV4
    else (arr, n)

/-- `firstOfEachIPFamily(ips)` acting on the backing array: (array afterwards, length of the
returned slice, which is the prefix of that array). -/
def firstOfEachInPlace (fam : α → Family) (arr : List α) : List α × Nat :=
  if arr.length = 0 then (arr, 0) else foeLoop fam arr.length 0 arr 0 false

/-- The slice `firstOfEachIPFamily` returns. -/
def firstOfEach (fam : α → Family) (ips : List α) : List α :=
  let r := firstOfEachInPlace fam ips
  r.1.take r.2

/-- Pure reference: the addresses picked from the rest of the list when `n` were picked
already and the last pick was (not) IPv4. -/
def pickGo (fam : α → Family) : List α → Nat → Bool → List α
  | [], _, _ => []
  | x :: r, n, lastV4 =>
    if n < 2 then
      match fam x with
      | .invalid => pickGo fam r n lastV4
      | .v4 => if n = 0 ∨ true ≠ lastV4 then x :: pickGo fam r (n+1) true else pickGo fam r n lastV4
      | .v6 => if n = 0 ∨ false ≠ lastV4 then x :: pickGo fam r (n+1) false else pickGo fam r n lastV4
    else []

def pick (fam : α → Family) (ips : List α) : List α := pickGo fam ips 0 false

/-! ### rng.Shuffle -/

/-- `ips[i], ips[j] = ips[j], ips[i]` -/
def swap (l : List α) (i j : Nat) : List α :=
  match l[i]?, l[j]? with
  | some a, some b => (l.set i b).set j a
  | _, _ => l

/-- `for i := n-1; i > 0; i-- { j := rng.Intn(i+1); swap(i, j) }`; the successive random
numbers are the list `js` (reduced into range; 0 when the list runs out). -/
def shuffleLoop : Nat → List Nat → List α → List α
  | 0, _, l => l
  | i+1, js, l => shuffleLoop i js.tail (swap l (i+1) (js.headD 0 % (i+2)))

def shuffle (js : List Nat) (l : List α) : List α := shuffleLoop (l.length - 1) js l

/-! ### one dial through the DNS-caching dial function -/

/-- One call of the `DNSCaching` dial function for a host whose cache entry currently holds
`cache` (non-empty): copy the slice, shuffle the copy in place, compact the copy in place,
dial the returned slice.  Returns (addresses dialled, contents of the cached array afterwards). -/
def dialStep (fam : α → Family) (js : List Nat) (cache : List α) : List α × List α :=
  let ips := cache                       -- `append([]string(nil), ips...)`: a fresh array with the same contents
  let shuffled := shuffle js ips
  let r := firstOfEachInPlace fam shuffled
  (r.1.take r.2, cache)

/-- A history of dials (one choice list per dial): all dialled address lists and the final array. -/
def dialMany (fam : α → Family) : List (List Nat) → List α → List (List α) × List α
  | [], cache => ([], cache)
  | js :: rest, cache =>
    let (t, c') := dialStep fam js cache
    let (ts, c'') := dialMany fam rest c'
    (t :: ts, c'')

end generic

/-! ### ConnectTo round-robin -/

/-- One dial to a mapped address, run alone: `n := atomic.AddUint64(&cm.n, 1)` (wraps at 2^64),
`addr = cm.addrs[n % uint64(len(cm.addrs))]`: new counter and the index used.
`len = 0` is an integer division by zero (panic). -/
def rrNext (k n : Nat) : Outcome (Nat × Nat) :=
  if k = 0 then .panic else .ok ((n + 1) % two64, ((n + 1) % two64) % k)

/-- indices used by `m` sequential dials starting from counter value `n` -/
def ctSeq (k : Nat) : Nat → Nat → List Nat
  | 0, _ => []
  | m+1, n => (((n + 1) % two64) % k) :: ctSeq k m ((n + 1) % two64)

/-- the rotation `1, 2, …, k-1, 0, 1, …` as a reference: indices of `m` steps from position `n < k` -/
def rrSeq (k : Nat) : Nat → Nat → List Nat
  | 0, _ => []
  | m+1, n => ((n + 1) % k) :: rrSeq k m ((n + 1) % k)

/-- Concurrently dialling workers.  The only access to shared memory is the atomic add:
pc 0 → `n := atomic.AddUint64(&cm.n, 1)` (one step: counter advanced, ticket kept in the
local `tmp`), pc 1 → `addr = cm.addrs[tmp % k]` (local; the dial completes and its ticket is
appended to `done`).  A worker may dial any number of times. -/
structure CTWorker where
  pc : Nat
  tmp : Nat
  done : List Nat       -- tickets of this worker's completed dials, in order
  deriving Repr, DecidableEq

structure CTState where
  n : Nat
  k : Nat
  ws : List CTWorker
  deriving Repr, DecidableEq

def CTState.init (k workers : Nat) : CTState :=
  { n := 0, k := k, ws := List.replicate workers { pc := 0, tmp := 0, done := [] } }

/-- worker `w` performs its next step (a schedule entry naming no worker does nothing) -/
def ctStep (s : CTState) (w : Nat) : CTState :=
  match s.ws[w]? with
  | none => s
  | some wk =>
    if wk.pc = 0 then
      { s with n := (s.n + 1) % two64, ws := s.ws.set w { wk with pc := 1, tmp := (s.n + 1) % two64 } }
    else
      { s with ws := s.ws.set w { wk with pc := 0, done := wk.done ++ [wk.tmp] } }

def ctRun (s : CTState) (sched : List Nat) : CTState := sched.foldl ctStep s

/-- index of the replacement a ticket selects -/
def CTState.indices (s : CTState) : List Nat := (s.ws.flatMap (·.done)).map (· % s.k)

/-! ### custom resolver rotation -/

/-- `r.addrs[atomic.AddUint64(&r.idx, 1) % uint64(len(r.addrs))]`: one atomic step.
Returns the new counter and the index used; panics for an empty list (division by zero). -/
def resolverNext (k idx : Nat) : Outcome (Nat × Nat) :=
  if k = 0 then .panic else
  let idx' := (idx + 1) % two64
  .ok (idx', idx' % k)

def resolverSeq (k : Nat) : Nat → Nat → List Nat
  | 0, _ => []
  | m+1, idx => (((idx + 1) % two64) % k) :: resolverSeq k m ((idx + 1) % two64)

/-! ### composition of the dial-related options

`NewAttacker` applies options in order; each of `DNSCaching` / `ConnectTo` captures the dial
function installed so far and installs a wrapper, so the option applied LAST is outermost.
Addresses are `host:port` pairs (`net.SplitHostPort` / `net.JoinHostPort` are the pairing). -/

structure HP where
  host : Bytes
  port : Bytes
  deriving Repr, DecidableEq

inductive Layer where
  /-- `DNSCaching(0)`: the attacker's private `dnscache.Resolver`, host ↦ cached array -/
  | dns (cache : List (Bytes × List Bytes))
  /-- `ConnectTo(map)`: address ↦ (replacements, counter) -/
  | connectTo (m : List (HP × (List HP × Nat)))
  deriving Repr

/-- the outside world: DNS answers (`none`/absent = lookup error) and the IP classifier -/
structure World where
  answers : List (Bytes × List Bytes)
  fam : List (Bytes × Family)

def World.famOf (w : World) (ip : Bytes) : Family :=
  match w.fam.find? (·.1 = ip) with
  | some (_, f) => f
  | none => .invalid

def assocGet {β : Type} (l : List (Bytes × β)) (k : Bytes) : Option β :=
  match l.find? (·.1 = k) with
  | some (_, v) => some v
  | none => none

def assocSet {β : Type} (l : List (Bytes × β)) (k : Bytes) (v : β) : List (Bytes × β) :=
  if l.any (·.1 = k) then l.map (fun e => if e.1 = k then (k, v) else e) else l ++ [(k, v)]

/-- Dial `a` through the layers (outermost first).  `choices`: one Fisher–Yates choice list
per invocation of a DNS layer.  Returns the addresses that reach the base dialer (in spawn
order), the layers with their updated state and the unused choices.
`error 1`: lookup failure / no such host (nothing is dialled). -/
def dialViaF (w : World) : Nat → List Layer → List (List Nat) → HP → Outcome (List HP × List Layer × List (List Nat))
  | _, [], ch, a => .ok ([a], [], ch)
  | 0, _ :: _, _, _ => .error 99      -- unreachable: fuel = number of layers
  | fuel+1, .connectTo m :: inner, ch, a =>
    match m.find? (·.1 = a) with
    | none =>
      match dialViaF w fuel inner ch a with
      | .ok (out, inner', ch') => .ok (out, .connectTo m :: inner', ch')
      | .error e => .error e
      | .panic => .panic
    | some (_, (addrs, n)) =>
      match rrNext addrs.length n with
      | .ok (n', i) =>
        match addrs[i]? with
        | none => .panic
        | some a' =>
          let m' := m.map (fun e => if e.1 = a then (e.1, (addrs, n')) else e)
          match dialViaF w fuel inner ch a' with
          | .ok (out, inner', ch') => .ok (out, .connectTo m' :: inner', ch')
          | .error e => .error e
          | .panic => .panic
      | .error e => .error e
      | .panic => .panic
  | fuel+1, .dns cache :: inner, ch, a =>
    let entry : Option (List Bytes) := match assocGet cache a.host with
      | some arr => some arr
      | none =>
        match assocGet w.answers a.host with
        | some ips => some ips
        | none =>
          -- `net.LookupIP` of an IP literal (e.g. what an outer DNS layer hands down) is that IP
          if w.famOf a.host ≠ .invalid then some [a.host] else none
    match entry with
    | none => .error 1
    | some arr =>
      if arr.length = 0 then .error 1 else
      let (targets, arr') := dialStep w.famOf (ch.headD []) arr
      let cache' := assocSet cache a.host arr'
      -- `for _, ip := range ips { go dial(ctx, network, net.JoinHostPort(ip, port)) }`
      -- (at most two targets; a failing inner dial does not stop the other one)
      let step (acc : Outcome (List HP × List Layer × List (List Nat))) (ip : Bytes) :=
        match acc with
        | .ok (o1, ls1, c1) =>
          match dialViaF w fuel ls1 c1 { host := ip, port := a.port } with
          | .ok (o2, ls2, c2) => .ok (o1 ++ o2, ls2, c2)
          | .error _ => .ok (o1, ls1, c1)
          | .panic => .panic
        | o => o
      match targets.foldl step (.ok ([], inner, ch.tail)) with
      | .ok (out, inner', ch') => .ok (out, .dns cache' :: inner', ch')
      | .error e => .error e
      | .panic => .panic

def dialVia (w : World) (layers : List Layer) (ch : List (List Nat)) (a : HP) :
    Outcome (List HP × List Layer × List (List Nat)) :=
  dialViaF w layers.length layers ch a

end Vegeta.Model.Dial
