/-
Model of lib/pacer.go (property C01): ConstantPacer, SinePacer, LinearPacer and the
closed loop "sleep as long as told, then issue one hit" of lib/attack.go in virtual time.

Integers are unbounded `Int` with an explicit `wrapU64`/`wrapS64` exactly where Go wraps;
Go's integer `/` is `Int.tdiv`, and every integer division goes through `sdiv`/`udiv`,
which answer `none` on a zero divisor so that a Go divide-by-zero panic is a visible
outcome (`PaceOut.panic`).  `constPace` is the repaired constant pacer (exact 128-bit
deadline); `constPaceOld` keeps the code as it was, including
* `Freq > Per` ⇒ `interval = 0` ⇒ `math.MaxInt64/interval` panics,
* the overflow guard `MaxInt64/interval < hits` being off by one,
* the truncated `interval = Per/Freq`.
Floating point (sine / linear pacers) is generic over `FloatOps F`; the transcendental
members and the float↔integer conversions are parameters (the driver instantiates them
with native `Float` and hand-written Go/amd64 conversions; proofs never mention `Float`).
-/
import Vegeta.Go.Basic
import Vegeta.Go.SoftF64
namespace Vegeta.Model.Pacer
open Vegeta.Go

/-- Result of `Pacer.Pace`: `(wait, false)`, `(0, true)`, or a run-time panic. -/
inductive PaceOut where
  | wait : Int → PaceOut
  | stop : PaceOut
  | panic : PaceOut
  deriving DecidableEq, Repr, Inhabited

/-- Go signed 64-bit division: panics on a zero divisor, `MinInt64 / -1` wraps. -/
def sdiv (a b : Int) : Option Int := if b = 0 then none else some (wrapS64 (a.tdiv b))

/-- Go unsigned 64-bit division (operands already in `[0, 2^64)`): panics on zero. -/
def udiv (a b : Int) : Option Int := if b = 0 then none else some (a.tdiv b)

/-! ## ConstantPacer (repaired code, /repo commit a5c2a38) -/

/-- `bits.Div64(hi, lo, y)`: quotient of the 128-bit value `hi·2^64 + lo` by `y`; panics when
`y == 0` (division by zero) or `y <= hi` (quotient overflow). -/
def div64 (hi lo y : Int) : Option Int :=
  if y = 0 ∨ y ≤ hi then none else some ((hi * (two64 : Int) + lo).tdiv y)

/-- `ConstantPacer{Freq: freq, Per: per}.Pace(elapsed, hits)`, lib/pacer.go:51-88: the next hit is
due at `ceil((hits+1)·Per/Freq)`, computed in 128 bits (`bits.Mul64`, `bits.Add64`, `bits.Div64`);
stop when the deadline does not fit `int64` or `hits` is `MaxUint64`. -/
def constPace (freq per elapsed : Int) (hits : Nat) : PaceOut :=
  if per = 0 ∨ freq = 0 then .wait 0
  else if per < 0 ∨ freq < 0 then .stop
  else if (hits : Int) = (two64 : Int) - 1 then .stop          -- hits == math.MaxUint64
  else
    let prod := wrapU64 ((hits : Int) + 1) * wrapU64 per        -- bits.Mul64: full 128-bit product
    let hi0 := prod / (two64 : Int)
    let lo0 := prod % (two64 : Int)
    let sum := lo0 + wrapU64 (wrapU64 freq - 1)                 -- bits.Add64(lo, uint64(Freq)-1, 0)
    let lo := sum % (two64 : Int)
    let carry := sum / (two64 : Int)
    let hi := wrapU64 (hi0 + carry)                             -- hi += carry
    if wrapU64 freq ≤ hi then .stop
    else
      match div64 hi lo (wrapU64 freq) with
      | none => .panic
      | some due =>
        if maxInt64 < due then .stop
        else if wrapS64 due ≤ elapsed then .wait 0              -- elapsed >= time.Duration(due)
        else
          let e := if elapsed < 0 then 0 else elapsed
          .wait (wrapS64 (wrapS64 due - e))

/-! ## ConstantPacer as it was before the repair (kept so that the record of what was wrong
stays machine-checked: `Props/C01.lean`, `*_old_counterexample`) -/

/-- `expectedHits := uint64(cp.Freq) * uint64(elapsed/cp.Per)` (for `Per ≠ 0`). -/
def constExpected (freq per elapsed : Int) : Option Int :=
  match sdiv elapsed per with
  | none => none
  | some q => some (wrapU64 (wrapU64 freq * wrapU64 q))

/-- `interval := uint64(cp.Per.Nanoseconds() / int64(cp.Freq))`. -/
def constInterval (freq per : Int) : Option Int :=
  match sdiv per freq with
  | none => none
  | some q => some (wrapU64 q)

/-- The unrepaired `ConstantPacer.Pace` (commit before a5c2a38): truncated interval
`Per/Freq` (0 when `Freq > Per` ⇒ `math.MaxInt64/interval` panics), overflow guard off by one. -/
def constPaceOld (freq per elapsed : Int) (hits : Nat) : PaceOut :=
  if per = 0 ∨ freq = 0 then .wait 0
  else if per < 0 ∨ freq < 0 then .stop
  else
    match constExpected freq per elapsed with
    | none => .panic
    | some expected =>
      if (hits : Int) < expected then .wait 0
      else
        match constInterval freq per with
        | none => .panic
        | some interval =>
          match udiv maxInt64 interval with
          | none => .panic                                   -- math.MaxInt64/interval, interval = 0
          | some q =>
            if q < (hits : Int) then .stop
            else
              let delta := wrapS64 (wrapU64 (wrapU64 ((hits : Int) + 1) * interval))
              .wait (wrapS64 (delta - elapsed))

/-- `ConstantPacer.hitsPerNs`: `float64(cp.Freq) / float64(cp.Per)` (bit-exact SoftF64). -/
def constHitsPerNs (freq per : Int) : F64 := F64.div (F64.ofInt freq) (F64.ofInt per)

/-- `ConstantPacer.Rate`: `cp.hitsPerNs() * 1e9`. -/
def constRate (freq per : Int) : F64 := F64.mul (constHitsPerNs freq per) (F64.ofDecimal 1 9)

/-! ## Float operations as parameters -/

/-- The float64 operations the sine and linear pacers use.  Nothing is assumed about
them: the theorems are about the decision structure of the code only. -/
structure FloatOps (F : Type) where
  ofInt64 : Int → F            -- float64(x) for an int64 / time.Duration
  ofUInt64 : Int → F           -- float64(x) for a uint64
  add : F → F → F
  sub : F → F → F
  mul : F → F → F
  div : F → F → F
  lt : F → F → Bool
  le : F → F → Bool
  abs : F → F                  -- math.Abs
  round : F → F                -- math.Round
  ceil : F → F                 -- math.Ceil
  sin : F → F                  -- math.Sin
  cos : F → F                  -- math.Cos
  sq : F → F                   -- math.Pow(x, 2)
  toInt64 : F → Int            -- time.Duration(f): Go/amd64 int64 conversion, result in int64
  toUInt64 : F → Int           -- uint64(f): Go/amd64 conversion, result in [0, 2^64)
  zero : F
  one : F
  two : F
  pi : F                       -- math.Pi
  twoPi : F                    -- the constant expression 2 * math.Pi
  e9 : F                       -- 1e9
  em3 : F                      -- 1e-3

section generic
variable {F : Type} (o : FloatOps F)

/-- `Rate.hitsPerNs()` on generic floats. -/
def hitsPerNs (freq per : Int) : F := o.div (o.ofInt64 freq) (o.ofInt64 per)

/-- `ConstantPacer.Rate()` on generic floats: `cp.hitsPerNs() * 1e9` (hits per second). -/
def constRateOn (freq per : Int) : F := o.mul (hitsPerNs o freq per) o.e9

/-- `time.Duration.Seconds()`: `float64(d/Second) + float64(d%Second)/1e9`. -/
def seconds (d : Int) : F :=
  o.add (o.ofInt64 (d.tdiv 1000000000)) (o.div (o.ofInt64 (d.tmod 1000000000)) o.e9)

/-! ## SinePacer -/

structure SineP (F : Type) where
  period : Int
  meanFreq : Int
  meanPer : Int
  ampFreq : Int
  ampPer : Int
  startAt : F

/-- `sp.invalid()`: `Period <= 0 || Mean.hitsPerNs() <= 0 || Amp.hitsPerNs() >= Mean.hitsPerNs()`. -/
def sineInvalid (p : SineP F) : Bool :=
  decide (p.period ≤ 0) || o.le (hitsPerNs o p.meanFreq p.meanPer) o.zero ||
    o.le (hitsPerNs o p.meanFreq p.meanPer) (hitsPerNs o p.ampFreq p.ampPer)

/-- `sp.radians(t)`: `StartAt + float64(t)*2*math.Pi/float64(Period)` (left-associative). -/
def sineRadians (p : SineP F) (t : Int) : F :=
  o.add p.startAt (o.div (o.mul (o.mul (o.ofInt64 t) o.two) o.pi) (o.ofInt64 p.period))

/-- `sp.hitsPerNs(t)`: `Mean + Amp*sin(radians t)`. -/
def sineHitsPerNs (p : SineP F) (t : Int) : F :=
  o.add (hitsPerNs o p.meanFreq p.meanPer)
    (o.mul (hitsPerNs o p.ampFreq p.ampPer) (o.sin (sineRadians o p t)))

/-- `sp.Rate(t)`. -/
def sineRate (p : SineP F) (t : Int) : F := o.mul (sineHitsPerNs o p t) o.e9

/-- `sp.ampHits()`: `(Amp * float64(Period)) / (2π)`. -/
def sineAmpHits (p : SineP F) : F :=
  o.div (o.mul (hitsPerNs o p.ampFreq p.ampPer) (o.ofInt64 p.period)) o.twoPi

/-- `sp.hits(t)`: the cumulative schedule `H(t)` as the code computes it. -/
def sineHits (p : SineP F) (t : Int) : F :=
  if t ≤ 0 ∨ sineInvalid o p = true then o.zero
  else o.add (o.mul (hitsPerNs o p.meanFreq p.meanPer) (o.ofInt64 t))
        (o.mul (sineAmpHits o p) (o.sub (o.cos p.startAt) (o.cos (sineRadians o p t))))

/-- The 5-step numerical inversion at the end of `SinePacer.Pace`: returns the guess and
whether the loop returned from inside (error below 1e-3). -/
def sineIter (p : SineP F) (t : Int) (hits : Nat) : Nat → Int → Int × Bool
  | 0, g => (g, false)
  | k + 1, g =>
    let hg := sineHits o p (wrapS64 (t + g))
    let err := o.sub (o.ofUInt64 (wrapU64 ((hits : Int) + 1))) hg
    if o.lt (o.abs err) o.em3 then (g, true)
    else sineIter p t hits k (o.toInt64 (o.div (o.ofInt64 g) (o.sub hg (o.ofUInt64 hits))))

/-- How `SinePacer.Pace` left. -/
inductive SineExit where
  | invalid      -- configuration invalid: stop
  | behind       -- catch-up: wait 0
  | converged    -- return from inside the 5-step fixed-point loop
  | bisected     -- return from inside the bisection (error below 1e-3)
  | bracket      -- bisection narrowed the bracket to 1ns: its upper end
  | nobracket    -- no bracket / deadline beyond the representable time: stop
  | maxhits      -- elapsedHits == MaxUint64 (hits+1 would overflow): stop
  | unconverged  -- old code: last guess of the fixed-point loop; new code: bisection fuel exhausted
  deriving DecidableEq, Repr, Inhabited

/-- First guess `nextHitIn := time.Duration(nsPerHit * hitsToWait)`. -/
def sineFirstGuess (p : SineP F) (t : Int) (hits : Nat) : Int :=
  let nsPerHit := o.round (o.div o.one (sineHitsPerNs o p t))
  let hitsToWait := o.sub (o.ofUInt64 (wrapU64 ((hits : Int) + 1))) (sineHits o p t)
  o.toInt64 (o.mul nsPerHit hitsToWait)

/-- `err := float64(elapsedHits+1) - sp.hits(elapsedTime + g)` as computed. -/
def sineErr (p : SineP F) (t : Int) (hits : Nat) (g : Int) : F :=
  o.sub (o.ofUInt64 (wrapU64 ((hits : Int) + 1))) (sineHits o p (wrapS64 (t + g)))

/-- `hi := math.Ceil(hitsToWait / (Mean.hitsPerNs() - math.Abs(Amp.hitsPerNs())))`. -/
def sineHi (p : SineP F) (t : Int) (hits : Nat) : F :=
  let hitsToWait := o.sub (o.ofUInt64 (wrapU64 ((hits : Int) + 1))) (sineHits o p t)
  o.ceil (o.div hitsToWait
    (o.sub (hitsPerNs o p.meanFreq p.meanPer) (o.abs (hitsPerNs o p.ampFreq p.ampPer))))

/-- The bisection `for up-lo > 1 { mid := lo + (up-lo)/2; … }` on a fuel argument.  For
`0 ≤ lo ≤ up ≤ MaxInt64` the width halves in every step, so 64 units of fuel are never used up
(`Props.C01.sine_bisect_fuel`); running out of fuel is reported as `.unconverged`. -/
def sineBisect (p : SineP F) (t : Int) (hits : Nat) : Nat → Int → Int → Int × SineExit
  | 0, _, up => (up, .unconverged)
  | k + 1, lo, up =>
    if 1 < wrapS64 (up - lo) then
      let mid := wrapS64 (lo + (wrapS64 (up - lo)).tdiv 2)
      let err := sineErr o p t hits mid
      if o.lt (o.abs err) o.em3 then (mid, .bisected)
      else if o.lt o.zero err then sineBisect p t hits k mid up
      else sineBisect p t hits k lo mid
    else (up, .bracket)

/-- `SinePacer.Pace` with the exit taken, lib/pacer.go (commits 7529829, 4a0988c): stop at
`hits == MaxUint64`, 5 fixed-point iterations, then bisection of `[0, hi]`. -/
def sinePaceX (p : SineP F) (t : Int) (hits : Nat) : PaceOut × SineExit :=
  if sineInvalid o p = true then (.stop, .invalid)
  else if (hits : Int) = (two64 : Int) - 1 then (.stop, .maxhits)     -- commit 4a0988c
  else if (hits : Int) < o.toUInt64 (sineHits o p t) then (.wait 0, .behind)
  else
    let r := sineIter o p t hits 5 (sineFirstGuess o p t hits)
    if r.2 then (.wait r.1, .converged)
    else
      let hi := sineHi o p t hits
      -- `!(hi >= 0 && hi < float64(math.MaxInt64-elapsedTime))`
      if (o.le o.zero hi && o.lt hi (o.ofInt64 (wrapS64 (maxInt64 - t)))) = false then
        (.stop, .nobracket)
      else
        let b := sineBisect o p t hits 64 0 (o.toInt64 hi)
        (.wait b.1, b.2)

def sinePace (p : SineP F) (t : Int) (hits : Nat) : PaceOut := (sinePaceX o p t hits).1

/-- `SinePacer.Pace` before commit 7529829: the last guess is returned when the loop does not
converge (kept as the record of the defect). -/
def sinePaceXOld (p : SineP F) (t : Int) (hits : Nat) : PaceOut × SineExit :=
  if sineInvalid o p = true then (.stop, .invalid)
  else if (hits : Int) < o.toUInt64 (sineHits o p t) then (.wait 0, .behind)
  else
    let r := sineIter o p t hits 5 (sineFirstGuess o p t hits)
    (.wait r.1, if r.2 then .converged else .unconverged)

/-! ## LinearPacer -/

structure LinearP (F : Type) where
  freq : Int
  per : Int
  slope : F

/-- `b := p.StartAt.hitsPerNs() * 1e9`. -/
def linearB (p : LinearP F) : F := o.mul (hitsPerNs o p.freq p.per) o.e9

/-- `p.Rate(t)`: `a*x + b`. -/
def linearRate (p : LinearP F) (t : Int) : F :=
  o.add (o.mul p.slope (seconds o t)) (linearB o p)

/-- `p.hits(t)`: `(a*math.Pow(x, 2))/2 + b*x`, 0 for negative `t`. -/
def linearHits (p : LinearP F) (t : Int) : F :=
  if t < 0 then o.zero
  else o.add (o.div (o.mul p.slope (o.sq (seconds o t))) o.two) (o.mul (linearB o p) (seconds o t))

/-- `LinearPacer.Pace` (with commit 4a0988c: stop instead of wrapping at the integer limits). -/
def linearPace (p : LinearP F) (t : Int) (hits : Nat) : PaceOut :=
  if p.per = 0 ∨ p.freq = 0 then .wait 0
  else if p.per < 0 ∨ p.freq < 0 then .stop
  else
    let expected := linearHits o p t
    if hits = 0 ∨ (hits : Int) < o.toUInt64 expected then .wait 0
    else
      let interval := o.round (o.div o.e9 (linearRate o p t))
      let n := o.toUInt64 interval
      -- `n != 0 && math.MaxInt64/n < hits`: the division is evaluated only when n ≠ 0
      let guard : Option Bool :=
        if n ≠ 0 then (match udiv maxInt64 n with
                       | none => none
                       | some q => some (decide (q < (hits : Int))))
        else some false
      match guard with
      | none => .panic
      | some true => .stop
      | some false =>
        let delta := o.sub (o.ofUInt64 (wrapU64 ((hits : Int) + 1))) expected
        let wait := o.mul interval delta
        -- commit 4a0988c: `if hits == math.MaxUint64 || wait >= math.MaxInt64 { return 0, true }`
        -- (`math.MaxInt64` converted to float64, i.e. `float64(int64 max)`)
        if (hits : Int) = (two64 : Int) - 1 ∨ o.le (o.ofInt64 maxInt64) wait = true then .stop
        else .wait (o.toInt64 wait)

end generic

/-! ## The closed loop of the statement, in virtual time -/

/-- The attacker of the statement: at `(t, n)` ask the pacer, sleep `max wait 0`, suffer an
arbitrary extra delay `stall`, release one hit.  The trace lists the `(time, count)` pairs
right after each release.  The run ends when the stall list is exhausted, the pacer stops
or panics, or the virtual clock leaves the `int64` range of `time.Duration`. -/
def closedLoop (p : Int → Nat → PaceOut) : List Nat → Int → Nat → List (Int × Nat)
  | [], _, _ => []
  | s :: rest, t, n =>
    match p t n with
    | .wait d =>
      let t' := t + max d 0 + (s : Int)
      if t' ≤ maxInt64 then (t', n + 1) :: closedLoop p rest t' (n + 1) else []
    | .stop => []
    | .panic => []

/-- Why the closed loop ended: 0 stall list exhausted, 1 pacer said stop, 2 pacer panicked,
3 virtual clock beyond `MaxInt64`. -/
def closedLoopEnd (p : Int → Nat → PaceOut) : List Nat → Int → Nat → Nat
  | [], _, _ => 0
  | s :: rest, t, n =>
    match p t n with
    | .wait d =>
      let t' := t + max d 0 + (s : Int)
      if t' ≤ maxInt64 then closedLoopEnd p rest t' (n + 1) else 3
    | .stop => 1
    | .panic => 2

end Vegeta.Model.Pacer
