/-
Reference model of the JSON targeter's header merge (lib/targets.go, NewJSONTargeter):

    if tgt.Header == nil { tgt.Header = http.Header{} }
    for k, vs := range header   { tgt.Header[k] = append(tgt.Header[k], vs...) }
    for k, vs := range t.Header { tgt.Header[k] = append(tgt.Header[k], vs...) }

with header value slices as references `(array, len, cap)` over the explicit heap of
`HTTPTargets` — so that "the target shares a backing array with the defaults" is expressible.
`append(s, vs...)` returns `s` itself when there is nothing to add, writes in place when
`len + n ≤ cap`, and otherwise copies into a fresh array (capacity policy not observable).
The sources (`header`, `t.Header`) are only read.
-/
import Vegeta.Model.HTTPTargets
import Vegeta.Model.JSONTargets
namespace Vegeta.Model.JSONTargetsRef
open Vegeta.Go
open Vegeta.Model.HTTPTargets (Slice Heap HMap view hlookup hinsert nilSlice growCap)

/-- `cells[i:i+len(vs)] = vs` -/
def writeAt (i : Nat) (vs : List Bytes) (cells : List Bytes) : List Bytes :=
  cells.take i ++ vs ++ cells.drop (i + vs.length)

/-- `append(s, vs...)` -/
def appendMany (h : Heap) (s : Slice) (vs : List Bytes) : Heap × Slice :=
  if vs = [] then (h, s)
  else if s.len + vs.length ≤ s.cap then
    (h.modify s.arr (writeAt s.len vs), { s with len := s.len + vs.length })
  else
    let nc := max (growCap s.cap) (s.len + vs.length)
    (h ++ [view h s ++ vs ++ List.replicate (nc - (s.len + vs.length)) []],
     { arr := h.length, len := s.len + vs.length, cap := nc })

/-- `m[k] = append(m[k], vs...)` -/
def mergeKey (m : HMap) (h : Heap) (k : Bytes) (vs : List Bytes) : HMap × Heap :=
  let (h', s') := appendMany h ((hlookup m k).getD nilSlice) vs
  (hinsert m k s', h')

/-- `for k, vs := range src { m[k] = append(m[k], vs...) }`, the source given by its values -/
def mergeRef (m : HMap) (h : Heap) : List (Bytes × List Bytes) → HMap × Heap
  | [] => (m, h)
  | (k, vs) :: r => mergeRef (mergeKey m h k vs).1 (mergeKey m h k vs).2 r

/-- the header map of a decoded target: defaults (read through the heap) first, then the
decoded record's own values, into a fresh map -/
def finishHeader (h : Heap) (dflt : HMap) (own : JSONTargets.VMap) : HMap × Heap :=
  let d := dflt.map fun (k, s) => (k, view h s)
  let r1 := mergeRef [] h d
  mergeRef r1.1 r1.2 own

end Vegeta.Model.JSONTargetsRef
