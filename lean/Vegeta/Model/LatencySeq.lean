/-
Model of the vegeta-level glue around the estimator, over arbitrary SEQUENCES of calls:

* `Metrics.Add` (the part C11 observes: `Requests++`, `Latencies.Add`, `Earliest`/`Latest`),
  `LatencyMetrics.Add` (`first := estimator == nil; init; Total; Max; Min; estimator.Add(float64(latency))`),
* `LatencyMetrics.Quantile` (value receiver, `init` on the copy, `time.Duration(estimator.Get(nth))` —
  the estimator is a pointer, so the compaction `Quantile` performs on the live digest persists),
* `Metrics.Close` (`if Requests == 0 { return }`, the duration-dependent Rate/Throughput branch, then the
  four percentile assignments — unconditionally),
* `NewHDRHistogramPlotReporter(m).Report` (one `Quantile` call per ladder entry on the live Metrics; no
  state of its own),

and `run`, which executes a list of such operations and collects what each one reported.  The
estimator is Model/TDigestMerge.lean (limit function and sort as parameters). Core Lean only.
-/
import Vegeta.Model.TDigestMerge
namespace Vegeta.Model.LatencySeq
open Vegeta.Go Vegeta.Model.Quantile Vegeta.Model.TDigestMerge

/-- `newTdigestEstimator(100)`: `maxProcessed = int(2*ceil(c))`, `maxUnprocessed = int(8*ceil(c))`,
`Reset` sentinels `hi = math.MaxFloat64`, `lo = -math.MaxFloat64` -/
structure Cfg (F : Type) where
  maxP : Nat
  maxU : Nat
  hi : F
  lo : F

/-- the fields of `Metrics` / `LatencyMetrics` that the percentile path reads or writes -/
structure MS (F : Type) where
  requests : Nat
  total : Int
  min : Int
  max : Int
  p50 : Int
  p90 : Int
  p95 : Int
  p99 : Int
  est : Option (TD F)          -- `estimator`, nil until the first `Latencies.Add`
  earliest : Option Int        -- `none` = the zero `time.Time`
  latest : Option Int
  duration : Int
  rateNormalised : Bool        -- did `Close` take the `secs > 0` branch (Rate /= secs, …)?

def MS.init {F : Type} : MS F :=
  { requests := 0, total := 0, min := 0, max := 0, p50 := 0, p90 := 0, p95 := 0, p99 := 0, est := none,
    earliest := none, latest := none, duration := 0, rateNormalised := false }

/-- what an operation shows to its caller -/
inductive Obs (F : Type) where
  | none
  | value (d : Int)                               -- `Latencies.Quantile(q)`
  | closed (min p50 p90 p95 p99 max : Int)        -- the latency fields after `Close`
  | rows (rs : List (HdrRow F))                   -- the HDR report

inductive Op (F : Type) where
  | add (latency ts : Int)     -- `Metrics.Add(&Result{Latency, Timestamp})`
  | close                      -- `Metrics.Close()`
  | quantile (q : F)           -- `Metrics.Latencies.Quantile(q)`
  | hdr                        -- `NewHDRHistogramPlotReporter(&m).Report(w)`

section generic
variable {F : Type} [QOps F]

/-- the parameters every operation is run under -/
structure Env (F : Type) where
  cfg : Cfg F
  lim : Lim F
  sortBy : List (Centroid F) → List (Centroid F)
  trunc : F → Int                -- `time.Duration(float64)`
  ladder : List (Nat × Nat)      -- the `logarithmic` table, as literals

/-- `l.init()`: the estimator, created on first use -/
def estOrNew (e : Env F) : Option (TD F) → TD F
  | some t => t
  | none => TD.init e.cfg.maxP e.cfg.maxU e.cfg.hi e.cfg.lo

/-- `LatencyMetrics.Add(latency)` -/
def latAdd (e : Env F) (m : MS F) (latency : Int) : Outcome (MS F) :=
  let first := m.est.isNone
  let est0 := estOrNew e m.est
  let total := wrapS64 (m.total + latency)
  let mx := if latency > m.max then latency else m.max
  let mn := if first || decide (latency < m.min) then latency else m.min
  match TDigestMerge.add e.lim e.sortBy est0 (QOps.ofInt latency) (QOps.ofNat 1) with   -- estimator.Add(float64(latency))
  | .ok t => .ok { m with total := total, max := mx, min := mn, est := some t }
  | .error c => .error c
  | .panic => .panic

/-- `Metrics.Add(r)`, restricted to the fields above -/
def msAdd (e : Env F) (m : MS F) (latency ts : Int) : Outcome (MS F) :=
  match latAdd e { m with requests := m.requests + 1 } latency with
  | .ok m1 =>
    let earliest := match m1.earliest with
      | none => some ts                                  -- m.Earliest.IsZero()
      | some t => if t > ts then some ts else some t     -- m.Earliest.After(r.Timestamp)
    let latest := match m1.latest with
      | none => some ts                                  -- r.Timestamp.After(zero time)
      | some t => if ts > t then some ts else some t
    .ok { m1 with earliest := earliest, latest := latest }
  | .error c => .error c
  | .panic => .panic

/-- `LatencyMetrics.Quantile(nth)`. With a nil estimator `init` runs on the receiver's COPY: a fresh,
empty digest answers NaN and is dropped; otherwise the live digest is queried (and compacted). -/
def lmQuantile (e : Env F) (m : MS F) (q : F) : Outcome (MS F × Int) :=
  match m.est with
  | none => .ok (m, e.trunc QOps.nan)
  | some t => match quantileTD e.lim e.sortBy t q with
    | .ok (t', r) => .ok ({ m with est := some t' }, e.trunc r)
    | .error c => .error c
    | .panic => .panic

/-- the four assignments at the end of `Close`: `P50 = Quantile(0.50)` … `P99 = Quantile(0.99)` -/
def closeFour (e : Env F) (m0 : MS F) : Outcome (MS F) :=
  match lmQuantile e m0 (lit 50 100) with
  | .ok (m1, a) => match lmQuantile e m1 (lit 90 100) with
    | .ok (m2, b) => match lmQuantile e m2 (lit 95 100) with
      | .ok (m3, c) => match lmQuantile e m3 (lit 99 100) with
        | .ok (m4, d) => .ok { m4 with p50 := a, p90 := b, p95 := c, p99 := d }
        | _ => .panic
      | _ => .panic
    | _ => .panic
  | _ => .panic

/-- `Metrics.Close()` -/
def msClose (e : Env F) (m : MS F) : Outcome (MS F) :=
  if m.requests = 0 then .ok m else
  let duration := (m.latest.getD 0) - (m.earliest.getD 0)          -- m.Latest.Sub(m.Earliest)
  -- if secs := m.Duration.Seconds(); secs > 0 { Rate /= secs; Throughput /= … }, then — unconditionally —
  closeFour e { m with duration := duration, rateNormalised := decide (duration > 0) }

/-- the rows of one HDR report: a `Quantile` call on the live Metrics per ladder entry, in order -/
def hdrRowsSeq (e : Env F) : MS F → List F → Outcome (MS F × List (HdrRow F))
  | m, [] => .ok (m, [])
  | m, q :: qs => match lmQuantile e m q with
    | .ok (m1, dur) => match hdrRowsSeq e m1 qs with
      | .ok (m2, rs) =>
        let total : F := QOps.ofNat m.requests
        .ok (m2, { value := milliseconds dur, q := q, count := e.trunc (QOps.add (QOps.mul q total) (lit 5 10)),
                   oneBy := oneByQuantile q, dur := dur } :: rs)
      | .error c => .error c
      | .panic => .panic
    | .error c => .error c
    | .panic => .panic

def hdrReport (e : Env F) (m : MS F) : Outcome (MS F × List (HdrRow F)) :=
  hdrRowsSeq e m (e.ladder.map fun (n, dn) => lit n dn)

def step (e : Env F) (m : MS F) : Op F → Outcome (MS F × Obs F)
  | .add l ts => match msAdd e m l ts with
    | .ok m' => .ok (m', .none)
    | .error c => .error c
    | .panic => .panic
  | .close => match msClose e m with
    | .ok m' => .ok (m', .closed m'.min m'.p50 m'.p90 m'.p95 m'.p99 m'.max)
    | .error c => .error c
    | .panic => .panic
  | .quantile q => match lmQuantile e m q with
    | .ok (m', d) => .ok (m', .value d)
    | .error c => .error c
    | .panic => .panic
  | .hdr => match hdrReport e m with
    | .ok (m', rs) => .ok (m', .rows rs)
    | .error c => .error c
    | .panic => .panic

/-- run a call sequence from a given state, collecting what each call reported -/
def runFrom (e : Env F) : MS F → List (Op F) → Outcome (MS F × List (Obs F))
  | m, [] => .ok (m, [])
  | m, op :: ops => match step e m op with
    | .ok (m1, o) => match runFrom e m1 ops with
      | .ok (m2, os) => .ok (m2, o :: os)
      | .error c => .error c
      | .panic => .panic
    | .error c => .error c
    | .panic => .panic

def run (e : Env F) (ops : List (Op F)) : Outcome (MS F × List (Obs F)) := runFrom e MS.init ops

/-- the latencies a call sequence adds, in order -/
def added : List (Op F) → List Int
  | [] => []
  | .add l _ :: ops => l :: added ops
  | _ :: ops => added ops

/-- the sequence with every query (Close, Quantile, HDR report) deleted -/
def addsOnly : List (Op F) → List (Op F)
  | [] => []
  | .add l ts :: ops => .add l ts :: addsOnly ops
  | _ :: ops => addsOnly ops

/-- a concrete sort usable in examples: stable insertion sort by mean with the model's `le` -/
def insertByMean (c : Centroid F) : List (Centroid F) → List (Centroid F)
  | [] => [c]
  | d :: ds => if QOps.lt c.mean d.mean then c :: d :: ds else d :: insertByMean c ds

def sortByMean : List (Centroid F) → List (Centroid F)
  | [] => []
  | c :: cs => insertByMean c (sortByMean cs)

end generic
end Vegeta.Model.LatencySeq
