/-
Model of encoding/gob's message framing (encoder.go `writeMessage`, decoder.go `recvMessage`,
decode.go `decodeUintReader`): every message is an unsigned byte count followed by that many
payload bytes.  An unsigned integer below 128 is one byte; otherwise a byte holding the negated
number of bytes followed by the minimal big-endian bytes.  Payloads are opaque here (the value
codec of gob is not modelled).  Also the models of "one whole record per Encode call" for the
CSV (bufio Write + Flush) and JSON (buffer + DumpTo) encoders.
-/
import Vegeta.Model.CodecResult
namespace Vegeta.Model.GobFrame
open Vegeta.Go

/-- `tooBig = (1 << 30) << (^uint(0) >> 62)` on a 64-bit platform -/
def tooBig : Nat := 8589934592

/-- minimal big-endian bytes of `n > 0` (`fuel` ≥ number of bytes) -/
def beBytesF : Nat → Nat → Bytes
  | 0, _ => []
  | f+1, n => if n = 0 then [] else beBytesF f (n / 256) ++ [n % 256]

def beBytes (n : Nat) : Bytes := beBytesF (n + 1) n

def beValue (bs : Bytes) : Nat := bs.foldl (fun a b => a * 256 + b) 0

/-- gob's unsigned integer encoding -/
def encodeUint (n : Nat) : Bytes :=
  if n < 128 then [n] else (256 - (beBytes n).length) :: beBytes n

/-- one message on the wire -/
def encodeFrame (payload : Bytes) : Bytes := encodeUint payload.length ++ payload

def encodeFrames (fs : List Bytes) : Bytes := fs.flatMap encodeFrame

inductive FrameRes where
  | eof                                   -- no byte left: clean end of stream (io.EOF)
  | incomplete                            -- input ends inside the count or the payload (io.ErrUnexpectedEOF)
  | bad                                   -- errBadUint / errBadCount
  | frame (payload : Bytes) (rest : Bytes)
  deriving Repr, DecidableEq

def takePayload (len : Nat) (r : Bytes) : FrameRes :=
  if r.length < len then .incomplete else .frame (r.take len) (r.drop len)

/-- `recvMessage`: read a count, then exactly that many bytes -/
def parseFrame : Bytes → FrameRes
  | [] => .eof
  | b :: r =>
    if b ≤ 127 then takePayload b r
    else
      let n := 256 - b
      if n > 8 then .bad
      else if r.length < n then .incomplete
      else
        let len := beValue (r.take n)
        if len ≥ tooBig then .bad else takePayload len (r.drop n)

/-- all complete messages of a stream and how it ends -/
def parseFramesF : Nat → Bytes → List Bytes × FrameRes
  | 0, _ => ([], .bad)
  | fuel+1, s =>
    match parseFrame s with
    | .frame p rest => let q := parseFramesF fuel rest; (p :: q.1, q.2)
    | t => ([], t)

def parseFrames (s : Bytes) : List Bytes × FrameRes := parseFramesF (s.length + 1) s

/-! ### One whole record per `Encode` call -/

/-- an encoder writing through a buffer to the underlying `io.Writer`:
`out` = bytes handed to the writer so far, `buf` = bytes still held back -/
structure EncSt where
  out : Bytes := []
  buf : Bytes := []
  deriving Repr, DecidableEq

/-- `bufio.Writer.Write`-like buffering with capacity `cap`: whole chunks spill to the writer -/
def bufWrite (cap : Nat) (st : EncSt) (p : Bytes) : EncSt :=
  let all := st.buf ++ p
  if all.length ≤ cap then { st with buf := all }
  else { out := st.out ++ all.take (all.length - all.length % (cap + 1)), buf := all.drop (all.length - all.length % (cap + 1)) }

/-- `Flush` / `DumpTo`: everything held back goes to the writer -/
def bufFlush (st : EncSt) : EncSt := { out := st.out ++ st.buf, buf := [] }

/-- CSV `Encode`: `enc.Write(record)` then `enc.Flush()` (bufio buffer of 4096 bytes) -/
def csvEncodeCall (st : EncSt) (r : Codec.Result) : EncSt :=
  bufFlush (bufWrite 4096 st (Codec.encodeCSV r))

/-- JSON `Encode`: marshal into the writer's buffer, append '\n', `DumpTo(w)`;
a failing `MarshalJSON` writes nothing (the error is returned) -/
def jsonEncodeCall (offMin : Int) (st : EncSt) (r : Codec.Result) : EncSt :=
  match Codec.encodeJSON offMin r with
  | some b => bufFlush { st with buf := st.buf ++ b }
  | none => st

end Vegeta.Model.GobFrame
