/-
Model of lib/prom/prom.go: `Metrics.Observe` as a fold into four label-keyed association
lists (the children of the three `CounterVec`s and of the `HistogramVec`), and what a
scrape (`Registry.Gather`) shows for them.

The Prometheus client library is a parameter of the property; the model fixes the part of
its behaviour the property speaks about:
* `vec.WithLabelValues(vs…)` returns the child of that label-value tuple, creating it with
  value 0 / an empty histogram when it does not exist yet (association list, first-seen
  order; a scrape sorts the children, so does the driver).
* `Counter.Add(float64(n))` for an integer `n < 2^53` adds `n` exactly (the library keeps
  integral additions in a `uint64`); the scrape shows the total.
* `Histogram.Observe(v)`: `count++`, `sum += v` (binary64 addition, in observation order),
  and the first bucket whose upper bound is `≥ v` is incremented
  (`sort.SearchFloat64s(upperBounds, v)`: binary search, equal to the linear scan for the
  sorted `DefBuckets`); the scrape shows cumulative bucket counts.
* label values are valid UTF-8 (otherwise `WithLabelValues` panics; outside the property).

`Observe` itself is modelled as written (after the fix "failure counter is incremented":
before it the failure counter's child was only looked up with `WithLabelValues` and never
incremented — DESIGN §8 #14; Props/C20 keeps that behaviour as `observeFailOld`).
-/
import Vegeta.Go.Proto
import Vegeta.Go.SoftF64
import Vegeta.Model.Metrics
namespace Vegeta.Model.Prom
open Vegeta.Go

structure Result where
  method   : Bytes
  url      : Bytes
  code     : Nat      -- uint16
  bytesIn  : Nat      -- uint64
  bytesOut : Nat      -- uint64
  latency  : Int      -- time.Duration
  error    : Bytes
  deriving Repr, DecidableEq

/-- values of the base labels `method`, `url`, `status` -/
structure Labels where
  method : Bytes
  url    : Bytes
  code   : Nat
  deriving Repr, DecidableEq

/-- `strconv.FormatUint(uint64(res.Code), 10)` is injective, so the code itself is the label. -/
def labelsOf (r : Result) : Labels := { method := r.method, url := r.url, code := r.code }

/-- `prometheus.DefBuckets = {.005, .01, .025, .05, .1, .25, .5, 1, 2.5, 5, 10}` -/
def defBuckets : List F64 :=
  [F64.ofDecimal 5 (-3), F64.ofDecimal 1 (-2), F64.ofDecimal 25 (-3), F64.ofDecimal 5 (-2), F64.ofDecimal 1 (-1),
   F64.ofDecimal 25 (-2), F64.ofDecimal 5 (-1), F64.ofNat 1, F64.ofDecimal 25 (-1), F64.ofNat 5, F64.ofNat 10]

/-- One histogram child: sample count, sum, and one (non-cumulative) counter per finite bucket. -/
structure HistChild where
  count   : Nat
  sum     : F64
  buckets : List Nat
  deriving Repr, DecidableEq

def HistChild.empty : HistChild := { count := 0, sum := F64.posZero, buckets := List.replicate defBuckets.length 0 }

/-- `findBucket`: index of the first upper bound `≥ v` (the number of bounds if there is none). -/
def findBucket : List F64 → F64 → Nat
  | [], _ => 0
  | b :: bs, v => if F64.le v b then 0 else 1 + findBucket bs v

/-- `buckets[i]++` when `i` is a finite bucket -/
def bumpAt : List Nat → Nat → List Nat
  | [], _ => []
  | x :: xs, 0 => (x + 1) :: xs
  | x :: xs, i+1 => x :: bumpAt xs i

/-- `Histogram.Observe(v)` -/
def observeChild (v : F64) (c : HistChild) : HistChild :=
  { count := c.count + 1, sum := F64.add c.sum v, buckets := bumpAt c.buckets (findBucket defBuckets v) }

/-- `vec.WithLabelValues(k)` followed by an update `f` of the child (created as `dflt`). -/
def upsert {κ ν : Type} [DecidableEq κ] (k : κ) (f : ν → ν) (dflt : ν) : List (κ × ν) → List (κ × ν)
  | [] => [(k, f dflt)]
  | (k', v) :: t => if k' = k then (k', f v) :: t else (k', v) :: upsert k f dflt t

structure State where
  bytesIn  : List (Labels × Nat)
  bytesOut : List (Labels × Nat)
  hist     : List (Labels × HistChild)
  fail     : List ((Labels × Bytes) × Nat)
  deriving Repr, DecidableEq

/-- `NewMetrics()` -/
def State.init : State := { bytesIn := [], bytesOut := [], hist := [], fail := [] }

/-- `Metrics.Observe` -/
def observe (s : State) (r : Result) : State :=
  let k := labelsOf r
  { bytesIn  := upsert k (· + r.bytesIn) 0 s.bytesIn
    bytesOut := upsert k (· + r.bytesOut) 0 s.bytesOut
    hist     := upsert k (observeChild (Metrics.seconds r.latency)) HistChild.empty s.hist
    -- `if res.Error != "" { pm.requestFailCounter.WithLabelValues(…, res.Error).Inc() }`
    fail     := if r.error ≠ [] then upsert (k, r.error) (· + 1) 0 s.fail else s.fail }

def observeAll (s : State) (rs : List Result) : State := rs.foldl observe s

/-- cumulative counts as a scrape shows them: bucket `j` = sum of the counters `0..j` -/
def cumulative : Nat → List Nat → List Nat
  | _, [] => []
  | acc, x :: xs => (acc + x) :: cumulative (acc + x) xs

def lookup {κ ν : Type} [DecidableEq κ] (k : κ) : List (κ × ν) → Option ν
  | [] => none
  | (k', v) :: t => if k' = k then some v else lookup k t

end Vegeta.Model.Prom

/-! ### the attack command's glue (attack.go `processAttack`) and `NewMetrics` -/
namespace Vegeta.Model.Prom
open Vegeta.Go

/-- One iteration of the `select` in `processAttack`: a signal arrives, a result arrives (with the
outcome of `enc.Encode` for it), or the results channel is found closed. -/
inductive PEv where
  | signal : PEv
  | result : Result → Bool → PEv      -- the result and whether `enc.Encode(r)` succeeds
  | closed : PEv
  deriving Repr, DecidableEq

/-- how `processAttack` returned -/
inductive PRet where
  | running | retNil | retErr
  deriving Repr, DecidableEq

structure Pump where
  pm      : Option State     -- `pm *prom.Metrics` (nil without -prometheus-addr)
  encoded : List Result      -- what the encoder has written, in order
  stopped : Bool             -- `atk.Stop()` was called (first signal)
  ret     : PRet
  deriving Repr, DecidableEq

def Pump.start (pm : Option State) : Pump := { pm := pm, encoded := [], stopped := false, ret := .running }

/-- ```
case <-sig:  if stopSent := atk.Stop(); !stopSent { return nil }      // second signal: exit immediately
case r, ok := <-res:
    if !ok { return nil }
    if pm != nil { pm.Observe(r) }
    if err := enc.Encode(r); err != nil { return err }
``` -/
def pumpStep (s : Pump) (e : PEv) : Pump :=
  if s.ret ≠ .running then s else
  match e with
  | .signal => if s.stopped then { s with ret := .retNil } else { s with stopped := true }
  | .closed => { s with ret := .retNil }
  | .result r encOk =>
    let pm' := s.pm.map (fun st => observe st r)
    if encOk then { s with pm := pm', encoded := s.encoded ++ [r] }
    else { s with pm := pm', ret := .retErr }

def pumpRun (pm : Option State) (evs : List PEv) : Pump := evs.foldl pumpStep (Pump.start pm)

/-- Several `Metrics` values in one process: `NewMetrics()` appends a fresh instance, `Observe` on
instance `i` updates that instance only (each instance owns its four vectors). -/
inductive WOp where
  | new : WOp
  | observe : Nat → Result → WOp
  deriving Repr, DecidableEq

def modifyAt {α : Type} (f : α → α) : List α → Nat → List α
  | [], _ => []
  | x :: xs, 0 => f x :: xs
  | x :: xs, i+1 => x :: modifyAt f xs i

def worldStep (w : List State) : WOp → List State
  | .new => w ++ [State.init]
  | .observe i r => modifyAt (fun st => observe st r) w i

def worldRun (ops : List WOp) : List State := ops.foldl worldStep []

end Vegeta.Model.Prom

/-! ### `Metrics.Register` and a registry -/
namespace Vegeta.Model.Prom

/-- What a `prometheus.Registry` holds of our collectors: pairs (instance, collector kind), the kinds being
0 `request_seconds`, 1 `request_bytes_in`, 2 `request_bytes_out`, 3 `request_fail_count`. The collectors of
different instances of one kind are identically described, so the registry accepts a kind only once. -/
abbrev Registry := List (Nat × Nat)

/-- the loop of `Metrics.Register`: `for _, c := range collectors { if err := r.Register(c); err != nil { return err } }`
— on the first rejected collector it returns the error; what was accepted before stays registered. -/
def registerFrom (i : Nat) : List Nat → Registry → Registry × Bool
  | [], reg => (reg, true)
  | c :: cs, reg => if reg.any (fun e => e.2 == c) then (reg, false) else registerFrom i cs (reg ++ [(i, c)])

/-- `pm.Register(r)` for instance `i`: the new registry contents and whether `nil` was returned -/
def register (i : Nat) (reg : Registry) : Registry × Bool := registerFrom i [0, 1, 2, 3] reg

/-- every kind of collector is present as soon as one is (the state `Register` leaves on a fresh registry) -/
def Whole (reg : Registry) : Prop := reg = [] ∨ ∀ c, c < 4 → ∃ j, (j, c) ∈ reg

end Vegeta.Model.Prom
