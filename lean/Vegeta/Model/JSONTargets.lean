/-
Model of `NewJSONTargeter` (lib/targets.go:132-193), `NewJSONTargetEncoder` (204-215) and the
generated codec of `jsonTarget` (lib/targets_easyjson.go).

Decoding choice: the targeter model takes the decoder as a **parameter**
`dec : Bytes → Option JRec` (trimmed line ↦ decoded `jsonTarget`, `none` = lexer error), because
easyjson's lexer is third-party code with many lenient corners.  Independently the encoder is
modelled byte for byte (`encodeTarget`: field order, `jwriter.String` escaping incl. the HTML
table, the escape u+fffd for broken UTF-8, escapes for u+2028/u+2029, std base64) together with a decoder for the
encoder's image (`decodeImage`, `none` = outside the modelled subset); the round-trip theorem
is about these two, and both are tied to the real code by correspondence.
-/
import Vegeta.Model.Histogram
namespace Vegeta.Model.JSONTargets
open Vegeta.Go
open Vegeta.Model.Histogram (trimSpace)

/-! ### header maps by value -/

abbrev VMap := List (Bytes × List Bytes)

def vlookup (m : VMap) (k : Bytes) : Option (List Bytes) :=
  match m with
  | [] => none
  | (k', v) :: r => if k' = k then some v else vlookup r k

/-- `m[k] = vs` -/
def vset (m : VMap) (k : Bytes) (vs : List Bytes) : VMap :=
  match m with
  | [] => [(k, vs)]
  | (k', v) :: r => if k' = k then (k, vs) :: r else (k', v) :: vset r k vs

/-- `m[k] = append(m[k], vs...)` -/
def vappend (m : VMap) (k : Bytes) (vs : List Bytes) : VMap :=
  vset m k ((vlookup m k).getD [] ++ vs)

/-- `for k, vs := range src { m[k] = append(m[k], vs...) }` (keys of `src` distinct) -/
def vmerge (m : VMap) (src : VMap) : VMap := src.foldl (fun acc kv => vappend acc kv.1 kv.2) m

/-! ### the targeter -/

/-- a decoded `jsonTarget` -/
structure JRec where
  method : Bytes
  url    : Bytes
  body   : Bytes
  header : VMap
  deriving Repr, DecidableEq

structure Cfg where
  dec  : Bytes → Option JRec     -- `t.decode(&jl); jl.Error()` on a trimmed non-empty line
  body : Bytes
  hdr  : VMap

def eNoTargets : Nat := 1
def eJSON      : Nat := 7
def eNoMethod  : Nat := 8
def eNoURL     : Nat := 9

/-- `rd.ReadBytes('\n')`: the bytes through the first newline and the rest; `none` = `io.EOF`
(whatever was read is returned with the error and thereby dropped by the caller). -/
def readLine : Bytes → Option (Bytes × Bytes)
  | [] => none
  | c :: r =>
    if c = 10 then some ([10], r)
    else match readLine r with
      | none => none
      | some (l, rest) => some (c :: l, rest)

/-- The locked region: `for len(jl.Data) == 0 { ReadBytes; TrimSpace }`.
Returns the trimmed line (`none` = EOF) and the reader's remaining input. -/
def popLine : Nat → Bytes → Option Bytes × Bytes
  | 0, src => (none, src)
  | fuel + 1, src =>
    match readLine src with
    | none => (none, [])
    | some (l, rest) =>
      let d := trimSpace l
      if d = [] then popLine fuel rest else (some d, rest)

/-- The unlocked rest of the closure: decode, required fields, merge (fresh `Target`). -/
def finish (cfg : Cfg) (line : Bytes) : Outcome JRec :=
  match cfg.dec line with
  | none => .error eJSON
  | some t =>
    if t.method = [] then .error eNoMethod
    else if t.url = [] then .error eNoURL
    else
      .ok { method := t.method, url := t.url,
            body := if t.body.length > 0 then t.body else cfg.body,
            header := vmerge (vmerge [] cfg.hdr) t.header }

/-- One call with a fresh `Target`; the state is the reader's remaining input. -/
def call (cfg : Cfg) (src : Bytes) : Outcome JRec × Bytes :=
  match popLine (src.length + 1) src with
  | (none, rest) => (.error eNoTargets, rest)
  | (some line, rest) => (finish cfg line, rest)

def calls (cfg : Cfg) : Nat → Bytes → List (Outcome JRec) × Bytes
  | 0, s => ([], s)
  | n + 1, s =>
    let (r, s1) := call cfg s
    let (rs, s2) := calls cfg n s1
    (r :: rs, s2)

/-! ### base64 (std alphabet, padding) -/

def b64Char (i : Nat) : Nat :=
  if i < 26 then 65 + i else if i < 52 then 97 + (i - 26) else if i < 62 then 48 + (i - 52)
  else if i = 62 then 43 else 47

def b64Val (c : Nat) : Option Nat :=
  if 65 ≤ c ∧ c ≤ 90 then some (c - 65)
  else if 97 ≤ c ∧ c ≤ 122 then some (c - 97 + 26)
  else if 48 ≤ c ∧ c ≤ 57 then some (c - 48 + 52)
  else if c = 43 then some 62
  else if c = 47 then some 63
  else none

def b64Encode : Bytes → Bytes
  | [] => []
  | [a] => [b64Char (a / 4), b64Char ((a % 4) * 16), 61, 61]
  | [a, b] => [b64Char (a / 4), b64Char ((a % 4) * 16 + b / 16), b64Char ((b % 16) * 4), 61]
  | a :: b :: c :: rest =>
    b64Char (a / 4) :: b64Char ((a % 4) * 16 + b / 16) :: b64Char ((b % 16) * 4 + c / 64) ::
      b64Char (c % 64) :: b64Encode rest

/-- canonical padded input only; `none` = not modelled (Go may still accept or reject) -/
def b64Decode : Bytes → Option Bytes
  | [] => some []
  | [c0, c1, 61, 61] =>
    match b64Val c0, b64Val c1 with
    | some s0, some s1 => some [s0 * 4 + s1 / 16]
    | _, _ => none
  | [c0, c1, c2, 61] =>
    match b64Val c0, b64Val c1, b64Val c2 with
    | some s0, some s1, some s2 => some [s0 * 4 + s1 / 16, (s1 % 16) * 16 + s2 / 4]
    | _, _, _ => none
  | c0 :: c1 :: c2 :: c3 :: rest =>
    match b64Val c0, b64Val c1, b64Val c2, b64Val c3, b64Decode rest with
    | some s0, some s1, some s2, some s3, some r =>
      some ((s0 * 4 + s1 / 16) :: ((s1 % 16) * 16 + s2 / 4) :: ((s2 % 4) * 64 + s3) :: r)
    | _, _, _, _, _ => none
  | _ => none

/-! ### jwriter.String -/

def isCont (b : Nat) : Bool := 0x80 ≤ b && b ≤ 0xBF

/-- width of the rune `utf8.DecodeRuneInString` finds at the head (first byte ≥ 0x80);
0 = `(RuneError, 1)`. -/
def runeWidth : Bytes → Nat
  | [] => 0
  | b0 :: rest =>
    if 0xC2 ≤ b0 ∧ b0 ≤ 0xDF then
      match rest with
      | b1 :: _ => if isCont b1 then 2 else 0
      | _ => 0
    else if 0xE0 ≤ b0 ∧ b0 ≤ 0xEF then
      match rest with
      | b1 :: b2 :: _ =>
        let lo := if b0 = 0xE0 then 0xA0 else 0x80
        let hi := if b0 = 0xED then 0x9F else 0xBF
        if lo ≤ b1 ∧ b1 ≤ hi ∧ isCont b2 then 3 else 0
      | _ => 0
    else if 0xF0 ≤ b0 ∧ b0 ≤ 0xF4 then
      match rest with
      | b1 :: b2 :: b3 :: _ =>
        let lo := if b0 = 0xF0 then 0x90 else 0x80
        let hi := if b0 = 0xF4 then 0x8F else 0xBF
        if lo ≤ b1 ∧ b1 ≤ hi ∧ isCont b2 ∧ isCont b3 then 4 else 0
      | _ => 0
    else 0

def hexLower (n : Nat) : Nat := if n < 10 then 48 + n else 87 + n

/-- escape of one byte below 0x80 (`htmlEscapeTable`) -/
def escapeAscii (c : Nat) : Bytes :=
  if c = 9 then [92, 116] else if c = 13 then [92, 114] else if c = 10 then [92, 110]
  else if c = 92 then [92, 92] else if c = 34 then [92, 34]
  else if c < 32 ∨ c = 38 ∨ c = 60 ∨ c = 62 then [92, 117, 48, 48, hexLower (c / 16), hexLower (c % 16)]
  else [c]

/-- body of `jwriter.String` between the quotes. `skip` bytes of an already classified rune
are copied (`emit`) or dropped (they were replaced by an escape). -/
def escapeGo : Nat → Bool → Bytes → Bytes
  | _, _, [] => []
  | skip + 1, emit, b :: rest => if emit then b :: escapeGo skip emit rest else escapeGo skip emit rest
  | 0, _, b :: rest =>
    if b < 128 then escapeAscii b ++ escapeGo 0 true rest
    else
      let w := runeWidth (b :: rest)
      if w = 0 then [92, 117, 102, 102, 102, 100] ++ escapeGo 0 true rest
      else if b = 0xE2 ∧ rest.take 2 = [0x80, 0xA8] then [92, 117, 50, 48, 50, 56] ++ escapeGo 2 false rest
      else if b = 0xE2 ∧ rest.take 2 = [0x80, 0xA9] then [92, 117, 50, 48, 50, 57] ++ escapeGo 2 false rest
      else b :: escapeGo (w - 1) true rest

def jString (s : Bytes) : Bytes := [34] ++ escapeGo 0 true s ++ [34]

/-! ### the encoder -/

/-- a `Target` by value as the encoder sees it; a header value may be a nil slice -/
structure ETarget where
  method : Bytes
  url    : Bytes
  body   : Bytes
  header : List (Bytes × Option (List Bytes))     -- in the iteration order of the Go map
  deriving Repr, DecidableEq

def commaSep : List Bytes → Bytes
  | [] => []
  | [x] => x
  | x :: xs => x ++ [44] ++ commaSep xs

def encodeValues : Option (List Bytes) → Bytes
  | none => [110, 117, 108, 108]                                   -- null
  | some vs => [91] ++ commaSep (vs.map jString) ++ [93]

def encodeHeader (h : List (Bytes × Option (List Bytes))) : Bytes :=
  [123] ++ commaSep (h.map fun (k, vs) => jString k ++ [58] ++ encodeValues vs) ++ [125]

def kwMethod : Bytes := [34, 109, 101, 116, 104, 111, 100, 34, 58]          -- "method":
def kwURL    : Bytes := [44, 34, 117, 114, 108, 34, 58]                      -- ,"url":
def kwBody   : Bytes := [44, 34, 98, 111, 100, 121, 34, 58]                  -- ,"body":
def kwHeader : Bytes := [44, 34, 104, 101, 97, 100, 101, 114, 34, 58]        -- ,"header":

/-- `jsonTarget.encode` followed by the newline `NewJSONTargetEncoder` adds. -/
def encodeTarget (t : ETarget) : Bytes :=
  [123] ++ kwMethod ++ jString t.method ++ kwURL ++ jString t.url ++
  (if t.body.length ≠ 0 then kwBody ++ [34] ++ b64Encode t.body ++ [34] else []) ++
  (if t.header.length ≠ 0 then kwHeader ++ encodeHeader t.header else []) ++
  [125, 10]

/-! ### decoder for the encoder's image -/

def hexVal (c : Nat) : Option Nat :=
  if 48 ≤ c ∧ c ≤ 57 then some (c - 48)
  else if 97 ≤ c ∧ c ≤ 102 then some (c - 87)
  else if 65 ≤ c ∧ c ≤ 70 then some (c - 55)
  else none

/-- `utf8.EncodeRune` for runes below 0x10000 that are not surrogates -/
def encodeRune (r : Nat) : Bytes :=
  if r < 0x80 then [r]
  else if r < 0x800 then [0xC0 + r / 64, 0x80 + r % 64]
  else [0xE0 + r / 4096, 0x80 + (r / 64) % 64, 0x80 + r % 64]

/-- string literal after its opening quote: unescaped value and the input after the closing
quote. `none`: unterminated, or an escape outside the modelled subset (surrogates, unknown). -/
def unquote : Bytes → Option (Bytes × Bytes)
  | [] => none
  | 34 :: rest => some ([], rest)
  | 92 :: 117 :: a :: b :: c :: d :: rest =>
    match hexVal a, hexVal b, hexVal c, hexVal d, unquote rest with
    | some x, some y, some z, some w, some (s, r) =>
      let rune := ((x * 16 + y) * 16 + z) * 16 + w
      if 0xD800 ≤ rune ∧ rune ≤ 0xDFFF then none else some (encodeRune rune ++ s, r)
    | _, _, _, _, _ => none
  | 92 :: e :: rest =>
    let ch : Option Nat :=
      if e = 34 ∨ e = 92 ∨ e = 47 then some e
      else if e = 98 then some 8 else if e = 102 then some 12 else if e = 110 then some 10
      else if e = 114 then some 13 else if e = 116 then some 9 else none
    match ch, unquote rest with
    | some c, some (s, r) => some (c :: s, r)
    | _, _ => none
  | [92] => none
  | c :: rest =>
    match unquote rest with
    | some (s, r) => some (c :: s, r)
    | none => none

/-- expects an opening quote -/
def parseString : Bytes → Option (Bytes × Bytes)
  | 34 :: rest => unquote rest
  | _ => none

def dropPrefix (p s : Bytes) : Option Bytes :=
  if p.isPrefixOf s then some (s.drop p.length) else none

/-- `"s1","s2",…]` after the opening bracket (at least one element) -/
def parseStrings : Nat → Bytes → Option (List Bytes × Bytes)
  | 0, _ => none
  | fuel + 1, s =>
    match parseString s with
    | none => none
    | some (v, r) =>
      match r with
      | 93 :: r' => some ([v], r')
      | 44 :: r' =>
        match parseStrings fuel r' with
        | some (vs, r'') => some (v :: vs, r'')
        | none => none
      | _ => none

/-- a header value: `null`, `[]` or `["…",…]` -/
def parseValues (fuel : Nat) : Bytes → Option (List Bytes × Bytes)
  | 110 :: 117 :: 108 :: 108 :: r => some ([], r)
  | 91 :: 93 :: r => some ([], r)
  | 91 :: r => parseStrings fuel r
  | _ => none

/-- `"k":v,…}` after the opening brace (at least one member); a repeated key overwrites -/
def parseMembers : Nat → Bytes → VMap → Option (VMap × Bytes)
  | 0, _, _ => none
  | fuel + 1, s, acc =>
    match parseString s with
    | none => none
    | some (k, r) =>
      match r with
      | 58 :: r1 =>
        match parseValues fuel r1 with
        | none => none
        | some (vs, r2) =>
          let acc' := vset acc k vs
          match r2 with
          | 125 :: r3 => some (acc', r3)
          | 44 :: r3 => parseMembers fuel r3 acc'
          | _ => none
      | _ => none

/-- optional `,"body":"<base64>"` -/
def bodyPart (r3 : Bytes) : Option (Bytes × Bytes) :=
  match dropPrefix kwBody r3 with
  | none => some ([], r3)
  | some r4 =>
    match parseString r4 with
    | none => none
    | some (b64, r5) =>
      match b64Decode b64 with
      | none => none
      | some b => some (b, r5)

/-- optional `,"header":{…}` -/
def hdrPart (fuel : Nat) (r6 : Bytes) : Option (VMap × Bytes) :=
  match dropPrefix kwHeader r6 with
  | none => some ([], r6)
  | some r7 =>
    match r7 with
    | 123 :: 125 :: r8 => some ([], r8)
    | 123 :: r8 => parseMembers fuel r8 []
    | _ => none

/-- Decoder for lines of the shape the encoder writes (fixed member order, no white space,
the final newline already trimmed). `none` = not of that shape (nothing is claimed). -/
def decodeImage (line : Bytes) : Option JRec :=
  (dropPrefix ([123] ++ kwMethod) line).bind fun r0 =>
  (parseString r0).bind fun mr =>
  (dropPrefix kwURL mr.2).bind fun r2 =>
  (parseString r2).bind fun ur =>
  (bodyPart ur.2).bind fun br =>
  (hdrPart (line.length + 1) br.2).bind fun hr =>
  if hr.2 = [125] then some { method := mr.1, url := ur.1, body := br.1, header := hr.1 } else none

end Vegeta.Model.JSONTargets
