/-
Model of lib/results.go and lib/results_easyjson.go: the `Result` record, `Result.Equal`,
the CSV encoder/decoder (`NewCSVEncoder`, `NewCSVDecoder`) and the JSON encoder/decoder
(`NewJSONEncoder`, `NewJSONDecoder` with the generated marshal/unmarshal code).
The gob value codec is not modelled (see Model/GobFrame.lean for its framing).
-/
import Vegeta.Model.CodecJSON
namespace Vegeta.Model.Codec
open Vegeta.Go

/-- `vegeta.Result`. `timestamp` is the instant in Unix nanoseconds (the zone a `time.Time`
carries is a parameter of the JSON encoder); `body = none` is a nil slice, `headers = none` a nil
map; the order of the `headers` list stands for the map's iteration order. A nil value slice
and an empty one are both `[]`. -/
structure Result where
  attack : Bytes := []
  seq : Nat := 0
  code : Nat := 0
  timestamp : Int := -62135596800000000000     -- the zero time.Time (0001-01-01T00:00:00Z)
  latency : Int := 0
  bytesOut : Nat := 0
  bytesIn : Nat := 0
  error : Bytes := []
  body : Option Bytes := none
  method : Bytes := []
  url : Bytes := []
  headers : Option Header := none
  deriving Repr, DecidableEq

/-- `h[key]` (a missing key reads as the nil slice) -/
def headerGet (h : Header) (k : Bytes) : List Bytes :=
  match h.find? (fun kv => kv.1 == k) with
  | some kv => kv.2
  | none => []

/-- `headerEqual`: same number of keys, nil only equal to nil, and for every key of `h1` the
values in `h2` are the same list -/
def headerEqual : Option Header → Option Header → Bool
  | none, none => true
  | none, some _ => false      -- len differs, or exactly one of them is nil
  | some _, none => false
  | some h1, some h2 => h1.length == h2.length && h1.all (fun kv => headerGet h2 kv.1 == kv.2)

/-- `Result.Equal` (`bytes.Equal` treats nil and empty alike; timestamps compare as instants) -/
def Result.equal (a b : Result) : Bool :=
  a.attack == b.attack && a.seq == b.seq && a.code == b.code && a.timestamp == b.timestamp &&
  a.latency == b.latency && a.bytesIn == b.bytesIn && a.bytesOut == b.bytesOut &&
  a.error == b.error && a.body.getD [] == b.body.getD [] && a.method == b.method &&
  a.url == b.url && headerEqual a.headers b.headers

inductive Term where
  | eof
  | err
  deriving Repr, DecidableEq

/-! ### CSV -/

/-- the twelve columns written by `NewCSVEncoder`, in order -/
def csvFields (r : Result) : List Bytes :=
  [ fmtInt (wrapS64 r.timestamp),           -- Timestamp.UnixNano()
    fmtNat r.code,
    fmtInt r.latency,
    fmtNat r.bytesOut,
    fmtNat r.bytesIn,
    r.error,
    b64Encode (r.body.getD []),
    r.attack,
    fmtNat r.seq,
    r.method,
    r.url,
    b64Encode ((headerBytes r.headers).getD []) ]

/-- one `Encode` call of the CSV encoder (Write + Flush) -/
def encodeCSV (r : Result) : Bytes := writeRecord (csvFields r)

def encodeCSVAll (rs : List Result) : Bytes := rs.flatMap encodeCSV

def getField (fs : List Bytes) (i : Nat) : Bytes := fs.getD i []

/-- the body of the CSV decoder closure after `dec.Read()` returned the record `rec` -/
def resultOfRecord (rec : List Bytes) : Outcome Result := do
  let ts ← parseInt 64 (getField rec 0)
  let code ← parseUint 16 (getField rec 1)
  let lat ← parseInt 64 (getField rec 2)
  let bout ← parseUint 64 (getField rec 3)
  let bin ← parseUint 64 (getField rec 4)
  let body ← b64Decode (getField rec 6)
  let seq ← parseUint 64 (getField rec 8)
  let hdr ← (if (getField rec 11).isEmpty then pure none
             else do
               let raw ← b64Decode (getField rec 11)
               let h ← readMIMEHeader raw
               pure (some h) : Outcome (Option Header))
  pure { attack := getField rec 7, seq := seq, code := code, timestamp := ts, latency := lat,
         bytesOut := bout, bytesIn := bin, error := getField rec 5, body := some body,
         method := getField rec 9, url := getField rec 10, headers := hdr }

/-- repeated `Decode` on normalised input until the first error or end of stream -/
def decodeCSVF : Nat → Bytes → List Result × Term
  | 0, _ => ([], .err)
  | fuel+1, s =>
    match readRecord s with
    | .eof => ([], .eof)
    | .err => ([], .err)
    | .record fs rest =>
      if fs.length ≠ 12 then ([], .err)                 -- FieldsPerRecord = 12
      else match resultOfRecord fs with
        | .ok r => let p := decodeCSVF fuel rest; (r :: p.1, p.2)
        | .error e => ([], if e = eEOF then .eof else .err)   -- a header block cut before its blank line: io.EOF
        | .panic => ([], .err)

/-- all results a CSV decoder returns from the stream `s`, and how the stream ended -/
def decodeCSV (s : Bytes) : List Result × Term :=
  let t := normCRLF s
  decodeCSVF (t.length + 1) t

/-! ### JSON encoder -/

def strBytes (s : String) : Bytes := s.toUTF8.toList.map (·.toNat)

def commaJoin : List Bytes → Bytes
  | [] => []
  | [x] => x
  | x :: y :: r => x ++ 44 :: commaJoin (y :: r)

def jsonHeaderEntry (kv : Bytes × List Bytes) : Bytes :=
  jsonString kv.1 ++ 58 ::
    (if kv.2.isEmpty then [110, 117, 108, 108] else 91 :: (commaJoin (kv.2.map jsonString) ++ [93]))

def jsonHeaders : Option Header → Bytes
  | none => [110, 117, 108, 108]
  | some h => 123 :: (commaJoin (h.map jsonHeaderEntry) ++ [125])

def jsonBody : Option Bytes → Bytes
  | none => [110, 117, 108, 108]
  | some b => 34 :: (b64Encode b ++ [34])

-- the member names (json struct tags) and the literal key prefixes of the generated encoder
def nAttack : Bytes := [97, 116, 116, 97, 99, 107]                              -- attack
def nSeq : Bytes := [115, 101, 113]                                             -- seq
def nCode : Bytes := [99, 111, 100, 101]                                        -- code
def nTimestamp : Bytes := [116, 105, 109, 101, 115, 116, 97, 109, 112]               -- timestamp
def nLatency : Bytes := [108, 97, 116, 101, 110, 99, 121]                         -- latency
def nBytesOut : Bytes := [98, 121, 116, 101, 115, 95, 111, 117, 116]               -- bytes_out
def nBytesIn : Bytes := [98, 121, 116, 101, 115, 95, 105, 110]                    -- bytes_in
def nError : Bytes := [101, 114, 114, 111, 114]                                   -- error
def nBody : Bytes := [98, 111, 100, 121]                                        -- body
def nMethod : Bytes := [109, 101, 116, 104, 111, 100]                              -- method
def nURL : Bytes := [117, 114, 108]                                             -- url
def nHeaders : Bytes := [104, 101, 97, 100, 101, 114, 115]                         -- headers

def kAttack : Bytes := 34 :: (nAttack ++ [34, 58])                 -- "attack":
def kSeq : Bytes := 44 :: 34 :: (nSeq ++ [34, 58])     -- ,"seq":
def kCode : Bytes := 44 :: 34 :: (nCode ++ [34, 58])     -- ,"code":
def kTimestamp : Bytes := 44 :: 34 :: (nTimestamp ++ [34, 58])     -- ,"timestamp":
def kLatency : Bytes := 44 :: 34 :: (nLatency ++ [34, 58])     -- ,"latency":
def kBytesOut : Bytes := 44 :: 34 :: (nBytesOut ++ [34, 58])     -- ,"bytes_out":
def kBytesIn : Bytes := 44 :: 34 :: (nBytesIn ++ [34, 58])     -- ,"bytes_in":
def kError : Bytes := 44 :: 34 :: (nError ++ [34, 58])     -- ,"error":
def kBody : Bytes := 44 :: 34 :: (nBody ++ [34, 58])     -- ,"body":
def kMethod : Bytes := 44 :: 34 :: (nMethod ++ [34, 58])     -- ,"method":
def kURL : Bytes := 44 :: 34 :: (nURL ++ [34, 58])     -- ,"url":
def kHeaders : Bytes := 44 :: 34 :: (nHeaders ++ [34, 58])     -- ,"headers":

/-- one `Encode` call of the JSON encoder: the object and a newline. `offMin` is the zone offset
(minutes east of UTC) of the `time.Time`; `none` = `MarshalJSON` failed (year outside 0..9999). -/
def encodeJSON (offMin : Int) (r : Result) : Option Bytes :=
  match timeMarshalJSON r.timestamp offMin with
  | none => none
  | some ts => some (123 :: (kAttack ++ jsonString r.attack ++ kSeq ++ fmtNat r.seq ++ kCode ++ fmtNat r.code ++
      kTimestamp ++ ts ++ kLatency ++ fmtInt r.latency ++ kBytesOut ++ fmtNat r.bytesOut ++
      kBytesIn ++ fmtNat r.bytesIn ++ kError ++ jsonString r.error ++ kBody ++ jsonBody r.body ++
      kMethod ++ jsonString r.method ++ kURL ++ jsonString r.url ++ kHeaders ++ jsonHeaders r.headers ++
      [125, 10]))

/-! ### JSON decoder -/

/-- `in.String()` -/
def lexString (l : Lex) : Outcome (Bytes × Lex) :=
  match l.next with
  | .ok (.str raw, l') =>
    match unescape raw with
    | some s => .ok (s, l')
    | none => .error eJSON
  | .ok _ => .error eJSON
  | .error e => .error e
  | .panic => .panic

/-- `in.number()` -/
def lexNumber (l : Lex) : Outcome (Bytes × Lex) :=
  match l.next with
  | .ok (.num raw, l') => .ok (raw, l')
  | .ok _ => .error eJSON
  | .error e => .error e
  | .panic => .panic

def lexUint (bits : Nat) (l : Lex) : Outcome (Nat × Lex) := do
  let (raw, l') ← lexNumber l
  let n ← parseUint bits raw
  pure (n, l')

def lexInt (bits : Nat) (l : Lex) : Outcome (Int × Lex) := do
  let (raw, l') ← lexNumber l
  let n ← parseInt bits raw
  pure (n, l')

/-- `in.Delim(c)` -/
def lexDelim (c : Nat) (l : Lex) : Outcome Lex :=
  match l.next with
  | .ok (.delim d, l') => if d = c then .ok l' else .error eJSON
  | .ok _ => .error eJSON
  | .error e => .error e
  | .panic => .panic

/-- `in.Bytes()` -/
def lexBytes (l : Lex) : Outcome (Bytes × Lex) := do
  let (s, l') ← lexString l
  let b ← b64Decode s
  pure (b, l')

/-- `in.Raw()` restricted to what `Time.UnmarshalJSON` can accept: the raw text of a string token
including its quotes. Any other value (number, keyword, array, object) makes `UnmarshalJSON` fail. -/
def lexRawString (l : Lex) : Outcome (Bytes × Lex) :=
  match l.next with
  | .ok (.str raw, l') => .ok (34 :: (raw ++ [34]), l')
  | .ok _ => .error eTime
  | .error e => .error e
  | .panic => .panic

/-- `in.SkipRecursive()` -/
def lexSkip (l : Lex) : Outcome Lex :=
  match l.next with
  | .ok (.delim 123, l') =>
    match skipNested 123 125 1 false false l'.rest with
    | some r => .ok { l' with rest := r }
    | none => .error eJSON
  | .ok (.delim 91, l') =>
    match skipNested 91 93 1 false false l'.rest with
    | some r => .ok { l' with rest := r }
    | none => .error eJSON
  | .ok (_, l') => .ok l'
  | .error e => .error e
  | .panic => .panic

/-- `for !in.IsDelim(']') { v = append(v, in.String()); in.WantComma() }; in.Delim(']')` -/
def parseStrArray : Nat → Lex → List Bytes → Outcome (List Bytes × Lex)
  | 0, _, _ => .error eJSON
  | fuel+1, l, acc => do
    let (t, l') ← l.next
    if t = .delim 93 then pure (acc.reverse, l')
    else
      let (s, l2) ← lexString l
      parseStrArray fuel l2.wantComma (s :: acc)

/-- `m[key] = v` -/
def headerSet (k : Bytes) (v : List Bytes) : Header → Header
  | [] => [(k, v)]
  | x :: xs => if x.1 = k then (k, v) :: xs else x :: headerSet k v xs

/-- the loop over the members of the `headers` object, after its `{` -/
def parseHeaderObj : Nat → Lex → Header → Outcome (Header × Lex)
  | 0, _, _ => .error eJSON
  | fuel+1, l, m => do
    let (t, l') ← l.next
    if t = .delim 125 then pure (m, l')
    else
      let (key, l1) ← lexString l
      let l2 := l1.wantColon
      let (t2, l3) ← l2.next
      if t2 = .null then parseHeaderObj fuel l3.wantComma (headerSet key [] m)
      else
        let l4 ← lexDelim 91 l2
        let (vs, l5) ← parseStrArray (l4.rest.length + 1) l4 []
        parseHeaderObj fuel l5.wantComma (headerSet key vs m)

/-- one member value of the top-level object, dispatched on the key -/
def parseMember (key : Bytes) (l : Lex) (r : Result) : Outcome (Result × Lex) :=
  if key = nAttack then do let (s, l') ← lexString l; pure ({ r with attack := s }, l')
  else if key = nSeq then do let (n, l') ← lexUint 64 l; pure ({ r with seq := n }, l')
  else if key = nCode then do let (n, l') ← lexUint 16 l; pure ({ r with code := n }, l')
  else if key = nTimestamp then do
    let (raw, l') ← lexRawString l
    let t ← timeUnmarshalJSON raw
    pure ({ r with timestamp := t }, l')
  else if key = nLatency then do let (n, l') ← lexInt 64 l; pure ({ r with latency := n }, l')
  else if key = nBytesOut then do let (n, l') ← lexUint 64 l; pure ({ r with bytesOut := n }, l')
  else if key = nBytesIn then do let (n, l') ← lexUint 64 l; pure ({ r with bytesIn := n }, l')
  else if key = nError then do let (s, l') ← lexString l; pure ({ r with error := s }, l')
  else if key = nBody then do let (b, l') ← lexBytes l; pure ({ r with body := some b }, l')
  else if key = nMethod then do let (s, l') ← lexString l; pure ({ r with method := s }, l')
  else if key = nURL then do let (s, l') ← lexString l; pure ({ r with url := s }, l')
  else if key = nHeaders then do
    let l1 ← lexDelim 123 l
    let (h, l') ← parseHeaderObj (l1.rest.length + 1) l1 []
    pure ({ r with headers := some h }, l')
  else do let l' ← lexSkip l; pure (r, l')

/-- the member loop of the generated decoder, after the top-level `{` -/
def parseMembers : Nat → Lex → Result → Outcome (Result × Lex)
  | 0, _, _ => .error eJSON
  | fuel+1, l, r => do
    let (t, l') ← l.next
    if t = .delim 125 then pure (r, l')
    else
      let (key, l1) ← lexString l
      let l2 := l1.wantColon
      let (t2, l3) ← l2.next
      if t2 = .null then parseMembers fuel l3.wantComma r
      else
        let (r', l4) ← parseMember key l2 r
        parseMembers fuel l4.wantComma r'

def isJSONSpace (c : Nat) : Bool := c == 32 || c == 9 || c == 13 || c == 10

/-- `UnmarshalEasyJSON` of one line into a zero `Result`, then `jl.Error()` -/
def decodeJSONLine (line : Bytes) : Outcome Result := do
  let l0 : Lex := { rest := line }
  let (t, l') ← l0.next
  if t = .null then
    (if l'.rest.all isJSONSpace then pure {} else .error eJSON)
  else
    let l1 ← lexDelim 123 l0
    let (r, l2) ← parseMembers (line.length + 1) l1 {}
    if l2.rest.all isJSONSpace then pure r else .error eJSON

/-- `rd.ReadBytes('\n')`: the next line including its newline, and the rest; `none` when no
newline is left (the decoder then returns the read error without decoding anything) -/
def splitLine : Bytes → Option (Bytes × Bytes)
  | [] => none
  | c :: r => if c = 10 then some ([10], r) else (splitLine r).map (fun p => (c :: p.1, p.2))

/-- repeated `Decode` of the JSON decoder until the first error or end of stream -/
def decodeJSONF : Nat → Bytes → List Result × Term
  | 0, _ => ([], .err)
  | fuel+1, s =>
    if s.isEmpty then ([], .eof) else
    match splitLine s with
    | none => ([], .eof)                        -- partial last line: ReadBytes' io.EOF is returned, nothing decoded
    | some (line, rest) =>
      match decodeJSONLine line with
      | .ok r => let p := decodeJSONF fuel rest; (r :: p.1, p.2)
      | .error e => ([], if e = eEOF then .eof else .err)
      | .panic => ([], .err)

def decodeJSON (s : Bytes) : List Result × Term := decodeJSONF (s.length + 1) s

end Vegeta.Model.Codec
