/-
Model of lib/lttb/lttb.go: `Downsample` over an iterator and `sample`
(Largest-Triangle-Three-Buckets), with the bucket arithmetic and the triangle areas in
the bit-exact soft float `Vegeta.Go.F64`.

The iterator is a list of remaining points: a fetch of `n` points returns
`min(n, remaining)` points.  A negative `n` panics, as `make([]Point, 0, n)` does in
`timeSeries.iter` (lib/plot/timeseries.go) and in the harness's iterator.

Integers are unbounded here (`int` arithmetic is not wrapped): the model is only meant for
`|count|, |threshold| < 2^62`, far beyond what fits in memory.
-/
import Vegeta.Go.SoftF64
namespace Vegeta.Model.LTTB
open Vegeta.Go

structure Point where
  x : F64
  y : F64
  deriving DecidableEq, Repr, Inhabited

/-- One call `it(n)`: the points returned and the iterator's remaining points. -/
def fetch (n : Int) (rem : List Point) : Outcome (List Point × List Point) :=
  if n < 0 then .panic else .ok (rem.take n.toNat, rem.drop n.toNat)

/-! ### sample -/

/-- `c`: the average point of the next bucket (`0/0 = NaN` when it is empty). -/
def avg (next : List Point) : Point :=
  let s := next.foldl (fun (c : Point) p => ⟨F64.add c.x p.x, F64.add c.y p.y⟩) ⟨F64.posZero, F64.posZero⟩
  let len := F64.ofNat next.length
  ⟨F64.div s.x len, F64.div s.y len⟩

/-- `area := (a.X-c.X)*(p.Y-a.Y) - (a.X-p.X)*(c.Y-a.Y); area *= area` -/
def area2 (a c p : Point) : F64 :=
  let ar := F64.sub (F64.mul (F64.sub a.x c.x) (F64.sub p.y a.y)) (F64.mul (F64.sub a.x p.x) (F64.sub c.y a.y))
  F64.mul ar ar

/-- The scan `for i, p := range current { … if area > largest { largest, index = area, i } }`;
arguments: rest of `current`, `i`, `largest`, `index`; returns the final `index`. -/
def argmax (a c : Point) : List Point → Nat → F64 → Nat → Nat
  | [], _, _, index => index
  | p :: ps, i, largest, index =>
    let ar := area2 a c p
    if F64.lt largest ar then argmax a c ps (i+1) ar i else argmax a c ps (i+1) largest index

/-- `sample(a, current, next)`; `current[index]` panics when `current` is empty. -/
def sample (a : Point) (current next : List Point) : Outcome Point :=
  match current[argmax a (avg next) current 0 F64.posZero 0]? with
  | some p => .ok p
  | none => .panic

/-! ### Downsample -/

def eThreshold : Nat := 1     -- "lttb: min threshold is 3"

/-- `size := float64(count-2) / float64(threshold-2)` -/
def bucketSize (count threshold : Int) : F64 := F64.div (F64.ofInt (count - 2)) (F64.ofInt (threshold - 2))

/-- `int(1 + size)`: the size of the first fetch. -/
def firstFetch (size : F64) : Int := F64.toInt64 (F64.add (F64.ofNat 1) size)

/-- `lo := int(float64(i+1)*size) + 1` -/
def bucketLo (size : F64) (i : Int) : Int := F64.toInt64 (F64.mul (F64.ofInt (i+1)) size) + 1
/-- `hi := int(float64(i+2)*size) + 1` -/
def bucketHi (size : F64) (i : Int) : Int := F64.toInt64 (F64.mul (F64.ofInt (i+2)) size) + 1
/-- `hi - lo`: the size of the fetch of iteration `i`. -/
def bucketWidth (size : F64) (i : Int) : Int := bucketHi size i - bucketLo size i

/-- The loop `for i := 0; i < threshold-2; i++`.  Arguments: remaining iterations, `i`,
`samples[len(samples)-1]`, `current`, the iterator.  Returns the samples appended by the
loop (in order), the final `current` and the iterator. -/
def loop (size : F64) : Nat → Int → Point → List Point → List Point →
    Outcome (List Point × List Point × List Point)
  | 0, _, _, current, rem => .ok ([], current, rem)
  | k+1, i, last, current, rem =>
    match fetch (bucketWidth size i) rem with
    | .ok (next, rem') =>
      match sample last current next with
      | .ok s =>
        match loop size k (i+1) s next rem' with
        | .ok (ss, c, r) => .ok (s :: ss, c, r)
        | .error e => .error e
        | .panic => .panic
      | .error e => .error e
      | .panic => .panic
    | .error e => .error e
    | .panic => .panic

/-- `lttb.Downsample(count, threshold, it)` where `it` iterates over `pts`. -/
def downsample (count threshold : Int) (pts : List Point) : Outcome (List Point) :=
  if threshold ≥ count ∨ threshold = 0 then
    match fetch count pts with
    | .ok (ps, _) => .ok ps
    | .error e => .error e
    | .panic => .panic
  else if threshold < 3 then .error eThreshold
  else
    let size := bucketSize count threshold
    match fetch (firstFetch size) pts with
    | .ok (points, rem) =>
      match points with
      | [] => .panic                                   -- points[0]
      | p0 :: current =>
        match loop size (threshold - 2).toNat 0 p0 current rem with
        | .ok (ss, current', rem') =>
          let samples := p0 :: ss
          match fetch (count - (samples.length : Int)) rem' with
          | .ok (tail, _) =>
            let points := if tail.isEmpty then current' else tail
            match points.getLast? with
            | some l => .ok (samples ++ [l])
            | none => .ok samples
          | .error e => .error e
          | .panic => .panic
        | .error e => .error e
        | .panic => .panic
    | .error e => .error e
    | .panic => .panic

/-! ### the bucket-arithmetic condition (decidable, on `count` and `threshold` only) -/

/-- Every fetch of the loop asks for ≥ 1 point while ≥ 1 point remains.
Arguments: remaining iterations, `i`, number of points left in the iterator. -/
def bucketsLoopOK (size : F64) : Nat → Int → Int → Bool
  | 0, _, _ => true
  | k+1, i, rem =>
    decide (1 ≤ bucketWidth size i) && decide (1 ≤ rem) &&
      bucketsLoopOK size k (i+1) (rem - min (bucketWidth size i) rem)

/-- `BucketsOK count threshold`: with the float arithmetic of the code, the first fetch asks
for at least two points (the first point and a non-empty first bucket) and every later
bucket fetch returns at least one point. -/
def bucketsOK (count threshold : Int) : Bool :=
  let size := bucketSize count threshold
  decide (2 ≤ firstFetch size) &&
    bucketsLoopOK size (threshold - 2).toNat 0 (count - min (firstFetch size) count)

end Vegeta.Model.LTTB
