/-
Model of `Attacker.Attack`, `Attacker.attack` (worker), the head of `Attacker.hit` and
`Attacker.Stop` (lib/attack.go) as a labelled transition system: one step per Go
synchronisation action.  Workers are anonymous (counter abstraction); every hit that got
a sequence number has a record.  A global clock (`now`, advanced by the environment at any
moment) stands for the monotonic clock; `began = 0`.

  main goroutine           pc: pace → sleep → trySend/blockSend → pace … → closeTicks → waitWG
                               → closeResults → finalStop → done      (the deferred calls)
  worker                   starting → idle ⇄ (got → inCS → hit phases → sending) → exited
  consumer                 label `deliver s` (rendezvous on the unbuffered results channel)
  Stop callers             label `stop` (one atomic step: sync.Once serialises callers)
-/
import Vegeta.Go.Basic
namespace Vegeta.Model.Attack

inductive PC where
  | pace | sleep | trySend | blockSend | closeTicks | waitWG | closeResults | finalStop | done
  deriving DecidableEq, Repr, Inhabited

inductive Phase where
  | hitting    -- between the critical section and the deferred latency measurement
  | stopping   -- targeter failed: inside a.Stop()
  | sending    -- result built, blocked on `results <- res`
  | delivered  -- taken by the consumer
  deriving DecidableEq, Repr, Inhabited

structure Hit where
  seq     : Nat
  ts      : Nat              -- Result.Timestamp − began
  phase   : Phase
  entered : Option Nat       -- transport entry instant
  left    : Option Nat       -- transport exit instant
  fin     : Option Nat       -- instant of the deferred latency measurement: Latency = fin − ts
  tgtErr  : Bool
  deriving DecidableEq, Repr, Inhabited

structure St where
  -- configuration
  maxW      : Nat
  du        : Nat            -- duration, 0 = none
  -- main goroutine
  pc        : PC
  count     : Nat
  nworkers  : Nat            -- `workers` variable = number of goroutines ever added to the WaitGroup
  wakeAt    : Nat
  -- worker populations
  starting  : Nat
  idle      : Nat            -- parked on `range ticks`
  got       : Nat            -- took a tick, waiting for seqmu
  cs        : Option Nat     -- the worker inside the critical section and the timestamp it read
  exited    : Nat
  seq       : Nat            -- atk.seq
  hits      : List Hit       -- index = sequence number
  -- channels
  stopClosed    : Bool
  ticksClosed   : Bool
  resultsClosed : Bool
  panicked      : Bool       -- send on closed channel / close of closed channel
  -- observation logs
  now         : Nat
  paceLog     : List (Nat × Nat × Option Int)   -- (elapsed, hits argument, wait returned | none for stop) newest first
  releases    : List Nat                  -- instant of each tick, newest first
  delivered   : List Nat                  -- sequence numbers in delivery order, newest first
  stopReturns : List Bool                 -- return values of all Stop calls, newest first
  deriving Repr, Inhabited, DecidableEq

inductive Lbl where
  -- environment
  | advance (d : Nat)
  -- main goroutine
  | deadline | paceStop | paceWait (w : Int) | wake | tick | seeStop | spawn
  | closeTicks | wgDone | closeResults | finalStop
  -- workers
  | ready | exit | csEnter | csLeave
  | tgtErr (s : Nat) | stopRet (s : Nat) | enter (s : Nat) | leave (s : Nat) | finish (s : Nat)
  -- consumer
  | deliver (s : Nat)
  -- external Stop call
  | stop
  deriving DecidableEq, Repr, Inhabited

def init (workers maxW du : Nat) : St :=
  let w := if workers > maxW then maxW else workers
  { maxW := maxW, du := du, pc := .pace, count := 0, nworkers := w, wakeAt := 0,
    starting := w, idle := 0, got := 0, cs := none, exited := 0, seq := 0, hits := [],
    stopClosed := false, ticksClosed := false, resultsClosed := false, panicked := false,
    now := 0, paceLog := [], releases := [], delivered := [], stopReturns := [] }

/-- `a.Stop()` as one atomic step: returns whether this call closed the stop channel. -/
def doStop (s : St) : St :=
  if s.stopClosed then { s with stopReturns := false :: s.stopReturns }
  else { s with stopClosed := true, stopReturns := true :: s.stopReturns }

def setHit (hs : List Hit) (i : Nat) (f : Hit → Hit) : List Hit := hs.modify i f

def pastDeadline (s : St) : Bool := s.du > 0 && s.now > s.du

/-- One step; `none` when the label is not enabled. -/
def step (s : St) : Lbl → Option St
  | .advance d => some { s with now := s.now + d }
  | .deadline =>
    if s.pc = .pace ∧ pastDeadline s then some { s with pc := .closeTicks } else none
  | .paceStop =>
    if s.pc = .pace ∧ ¬ pastDeadline s then
      some { s with pc := .closeTicks, paceLog := (s.now, s.count, none) :: s.paceLog } else none
  | .paceWait w =>
    if s.pc = .pace ∧ ¬ pastDeadline s then
      some { s with pc := .sleep, wakeAt := s.now + w.toNat, paceLog := (s.now, s.count, some w) :: s.paceLog }
    else none
  | .wake =>
    if s.pc = .sleep ∧ s.wakeAt ≤ s.now then
      some { s with pc := if s.nworkers < s.maxW then .trySend else .blockSend } else none
  | .tick =>
    if (s.pc = .trySend ∨ s.pc = .blockSend) ∧ 0 < s.idle then
      some { s with pc := .pace, idle := s.idle - 1, got := s.got + 1, count := s.count + 1,
                    releases := s.now :: s.releases } else none
  | .seeStop =>
    if (s.pc = .trySend ∨ s.pc = .blockSend) ∧ s.stopClosed then some { s with pc := .closeTicks } else none
  | .spawn =>
    -- `default:` is taken only when no other case is ready
    if s.pc = .trySend ∧ s.idle = 0 ∧ ¬ s.stopClosed then
      some { s with pc := .blockSend, nworkers := s.nworkers + 1, starting := s.starting + 1 } else none
  | .closeTicks =>
    if s.pc = .closeTicks then
      some { s with pc := .waitWG, ticksClosed := true, panicked := s.panicked || s.ticksClosed } else none
  | .wgDone =>
    if s.pc = .waitWG ∧ s.exited = s.nworkers then some { s with pc := .closeResults } else none
  | .closeResults =>
    if s.pc = .closeResults then
      some { s with pc := .finalStop, resultsClosed := true, panicked := s.panicked || s.resultsClosed } else none
  | .finalStop =>
    if s.pc = .finalStop then some { doStop s with pc := .done } else none
  | .ready =>
    if 0 < s.starting then some { s with starting := s.starting - 1, idle := s.idle + 1 } else none
  | .exit =>
    if 0 < s.idle ∧ s.ticksClosed then some { s with idle := s.idle - 1, exited := s.exited + 1 } else none
  | .csEnter =>
    if 0 < s.got ∧ s.cs = none then some { s with got := s.got - 1, cs := some s.now } else none
  | .csLeave =>
    match s.cs with
    | some t =>
      let h : Hit := { seq := s.seq, ts := t, phase := .hitting, entered := none, left := none,
                       fin := none, tgtErr := false }
      some { s with cs := none, seq := s.seq + 1, hits := s.hits ++ [h] }
    | none => none
  | .tgtErr i =>
    match s.hits[i]? with
    | some h => if h.phase = .hitting ∧ h.entered = none then
        some { s with hits := setHit s.hits i fun h => { h with phase := .stopping, tgtErr := true } } else none
    | none => none
  | .stopRet i =>
    match s.hits[i]? with
    | some h => if h.phase = .stopping then
        let s' := doStop s
        some { s' with hits := setHit s'.hits i fun h => { h with phase := .sending, fin := some s.now } } else none
    | none => none
  | .enter i =>
    match s.hits[i]? with
    | some h => if h.phase = .hitting ∧ h.entered = none then
        some { s with hits := setHit s.hits i fun h => { h with entered := some s.now } } else none
    | none => none
  | .leave i =>
    match s.hits[i]? with
    | some h => if h.phase = .hitting ∧ h.entered ≠ none ∧ h.left = none then
        some { s with hits := setHit s.hits i fun h => { h with left := some s.now } } else none
    | none => none
  | .finish i =>
    -- return from hit (after the exchange, or early on a request-construction error)
    match s.hits[i]? with
    | some h => if h.phase = .hitting ∧ (h.entered = none ∨ h.left ≠ none) then
        some { s with hits := setHit s.hits i fun h => { h with phase := .sending, fin := some s.now } } else none
    | none => none
  | .deliver i =>
    match s.hits[i]? with
    | some h => if h.phase = .sending then
        if s.resultsClosed then some { s with panicked := true }
        else some { s with hits := setHit s.hits i fun h => { h with phase := .delivered },
                           idle := s.idle + 1, delivered := i :: s.delivered } else none
    | none => none
  | .stop => some (doStop s)

/-- Run a label sequence; `none` as soon as a label is not enabled. -/
def run (s : St) : List Lbl → Option St
  | [] => some s
  | l :: ls => match step s l with
    | some s' => run s' ls
    | none => none

/-- Reachability from an initial configuration. -/
inductive Reachable (workers maxW du : Nat) : St → Prop where
  | init : Reachable workers maxW du (init workers maxW du)
  | step {s s' : St} (l : Lbl) : Reachable workers maxW du s → step s l = some s' → Reachable workers maxW du s'

/-- hits that hold a worker (not yet taken by the consumer) -/
def busyHits (s : St) : Nat := s.hits.countP (fun h => h.phase ≠ .delivered)

def csN (s : St) : Nat := if s.cs.isSome then 1 else 0

/-- hits started whose result has not been taken by the consumer -/
def inFlight (s : St) : Nat := s.got + csN s + busyHits s

end Vegeta.Model.Attack
