/-
Model of Go's strconv integer text forms as used by the result codecs
(lib/results.go, easyjson jwriter/jlexer): `strconv.FormatInt/FormatUint(…, 10)`,
`strconv.ParseUint(s, 10, bits)` and `strconv.ParseInt(s, 10, bits)`.
-/
import Vegeta.Go.Proto
namespace Vegeta.Model.Codec
open Vegeta.Go

/-- error classes of the codec models -/
def eSyntax : Nat := 1
def eRange : Nat := 2
/-- stands for `io.EOF` returned as an error value (callers cannot tell it from a clean end of stream) -/
def eEOF : Nat := 7

/-- decimal digits, least significant first (`fuel` > number of digits suffices) -/
def digitsRev : Nat → Nat → List Nat
  | 0, _ => []
  | fuel+1, n => if n < 10 then [48 + n] else (48 + n % 10) :: digitsRev fuel (n / 10)

/-- `strconv.FormatUint(n, 10)` -/
def fmtNat (n : Nat) : Bytes := (digitsRev (n + 1) n).reverse

/-- `strconv.FormatInt(i, 10)` -/
def fmtInt (i : Int) : Bytes :=
  if i < 0 then 45 :: fmtNat i.natAbs else fmtNat i.natAbs

/-- `maxUint64/10 + 1`: the smallest `n` with `n*10 > maxUint64` -/
def cutoff10 : Nat := 1844674407370955162

/-- the digit loop of `strconv.ParseUint(s, 10, bits)`; `maxVal = 2^bits - 1`.
Letters, `_`, signs and every other non-digit are syntax errors (base 10, not base 0);
the first offending byte in scan order decides between syntax and range error. -/
def parseUintLoop (maxVal : Nat) : Bytes → Nat → Outcome Nat
  | [], n => .ok n
  | c :: r, n =>
    if 48 ≤ c ∧ c ≤ 57 then
      if n ≥ cutoff10 then .error eRange
      else
        let n1 := n * 10 + (c - 48)
        if n1 ≥ two64 ∨ n1 > maxVal then .error eRange
        else parseUintLoop maxVal r n1
    else .error eSyntax

/-- `strconv.ParseUint(s, 10, bits)` for `bits ∈ {16, 64}` -/
def parseUint (bits : Nat) (s : Bytes) : Outcome Nat :=
  if s.isEmpty then .error eSyntax else parseUintLoop (2 ^ bits - 1) s 0

/-- `strconv.ParseInt(s, 10, bits)` -/
def parseInt (bits : Nat) (s : Bytes) : Outcome Int :=
  match s with
  | [] => .error eSyntax
  | c :: r =>
    let neg := c == 45
    let body := if c == 43 || c == 45 then r else s
    match parseUint bits body with
    | .ok un =>
      let cut := 2 ^ (bits - 1)
      if !neg && un ≥ cut then .error eRange
      else if neg && un > cut then .error eRange
      else .ok (if neg then -(un : Int) else (un : Int))
    | .error e => .error e       -- a range error of ParseUint stays a range error here
    | .panic => .panic

end Vegeta.Model.Codec
