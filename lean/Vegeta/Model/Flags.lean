/-
Model of the command-line value parsers of package main (flags.go), the unlimited-rate guard
at the top of `attack` (attack.go) and `normalizeAddrs` (internal/resolver/resolver.go),
together with the library functions they rest on, modelled from the Go 1.23 sources:
`strconv.Atoi/ParseInt/ParseUint` (base 10), `net.SplitHostPort`, `net.ParseIP`
(netip.ParseAddr, validity only), `datasize.ByteSize.UnmarshalText/String`
(github.com/c2h5oh/datasize), `strings.SplitN/Split/ToLower/Join`.
`time.ParseDuration` / `Duration.String` come from `Vegeta.Go.Duration`,
`strings.TrimSpace` / `strings.Split` from `Vegeta.Model.Histogram`.

A `flag.Value.Set` mutates its receiver and returns an error: `Res σ` carries the state
after the call (Go assigns `f.Freq`, `f.Per` also when the call fails) and the outcome.
-/
import Vegeta.Go.Duration
import Vegeta.Model.Histogram
namespace Vegeta.Model.Flags
open Vegeta.Go
open Vegeta.Model.Histogram (trimSpace splitOn)

/-- state after the call + `nil` / `error` / panic -/
structure Res (σ : Type) where
  st  : σ
  out : Outcome Unit
  deriving Repr, DecidableEq

def eSyntax : Nat := 20
def eRange : Nat := 21
def eFormat : Nat := 22
def eBits : Nat := 23
def eAddr : Nat := 24
def eNotIP : Nat := 25

def isDigit (c : Nat) : Bool := Duration.isDigit c

/-! ### strings -/

/-- `strings.Cut(s, sep)` for a one-byte separator: `SplitN(s, sep, 2)` has two parts
`(a, b)` exactly when this is `some (a, b)`, and the single part `s` otherwise. -/
def cut (sep : Nat) : Bytes → Option (Bytes × Bytes)
  | [] => none
  | c :: rest =>
    if c == sep then some ([], rest) else
    match cut sep rest with
    | some (a, b) => some (c :: a, b)
    | none => none

/-- `strings.Join(xs, sep)` -/
def join (sep : Bytes) : List Bytes → Bytes
  | [] => []
  | [x] => x
  | x :: y :: r => x ++ sep ++ join sep (y :: r)

/-- byte-wise lexicographic `a ≤ b` (Go's string comparison) -/
def bytesLe : Bytes → Bytes → Bool
  | [], _ => true
  | _ :: _, [] => false
  | a :: as, b :: bs => if a < b then true else if b < a then false else bytesLe as bs

def insertSorted (x : Bytes) : List Bytes → List Bytes
  | [] => [x]
  | y :: ys => if bytesLe x y then x :: y :: ys else y :: insertSorted x ys

/-- `sort.Strings` (as a function of the multiset: insertion sort) -/
def sortStrings (xs : List Bytes) : List Bytes := xs.foldr insertSorted []

/-! ### strconv (base 10) -/

/-- digit loop of `strconv.ParseUint(s, 10, bits)` with `maxVal = 2^bits - 1`:
value and error; a range error is reported at the first digit that overflows (before any
later syntax error is seen) and yields `maxVal`, a syntax error yields 0. -/
def parseUintLoop (maxVal : Nat) : Bytes → Nat → Nat × Option Nat
  | [], n => (n, none)
  | c :: rest, n =>
    if !isDigit c then (0, some eSyntax)
    else if n * 10 + (c - 48) > maxVal then (maxVal, some eRange)
    else parseUintLoop maxVal rest (n * 10 + (c - 48))

/-- `strconv.ParseUint(s, 10, bits)`, `maxVal = 2^bits - 1` -/
def parseUint (maxVal : Nat) (s : Bytes) : Nat × Option Nat :=
  if s = [] then (0, some eSyntax) else parseUintLoop maxVal s 0

def maxU64 : Nat := 18446744073709551615
def maxU16 : Nat := 65535

/-- `strconv.ParseInt(s, 10, 64)` after the sign has been cut off: `ParseUint`, then the
range checks against `cutoff = 1 << 63` (a range error of `ParseUint` arrives here with
`un = maxUint64` and is caught by them). -/
def parseIntCore (neg : Bool) (s1 : Bytes) : Int × Option Nat :=
  match parseUint maxU64 s1 with
  | (un, e) =>
    if e == some eSyntax then (0, some eSyntax) else
    if !neg && un ≥ two63 then ((two63 : Int) - 1, some eRange)
    else if neg && un > two63 then (-(two63 : Int), some eRange)
    else (if neg then -(un : Int) else (un : Int), none)

/-- `strconv.ParseInt(s, 10, 64)` -/
def parseInt64 (s : Bytes) : Int × Option Nat :=
  if s = [] then (0, some eSyntax) else
  match s with
  | 43 :: t => parseIntCore false t
  | 45 :: t => parseIntCore true t
  | _ => parseIntCore false s

/-- `strconv.Atoi` on a 64-bit platform (the fast path for short inputs computes the same
function as `ParseInt(s, 10, 0)`). -/
def atoi (s : Bytes) : Int × Option Nat := parseInt64 s

/-- `%d` -/
def fmtInt (i : Int) : Bytes :=
  if i < 0 then 45 :: Duration.fmtNat i.natAbs else Duration.fmtNat i.natAbs

/-! ### rateFlag -/

structure Rate where
  freq : Int
  per  : Int
  deriving Repr, DecidableEq

/-- the literal in `attackCmd`: `vegeta.Rate{Freq: 50, Per: time.Second}` -/
def defaultRate : Rate := ⟨50, 1000000000⟩

/-- "infinity" -/
def infinityWord : Bytes := [105, 110, 102, 105, 110, 105, 116, 121]

/-- `case "ns", "us", "µs", "ms", "s", "m", "h"` (µ = U+00B5) -/
def bareUnits : List Bytes := [[110, 115], [117, 115], [194, 181, 115], [109, 115], [115], [109], [104]]

/-- `ps := strings.SplitN(v, "/", 2)`; `case 1: ps = append(ps, "1s")` -/
def rateParts (v : Bytes) : Bytes × Bytes :=
  match cut 47 v with
  | some (a, b) => (a, b)
  | none => (v, [49, 115])

/-- `switch ps[1] { case "ns", "us", "µs", "ms", "s", "m", "h": ps[1] = "1" + ps[1] }` -/
def unitFix (db : Bytes) : Bytes := if bareUnits.contains db then 49 :: db else db

/-- `rateFlag.Set`, exactly as coded:
`"infinity"` sets `Freq = 0` and returns nil (`Per` untouched);
`SplitN(v, "/", 2)`, a missing second part becomes `"1s"`;
`f.Freq, err = Atoi(ps[0])` (assigned also on error);
`Freq == 0` returns nil leaving `Per` untouched;
a bare unit gets a `"1"` prefix; `f.Per, err = ParseDuration(ps[1])`. -/
def rateSet (r : Rate) (v : Bytes) : Res Rate :=
  if v = infinityWord then ⟨{ r with freq := 0 }, .ok ()⟩ else
  match atoi (rateParts v).1 with
  | (n, some e) => ⟨{ r with freq := n }, .error e⟩
  | (n, none) =>
    if n = 0 then ⟨{ r with freq := n }, .ok ()⟩ else
    match Duration.parse (unitFix (rateParts v).2) with
    | .ok d => ⟨⟨n, d⟩, .ok ()⟩
    | .error e => ⟨⟨n, 0⟩, .error e⟩
    | .panic => ⟨⟨n, r.per⟩, .panic⟩

/-- `rateFlag.Set` as it was before the repair of defect 13 (DESIGN §8): `"infinity"` returned
nil without touching the rate. Kept only for `rate_infinity_old_counterexample`. -/
def rateSetOld (r : Rate) (v : Bytes) : Res Rate :=
  if v = infinityWord then ⟨r, .ok ()⟩ else rateSet r v

/-- `rateFlag.String`: `fmt.Sprintf("%d/%s", f.Freq, f.Per)` -/
def rateString (r : Rate) : Bytes := fmtInt r.freq ++ 47 :: Duration.toString r.per

/-- `vegeta.DefaultMaxWorkers = math.MaxUint64` -/
def defaultMaxWorkers : Nat := 18446744073709551615

/-- the guard at the top of `attack`:
`opts.maxWorkers == vegeta.DefaultMaxWorkers && opts.rate.Freq == 0` ⇒
error "-rate=0 requires setting -max-workers" -/
def attackGuard (maxWorkers : Nat) (r : Rate) : Bool :=
  maxWorkers == defaultMaxWorkers && r.freq == 0

/-- what the pacer does with the rate (`ConstantPacer.Pace`: `Per == 0 || Freq == 0` ⇒
"infinite rate") -/
def unlimited (r : Rate) : Bool := r.per == 0 || r.freq == 0

/-! ### headers -/

/-- `http.Header` as an association list in order of first insertion -/
abbrev Header := List (Bytes × List Bytes)

/-- `h[key] = append(h[key], val)` -/
def headerAppend : Header → Bytes → Bytes → Header
  | [], k, v => [(k, [v])]
  | (k', vs) :: rest, k, v =>
    if k' = k then (k', vs ++ [v]) :: rest else (k', vs) :: headerAppend rest k v

/-- `headers.Set` -/
def headerSet (h : Header) (value : Bytes) : Res Header :=
  match cut 58 value with
  | none => ⟨h, .error eFormat⟩
  | some (a, b) =>
    let key := trimSpace a
    let val := trimSpace b
    if key = [] || val = [] then ⟨h, .error eFormat⟩
    else ⟨headerAppend h key val, .ok ()⟩

/-- a sequence of `Set` calls on one value (repeated flags): the status of each call and
the final state -/
def setAll {σ} (set : σ → Bytes → Res σ) : σ → List Bytes → List (Outcome Unit) × σ
  | s, [] => ([], s)
  | s, v :: vs =>
    let r := set s v
    let (os, s') := setAll set r.st vs
    (r.out :: os, s')

/-! ### csl -/

/-- `csl.Set`: `*l = strings.Split(v, ",")` -/
def cslSet (v : Bytes) : List Bytes := splitOn 44 v

/-- `csl.String` -/
def cslString (l : List Bytes) : Bytes := join [44] l

/-! ### datasize.ByteSize -/

def dsCutoff : Nat := 1844674407370955161      -- maxUint64 / 10

/-- the digit loop of `ByteSize.UnmarshalText`: value and the rest (`t[i:]`) -/
def dsLoop : Bytes → Nat → Bool → Outcome (Nat × Bytes)
  | [], val, _ => .ok (val, [])
  | c :: rest, val, first =>
    if isDigit c then
      if val > dsCutoff then .error eRange
      else if val * 10 + (c - 48) ≥ two64 then .error eRange
      else dsLoop rest (val * 10 + (c - 48)) false
    else if first then .error eSyntax
    else .ok (val, c :: rest)

/-- `strings.ToLower`, as far as it can produce ASCII: ASCII upper case, and the two
non-ASCII runes whose lower case is ASCII — U+212A KELVIN SIGN → `k`, U+0130 → `i`.
(Other runes map to non-ASCII text, which no unit name contains.) -/
def toLower : Bytes → Bytes
  | [] => []
  | 0xE2 :: 0x84 :: 0xAA :: rest => 107 :: toLower rest
  | 0xC4 :: 0xB0 :: rest => 105 :: toLower rest
  | c :: rest => (if 65 ≤ c ∧ c ≤ 90 then c + 32 else c) :: toLower rest

def bitsUnits : List Bytes := [[75, 98], [77, 98], [71, 98], [84, 98], [80, 98], [69, 98]]

def ofAscii (s : String) : Bytes := s.toList.map Char.toNat

/-- the unit table of `UnmarshalText` (after `ToLower`): shift amount -/
def dsUnitShift (u : Bytes) : Option Nat :=
  if u = [] ∨ u = [98] ∨ u = [98, 121, 116, 101] then some 0  -- "", b, byte
  else if u = [107] ∨ u = [107, 98] ∨ u = [107, 105, 108, 111]
    ∨ u = [107, 105, 108, 111, 98, 121, 116, 101] ∨ u = [107, 105, 108, 111, 98, 121, 116, 101, 115] then some 10
  else if u = [109] ∨ u = [109, 98] ∨ u = [109, 101, 103, 97]
    ∨ u = [109, 101, 103, 97, 98, 121, 116, 101] ∨ u = [109, 101, 103, 97, 98, 121, 116, 101, 115] then some 20
  else if u = [103] ∨ u = [103, 98] ∨ u = [103, 105, 103, 97]
    ∨ u = [103, 105, 103, 97, 98, 121, 116, 101] ∨ u = [103, 105, 103, 97, 98, 121, 116, 101, 115] then some 30
  else if u = [116] ∨ u = [116, 98] ∨ u = [116, 101, 114, 97]
    ∨ u = [116, 101, 114, 97, 98, 121, 116, 101] ∨ u = [116, 101, 114, 97, 98, 121, 116, 101, 115] then some 40
  else if u = [112] ∨ u = [112, 98] ∨ u = [112, 101, 116, 97]
    ∨ u = [112, 101, 116, 97, 98, 121, 116, 101] ∨ u = [112, 101, 116, 97, 98, 121, 116, 101, 115] then some 50
  else if u = [101] ∨ u = [101, 98] then some 60
  else none

/-- `datasize.ByteSize.UnmarshalText` (value only) -/
def dsUnmarshal (t : Bytes) : Outcome Nat :=
  match dsLoop t 0 true with
  | .error e => .error e
  | .panic => .panic
  | .ok (val, rest) =>
    let unit := trimSpace rest
    if bitsUnits.contains unit then .error eBits else
    match dsUnitShift (toLower unit) with
    | none => .error eSyntax
    | some sh =>
      if val > maxU64 / 2 ^ sh then .error eRange else .ok (val * 2 ^ sh)

/-- `datasize.ByteSize.String` -/
def dsString (b : Nat) : Bytes :=
  if b = 0 then [48, 66]
  else if b % 2 ^ 60 = 0 then Duration.fmtNat (b / 2 ^ 60) ++ [69, 66]
  else if b % 2 ^ 50 = 0 then Duration.fmtNat (b / 2 ^ 50) ++ [80, 66]
  else if b % 2 ^ 40 = 0 then Duration.fmtNat (b / 2 ^ 40) ++ [84, 66]
  else if b % 2 ^ 30 = 0 then Duration.fmtNat (b / 2 ^ 30) ++ [71, 66]
  else if b % 2 ^ 20 = 0 then Duration.fmtNat (b / 2 ^ 20) ++ [77, 66]
  else if b % 2 ^ 10 = 0 then Duration.fmtNat (b / 2 ^ 10) ++ [75, 66]
  else Duration.fmtNat b ++ [66]

/-! ### maxBodyFlag -/

def minusOne : Bytes := [45, 49]

/-- `maxBodyFlag.Set` on the pointed-to `int64` -/
def maxBodySet (n : Int) (v : Bytes) : Res Int :=
  if v = minusOne then ⟨-1, .ok ()⟩ else
  match dsUnmarshal v with
  | .error e => ⟨n, .error e⟩
  | .panic => ⟨n, .panic⟩
  | .ok ds =>
    if (ds : Int) > maxInt64 then ⟨n, .error eRange⟩ else ⟨ds, .ok ()⟩

/-- `maxBodyFlag.String` (non-nil pointer); `ByteSize(int64)` converts through uint64 -/
def maxBodyString (n : Int) : Bytes :=
  if n = -1 then minusOne else dsString (wrapU64 n).toNat

/-! ### dnsTTLFlag -/

/-- `dnsTTLFlag.Set`: `*(f.ttl), err = time.ParseDuration(v)` assigns 0 on error -/
def dnsTTLSet (d : Int) (v : Bytes) : Res Int :=
  if v = minusOne then ⟨-1, .ok ()⟩ else
  match Duration.parse v with
  | .ok x => ⟨x, .ok ()⟩
  | .error e => ⟨0, .error e⟩
  | .panic => ⟨d, .panic⟩

def dnsTTLString (d : Int) : Bytes :=
  if d = -1 then minusOne else Duration.toString d

/-- what `vegeta.DNSCaching(ttl)` does with the value -/
inductive DNSMode where
  | disabled               -- ttl < 0: no caching
  | forever                -- ttl = 0: cache, never refresh
  | refreshEvery (d : Int) -- ttl > 0
  deriving Repr, DecidableEq

def dnsMode (ttl : Int) : DNSMode :=
  if ttl < 0 then .disabled else if ttl = 0 then .forever else .refreshEvery ttl

/-! ### net.SplitHostPort -/

/-- `s[i]` with Go's bounds check -/
def idx (s : Bytes) (i : Nat) : Outcome Nat :=
  match s[i]? with
  | some c => .ok c
  | none => .panic

/-- `strings.IndexByte` / `LastIndexByte` -/
def indexByte (c : Nat) : Bytes → Option Nat
  | [] => none
  | x :: rest => if x == c then some 0 else (indexByte c rest).map (· + 1)

def lastIndexByte (c : Nat) (s : Bytes) : Option Nat :=
  (indexByte c s.reverse).map (fun k => s.length - 1 - k)

/-- `net.SplitHostPort` (Go 1.23), every index expression with its bounds check:
`(host, port)` or an `*AddrError`. -/
def splitHostPort (hp : Bytes) : Outcome (Bytes × Bytes) :=
  match lastIndexByte 58 hp with
  | none => .error eAddr                                   -- missing port
  | some i =>
    match idx hp 0 with
    | .panic => .panic
    | .error e => .error e
    | .ok c0 =>
      let fin (host : Bytes) (j k : Nat) : Outcome (Bytes × Bytes) :=
        if (indexByte 91 (hp.drop j)).isSome then .error eAddr        -- unexpected '['
        else if (indexByte 93 (hp.drop k)).isSome then .error eAddr   -- unexpected ']'
        else .ok (host, hp.drop (i + 1))
      if c0 = 91 then
        match indexByte 93 hp with
        | none => .error eAddr                             -- missing ']'
        | some e =>
          if e + 1 = hp.length then .error eAddr           -- missing port
          else if e + 1 = i then fin ((hp.take e).drop 1) 1 (e + 1)
          else match idx hp (e + 1) with
            | .panic => .panic
            | _ => .error eAddr                            -- too many colons / missing port
      else
        let host := hp.take i
        if (indexByte 58 host).isSome then .error eAddr    -- too many colons
        else fin host 0 0

/-! ### net.ParseIP (validity) -/

/-- `parseIPv4Fields` over the whole of `s`: state `val pos digLen`, `first` = at index 0,
`prevDot` = previous byte was '.' -/
def ipv4Loop : Bytes → Nat → Nat → Nat → Bool → Bool → Bool
  | [], _, pos, _, _, _ => pos == 3
  | c :: rest, val, pos, digLen, first, prevDot =>
    if isDigit c then
      if digLen == 1 && val == 0 then false
      else
        let v := val * 10 + (c - 48)
        if v > 255 then false else ipv4Loop rest v pos (digLen + 1) false false
    else if c == 46 then
      if first || rest.isEmpty || prevDot then false
      else if pos == 3 then false
      else ipv4Loop rest 0 (pos + 1) 0 false true
    else false

def validIPv4 (s : Bytes) : Bool := ipv4Loop s 0 0 0 true false

def isHex (c : Nat) : Bool := isDigit c || (97 ≤ c && c ≤ 102) || (65 ≤ c && c ≤ 70)

/-- the hex-group scan of `parseIPv6`: `some (off, rest)` after 0..4 hex digits, `none`
when a fifth hex digit follows ("each group must have 4 or less digits") -/
def hexGroup : Bytes → Nat → Option (Nat × Bytes)
  | [], off => some (off, [])
  | c :: rest, off =>
    if isHex c then (if off > 3 then none else hexGroup rest (off + 1))
    else some (off, c :: rest)

/-- main loop of `parseIPv6` (zone already excluded): `i` = bytes filled, `ell` = an
ellipsis was seen. Returns validity. Each iteration adds 2 to `i`; `fuel` = 8 suffices. -/
def ipv6Loop : Nat → Nat → Bool → Bytes → Bool
  | 0, _, _, _ => false
  | fuel + 1, i, ell, s =>
    if i ≥ 16 then (s.isEmpty && !ell)      -- loop exit by `i < 16` failing
    else
    match hexGroup s 0 with
    | none => false
    | some (off, rest) =>
      if off == 0 then false
      else match rest with
        | 46 :: _ =>                         -- embedded IPv4 at the end
          if !ell && i != 12 then false
          else if i + 4 > 16 then false
          else if !validIPv4 s then false
          else (if i + 4 < 16 then ell else !ell)
        | [] => (if i + 2 < 16 then ell else !ell)
        | c :: rest1 =>
          if c != 58 then false
          else match rest1 with
            | [] => false                    -- colon must be followed by more characters
            | 58 :: rest2 =>
              if ell then false              -- multiple ::
              else if rest2.isEmpty then (i + 2 < 16)   -- with an ellipsis: i < 16 required
              else ipv6Loop fuel (i + 2) true rest2
            | _ => ipv6Loop fuel (i + 2) ell rest1

def validIPv6 (s : Bytes) : Bool :=
  if s.contains 37 then false else         -- a zone ('%') is an error or a non-empty zone: ParseIP = nil
  match s with
  | 58 :: 58 :: rest => if rest.isEmpty then true else ipv6Loop 9 0 true rest
  | _ => ipv6Loop 9 0 false s

/-- the dispatch of `netip.ParseAddr`: the first of '.', ':', '%' decides -/
def firstSep : Bytes → Option Nat
  | [] => none
  | c :: rest => if c == 46 || c == 58 || c == 37 then some c else firstSep rest

/-- `net.ParseIP(s) != nil` -/
def validIP (s : Bytes) : Bool :=
  match firstSep s with
  | some 46 => validIPv4 s
  | some 58 => validIPv6 s
  | _ => false

/-! ### connectToFlag -/

abbrev AddrMap := List (Bytes × List Bytes)

/-- `connectToFlag.Set` (non-nil `addrMap` pointer; a nil map is first made) -/
def connectToSet (m : AddrMap) (s : Bytes) : Res AddrMap :=
  match splitOn 58 s with
  | [p0, p1, p2, p3] =>
    let src := p0 ++ 58 :: p1
    let dst := p2 ++ 58 :: p3
    match splitHostPort src with
    | .panic => ⟨m, .panic⟩
    | .error _ => ⟨m, .error eAddr⟩
    | .ok _ =>
      match splitHostPort dst with
      | .panic => ⟨m, .panic⟩
      | .error _ => ⟨m, .error eAddr⟩
      | .ok _ => ⟨headerAppend m src dst, .ok ()⟩
  | _ => ⟨m, .error eFormat⟩

/-- `connectToFlag.String`: sorted `k:v1,v2` joined by ';' -/
def connectToString (m : AddrMap) : Bytes :=
  join [59] (sortStrings (m.map fun (k, vs) => k ++ 58 :: join [44] vs))

/-! ### resolver -/

/-- one iteration of the loop in `normalizeAddrs` -/
def normalizeAddr (addr : Bytes) : Outcome Bytes :=
  let addr := if addr.contains 58 then addr else addr ++ [58, 53, 51]
  match splitHostPort addr with
  | .panic => .panic
  | .error e => .error e
  | .ok (host, port) =>
    match parseUint maxU16 port with
    | (_, some e) => .error e
    | (_, none) => if validIP host then .ok addr else .error eNotIP

/-- `normalizeAddrs`: all addresses normalised, or the first error -/
def normalizeAddrs : List Bytes → Outcome (List Bytes)
  | [] => .ok []
  | a :: as =>
    match normalizeAddr a with
    | .panic => .panic
    | .error e => .error e
    | .ok a' =>
      match normalizeAddrs as with
      | .ok r => .ok (a' :: r)
      | o => o

/-- `resolver.address` called `n` times on a fresh resolver:
`addrs[atomic.AddUint64(&idx, 1) % len(addrs)]` (integer divide by zero on no addresses) -/
def rotation (addrs : List Bytes) : Nat → Nat → Outcome (List Bytes)
  | 0, _ => .ok []
  | n + 1, k =>
    if addrs.length = 0 then .panic else
    match addrs[(k + 1) % addrs.length]? with
    | none => .panic
    | some a =>
      match rotation addrs n (k + 1) with
      | .ok r => .ok (a :: r)
      | o => o

/-! ### a whole attack command line (the flags of this property) -/

inductive FlagArg where
  | rate (v : Bytes)
  | header (v : Bytes)
  | maxBody (v : Bytes)
  | dnsTTL (v : Bytes)
  | connectTo (v : Bytes)
  | maxWorkers (n : Nat)      -- a decimal `uint64` literal
  deriving Repr, DecidableEq

structure Opts where
  rate       : Rate
  maxWorkers : Nat
  maxBody    : Int
  dnsTTL     : Int
  headers    : Header
  connectTo  : AddrMap
  deriving Repr, DecidableEq

/-- the defaults of `attackCmd` -/
def defaultOpts : Opts :=
  { rate := defaultRate, maxWorkers := defaultMaxWorkers, maxBody := -1, dnsTTL := 0,
    headers := [], connectTo := [] }

def applyArg (o : Opts) : FlagArg → Res Opts
  | .rate v => let r := rateSet o.rate v; ⟨{ o with rate := r.st }, r.out⟩
  | .header v => let r := headerSet o.headers v; ⟨{ o with headers := r.st }, r.out⟩
  | .maxBody v => let r := maxBodySet o.maxBody v; ⟨{ o with maxBody := r.st }, r.out⟩
  | .dnsTTL v => let r := dnsTTLSet o.dnsTTL v; ⟨{ o with dnsTTL := r.st }, r.out⟩
  | .connectTo v => let r := connectToSet o.connectTo v; ⟨{ o with connectTo := r.st }, r.out⟩
  | .maxWorkers n => if n ≤ maxU64 then ⟨{ o with maxWorkers := n }, .ok ()⟩ else ⟨o, .error eRange⟩

/-- `fs.Parse(args)`: flags are applied in order, the first failing `Set` aborts -/
def parseArgs : Opts → List FlagArg → Outcome Opts
  | o, [] => .ok o
  | o, a :: as =>
    match applyArg o a with
    | ⟨o', .ok ()⟩ => parseArgs o' as
    | ⟨_, .error e⟩ => .error e
    | ⟨_, .panic⟩ => .panic

/-! ### what `attack` does with the parsed values (attack.go) -/

def eGuard : Nat := 26

/-- what `attack(opts)` hands on: `hdr = opts.headers.Header` to the targeter
(`NewJSONTargeter(src, body, hdr)` / `NewHTTPTargeter(src, body, hdr)`), `opts.rate` as the pacer of
`atk.Attack(tr, opts.rate, …)`, and the attacker options `MaxWorkers(opts.maxWorkers)`,
`MaxBody(opts.maxBody)`, `DNSCaching(opts.dnsTTL)`, `ConnectTo(opts.connectTo)` -/
structure Plumbed where
  targeterHeader : Header
  pacer          : Rate
  maxWorkers     : Nat
  maxBody        : Int
  dnsTTL         : Int
  connectTo      : AddrMap
  deriving Repr, DecidableEq

/-- `attack`: the guard, then every parsed value is passed on as it is — no copy, no
canonicalisation of header keys, no rounding of the TTL. (Files, TLS, the other options and the
run itself are left out.) -/
def attackPlumbing (o : Opts) : Outcome Plumbed :=
  if attackGuard o.maxWorkers o.rate then .error eGuard
  else .ok { targeterHeader := o.headers, pacer := o.rate, maxWorkers := o.maxWorkers,
             maxBody := o.maxBody, dnsTTL := o.dnsTTL, connectTo := o.connectTo }

/-- a whole `vegeta attack` command line of these flags: parse, then `attack` -/
def attackCommand (args : List FlagArg) : Outcome Plumbed :=
  match parseArgs defaultOpts args with
  | .ok o => attackPlumbing o
  | .error e => .error e
  | .panic => .panic

end Vegeta.Model.Flags
