/-
Model of lib/results.go `NewRoundRobinDecoder` (and of what `decoder(files)` in file.go,
`report` and `encode` do with it: call the combined decoder until it returns an error).

A `Decoder` is a script of items: a call pops the head (`ok a` → the record is written and
`nil` returned, `bad e` → error `e`, the item is consumed) and an exhausted decoder returns
`io.EOF` (error class `eEOF`) for ever.  Real gob/CSV/JSON decoders over a well-formed stream
are exactly the scripts consisting of `ok` items only.

    func NewRoundRobinDecoder(dec ...Decoder) Decoder {
        if len(dec) == 1 { return dec[0] }
        var seq uint64
        return func(r *Result) (err error) {
            for range dec {
                robin := seq % uint64(len(dec))
                seq++
                if err = dec[robin].Decode(r); err != nil { continue }
                return nil
            }
            return err
        }
    }
-/
import Vegeta.Go.Basic
namespace Vegeta.Model.RoundRobin
open Vegeta.Go

/-- error class of `io.EOF` -/
def eEOF : Nat := 0

inductive Item (α : Type) where
  | ok : α → Item α
  | bad : Nat → Item α
  deriving Repr, DecidableEq

abbrev Dec (α : Type) := List (Item α)

/-- result of one `Decode` call of the combined decoder.  `got i a`: `nil` was returned and the
record `a` was written by decoder number `i` (the index is a ghost tag: the Go code does not
report it); `err e`: error `e` was returned; `nothing`: `nil` was returned although no decoder
was called, so the `*Result` was not written (only with zero decoders). -/
inductive Step (α : Type) where
  | got : Nat → α → Step α
  | err : Nat → Step α
  | nothing : Step α
  deriving Repr, DecidableEq

/-- one `Decode` call on a single decoder -/
def pop {α} : Dec α → Except Nat α × Dec α
  | [] => (.error eEOF, [])
  | .ok a :: t => (.ok a, t)
  | .bad e :: t => (.error e, t)

/-- state of the combined decoder -/
structure RR (α : Type) where
  decs : List (Dec α)
  seq  : Nat            -- `uint64`
  deriving Repr, DecidableEq

/-- `seq++` on a `uint64` -/
def incSeq (seq : Nat) : Nat := (seq + 1) % two64

/-- The `for range dec` loop with `fuel` iterations left; `last` is the current value of the
named result `err` (`none` = nil). -/
def rrLoop {α} : Nat → List (Dec α) → Nat → Option Nat → Step α × List (Dec α) × Nat
  | 0, decs, seq, last =>
    (match last with
     | some e => .err e
     | none => .nothing, decs, seq)
  | fuel+1, decs, seq, _ =>
    let robin := seq % decs.length
    let seq' := incSeq seq
    match pop (decs.getD robin []) with
    | (.ok a, d') => (.got robin a, decs.set robin d', seq')
    | (.error e, d') => rrLoop fuel (decs.set robin d') seq' (some e)

/-- One call of the decoder returned by `NewRoundRobinDecoder`. -/
def rrDecode {α} (s : RR α) : Step α × RR α :=
  match s.decs with
  | [d] =>
    -- single decoder shortcut: the decoder itself is returned
    match pop d with
    | (.ok a, d') => (.got 0 a, { s with decs := [d'] })
    | (.error e, d') => (.err e, { s with decs := [d'] })
  | decs =>
    let (st, decs', seq') := rrLoop decs.length decs s.seq none
    (st, { decs := decs', seq := seq' })

def RR.init {α} (decs : List (Dec α)) : RR α := { decs := decs, seq := 0 }

/-- a well-formed input: a stream of records -/
def ofRecords {α} (rs : List α) : Dec α := rs.map Item.ok

def ofInputs {α} (inputs : List (List α)) : List (Dec α) := inputs.map ofRecords

/-- What `report`/`encode` do: call until the first error (at most `fuel` calls).
Returns the tagged records in output order, the final state, and whether an error ended the loop
together with its class. -/
def drain {α} : Nat → RR α → List (Nat × α) × RR α × Option Nat
  | 0, s => ([], s, none)
  | fuel+1, s =>
    match rrDecode s with
    | (.got i a, s') =>
      let (out, s'', e) := drain fuel s'
      ((i, a) :: out, s'', e)
    | (.err e, s') => ([], s', some e)
    | (.nothing, s') => ([], s', none)

/-- `k` consecutive calls, all results (for the driver and for `rr_eof_stable`). -/
def calls {α} : Nat → RR α → List (Step α) × RR α
  | 0, s => ([], s)
  | k+1, s =>
    let (st, s') := rrDecode s
    let (sts, s'') := calls k s'
    (st :: sts, s'')

end Vegeta.Model.RoundRobin
