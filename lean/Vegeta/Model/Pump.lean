/-
Model of `processAttack` (attack.go): the CLI's result pump with its two-stage signal handling.
Events: a result arrives (`r`), a signal arrives (`s`), the results channel is closed (`c`),
the next Encode call will fail (`e`, harness-only switch).
-/
import Vegeta.Go.Basic
namespace Vegeta.Model.Pump

inductive Ev where | r | s | c | e
  deriving DecidableEq, Repr

inductive Ret where | running | nil | error
  deriving DecidableEq, Repr

structure St where
  stopClosed : Bool      -- the attacker's stop channel
  encoded    : List Nat  -- sequence numbers written so far, newest first
  ret        : Ret
  failNext   : Bool
  arrived    : Nat       -- results offered so far (the next one carries this sequence number)
  consumed   : Nat       -- events consumed
  deriving DecidableEq, Repr

def init : St := { stopClosed := false, encoded := [], ret := .running, failNext := false, arrived := 0, consumed := 0 }

/-- one iteration of the `for { select { … } }` loop, or nothing once the pump has returned -/
def step (p : St) (ev : Ev) : St :=
  if p.ret ≠ .running then p else
  match ev with
  | .e => { p with failNext := true, consumed := p.consumed + 1 }
  | .s =>
    -- `if stopSent := atk.Stop(); !stopSent { return nil }`
    if p.stopClosed then { p with ret := .nil, consumed := p.consumed + 1 }
    else { p with stopClosed := true, consumed := p.consumed + 1 }
  | .c => { p with ret := .nil, consumed := p.consumed + 1 }
  | .r =>
    if p.failNext then { p with ret := .error, arrived := p.arrived + 1, consumed := p.consumed + 1 }
    else { p with encoded := p.arrived :: p.encoded, arrived := p.arrived + 1, consumed := p.consumed + 1 }

def runScript (evs : List Ev) : St := evs.foldl step init

end Vegeta.Model.Pump
