/-
Model of (1) how the attacker options compose on the transport's dial function
(lib/attack.go: LocalAddr, KeepAlive, H2C, UnixSocket, DNSCaching, ConnectTo, and the verif hook
VerifBaseDial; attack.go: the order in which the command applies them) and (2) the DNS cache
with a positive ttl as a state machine (github.com/rs/dnscache: entries with a `used` flag,
`Refresh(clearUnused)` as called by DNSCaching's ticker goroutine).

(1) Every option is a function on the attacker.  What matters for the dial path is
* whether `a.client.Transport` still is an `*http.Transport` (H2C(true) replaces it; options
  that type-assert without `ok` then PANIC, options that check `ok` silently do nothing),
* which function sits at the bottom (the attacker's own dialer, a unix-socket dial, a custom one),
* which wrappers were put around it, outermost first.
`LocalAddr` and `KeepAlive(false)` assign `tr.DialContext = a.dialer.DialContext`: they re-install
the bare dialer and thereby DROP every wrapper installed before.

(2) `LookupHost` marks the entry used; the periodic `Refresh(true)` re-resolves the entries used
since the previous refresh (storing them as unused) and deletes the others; a miss resolves
and stores the entry as used.
-/
import Vegeta.Model.Dial
namespace Vegeta.Model.Dial
open Vegeta.Go

/-! ### (1) option composition -/

inductive Wrap where
  | dns | connectTo
  deriving Repr, DecidableEq

inductive Base where
  | dialer      -- `a.dialer.DialContext`
  | unix        -- `net.Dial("unix", socket)`: ignores the address
  | custom      -- installed from outside (VerifBaseDial)
  deriving Repr, DecidableEq

structure TrState where
  isHTTP : Bool         -- `a.client.Transport.(*http.Transport)` succeeds
  base   : Base
  wraps  : List Wrap    -- outermost first
  deriving Repr, DecidableEq

/-- `NewAttacker` before any option: `DialContext: a.dialer.DialContext` -/
def TrState.init : TrState := { isHTTP := true, base := .dialer, wraps := [] }

inductive Opt where
  | localAddr
  | keepAlive (on : Bool)
  | h2c (on : Bool)
  | unixSocket (given : Bool)          -- `socket != ""`
  | dnsCaching (negativeTTL : Bool)
  | connectTo (emptyMap : Bool)
  | baseDial                           -- VerifBaseDial
  | other                              -- every option that does not touch the dial function
  deriving Repr, DecidableEq

def applyOpt (st : TrState) : Opt → Outcome TrState
  | .localAddr =>
    -- `tr := a.client.Transport.(*http.Transport)` (panics otherwise); `tr.DialContext = a.dialer.DialContext`
    if st.isHTTP then .ok { st with base := .dialer, wraps := [] } else .panic
  | .keepAlive on =>
    -- same assertion; `if !keepalive { a.dialer.KeepAlive = 0; tr.DialContext = a.dialer.DialContext }`
    if !st.isHTTP then .panic
    else if on then .ok st else .ok { st with base := .dialer, wraps := [] }
  | .h2c on =>
    -- `if tr := a.client.Transport.(*http.Transport); enabled { a.client.Transport = &http2.Transport{…} }`:
    -- the new transport dials through `tr.DialContext` as it is; later options no longer reach it
    if !st.isHTTP then .panic
    else if on then .ok { st with isHTTP := false } else .ok st
  | .unixSocket given =>
    if given && st.isHTTP then .ok { st with base := .unix, wraps := [] } else .ok st
  | .dnsCaching neg =>
    if neg || !st.isHTTP then .ok st else .ok { st with wraps := .dns :: st.wraps }
  | .connectTo empty =>
    if empty || !st.isHTTP then .ok st else .ok { st with wraps := .connectTo :: st.wraps }
  | .baseDial =>
    if st.isHTTP then .ok { st with base := .custom, wraps := [] } else .ok st
  | .other => .ok st

def applyAll : TrState → List Opt → Outcome TrState
  | st, [] => .ok st
  | st, o :: os => match applyOpt st o with
    | .ok st' => applyAll st' os
    | .error e => .error e
    | .panic => .panic

/-- the dial-related flags of `vegeta attack` -/
structure DialFlags where
  keepAlive   : Bool := true     -- -keepalive
  h2c         : Bool := false    -- -h2c
  unixSocket  : Bool := false    -- -unix-socket given
  negativeTTL : Bool := false    -- -dns-ttl < 0
  emptyMap    : Bool := true     -- no -connect-to
  deriving Repr, DecidableEq

/-- the dial-related options in the order attack.go passes them to `NewAttacker` -/
def cmdOpts (f : DialFlags) : List Opt :=
  [.localAddr, .keepAlive f.keepAlive, .h2c f.h2c, .unixSocket f.unixSocket, .dnsCaching f.negativeTTL, .connectTo f.emptyMap]

/-- the order a seeded change produced (DNSCaching and ConnectTo moved up, before KeepAlive) -/
def cmdOptsMovedUp (f : DialFlags) : List Opt :=
  [.localAddr, .dnsCaching f.negativeTTL, .connectTo f.emptyMap, .keepAlive f.keepAlive, .h2c f.h2c, .unixSocket f.unixSocket]

/-! ### (2) the DNS cache with a positive ttl -/

section cache
variable {α : Type}

structure CEntry (α : Type) where
  addrs : List α
  used  : Bool

structure CacheSt (α : Type) where
  entry : Option (CEntry α)     -- the cache entry of the host (`none`: not cached)
  dns   : List α                -- what the DNS answers right now

inductive CEv (α : Type) where
  | dial (js : List Nat)        -- one call of the dial function (random numbers `js`)
  | refresh                     -- one tick of the refresh goroutine
  | change (answer : List α)    -- the DNS answer changes

/-- One event. `clearUnused` is the argument of `resolver.Refresh` (the code passes `true`).
Returns the new state and the addresses dialled (empty for the other events). -/
def cacheStep (fam : α → Family) (clearUnused : Bool) (st : CacheSt α) : CEv α → CacheSt α × List α
  | .dial js =>
    match st.entry with
    | none =>
      -- miss: resolve now, store as used
      ({ st with entry := some { addrs := st.dns, used := true } }, (dialStep fam js st.dns).1)
    | some e =>
      ({ st with entry := some { e with used := true } }, (dialStep fam js e.addrs).1)
  | .refresh =>
    match st.entry with
    | none => (st, [])
    | some e =>
      if e.used then ({ st with entry := some { addrs := st.dns, used := false } }, [])
      else if clearUnused then ({ st with entry := none }, [])
      else (st, [])
  | .change a => ({ st with dns := a }, [])

/-- a history of events: final state and the address lists of the dials, in order -/
def cacheRun (fam : α → Family) (clearUnused : Bool) : CacheSt α → List (CEv α) → CacheSt α × List (List α)
  | st, [] => (st, [])
  | st, ev :: evs =>
    let (st', t) := cacheStep fam clearUnused st ev
    let (st'', ts) := cacheRun fam clearUnused st' evs
    (st'', match ev with | .dial _ => t :: ts | _ => ts)

end cache

end Vegeta.Model.Dial
