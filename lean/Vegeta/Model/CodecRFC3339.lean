/-
Model of `time.Time.MarshalJSON` (RFC 3339 with nanoseconds, `appendStrictRFC3339`) and of the
fast path `parseRFC3339` of `time.Time.UnmarshalJSON` (Go 1.23), including Go's civil-date
algorithms `absDate` and `Date`/`daysSinceEpoch` over the absolute epoch.
A time is its instant in Unix nanoseconds; the zone offset (minutes) is a parameter of formatting.
-/
import Vegeta.Model.CodecMIME
namespace Vegeta.Model.Codec
open Vegeta.Go

def eTime : Nat := 5

/-- `absoluteZeroYear` -/
def absZeroYear : Int := -292277022399
/-- days from the absolute epoch to 1970-01-01 (`(unixToInternal+internalToAbsolute)/86400`) -/
def unixToAbsDays : Nat := 106751991073094

def daysBefore : List Nat := [0, 31, 59, 90, 120, 151, 181, 212, 243, 273, 304, 334, 365]

def isLeap (y : Int) : Bool := y % 4 == 0 && (y % 100 != 0 || y % 400 == 0)

/-- `absDate(abs, true)` on the day number `d = abs / 86400`: (year, month 1..12, day 1..31) -/
def absDate (d0 : Nat) : Int × Nat × Nat :=
  let n := d0 / 146097
  let y := 400 * n
  let d := d0 - 146097 * n
  let n := d / 36524
  let n := n - n / 4
  let y := y + 100 * n
  let d := d - 36524 * n
  let n := d / 1461
  let y := y + 4 * n
  let d := d - 1461 * n
  let n := d / 365
  let n := n - n / 4
  let y := y + n
  let d := d - 365 * n
  let year : Int := (y : Int) + absZeroYear
  if isLeap year && d == 59 then (year, 2, 29)
  else
    let day := if isLeap year && d > 59 then d - 1 else d
    let m := day / 31
    let e := daysBefore.getD (m + 1) 0
    if day ≥ e then (year, m + 2, day - e + 1)
    else (year, m + 1, day - daysBefore.getD m 0 + 1)

/-- `daysSinceEpoch(year)` -/
def daysSinceEpoch (year : Int) : Nat :=
  let y := (year - absZeroYear).toNat
  let n := y / 400
  let y := y - 400 * n
  let d := 146097 * n
  let n := y / 100
  let y := y - 100 * n
  let d := d + 36524 * n
  let n := y / 4
  let y := y - 4 * n
  let d := d + 1461 * n
  d + 365 * y

/-- day number (from the absolute epoch) of a civil date, as `Date` computes it -/
def dateDays (year : Int) (month day : Nat) : Nat :=
  daysSinceEpoch year + daysBefore.getD (month - 1) 0 +
    (if isLeap year && month ≥ 3 then 1 else 0) + (day - 1)

def daysIn (month : Nat) (year : Int) : Nat :=
  if month == 2 && isLeap year then 29
  else daysBefore.getD month 0 - daysBefore.getD (month - 1) 0

/-- `appendInt(b, x, width)` for `x ≥ 0`: zero padded -/
def padNat (width n : Nat) : Bytes :=
  let ds := fmtNat n
  List.replicate (width - ds.length) 48 ++ ds

def dropTrailingZeros (s : Bytes) : Bytes := (s.reverse.dropWhile (· == 48)).reverse

/-- `appendNano(b, nsec, stdFracSecond9)` -/
def fmtNanos (nsec : Nat) : Bytes :=
  if nsec = 0 then [] else 46 :: dropTrailingZeros (padNat 9 nsec)

def fmtZone (offMin : Int) : Bytes :=
  if offMin = 0 then [90]
  else
    let z := offMin.natAbs
    (if offMin < 0 then 45 else 43) :: (padNat 2 (z / 60) ++ 58 :: padNat 2 (z % 60))

/-- `Time.appendStrictRFC3339` for the instant `ns` (Unix nanoseconds) shown in a zone `offMin`
minutes east of UTC; `none` = the errors of the strict check (year outside 0..9999, zone hour ≥ 24). -/
def fmtRFC3339 (ns : Int) (offMin : Int) : Option Bytes :=
  let sec := ns / 1000000000
  let nsec := (ns % 1000000000).toNat
  let loc := sec + offMin * 60
  let d := loc / 86400 + (unixToAbsDays : Int)
  let sod := (loc % 86400).toNat
  if d < 0 then none else
  let (year, month, day) := absDate d.toNat
  if year < 0 ∨ year > 9999 ∨ offMin.natAbs ≥ 1440 then none
  else some (padNat 4 year.toNat ++ 45 :: padNat 2 month ++ 45 :: padNat 2 day ++ 84 ::
    padNat 2 (sod / 3600) ++ 58 :: padNat 2 (sod / 60 % 60) ++ 58 :: padNat 2 (sod % 60) ++
    fmtNanos nsec ++ fmtZone offMin)

/-- `Time.MarshalJSON` -/
def timeMarshalJSON (ns offMin : Int) : Option Bytes :=
  (fmtRFC3339 ns offMin).map (fun b => 34 :: (b ++ [34]))

/-! ### parsing -/

def isDigitB (c : Nat) : Bool := 48 ≤ c && c ≤ 57

/-- the local `parseUint` of `parseRFC3339`: all digits and within `[lo, hi]` -/
def parseRange (s : Bytes) (lo hi : Nat) : Option Nat :=
  if s.all isDigitB then
    let x := s.foldl (fun a c => a * 10 + (c - 48)) 0
    if lo ≤ x ∧ x ≤ hi then some x else none
  else none

/-- fractional second: `.` and at least one digit; value from at most nine digits -/
def parseFrac (s : Bytes) : Nat × Bytes :=
  match s with
  | 46 :: c :: r =>
    if isDigitB c then
      let ds := (c :: r).takeWhile isDigitB
      let rest := (c :: r).dropWhile isDigitB
      let d9 := ds.take 9
      ((d9.foldl (fun a c => a * 10 + (c - 48)) 0) * 10 ^ (9 - d9.length), rest)
    else (0, s)
  | _ => (0, s)

/-- zone suffix: offset in seconds east of UTC -/
def parseZone (s : Bytes) : Option Int :=
  match s with
  | [90] => some 0
  | [sg, h1, h2, c, m1, m2] =>
    match parseRange [h1, h2] 0 23, parseRange [m1, m2] 0 59 with
    | some hr, some mm =>
      if (sg = 45 ∨ sg = 43) ∧ c = 58 then
        some (if sg = 45 then -(((hr * 60 + mm) * 60 : Nat) : Int) else (((hr * 60 + mm) * 60 : Nat) : Int))
      else none
    | _, _ => none
  | _ => none

/-- `parseRFC3339` (fast path): the instant in Unix nanoseconds -/
def parseRFC3339 (s : Bytes) : Option Int :=
  match s with
  | y1 :: y2 :: y3 :: y4 :: d1 :: mo1 :: mo2 :: d2 :: da1 :: da2 :: t :: h1 :: h2 :: c1 :: mi1 :: mi2 ::
      c2 :: s1 :: s2 :: rest =>
    match parseRange [y1, y2, y3, y4] 0 9999, parseRange [mo1, mo2] 1 12 with
    | some year, some month =>
      match parseRange [da1, da2] 1 (daysIn month year), parseRange [h1, h2] 0 23,
            parseRange [mi1, mi2] 0 59, parseRange [s1, s2] 0 59 with
      | some day, some hour, some mi, some sec =>
        if d1 = 45 ∧ d2 = 45 ∧ t = 84 ∧ c1 = 58 ∧ c2 = 58 then
          let (nsec, rest') := parseFrac rest
          match parseZone rest' with
          | some off =>
            let days : Int := (dateDays year month day : Int) - (unixToAbsDays : Int)
            let unix : Int := days * 86400 + (hour * 3600 + mi * 60 + sec : Nat) - off
            some (unix * 1000000000 + nsec)
          | none => none
        else none
      | _, _, _, _ => none
    | _, _ => none
  | _ => none

/-- `Time.UnmarshalJSON(data)` for `data ≠ "null"`: a quoted RFC 3339 text, not unescaped.
(The slow fall-back `time.Parse(RFC3339, …)` taken when the fast path rejects is not modelled:
such texts are an error here.) -/
def timeUnmarshalJSON (data : Bytes) : Outcome Int :=
  match data with
  | 34 :: r =>
    if r.isEmpty then .error eTime else
    match r.getLast? with
    | some 34 =>
      match parseRFC3339 r.dropLast with
      | some t => .ok t
      | none => .error eTime
    | _ => .error eTime
  | _ => .error eTime

end Vegeta.Model.Codec
