/-
Model of `net/http.Header.Write` and `net/textproto.Reader.ReadMIMEHeader` (Go 1.23) as far as
lib/results.go uses them for the CSV header column.  A header map is an association list; the
key order of the list stands for Go's (random) map iteration order where that matters.
-/
import Vegeta.Model.CodecCSV
namespace Vegeta.Model.Codec
open Vegeta.Go

abbrev Header := List (Bytes × List Bytes)

def eMIME : Nat := 4

/-- `strings.Compare(a, b) < 0` -/
def bytesLt : Bytes → Bytes → Bool
  | [], [] => false
  | [], _ :: _ => true
  | _ :: _, [] => false
  | a :: as, b :: bs => if a < b then true else if b < a then false else bytesLt as bs

def insertKV (kv : Bytes × List Bytes) : Header → Header
  | [] => [kv]
  | x :: xs => if bytesLt kv.1 x.1 then kv :: x :: xs else x :: insertKV kv xs

/-- `sortedKeyValues`: keys ascending (keys of a map are distinct) -/
def sortKV : Header → Header
  | [] => []
  | x :: xs => insertKV x (sortKV xs)

/-- `validHeaderFieldByte` / httpguts token table -/
def isTokenByte (c : Nat) : Bool :=
  (48 ≤ c && c ≤ 57) || (65 ≤ c && c ≤ 90) || (97 ≤ c && c ≤ 122) ||
  c == 33 || c == 35 || c == 36 || c == 37 || c == 38 || c == 39 || c == 42 || c == 43 ||
  c == 45 || c == 46 || c == 94 || c == 95 || c == 96 || c == 124 || c == 126

/-- `httpguts.ValidHeaderFieldName` -/
def validFieldName (k : Bytes) : Bool := !k.isEmpty && k.all isTokenByte

/-- `validHeaderValueByte`: HTAB, SP, VCHAR, obs-text -/
def validValueByte (c : Nat) : Bool := c == 9 || (32 ≤ c && c ≤ 126) || c ≥ 128

def isAsciiSpace (c : Nat) : Bool := c == 32 || c == 9 || c == 10 || c == 13
def isBlank (c : Nat) : Bool := c == 32 || c == 9

/-- drop trailing bytes satisfying `p` -/
def dropWhileEnd (p : Nat → Bool) (s : Bytes) : Bytes := (s.reverse.dropWhile p).reverse

/-- `textproto.TrimString` -/
def trimString (s : Bytes) : Bytes := dropWhileEnd isAsciiSpace (s.dropWhile isAsciiSpace)

/-- textproto's `trim`: spaces and tabs only -/
def trimBlank (s : Bytes) : Bytes := dropWhileEnd isBlank (s.dropWhile isBlank)

/-- `headerNewlineToSpace.Replace` -/
def nlToSpace (s : Bytes) : Bytes := s.map (fun c => if c = 10 ∨ c = 13 then 32 else c)

def writeKV (kv : Bytes × List Bytes) : Bytes :=
  if validFieldName kv.1 then
    kv.2.flatMap (fun v => kv.1 ++ [58, 32] ++ trimString (nlToSpace v) ++ [13, 10])
  else []          -- invalid field names are dropped silently

/-- `Header.Write` -/
def headerWrite (h : Header) : Bytes := (sortKV h).flatMap writeKV

/-- lib/results.go `headerBytes`: nil stays nil, otherwise the block plus the blank line -/
def headerBytes : Option Header → Option Bytes
  | none => none
  | some h => some (headerWrite h ++ [13, 10])

/-! ### ReadMIMEHeader -/

def dropLastCR (l : Bytes) : Bytes :=
  match l.getLast? with
  | some 13 => l.dropLast
  | _ => l

/-- `bufio.Reader.ReadLine` on in-memory data: the line without its "\n" or "\r\n", and the rest;
`none` at end of input. A last line without '\n' is returned as it is. -/
def readLine (s : Bytes) : Option (Bytes × Bytes) :=
  match s with
  | [] => none
  | _ =>
    let l := s.takeWhile (· != 10)
    match s.dropWhile (· != 10) with
    | [] => some (l, [])
    | _ :: r => some (dropLastCR l, r)

/-- continuation lines of `readContinuedLineSlice`: while the next line starts with a blank,
append one space and the trimmed line -/
def readCont : Nat → Bytes → Bytes → Bytes × Bytes
  | 0, acc, s => (acc, s)
  | fuel+1, acc, s =>
    match s with
    | c :: _ =>
      if isBlank c then
        match readLine (s.dropWhile isBlank) with
        | none => (acc ++ [32], [])
        | some (l, r) => readCont fuel (acc ++ 32 :: trimBlank l) r
      else (acc, s)
    | [] => (acc, s)

/-- `canonicalMIMEHeaderKey` (the result for valid keys; `none` = not ok) -/
def canonKeyGo : Bool → Bytes → Bytes
  | _, [] => []
  | upper, c :: r =>
    let c' := if upper && (97 ≤ c && c ≤ 122) then c - 32
              else if !upper && (65 ≤ c && c ≤ 90) then c + 32 else c
    c' :: canonKeyGo (c' == 45) r

def canonKey (k : Bytes) : Option Bytes :=
  if k.isEmpty then none
  else if k.all (fun c => isTokenByte c || c == 32) then
    (if k.any (· == 32) then some k else some (canonKeyGo true k))
  else none

/-- `m[key] = append(m[key], value)` on an association list -/
def headerAdd (k v : Bytes) : Header → Header
  | [] => [(k, [v])]
  | x :: xs => if x.1 = k then (x.1, x.2 ++ [v]) :: xs else x :: headerAdd k v xs

def readHeaderLoop : Nat → Bytes → Header → Outcome Header
  | 0, _, _ => .error eMIME
  | fuel+1, s, m =>
    match readLine s with
    | none => .error eEOF                               -- io.EOF before the blank line (returned as is)
    | some (l, r) =>
      if l.isEmpty then .ok m                           -- blank line: end of the header block
      else if !(l.any (· == 58)) then .error eMIME      -- mustHaveFieldNameColon
      else
        let (kv, r') := readCont (r.length + 1) (trimBlank l) r
        let k := kv.takeWhile (· != 58)
        let v := (kv.dropWhile (· != 58)).drop 1
        match canonKey k with
        | none => .error eMIME
        | some key =>
          if !(v.all validValueByte) then .error eMIME
          else readHeaderLoop fuel r' (headerAdd key (v.dropWhile isBlank) m)

/-- `ReadMIMEHeader` on the whole decoded column -/
def readMIMEHeader (s : Bytes) : Outcome Header :=
  match s with
  | c :: _ => if isBlank c then .error eMIME else readHeaderLoop (s.length + 1) s []
  | [] => readHeaderLoop 1 s []

end Vegeta.Model.Codec
