/-
Model of lib/histogram.go: Histogram.Add, Buckets.UnmarshalText, Buckets.Nth,
Histogram.MarshalJSON and the text reporter's rows (lib/reporters.go).
-/
import Vegeta.Go.Duration
namespace Vegeta.Model.Histogram
open Vegeta.Go

/-- The scan in `Histogram.Add`:
`for ; i < len(bs)-1; i++ { if lat >= bs[i] && lat < bs[i+1] { break } }`;
returns the value of `i` after the loop. -/
def bucketIndex : List Int → Int → Nat
  | [], _ => 0
  | [_], _ => 0
  | b0 :: b1 :: rest, lat =>
    if b0 ≤ lat ∧ lat < b1 then 0 else 1 + bucketIndex (b1 :: rest) lat

structure Hist where
  buckets : List Int
  counts  : List Nat
  total   : Nat
  deriving Repr, DecidableEq

def Hist.new (bs : List Int) : Hist := { buckets := bs, counts := [], total := 0 }

/-- `xs[i]++` -/
def bump : List Nat → Nat → List Nat
  | [], _ => []
  | x :: xs, 0 => (x + 1) :: xs
  | x :: xs, i+1 => x :: bump xs i

/-- `Histogram.Add`; panics (index out of range) when there are no buckets. -/
def add (h : Hist) (lat : Int) : Outcome Hist :=
  let counts := if h.counts.length ≠ h.buckets.length then List.replicate h.buckets.length 0 else h.counts
  let i := bucketIndex h.buckets lat
  if i < counts.length then
    .ok { h with counts := bump counts i, total := h.total + 1 }
  else .panic

def addAll (h : Hist) : List Int → Outcome Hist
  | [] => .ok h
  | l :: ls => match add h l with
    | .ok h' => addAll h' ls
    | .error e => .error e
    | .panic => .panic

/-! ### Buckets.UnmarshalText -/

def isAsciiSpace (c : Nat) : Bool := c == 32 || (9 ≤ c && c ≤ 13)

/-- drop one leading Unicode white-space rune (UTF-8), if any -/
def dropSpaceRune : Bytes → Option Bytes
  | c :: rest =>
    if isAsciiSpace c then some rest else
    match c, rest with
    | 0xC2, 0x85 :: r => some r
    | 0xC2, 0xA0 :: r => some r
    | 0xE1, 0x9A :: 0x80 :: r => some r
    | 0xE2, 0x80 :: x :: r =>
      if (0x80 ≤ x && x ≤ 0x8A) || x == 0xA8 || x == 0xA9 || x == 0xAF then some r else none
    | 0xE2, 0x81 :: 0x9F :: r => some r
    | 0xE3, 0x80 :: 0x80 :: r => some r
    | _, _ => none
  | [] => none

def trimLeft : Nat → Bytes → Bytes
  | 0, s => s
  | fuel+1, s => match dropSpaceRune s with
    | some r => trimLeft fuel r
    | none => s

/-- the same on the reversed string (byte order of multi-byte runes reversed) -/
def dropSpaceRuneRev : Bytes → Option Bytes
  | c :: rest =>
    if isAsciiSpace c then some rest else
    match c, rest with
    | 0x85, 0xC2 :: r => some r
    | 0xA0, 0xC2 :: r => some r
    | 0x80, 0x9A :: 0xE1 :: r => some r
    | 0x9F, 0x81 :: 0xE2 :: r => some r
    | 0x80, 0x80 :: 0xE3 :: r => some r
    | x, 0x80 :: 0xE2 :: r =>
      if (0x80 ≤ x && x ≤ 0x8A) || x == 0xA8 || x == 0xA9 || x == 0xAF then some r else none
    | _, _ => none
  | [] => none

def trimLeftRev : Nat → Bytes → Bytes
  | 0, s => s
  | fuel+1, s => match dropSpaceRuneRev s with
    | some r => trimLeftRev fuel r
    | none => s

/-- `strings.TrimSpace` -/
def trimSpace (s : Bytes) : Bytes :=
  let l := trimLeft s.length s
  (trimLeftRev l.length l.reverse).reverse

/-- `strings.Split(s, sep)` for a one-byte separator -/
def splitOn (sep : Nat) : Bytes → List Bytes
  | [] => [[]]
  | c :: rest =>
    if c == sep then [] :: splitOn sep rest
    else match splitOn sep rest with
      | [] => [[c]]          -- unreachable
      | w :: ws => (c :: w) :: ws

def eBadBuckets : Nat := 10

def unmarshalParts : List Bytes → Bool → List Int → Outcome (List Int)
  | [], _, acc => .ok acc
  | v :: vs, first, acc =>
    match Duration.parse (trimSpace v) with
    | .ok d =>
      let acc' := if first && d > 0 then acc ++ [0, d] else acc ++ [d]
      unmarshalParts vs false acc'
    | .error e => .error e
    | .panic => .panic

/-- `Buckets.UnmarshalText` starting from an empty `Buckets`. -/
def unmarshalText (value : Bytes) : Outcome (List Int) :=
  if value.length < 2 then .error eBadBuckets else
  match value, value.getLast? with
  | 91 :: rest, some 93 =>
    match unmarshalParts (splitOn 44 rest.dropLast) true [] with
    | .ok bs => if bs.isEmpty then .error eBadBuckets else .ok bs
    | o => o
  | _, _ => .error eBadBuckets

/-! ### renderings -/

/-- `Buckets.Nth(i)`; panics if `i ≥ len`. -/
def nth (bs : List Int) (i : Nat) : Outcome (Bytes × Bytes) :=
  match bs[i]? with
  | none => .panic
  | some lo =>
    if i + 1 ≥ bs.length then .ok (Duration.toString lo, [43, 73, 110, 102])  -- "+Inf"
    else match bs[i+1]? with
      | some hi => .ok (Duration.toString lo, Duration.toString hi)
      | none => .panic

def fmtInt (i : Int) : Bytes :=
  if i < 0 then 45 :: Duration.fmtNat i.natAbs else Duration.fmtNat i.natAbs

/-- `Histogram.count(i)`: a missing count reads as zero. -/
def countAt (h : Hist) (i : Nat) : Nat := (h.counts[i]?).getD 0

/-- `Histogram.MarshalJSON`: pairs (bucket, count) in bucket order. -/
def jsonPairsFrom (h : Hist) : List Int → Nat → List (Int × Nat)
  | [], _ => []
  | b :: bs, i => (b, countAt h i) :: jsonPairsFrom h bs (i+1)

def jsonPairs (h : Hist) : Outcome (List (Int × Nat)) := .ok (jsonPairsFrom h h.buckets 0)

/-- Text reporter rows `(lo, hi, count)`: one per bucket. -/
def textRowsFrom (h : Hist) : Nat → Nat → Outcome (List (Bytes × Bytes × Nat))
  | 0, _ => .ok []
  | n+1, i => match nth h.buckets i with
    | .ok (lo, hi) => match textRowsFrom h n (i+1) with
      | .ok rs => .ok ((lo, hi, countAt h i) :: rs)
      | o => o
    | .error e => .error e
    | .panic => .panic

def textRows (h : Hist) : Outcome (List (Bytes × Bytes × Nat)) := textRowsFrom h h.buckets.length 0

end Vegeta.Model.Histogram
