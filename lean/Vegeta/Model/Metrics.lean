/-
Model of lib/metrics.go: `Metrics.Add`, `LatencyMetrics.Add`, `Metrics.Close`
(percentiles P50..P99 and the optional Histogram are left out: C11 / C12).

Conventions
* An instant (`time.Time`) is an `Int`: nanoseconds since the Unix epoch, unbounded
  (Go's `time.Time` covers ±292·10⁹ years, far beyond anything `Timestamp.Add(Latency)` can
  reach from a Unix-epoch timestamp).  The *zero* `time.Time` (year 1) of a fresh
  `Metrics` is `none`; the model assumes every result's `Timestamp` and `End()` lie after
  year 1 (true for every timestamp ≥ 1970 and every `int64` latency), so that
  `IsZero()` holds for the initial state only and `x.After(zero)` is true.
* `time.Duration`, `int64`: `Int` with `wrapS64` where Go wraps; `uint64` totals: `Nat`
  reduced modulo 2^64.  `Requests++`, `success++` and the `int` map values are not wrapped
  (one increment per result: cannot wrap for fewer than 2^63 results).
* `map[string]int` keyed by `strconv.Itoa(int(Code))`: association list keyed by the code
  itself, kept strictly sorted by code (the canonical form of a finite map).
* `m.errors` (set) and `m.Errors` (slice) hold the same texts; the model keeps the slice and
  tests membership in it.
* Float fields via `Vegeta.Go.F64` (bit-exact binary64).
-/
import Vegeta.Go.Proto
import Vegeta.Go.SoftF64
namespace Vegeta.Model.Metrics
open Vegeta.Go

structure Result where
  code      : Nat      -- uint16
  timestamp : Int      -- ns since the Unix epoch
  latency   : Int      -- time.Duration
  bytesOut  : Nat      -- uint64
  bytesIn   : Nat      -- uint64
  error     : Bytes
  deriving Repr, DecidableEq

/-- Fields written by `Add` (and read by `Close`). -/
structure Acc where
  requests      : Nat
  statusCodes   : List (Nat × Nat)
  bytesInTotal  : Nat
  bytesOutTotal : Nat
  latTotal      : Int
  latMax        : Int
  latMin        : Int
  estInit       : Bool        -- `l.estimator != nil`: set by the first `LatencyMetrics.Add`
  earliest      : Option Int
  latest        : Option Int
  end_          : Option Int
  success       : Nat
  errors        : List Bytes
  deriving Repr, DecidableEq

/-- Fields written by `Close` only. -/
structure Derived where
  duration     : Int
  wait         : Int
  rate         : F64
  throughput   : F64
  successRatio : F64
  bytesInMean  : F64
  bytesOutMean : F64
  latMean      : Int
  deriving Repr, DecidableEq

structure Metrics where
  acc : Acc
  der : Derived
  deriving Repr, DecidableEq

def Acc.init : Acc :=
  { requests := 0, statusCodes := [], bytesInTotal := 0, bytesOutTotal := 0, latTotal := 0,
    latMax := 0, latMin := 0, estInit := false, earliest := none, latest := none, end_ := none, success := 0, errors := [] }

def Derived.init : Derived :=
  { duration := 0, wait := 0, rate := F64.posZero, throughput := F64.posZero, successRatio := F64.posZero,
    bytesInMean := F64.posZero, bytesOutMean := F64.posZero, latMean := 0 }

/-- `var m vegeta.Metrics` -/
def Metrics.init : Metrics := { acc := Acc.init, der := Derived.init }

/-- `m.StatusCodes[strconv.Itoa(int(r.Code))]++` on the sorted association list. -/
def bumpCode (c : Nat) : List (Nat × Nat) → List (Nat × Nat)
  | [] => [(c, 1)]
  | (k, v) :: t =>
    if c < k then (c, 1) :: (k, v) :: t
    else if c = k then (k, v + 1) :: t
    else (k, v) :: bumpCode c t

/-- `LatencyMetrics.Add`, the `Min` part: `first := l.estimator == nil; …; if first || latency < l.Min { l.Min = latency }`
(`Quantile` has a value receiver, so only `Add` initialises the estimator in place). -/
def minStep (init : Bool) (mn lat : Int) : Int := if init = false ∨ lat < mn then lat else mn

/-- `if latency > l.Max { l.Max = latency }` -/
def maxStep (mx lat : Int) : Int := if lat > mx then lat else mx

/-- `if m.Earliest.IsZero() || m.Earliest.After(r.Timestamp) { m.Earliest = r.Timestamp }` -/
def stepEarliest (e : Option Int) (ts : Int) : Option Int :=
  match e with
  | none => some ts
  | some e => if e > ts then some ts else some e

/-- `if t.After(cur) { cur = t }` starting from the zero time (used for `Latest` and `End`). -/
def stepLatest (l : Option Int) (t : Int) : Option Int :=
  match l with
  | none => some t
  | some l => if t > l then some t else some l

/-- the error set: `if _, ok := m.errors[e]; !ok { …; m.Errors = append(m.Errors, e) }` for `e != ""` -/
def stepErrors (errs : List Bytes) (e : Bytes) : List Bytes :=
  if e = [] then errs else if e ∈ errs then errs else errs ++ [e]

def isSuccess (code : Nat) : Bool := 200 ≤ code && code < 400

def addAcc (a : Acc) (r : Result) : Acc :=
  { requests      := a.requests + 1
    statusCodes   := bumpCode r.code a.statusCodes
    bytesOutTotal := (a.bytesOutTotal + r.bytesOut) % two64
    bytesInTotal  := (a.bytesInTotal + r.bytesIn) % two64
    latTotal      := wrapS64 (a.latTotal + r.latency)
    latMax        := maxStep a.latMax r.latency
    latMin        := minStep a.estInit a.latMin r.latency
    estInit       := true
    earliest      := stepEarliest a.earliest r.timestamp
    latest        := stepLatest a.latest r.timestamp
    end_          := stepLatest a.end_ (r.timestamp + r.latency)
    success       := if isSuccess r.code then a.success + 1 else a.success
    errors        := stepErrors a.errors r.error }

/-- `Metrics.Add` -/
def add (m : Metrics) (r : Result) : Metrics := { m with acc := addAcc m.acc r }

/-- `t.Sub(u)`: the difference, saturated to the `int64` range. -/
def satSub (t u : Int) : Int :=
  let d := t - u
  if d > maxInt64 then maxInt64 else if d < minInt64 then minInt64 else d

/-- `Duration.Seconds()`: `float64(d/Second) + float64(d%Second)/1e9` -/
def seconds (d : Int) : F64 :=
  F64.add (F64.ofInt (Int.tdiv d 1000000000)) (F64.div (F64.ofInt (Int.tmod d 1000000000)) (F64.ofDecimal 1 9))

/-- The body of `Close` after the `Requests == 0` guard, given the three instants. -/
def derive (a : Acc) (e l n : Int) : Derived :=
  let duration := satSub l e
  let wait := satSub n l
  let rate0 := F64.ofNat a.requests
  let thr0 := F64.ofNat a.success
  let secs := seconds duration
  let pos := F64.lt F64.posZero secs
  { duration := duration
    wait := wait
    rate := if pos then F64.div rate0 secs else rate0
    throughput := if pos then F64.div thr0 (seconds (wrapS64 (duration + wait))) else thr0
    bytesInMean := F64.div (F64.ofNat a.bytesInTotal) (F64.ofNat a.requests)
    bytesOutMean := F64.div (F64.ofNat a.bytesOutTotal) (F64.ofNat a.requests)
    successRatio := F64.div (F64.ofNat a.success) (F64.ofNat a.requests)
    latMean := F64.toInt64 (F64.div (F64.ofInt a.latTotal) (F64.ofNat a.requests)) }

/-- `Metrics.Close`: nothing when there are no requests; otherwise every derived field is
recomputed from the accumulators.  The last branch (requests without instants) is
unreachable from `Metrics.init` (theorem `instants_set` in Props/C10). -/
def close (m : Metrics) : Metrics :=
  if m.acc.requests = 0 then m else
  match m.acc.earliest, m.acc.latest, m.acc.end_ with
  | some e, some l, some n => { m with der := derive m.acc e l n }
  | _, _, _ => m

/-- One call on a report, as `report.go` issues them: `Add` per result, `Close` at every tick and at the end. -/
inductive Op where
  | add : Result → Op
  | close : Op
  deriving Repr, DecidableEq

def step (m : Metrics) : Op → Metrics
  | .add r => add m r
  | .close => close m

def run (m : Metrics) (ops : List Op) : Metrics := ops.foldl step m

def addAll (m : Metrics) (rs : List Result) : Metrics := rs.foldl add m

/-- What an observer sees: the exported fields (without percentiles). -/
structure Report where
  requests      : Nat
  statusCodes   : List (Nat × Nat)
  bytesInTotal  : Nat
  bytesInMean   : F64
  bytesOutTotal : Nat
  bytesOutMean  : F64
  latTotal      : Int
  latMean       : Int
  latMax        : Int
  latMin        : Int
  earliest      : Option Int
  latest        : Option Int
  end_          : Option Int
  duration      : Int
  wait          : Int
  rate          : F64
  throughput    : F64
  successRatio  : F64
  errors        : List Bytes
  deriving Repr, DecidableEq

def report (m : Metrics) : Report :=
  { requests := m.acc.requests, statusCodes := m.acc.statusCodes,
    bytesInTotal := m.acc.bytesInTotal, bytesInMean := m.der.bytesInMean,
    bytesOutTotal := m.acc.bytesOutTotal, bytesOutMean := m.der.bytesOutMean,
    latTotal := m.acc.latTotal, latMean := m.der.latMean, latMax := m.acc.latMax, latMin := m.acc.latMin,
    earliest := m.acc.earliest, latest := m.acc.latest, end_ := m.acc.end_,
    duration := m.der.duration, wait := m.der.wait, rate := m.der.rate, throughput := m.der.throughput,
    successRatio := m.der.successRatio, errors := m.acc.errors }

end Vegeta.Model.Metrics
