/-
Trace acceptor for the controlled-schedule conformance check (C02/C03): the harness drives the
real `Attack` with external commands (release the pacer, release a transport, receive a result,
call Stop, switch the targeter to failing) and observes the quiescent state after each; this
file computes the set of quiescent model states the transition system allows after the same
commands and checks that the observation is one of them (implementation ⊆ model; Go's `select`
choice is model nondeterminism).
-/
import Vegeta.Model.Attack
namespace Vegeta.Model.Attack

inductive Cmd where
  | P | Pstop | T (s : Nat) | R | S | F | G
  deriving Repr, DecidableEq

/-- what the harness can see at quiescence -/
structure Obs where
  paceBlocked : Bool          -- the main loop is inside Pacer.Pace
  count       : Nat           -- hits argument of that (or the last) Pace call
  inTransport : List Nat      -- sequence numbers currently inside the transport, ascending
  delivered   : List Nat      -- sequence numbers received by the consumer, in order
  closed      : Bool          -- the consumer has seen the channel closed
  alive       : Nat           -- attack goroutines still alive (main loop + workers)
  deriving Repr, DecidableEq

def insertSorted (x : Nat) : List Nat → List Nat
  | [] => [x]
  | y :: ys => if x ≤ y then x :: y :: ys else y :: insertSorted x ys

def sortNat (l : List Nat) : List Nat := l.foldr insertSorted []

def obsOf (s : St) (sawClosed : Bool) : Obs :=
  { paceBlocked := s.pc == .pace,
    count := s.count,
    inTransport := sortNat ((s.hits.filter fun h => h.phase == .hitting && h.entered.isSome && h.left.isNone).map (·.seq)),
    delivered := s.delivered.reverse,
    closed := sawClosed,
    alive := (s.nworkers - s.exited) + (if s.pc == .done then 0 else 1) }

/-- internal steps the implementation takes on its own (no harness command needed) -/
def tauLabels (s : St) (failMode : Bool) : List Lbl :=
  [.wake, .tick, .seeStop, .spawn, .closeTicks, .wgDone, .closeResults, .finalStop, .ready, .exit, .csEnter, .csLeave] ++
  (List.range s.hits.length).flatMap fun i =>
    [if failMode then Lbl.tgtErr i else Lbl.enter i, Lbl.stopRet i] ++
    (match s.hits[i]? with
     | some h => if h.left.isSome then [Lbl.finish i] else []
     | none => [])

def tauSucc (s : St) (failMode : Bool) : List St := (tauLabels s failMode).filterMap (step s)

/-- all quiescent states reachable by internal steps (depth-first, with a visited list) -/
def closure : Nat → Bool → List St → List St → List St → List St
  | 0, _, _, _, acc => acc
  | _, _, [], _, acc => acc
  | fuel+1, fm, s :: todo, seen, acc =>
    if seen.contains s then closure fuel fm todo seen acc else
    let succ := tauSucc s fm
    if succ.isEmpty then closure fuel fm todo (s :: seen) (if acc.contains s then acc else s :: acc)
    else closure fuel fm (succ ++ todo) (s :: seen) acc

def quiesce (fm : Bool) (ss : List St) : List St := closure 100000 fm ss [] []

/-- result of a command as seen by the harness -/
inductive CmdObs where
  | none                -- nothing to report (P, Pstop, T, F, G)
  | got (s : Nat)       -- R received the result with this sequence number
  | nothing             -- R timed out: nobody is sending and the channel is open
  | closed              -- R saw the channel closed
  | stopped (b : Bool)  -- S returned b
  deriving Repr, DecidableEq

structure ASt where
  states    : List St
  failMode  : Bool
  sawClosed : Bool

def applyCmd (a : ASt) (c : Cmd) (co : CmdObs) : ASt :=
  match c, co with
  | .P, _ => { a with states := a.states.filterMap (step · (.paceWait 0)) }
  | .Pstop, _ => { a with states := a.states.filterMap (step · .paceStop) }
  | .T i, _ => { a with states := a.states.filterMap (step · (.leave i)) }
  | .F, _ => { a with failMode := true }
  | .G, _ => { a with failMode := false }
  | .R, .got i => { a with states := a.states.filterMap fun s => if s.resultsClosed then none else step s (.deliver i) }
  | .R, .nothing => { a with states := a.states.filter fun s =>
      !s.resultsClosed && (s.hits.all fun h => h.phase != .sending) }
  | .R, .closed => { a with states := a.states.filter (·.resultsClosed), sawClosed := true }
  | .S, .stopped b => { a with states := a.states.filterMap fun s =>
      if (!s.stopClosed) == b then step s .stop else none }
  | _, _ => { a with states := [] }

/-- Process commands with their observations; returns the index of the first command whose
observation no model execution explains, or `none` when the whole trace is accepted. -/
def accept : ASt → Nat → List (Cmd × CmdObs × Obs) → Option Nat
  | _, _, [] => none
  | a, k, (c, co, o) :: rest =>
    let a1 := applyCmd a c co
    let qs := quiesce a1.failMode a1.states
    let ok := qs.filter fun s => obsOf s a1.sawClosed == o
    if ok.isEmpty then some k else accept { a1 with states := ok } (k + 1) rest

def acceptRun (workers maxW : Nat) (o0 : Obs) (tr : List (Cmd × CmdObs × Obs)) : Option Nat :=
  let q0 := quiesce false [init workers maxW 0]
  let ok := q0.filter fun s => obsOf s false == o0
  if ok.isEmpty then some 0 else (accept { states := ok, failMode := false, sawClosed := false } 1 tr)

/-- what the model allows at this point (for diagnostics) -/
def allowed (a : ASt) (c : Cmd) (co : CmdObs) : List Obs :=
  let a1 := applyCmd a c co
  (quiesce a1.failMode a1.states).map (obsOf · a1.sawClosed)

end Vegeta.Model.Attack
