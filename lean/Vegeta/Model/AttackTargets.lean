/-
Model of the attack command's target selection (attack.go, "var tr vegeta.Targeter … switch
opts.format … if !opts.lazy { … }") and of `NewStaticTargeter` as it is used there:

    switch opts.format {
    case vegeta.JSONTargetFormat: tr = vegeta.NewJSONTargeter(src, body, hdr)
    case vegeta.HTTPTargetFormat: tr = vegeta.NewHTTPTargeter(src, body, hdr)
    default: return fmt.Errorf("format %q isn't one of [%s]", …)
    }
    if !opts.lazy {
        targets, err := vegeta.ReadAllTargets(tr)
        if err != nil { return err }
        tr = vegeta.NewStaticTargeter(targets...)
    }

The stream targeter is any state machine `step : S → Outcome T × S` (the http and the JSON
targeter of `HTTPTargets` / `JSONTargets` are the two instances); `-header` and `-body` reach it
as the `hdr`/`body` fields of its configuration.
-/
import Vegeta.Model.HTTPTargets
import Vegeta.Model.JSONTargets
import Vegeta.Model.TargeterConc
namespace Vegeta.Model.AttackTargets
open Vegeta.Go
open Vegeta.Model.HTTPTargets (readAllLoop eNoTargets)

/-- what the attacker's workers draw from: the stream targeter itself (`-lazy`), or a static
targeter over everything `ReadAllTargets` returned, with its counter (starts at -1) -/
inductive Picked (S T : Type) where
  | stream : S → Picked S T
  | static : List T → Int → Picked S T

/-- `if !opts.lazy { targets, err := ReadAllTargets(tr); if err != nil { return err }; tr = NewStaticTargeter(targets...) }` -/
def selectTargeter {S T : Type} (step : S → Outcome T × S) (fuel : Nat) (lazy : Bool) (s : S) : Outcome (Picked S T) :=
  if lazy then .ok (.stream s)
  else
    match readAllLoop step fuel s [] with
    | (.ok ts, _) => .ok (.static ts (-1))
    | (.error e, _) => .error e
    | (.panic, _) => .panic

/-- one call of the static targeter's closure: `*tgt = tgts[atomic.AddInt64(&i, 1) % int64(len(tgts))]` -/
def staticDraw {T : Type} (ts : List T) (i : Int) : Outcome T × Int :=
  let v := wrapS64 (i + 1)
  match TargeterConc.sindex ts.length v with
  | .ok j =>
    match ts[j]? with
    | some t => (.ok t, v)
    | none => (.panic, v)
  | .error e => (.error e, v)
  | .panic => (.panic, v)

/-- one draw by the attacker (`tr(&tgt)` in `hit`) -/
def draw {S T : Type} (step : S → Outcome T × S) : Picked S T → Outcome T × Picked S T
  | .stream s => ((step s).1, .stream (step s).2)
  | .static ts i => ((staticDraw ts i).1, .static ts (staticDraw ts i).2)

/-- `n` successive draws (one worker) -/
def draws {S T : Type} (step : S → Outcome T × S) : Nat → Picked S T → List (Outcome T)
  | 0, _ => []
  | n + 1, p => (draw step p).1 :: draws step n (draw step p).2

/-! ### the format switch -/

def fmtJSON : Bytes := [106, 115, 111, 110]
def fmtHTTP : Bytes := [104, 116, 116, 112]
def eBadFormat : Nat := 20

inductive Chosen where
  | json : Picked Bytes JSONTargets.JRec → Chosen
  | http : Picked HTTPTargets.St HTTPTargets.Target → Chosen

/-- the targeter `attack()` hands to the attacker; `cfgJ`/`cfgH` carry the `-header` and `-body`
defaults (both are built from the same `hdr`, `body` variables), `src` is the targets file -/
def attackTargeter (format : Bytes) (lazy : Bool) (cfgJ : JSONTargets.Cfg) (cfgH : HTTPTargets.Cfg)
    (src : Bytes) (heap : HTTPTargets.Heap) : Outcome Chosen :=
  if format = fmtJSON then
    match selectTargeter (JSONTargets.call cfgJ) (src.length + 2) lazy src with
    | .ok p => .ok (.json p)
    | .error e => .error e
    | .panic => .panic
  else if format = fmtHTTP then
    let st : HTTPTargets.St := { ps := HTTPTargets.PS.init src, heap := heap }
    match selectTargeter (HTTPTargets.call cfgH) (st.ps.rest.length + 3) lazy st with
    | .ok p => .ok (.http p)
    | .error e => .error e
    | .panic => .panic
  else .error eBadFormat

end Vegeta.Model.AttackTargets
