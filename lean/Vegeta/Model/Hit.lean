/-
Model of `(*Attacker).hit` (lib/attack.go:536-619), `Target.Request` (lib/targets.go:33-54)
and the `Redirects` policy (lib/attack.go:141-155).

External calls are parameters:
* `url.Parse` / the error texts of `http.NewRequest`      → `UrlInfo`
* `http.Client.Do` (transport, redirect loop, `url.Error`) → `Exchange` (what the transport
  answers hop by hop) plus `clientDo`, which only reproduces how the client consults
  `CheckRedirect` (the closure installed by `Redirects(n)`);
* the response body → the reader algebra below (`BodySt`, `pump`), with an arbitrary
  chunk-size oracle.
The model follows the code literally, including the early returns on a body read error:
`res.Body` holds the bytes read so far and (since fix bc20399, DESIGN §8 #7) `BytesIn` and
`BytesOut` are assigned before those returns; `Code` and `Headers` stay at their zero values.
-/
import Vegeta.Go.Duration
namespace Vegeta.Model.Hit
open Vegeta.Go

/-- `http.Header`: a Go map, here an association list with pairwise distinct keys
(keys are compared byte for byte: `Host` and `host` are different keys). -/
abbrev Header := List (Bytes × List Bytes)

structure Target where
  method : Bytes
  url    : Bytes
  body   : Bytes
  header : Header
  deriving Repr, DecidableEq

/-- What `url.Parse` inside `http.NewRequest` says about the target's URL, and the text
of the error `http.NewRequest` returns when it fails (external, parameters). -/
structure UrlInfo where
  ok      : Bool
  str     : Bytes     -- `URL.String()` of the parsed URL
  host    : Bytes     -- `URL.Host` (empty port removed)
  errText : Bytes     -- text of the `http.NewRequest` error, if it fails
  deriving Repr, DecidableEq

structure Cfg where
  maxBody   : Int
  chunked   : Bool
  redirects : Option Int   -- `none`: the `Redirects` option was never applied (net/http default policy)
  name      : Bytes
  deriving Repr, DecidableEq

/-! ### Headers -/

def hLookup (h : Header) (k : Bytes) : Option (List Bytes) :=
  match h with
  | [] => none
  | (k', vs) :: r => if k' = k then some vs else hLookup r k

/-- `Header.Get(key)` for an already canonical key: first value stored under exactly that key. -/
def hGet (h : Header) (k : Bytes) : Bytes :=
  match hLookup h k with
  | some (v :: _) => v
  | _ => []

/-- `Header.Set(key, v)` for an already canonical key: `h[key] = []string{v}`. -/
def hSet (h : Header) (k : Bytes) (v : Bytes) : Header :=
  match h with
  | [] => [(k, [v])]
  | (k', vs) :: r => if k' = k then (k, [v]) :: r else (k', vs) :: hSet r k v

def keyHost : Bytes := [72, 111, 115, 116]                                             -- "Host"
def keyAttack : Bytes := [88, 45, 86, 101, 103, 101, 116, 97, 45, 65, 116, 116, 97, 99, 107]  -- "X-Vegeta-Attack"
def keySeq : Bytes := [88, 45, 86, 101, 103, 101, 116, 97, 45, 83, 101, 113]           -- "X-Vegeta-Seq"
def teChunked : Bytes := [99, 104, 117, 110, 107, 101, 100]                            -- "chunked"
def methodGet : Bytes := [71, 69, 84]                                                  -- "GET"

/-! ### Target.Request -/

/-- `httpguts.IsTokenRune` restricted to bytes (non-ASCII runes are not tokens). -/
def isTokenByte (c : Nat) : Bool :=
  (48 ≤ c && c ≤ 57) || (65 ≤ c && c ≤ 90) || (97 ≤ c && c ≤ 122) ||
  c == 33 || c == 35 || c == 36 || c == 37 || c == 38 || c == 39 || c == 42 || c == 43 ||
  c == 45 || c == 46 || c == 94 || c == 95 || c == 96 || c == 124 || c == 126

/-- `validMethod` of net/http. -/
def validMethod (m : Bytes) : Bool := !m.isEmpty && m.all isTokenByte

/-- The request as the transport sees it. -/
structure RequestSeen where
  method   : Bytes
  url      : Bytes
  host     : Bytes
  body     : Option Bytes       -- `none`: `req.Body == nil`
  contentLength : Int
  transferEncoding : List Bytes
  header   : Header
  deriving Repr, DecidableEq

/-- `Target.Request()`: `http.NewRequest(method, url, body)` (empty method means GET, empty body
is a nil body, ContentLength is the body length), header copy without canonicalisation,
`Header.Get("Host")` overrides the host. -/
def request (t : Target) (u : UrlInfo) : Except Bytes RequestSeen :=
  let m := if t.method.isEmpty then methodGet else t.method
  if !validMethod m then .error u.errText
  else if !u.ok then .error u.errText
  else
    let hdr : Header := t.header.map fun (k, vs) => (k, vs)
    let host := if hGet hdr keyHost ≠ [] then hGet hdr keyHost else u.host
    .ok { method := m, url := u.str, host := host,
          body := if t.body.length ≠ 0 then some t.body else none,
          contentLength := t.body.length, transferEncoding := [], header := hdr }

/-! ### Redirect policy -/

inductive RedirectDecision where
  | useLast | stop | follow
  deriving Repr, DecidableEq

def noFollow : Int := -1

/-- The `CheckRedirect` closure of `Redirects(n)`, `via` = number of requests made so far. -/
def checkRedirect (n : Int) (via : Nat) : RedirectDecision :=
  if n = noFollow then .useLast
  else if n < (via : Int) then .stop
  else .follow

/-- net/http's `defaultCheckRedirect` (used when `Redirects` was never applied). -/
def defaultCheckRedirect (via : Nat) : RedirectDecision := if via ≥ 10 then .stop else .follow

def fmtInt (i : Int) : Bytes :=
  if i < 0 then 45 :: Duration.fmtNat i.natAbs else Duration.fmtNat i.natAbs

/-- `fmt.Errorf("stopped after %d redirects", n)` -/
def stoppedText (n : Int) : Bytes :=
  [115, 116, 111, 112, 112, 101, 100, 32, 97, 102, 116, 101, 114, 32] ++ fmtInt n ++
  [32, 114, 101, 100, 105, 114, 101, 99, 116, 115]

/-! ### The exchange (what the outside world does) -/

/-- A response as returned by the transport. -/
structure Resp where
  status     : Int
  statusText : Bytes             -- `r.Status`
  header     : Header
  body       : Bytes
  failAfter  : Option Nat        -- `some k`: the body delivers `k` bytes, then `Read` returns an error
  readErr    : Bytes             -- text of that error
  endWithData : Bool             -- the final `Read` returns its bytes together with EOF / the error
  declared   : Int := -1         -- `r.ContentLength` as the transport reports it (-1 unknown; for the answer to a
                                 -- HEAD request the entity's length although no body is delivered). `hit` never reads it.
  deriving Repr, DecidableEq

/-- A redirect response (3xx with a Location) answered before the final one. -/
structure Hop where
  resp : Resp
  stopPrefix : Bytes   -- `url.Error` prefix (`Get "<location>": `) the client puts before a CheckRedirect error
  deriving Repr, DecidableEq

inductive Final where
  | transportErr (text : Bytes)   -- text of the `*url.Error` returned by `client.Do`
  | response (r : Resp)
  deriving Repr, DecidableEq

structure Exchange where
  hops   : List Hop
  final  : Final
  chunks : List Nat     -- chunk-size oracle of the response body handed to `hit`
  deriving Repr, DecidableEq

inductive DoResult where
  | err (text : Bytes)
  | resp (r : Resp)
  deriving Repr, DecidableEq

/-- `client.Do`: the redirect loop as far as it depends on vegeta's `CheckRedirect`.
`via` = requests made so far (1 when the first response arrives). -/
def clientDo (policy : Option Int) : Nat → List Hop → Final → DoResult
  | _, [], .transportErr t => .err t
  | _, [], .response r => .resp r
  | via, h :: hs, fin =>
    let d := match policy with
      | some n => checkRedirect n via
      | none => defaultCheckRedirect via
    match d with
    | .useLast => .resp h.resp
    | .stop => .err (h.stopPrefix ++ (match policy with
        | some n => stoppedText n
        | none => stoppedText 10))
    | .follow => clientDo policy (via + 1) hs fin

/-! ### Reader algebra -/

/-- Events on the response body. -/
inductive Ev where
  | read (n : Nat)   -- a `Read` that delivered `n ≥ 1` bytes
  | eof              -- a `Read` reported `io.EOF`
  | err              -- a `Read` reported the read error
  | close
  deriving Repr, DecidableEq

/-- State of a response body. -/
structure BodySt where
  data   : Bytes        -- bytes not yet delivered
  fails  : Bool         -- the stream ends with an error instead of EOF
  endWithData : Bool
  chunks : List Nat     -- chunk-size oracle (a `Read` may return fewer bytes than asked for)
  log    : List Ev
  deriving Repr, DecidableEq

def BodySt.ofResp (r : Resp) (chunks : List Nat) : BodySt :=
  match r.failAfter with
  | some k => { data := r.body.take k, fails := true, endWithData := r.endWithData, chunks := chunks, log := [] }
  | none => { data := r.body, fails := false, endWithData := r.endWithData, chunks := chunks, log := [] }

def termEv (fails : Bool) : Ev := if fails then .err else .eof

/-- the chunk-size oracle's answer for the next `Read` (at least one byte) -/
def BodySt.chunk (s : BodySt) : Nat :=
  match s.chunks with
  | [] => s.data.length
  | c :: _ => if c = 0 then 1 else c

/-- number of bytes the next `Read(p)` delivers, `len(p) = want` (`none`: as much room as needed) -/
def BodySt.readLen (s : BodySt) (want : Option Nat) : Nat :=
  match want with
  | none => min s.chunk s.data.length
  | some w => min (min s.chunk w) s.data.length

/-- One `Read(p)` on the body with `len(p) = want`.
Returns the bytes, and `some isErr` when the call also reported EOF / the error. -/
def BodySt.read (s : BodySt) (want : Option Nat) : (Bytes × Option Bool) × BodySt :=
  if s.data.length = 0 then
    (([], some s.fails), { s with log := s.log ++ [termEv s.fails] })
  else if s.readLen want = s.data.length ∧ s.endWithData = true then
    ((s.data, some s.fails),
     { s with data := [], chunks := s.chunks.tail, log := s.log ++ [.read (s.readLen want), termEv s.fails] })
  else
    ((s.data.take (s.readLen want), none),
     { s with data := s.data.drop (s.readLen want), chunks := s.chunks.tail, log := s.log ++ [.read (s.readLen want)] })

/-- `io.ReadAll(io.LimitReader(body, n))` (`lim = some n`), `io.ReadAll(body)` and
`io.Copy(io.Discard, body)` (`lim = none`): read until the limit is used up (the limited
reader then answers EOF without touching the body), EOF or an error.
Returns the bytes read and whether the loop ended with the error. -/
def pump : Nat → Option Nat → BodySt → Bytes → (Bytes × Bool) × BodySt
  | 0, _, s, acc => ((acc, false), s)
  | fuel+1, lim, s, acc =>
    if lim = some 0 then ((acc, false), s) else
    match s.read lim with
    | ((bs, some e), s') => ((acc ++ bs, e), s')
    | ((bs, none), s') => pump fuel (lim.map (· - bs.length)) s' (acc ++ bs)

/-! ### hit -/

structure Result where
  attack   : Bytes
  seq      : Nat
  code     : Nat
  bytesOut : Nat
  bytesIn  : Nat
  error    : Bytes
  body     : Bytes
  method   : Bytes
  url      : Bytes
  headers  : Option Header      -- `none`: nil map
  deriving Repr, DecidableEq

structure Out where
  res      : Result
  req      : Option RequestSeen   -- the request handed to `client.Do` (first request reaching the transport)
  obtained : Bool                 -- `client.Do` returned a response to `hit`
  bodyLog  : List Ev              -- what `hit` did with that response's body
  stopped  : Bool                 -- `a.Stop()` was called (targeter error)
  deriving Repr, DecidableEq

def Result.zero (name : Bytes) (seq : Nat) : Result :=
  { attack := name, seq := seq, code := 0, bytesOut := 0, bytesIn := 0, error := [], body := [],
    method := [], url := [], headers := none }

/-- `uint16(r.StatusCode)` -/
def toUint16 (i : Int) : Nat := (i % 65536).toNat

/-- The part of `hit` after `client.Do` returned a response:
`if req.ContentLength != -1 { res.BytesOut = … }`, `res.Body, err = io.ReadAll(body)`,
`res.BytesIn = uint64(len(res.Body))`, and only then the early returns on a read error
(in `ReadAll` or in the drain `io.Copy(io.Discard, r.Body)`). -/
def consume (cfg : Cfg) (res0 : Result) (req : RequestSeen) (r : Resp) (chunks : List Nat) : Out :=
  let s0 := BodySt.ofResp r chunks
  let fuel := s0.data.length + 1
  let lim : Option Nat := if cfg.maxBody ≥ 0 then some cfg.maxBody.toNat else none
  let res1 : Result := { res0 with
    bytesOut := if req.contentLength ≠ -1 then (wrapU64 req.contentLength).toNat else res0.bytesOut }
  match pump fuel lim s0 [] with
  | ((body, true), s1) =>
    -- `err != nil` after ReadAll → return; deferred Close, deferred `res.Error = err.Error()`
    { res := { res1 with body := body, bytesIn := body.length, error := r.readErr }, req := some req, obtained := true,
      bodyLog := s1.log ++ [.close], stopped := false }
  | ((body, false), s1) =>
    match pump fuel none s1 [] with
    | ((_, true), s2) =>
      { res := { res1 with body := body, bytesIn := body.length, error := r.readErr }, req := some req, obtained := true,
        bodyLog := s2.log ++ [.close], stopped := false }
    | ((_, false), s2) =>
      let code := toUint16 r.status
      { res := { res1 with body := body, bytesIn := body.length,
                           code := code,
                           error := if code < 200 ∨ code ≥ 400 then r.statusText else [],
                           headers := some r.header },
        req := some req, obtained := true, bodyLog := s2.log ++ [.close], stopped := false }

/-- `hit` once the targeter has produced `t`. -/
def hit (t : Target) (u : UrlInfo) (cfg : Cfg) (seq : Nat) (ex : Exchange) : Out :=
  let res0 : Result := { (Result.zero cfg.name seq) with method := t.method, url := t.url }
  match request t u with
  | .error e => { res := { res0 with error := e }, req := none, obtained := false, bodyLog := [], stopped := false }
  | .ok req0 =>
    let h1 := if cfg.name ≠ [] then hSet req0.header keyAttack cfg.name else req0.header
    let h2 := hSet h1 keySeq (Duration.fmtNat seq)
    let te := if cfg.chunked then req0.transferEncoding ++ [teChunked] else req0.transferEncoding
    let req : RequestSeen := { req0 with header := h2, transferEncoding := te }
    match clientDo cfg.redirects 1 ex.hops ex.final with
    | .err text => { res := { res0 with error := text }, req := some req, obtained := false, bodyLog := [], stopped := false }
    | .resp r => consume cfg res0 req r ex.chunks

/-- `hit` when the targeter fails: the attack is stopped, the result carries only the error. -/
def hitNoTarget (cfg : Cfg) (seq : Nat) (errText : Bytes) : Out :=
  { res := { (Result.zero cfg.name seq) with error := errText }, req := none, obtained := false, bodyLog := [], stopped := true }

/-! ### several hits of one attack, and the command's glue -/

/-- one call of `hit`: the targeter fails, or it yields a target and the world answers -/
inductive Call where
  | noTarget (err : Bytes)
  | target (t : Target) (u : UrlInfo) (ex : Exchange)
  deriving Repr, DecidableEq

def callOut (cfg : Cfg) (seq : Nat) : Call → Out
  | .noTarget e => hitNoTarget cfg seq e
  | .target t u ex => hit t u cfg seq ex

/-- Successive calls of `hit` on one attacker and one attack: the only state carried from call to
call is `atk.seq` (`res.Seq = atk.seq; atk.seq++` under the mutex, a `uint64`). -/
def hitMany (cfg : Cfg) : Nat → List Call → List Out
  | _, [] => []
  | seq, c :: cs => callOut cfg seq c :: hitMany cfg ((seq + 1) % two64) cs

/-- The flags of `vegeta attack` that reach `hit` (attack.go): `-max-body` (default
`vegeta.DefaultMaxBody` = -1), `-redirects` (default `vegeta.DefaultRedirects` = 10),
`-chunked`, `-name`. -/
structure AttackFlags where
  maxBody   : Int := -1
  redirects : Int := 10
  chunked   : Bool := false
  name      : Bytes := []
  deriving Repr, DecidableEq

/-- `vegeta.NewAttacker(vegeta.Redirects(opts.redirects), …, vegeta.MaxBody(opts.maxBody), …,
vegeta.ChunkedBody(opts.chunked), …)` and `atk.Attack(tr, opts.rate, opts.duration, opts.name)`:
the `Redirects` option is ALWAYS applied by the command, also with the default value. -/
def cmdCfg (f : AttackFlags) : Cfg :=
  { maxBody := f.maxBody, chunked := f.chunked, redirects := some f.redirects, name := f.name }

end Vegeta.Model.Hit
