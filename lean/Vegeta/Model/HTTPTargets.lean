/-
Model of `NewHTTPTargeter` (lib/targets.go:262-380): the `peekingScanner` with its one-line
lookahead (`peeked == ""` conflation included), `bufio.ScanLines`, the skip rules, the request
line, the peek rule with its comment-skipping loop (fix c9e79da), the header loop, `@file` bodies
and the default merge, which **copies** the default header slices (fix 84aa239).  Slices are
`(array id, len, cap)` over an explicit heap, `append` writes in place when `len < cap` and
reallocates otherwise, so that "a later target rewrites an earlier one" is expressible — and is
proved impossible (Props/C14 `earlier_targets_stable`).  The behaviour before the two fixes is
kept as `Props/C14` `*_old_counterexample`.

Parameters (external calls): `validURI` (`url.ParseRequestURI`), `fs` (`os.ReadFile`).
Left out: the 64 KiB token limit of `bufio.Scanner`, I/O errors of the reader (`sc.Err()` is
always nil), the `tgt == nil` check.
-/
import Vegeta.Model.Histogram
namespace Vegeta.Model.HTTPTargets
open Vegeta.Go
open Vegeta.Model.Histogram (trimSpace)

/-! ### bufio.Scanner with bufio.ScanLines -/

/-- Split at every `'\n'`; a final line without terminator is still returned when non-empty
(`ScanLines`: `if atEOF && len(data) == 0` → no token, `if atEOF` → the rest). -/
def scanLines : Bytes → List Bytes
  | [] => []
  | c :: rest =>
    if c = 10 then [] :: scanLines rest
    else match scanLines rest with
      | [] => [[c]]
      | l :: ls => (c :: l) :: ls

/-- `dropCR`: one trailing `'\r'` is removed from a token. -/
def dropCR (l : Bytes) : Bytes := if l.getLast? = some 13 then l.dropLast else l

/-- All tokens the scanner will deliver for this input. -/
def srcLines (src : Bytes) : List Bytes := (scanLines src).map dropCR

/-! ### peekingScanner -/

structure PS where
  rest   : List Bytes     -- tokens `src.Scan()` will still deliver
  cur    : Bytes          -- `src.Text()`
  peeked : Bytes
  deriving Repr, DecidableEq

def PS.init (src : Bytes) : PS := { rest := srcLines src, cur := [], peeked := [] }

/-- `s.src.Scan()` -/
def PS.srcScan (s : PS) : Bool × PS :=
  match s.rest with
  | [] => (false, { s with cur := [] })
  | l :: r => (true, { s with rest := r, cur := l })

/-- `Peek`: an empty peeked line is indistinguishable from "nothing peeked". -/
def PS.peek (s : PS) : Bytes × PS :=
  match s.srcScan with
  | (false, s1) => ([], s1)
  | (true, s1) => (s1.cur, { s1 with peeked := s1.cur })

/-- `Scan` -/
def PS.scan (s : PS) : Bool × PS :=
  if s.peeked = [] then s.srcScan else (true, s)

/-- `Text` -/
def PS.text (s : PS) : Bytes × PS :=
  if s.peeked = [] then (s.cur, s) else (s.peeked, { s with peeked := [] })

/-! ### text helpers -/

def isUpper (c : Nat) : Bool := 65 ≤ c && c ≤ 90

/-- `\s` of Go's regexp (ASCII only): `[\t\n\f\r ]` -/
def isReSpace (c : Nat) : Bool := c == 9 || c == 10 || c == 12 || c == 13 || c == 32

/-- `[A-Z]*\s` -/
def afterUpper : Bytes → Bool
  | [] => false
  | c :: r => if isUpper c then afterUpper r else isReSpace c

/-- `startsWithHTTPMethod`: regexp `^[A-Z]+\s`. -/
def startsWithHTTPMethod : Bytes → Bool
  | [] => false
  | c :: r => isUpper c && afterUpper r

/-- `strings.SplitN(s, sep, 2)` for a one-byte separator: `none` when the separator does not
occur (one token), else the parts before and after its first occurrence. -/
def splitFirst (sep : Nat) : Bytes → Option (Bytes × Bytes)
  | [] => none
  | c :: r =>
    if c = sep then some ([], r)
    else match splitFirst sep r with
      | none => none
      | some (a, b) => some (c :: a, b)

/-! ### slices over an explicit heap -/

structure Slice where
  arr : Nat
  len : Nat
  cap : Nat
  deriving Repr, DecidableEq

/-- array id ↦ cells of the allocation (its length is the capacity) -/
abbrev Heap := List (List Bytes)

def nilSlice : Slice := { arr := 0, len := 0, cap := 0 }

/-- The strings visible through a slice. -/
def view (h : Heap) (s : Slice) : List Bytes := ((h[s.arr]?).getD []).take s.len

/-- capacity chosen by `growslice` for one more element (doubling; the exact policy is not
observable: a fresh array is referenced by the appending map entry only) -/
def growCap (c : Nat) : Nat := if c = 0 then 1 else 2 * c

/-- `append(s, v)`: in place when there is spare capacity, else copy into a fresh array. -/
def appendStr (h : Heap) (s : Slice) (v : Bytes) : Heap × Slice :=
  if s.len < s.cap then
    (h.modify s.arr (fun cells => cells.set s.len v), { s with len := s.len + 1 })
  else
    let nc := growCap s.cap
    let cells := view h s ++ [v] ++ List.replicate (nc - (s.len + 1)) []
    (h ++ [cells], { arr := h.length, len := s.len + 1, cap := nc })

/-! ### header maps (`http.Header` restricted to what the targeter does) -/

abbrev HMap := List (Bytes × Slice)

def hlookup (m : HMap) (k : Bytes) : Option Slice :=
  match m with
  | [] => none
  | (k', s) :: r => if k' = k then some s else hlookup r k

def hinsert (m : HMap) (k : Bytes) (s : Slice) : HMap :=
  match m with
  | [] => [(k, s)]
  | (k', s') :: r => if k' = k then (k, s) :: r else (k', s') :: hinsert r k s

/-- `tgt.Header[k] = append(tgt.Header[k], v)` -/
def addHeader (m : HMap) (h : Heap) (k v : Bytes) : HMap × Heap :=
  let (h', s') := appendStr h ((hlookup m k).getD nilSlice) v
  (hinsert m k s', h')

/-! ### the targeter -/

structure Target where
  method : Bytes
  url    : Bytes
  body   : Bytes
  header : HMap
  deriving Repr, DecidableEq

structure Cfg where
  validURI : Bytes → Bool            -- `url.ParseRequestURI(s)` succeeds
  fs       : Bytes → Option Bytes    -- `os.ReadFile(path)`
  body     : Bytes                   -- default body
  hdr      : HMap                    -- default header map (distinct keys)

structure St where
  ps   : PS
  heap : Heap
  deriving Repr, DecidableEq

def eNoTargets : Nat := 1
def eBadTarget : Nat := 2
def eBadMethod : Nat := 3
def eBadURL    : Nat := 4
def eBadBody   : Nat := 5
def eBadHeader : Nat := 6

/-- First loop of the targeter: skip blank and `#` lines; `none` = scanner exhausted. -/
def skipLoop : Nat → PS → Option Bytes × PS
  | 0, ps => (none, ps)
  | fuel + 1, ps =>
    match ps.scan with
    | (false, ps1) => (none, ps1)
    | (true, ps1) =>
      let (t, ps2) := ps1.text
      let line := trimSpace t
      if line ≠ [] ∧ line.head? ≠ some 35 then (some line, ps2) else skipLoop fuel ps2

/-- one iteration of `for sc.Scan() { … }` on the trimmed line: leave the loop (`stop`, with an
error or normally) or go on (`next`) -/
inductive Step where
  | stop : Option Nat → Target → Heap → Step
  | next : Target → Heap → Step

def headerStep (cfg : Cfg) (line : Bytes) (tgt : Target) (h : Heap) : Step :=
  if line = [] then .stop none tgt h                                   -- break
  else if line.head? = some 35 then .next tgt h                         -- continue
  else if line.head? = some 64 then
    match cfg.fs line.tail with
    | none => .stop (some eBadBody) tgt h
    | some b => .stop none { tgt with body := b } h                     -- break
  else
    match splitFirst 58 line with
    | none => .stop (some eBadHeader) tgt h
    | some (k0, v0) =>
      let k := trimSpace k0
      let v := trimSpace v0
      if k = [] ∨ v = [] then .stop (some eBadHeader) tgt h
      else
        let (m', h') := addHeader tgt.header h k v
        .next { tgt with header := m' } h'

/-- `for sc.Scan() { … }`: header lines, comments, the `@file` line. `none` = loop left normally. -/
def headerLoop (cfg : Cfg) : Nat → PS → Target → Heap → Option Nat × PS × Target × Heap
  | 0, ps, tgt, h => (none, ps, tgt, h)
  | fuel + 1, ps, tgt, h =>
    match ps.scan with
    | (false, ps1) => (none, ps1, tgt, h)
    | (true, ps1) =>
      let (t, ps2) := ps1.text
      match headerStep cfg (trimSpace t) tgt h with
      | .stop e tgt' h' => (e, ps2, tgt', h')
      | .next tgt' h' => headerLoop cfg fuel ps2 tgt' h'

/-- `for k, vs := range hdr { tgt.Header[k] = append([]string(nil), vs...) }`: every default
value list is copied into a fresh array (a nil slice when it is empty); the capacity Go picks
for the copy is not observable, the copy is referenced by this one map entry only. -/
def copyDefaults : HMap → Heap → HMap × Heap
  | [], h => ([], h)
  | (k, s) :: r, h =>
    let vs := view h s
    if vs = [] then
      ((k, nilSlice) :: (copyDefaults r h).1, (copyDefaults r h).2)
    else
      ((k, { arr := h.length, len := vs.length, cap := vs.length }) :: (copyDefaults r (h ++ [vs])).1,
       (copyDefaults r (h ++ [vs])).2)

/-- the request line: `SplitN(line, " ", 2)`, the method check, the URL check; the target
starts with the default body and the (copied) default header map -/
def requestLine (cfg : Cfg) (line : Bytes) (hdr : HMap) : Except Nat Target :=
  match splitFirst 32 line with
  | none => .error eBadTarget
  | some (m, u) =>
    if !startsWithHTTPMethod line then .error eBadMethod
    else if !cfg.validURI u then .error eBadURL
    else .ok { method := m, url := u, body := cfg.body, header := hdr }

/-- `line = TrimSpace(sc.Peek()); for HasPrefix(line, "#") { line = TrimSpace(sc.Peek()) }`:
every further `Peek` overwrites `peeked`, which drops the comment; at the end of the input
`Peek` returns "" and leaves the last comment in `peeked`. Returns the trimmed line. -/
def peekLoop : Nat → PS → Bytes × PS
  | 0, ps => ([], ps)
  | fuel + 1, ps =>
    let (p, ps1) := ps.peek
    let line := trimSpace p
    if line.head? = some 35 then peekLoop fuel ps1 else (line, ps1)

/-- `if line == "" || startsWithHTTPMethod(line) { return nil }` -/
def returnsAfterPeek (line : Bytes) : Bool := line = [] || startsWithHTTPMethod line

/-- One call of the targeter closure with a fresh `Target`. -/
def call (cfg : Cfg) (st : St) : Outcome Target × St :=
  let fuel := st.ps.rest.length + 2
  match skipLoop fuel st.ps with
  | (none, ps1) => (.error eNoTargets, { st with ps := ps1 })
  | (some line, ps1) =>
    -- tgt.Body = body; tgt.Header = http.Header{}; the defaults are copied
    let (m0, h0) := copyDefaults cfg.hdr st.heap
    match requestLine cfg line m0 with
    | .error e => (.error e, { ps := ps1, heap := h0 })
    | .ok tgt =>
      let (line2, ps2) := peekLoop fuel ps1
      if returnsAfterPeek line2 then (.ok tgt, { ps := ps2, heap := h0 })
      else
        match headerLoop cfg fuel ps2 tgt h0 with
        | (some e, ps3, _, h3) => (.error e, { ps := ps3, heap := h3 })
        | (none, ps3, tgt3, h3) => (.ok tgt3, { ps := ps3, heap := h3 })

/-- `n` successive calls; results in call order. -/
def calls (cfg : Cfg) : Nat → St → List (Outcome Target) × St
  | 0, st => ([], st)
  | n + 1, st =>
    let (r, st1) := call cfg st
    let (rs, st2) := calls cfg n st1
    (r :: rs, st2)

/-! ### what an observer sees -/

structure TargetView where
  method : Bytes
  url    : Bytes
  body   : Bytes
  header : List (Bytes × List Bytes)
  deriving Repr, DecidableEq

def viewMap (h : Heap) (m : HMap) : List (Bytes × List Bytes) := m.map fun (k, s) => (k, view h s)

def viewTarget (h : Heap) (t : Target) : TargetView :=
  { method := t.method, url := t.url, body := t.body, header := viewMap h t.header }

/-! ### ReadAllTargets (lib/targets.go:231-247), generic in the targeter -/

def eNoTargetsAny : Nat := eNoTargets

/-- `ReadAllTargets`: call until `ErrNoTargets`; any other error aborts; no target at all is
`ErrNoTargets`. `fuel` bounds the number of calls (each successful call consumes input). -/
def readAllLoop {S T : Type} (step : S → Outcome T × S) : Nat → S → List T → Outcome (List T) × S
  | 0, s, _ => (.panic, s)          -- out of fuel: not reachable with fuel > number of tokens
  | fuel + 1, s, acc =>
    match step s with
    | (.error e, s1) =>
      if e = eNoTargets then
        (if acc = [] then .error eNoTargets else .ok acc, s1)
      else (.error e, s1)
    | (.panic, s1) => (.panic, s1)
    | (.ok t, s1) => readAllLoop step fuel s1 (acc ++ [t])

def readAll (cfg : Cfg) (st : St) : Outcome (List Target) × St :=
  readAllLoop (call cfg) (st.ps.rest.length + 3) st []

end Vegeta.Model.HTTPTargets
