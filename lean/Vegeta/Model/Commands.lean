/-
Model of the command-line glue around the result decoders (package main):

  file.go    `file(name, create)`  — `os.Open` / `os.Create` (create truncates: the output is *replaced*)
             `decoder(files)`      — open each file in order, `DecoderFor` on each, error on the first one
                                     that cannot be opened or whose encoding cannot be detected,
                                     `NewRoundRobinDecoder` over the decoders
  encode.go  `encode(files, to, output)` — `decoder(files)`, then create the output, then pick the encoder
             (unknown `to`: error, the output has already been truncated), then
             `for { var r Result; if err = dec.Decode(&r); err != nil { if err == io.EOF { break }; return err }
                    else if err = enc.Encode(&r); err != nil { return err } }`
  report.go  the same loop with `report.Add(&r)` in place of `Encode`, plus — between two `Decode` calls, at
             instants chosen by a ticker — `rc.Close(); rep.Report(out)` (an intermediate report), and
             `rc.Close(); rep.Report(out)` once more at the end.

File contents are byte strings; a path that cannot be opened is `none`.  Input and output paths are
assumed distinct (the real command would truncate its own input).  Detection is `Model/DecoderFor.lean`
(`decoderFor`) over trial decoders whose verdict is the format's `accepts` and whose read scripts are
arbitrary; decoding is `Model/RoundRobin.lean`.
-/
import Vegeta.Model.DecoderFor
import Vegeta.Model.RoundRobin
namespace Vegeta.Model.Commands
open Vegeta.Go Vegeta.Model.DecoderFor Vegeta.Model.RoundRobin

/-- What the command level needs to know about a result format: whether its decoder accepts a first
record from a stream (the trial of `DecoderFor`), and the call-by-call behaviour of its decoder over a
whole stream (records, failing calls, then `io.EOF` for ever). -/
structure Formats (F α : Type) where
  accepts : F → Bytes → Bool
  script  : F → Bytes → Dec α

/-- the trial decoders `DecoderFor` runs on the stream `s`: format `f` reads whatever `reads f s` says
(arbitrary, may over-read) and accepts iff `accepts f s` -/
def trialsOf {F α} (fm : Formats F α) (reads : F → Bytes → Script) (order : List F) (s : Bytes) : List TrialDec :=
  order.map fun f => { script := reads f s, accept := fm.accepts f s }

/-- `vegeta.DecoderFor(rc)`: the decoder of the chosen format over the reader the loop hands to it
(`MultiReader(&buf, r)`, i.e. `st.stream`), or `none` (nil). -/
def detect {F α} (fm : Formats F α) (reads : F → Bytes → Script) (order : List F) (s : Bytes) : Option (Dec α) :=
  match (decoderFor s (trialsOf fm reads order s)).1 with
  | some (i, st) => (order[i]?).map fun f => fm.script f st.stream
  | none => none

inductive CmdErr where
  | open_ : Nat → CmdErr          -- file number i cannot be opened
  | detect : Nat → CmdErr         -- "can't detect encoding of" file number i
  | unknownEncoding : CmdErr      -- `-to` names no encoder
  | decode : Nat → CmdErr         -- the combined decoder returned an error other than io.EOF
  | encode : CmdErr               -- `Encode` returned an error
  deriving Repr, DecidableEq

/-- `decoder(files)`: the decoders in argument order, or the first error -/
def openAll {F α} (fm : Formats F α) (reads : F → Bytes → Script) (order : List F) :
    Nat → List (Option Bytes) → Except CmdErr (List (Dec α))
  | _, [] => .ok []
  | i, none :: _ => .error (.open_ i)
  | i, some s :: rest =>
    match detect fm reads order s with
    | none => .error (.detect i)
    | some d =>
      match openAll fm reads order (i + 1) rest with
      | .ok ds => .ok (d :: ds)
      | .error e => .error e

/-- an encoder closure: its state (gob: "type definitions already sent") and one `Encode` call,
which hands bytes to the writer or fails -/
structure Encoder (α σ : Type) where
  init : σ
  step : σ → α → Option (Bytes × σ)

inductive Status where
  | ok : Status
  | failed : CmdErr → Status
  | running : Status              -- the loop had not returned when the fuel ran out
  deriving Repr, DecidableEq

/-- the decode/encode loop of `encode`; `zero` is the zero `Result` (what is encoded when `Decode`
returns nil without writing a record — only with zero decoders) -/
def encodeLoop {α σ} (enc : Encoder α σ) (zero : α) : Nat → RR α → σ → Bytes → Bytes × Status
  | 0, _, _, out => (out, .running)
  | fuel+1, s, e, out =>
    match rrDecode s with
    | (.err c, _) => if c = eEOF then (out, .ok) else (out, .failed (.decode c))
    | (.got _ a, s') =>
      match enc.step e a with
      | some (b, e') => encodeLoop enc zero fuel s' e' (out ++ b)
      | none => (out, .failed .encode)
    | (.nothing, s') =>
      match enc.step e zero with
      | some (b, e') => encodeLoop enc zero fuel s' e' (out ++ b)
      | none => (out, .failed .encode)

/-- `encode(files, to, output)`: the content of the output path afterwards (`prev` = before) and how the
command ended.  `enc = none`: `-to` names no encoder. -/
def encodeCmd {F α σ} (fm : Formats F α) (reads : F → Bytes → Script) (order : List F) (zero : α)
    (enc : Option (Encoder α σ)) (files : List (Option Bytes)) (prev : Option Bytes) (fuel : Nat) :
    Option Bytes × Status :=
  match openAll fm reads order 0 files with
  | .error e => (prev, .failed e)                 -- the output path has not been touched
  | .ok decs =>
    match enc with
    | none => (some [], .failed .unknownEncoding)  -- created (truncated), nothing written
    | some en =>
      let r := encodeLoop en zero fuel (RR.init decs) en.init []
      (some r.1, r.2)

/-! ### the report loop -/

/-- a report as the `report` command uses it: `Add`, `Close` (identity for reports that are no
`Closer`, e.g. the histogram) and the reporter's rendering -/
structure Report (α ρ β : Type) where
  add    : ρ → α → ρ
  close  : ρ → ρ
  render : ρ → β

/-- what happens between the start of the loop and the end of input: a record is decoded and added,
or the ticker fires -/
inductive Ev (α : Type) where
  | got : α → Ev α
  | tick : Ev α
  deriving Repr, DecidableEq

def recordsOf {α} : List (Ev α) → List α
  | [] => []
  | .got a :: es => a :: recordsOf es
  | .tick :: es => recordsOf es

/-- the loop: intermediate reports written at the ticks (in order) and the state at the end of input -/
def reportRun {α ρ β} (R : Report α ρ β) : ρ → List (Ev α) → List β × ρ
  | s, [] => ([], s)
  | s, .got a :: es => reportRun R (R.add s a) es
  | s, .tick :: es =>
    let s' := R.close s
    let r := reportRun R s' es
    (R.render s' :: r.1, r.2)

/-- `report(...)` up to the end of input: the intermediate reports and the final one -/
def reportCmd {α ρ β} (R : Report α ρ β) (init : ρ) (evs : List (Ev α)) : List β × β :=
  let r := reportRun R init evs
  (r.1, R.render (R.close r.2))

end Vegeta.Model.Commands
