/-
Model of lib/results.go `DecoderFor` over a small reader algebra.

    func DecoderFor(r io.Reader) Decoder {
        var buf bytes.Buffer
        for _, dec := range []DecoderFactory{NewDecoder, NewJSONDecoder, NewCSVDecoder} {
            rd := io.MultiReader(bytes.NewReader(buf.Bytes()), io.TeeReader(r, &buf))
            if err := dec(rd).Decode(&Result{}); err == nil {
                return dec(io.MultiReader(&buf, r))
            }
        }
        return nil
    }

Readers.  The underlying reader `r` is its remaining bytes; a `Read(p)` with `len(p) = n`
returns any `1 ≤ c ≤ min(n, remaining)` bytes — the choice is an oracle value `k` supplied with
the call (clamped into that range) — and `0, io.EOF` when nothing remains.
`bytes.NewReader(s)` / `*bytes.Buffer` return `min(n, remaining)` bytes and `0, io.EOF` when
empty.  `io.TeeReader(r, &buf)` appends what `r` returned to `buf`.  `io.MultiReader(a, b)`
serves a call from `a` while `a` has bytes, and from `b` (in the same call) once `a` reports EOF.
A trial decoder is an arbitrary finite script of `Read` calls on `rd` (sizes and oracle values
are free, so it may over-read by any amount) followed by accept/reject.
-/
import Vegeta.Go.Proto
import Vegeta.Go.Duration
namespace Vegeta.Model.DecoderFor
open Vegeta.Go

/-- one `Read` call: `n = len(p)`, `k` = the oracle's chunk size for the underlying reader -/
structure ReadReq where
  n : Nat
  k : Nat
  deriving Repr, DecidableEq

abbrev Script := List ReadReq

/-- number of bytes an underlying `Read(p)` returns: `k` clamped into `1 … min(n, remaining)`,
0 when `p` is empty or nothing remains. -/
def chunk (n k remaining : Nat) : Nat :=
  let m := min n remaining
  if m = 0 then 0 else if k = 0 then 1 else min k m

/-- `Read` on the underlying reader `r` (state = remaining bytes) -/
def readUnder (rest : Bytes) (q : ReadReq) : Bytes × Bytes :=
  let c := chunk q.n q.k rest.length
  (rest.take c, rest.drop c)

/-- `Read` on a `bytes.Reader` / `bytes.Buffer` holding `s` -/
def readMem (s : Bytes) (n : Nat) : Bytes × Bytes := (s.take n, s.drop n)

/-- state of `DecoderFor` between trials: contents of `buf` and the remaining bytes of `r` -/
structure Sniff where
  buf   : Bytes
  under : Bytes
  deriving Repr, DecidableEq

/-- state during one trial: unread part of the snapshot `bytes.NewReader(buf.Bytes())`, plus `Sniff` -/
structure Trial where
  snap : Bytes
  st   : Sniff
  deriving Repr, DecidableEq

/-- `rd := io.MultiReader(bytes.NewReader(buf.Bytes()), io.TeeReader(r, &buf))` -/
def Trial.start (s : Sniff) : Trial := { snap := s.buf, st := s }

/-- one `rd.Read(p)`: from the snapshot while it has bytes, else through the tee -/
def Trial.read (t : Trial) (q : ReadReq) : Bytes × Trial :=
  if q.n = 0 then ([], t) else
  match t.snap with
  | _ :: _ =>
    let (got, snap') := readMem t.snap q.n
    (got, { t with snap := snap' })
  | [] =>
    let (got, under') := readUnder t.st.under q
    (got, { t with st := { buf := t.st.buf ++ got, under := under' } })

/-- run a whole read script; returns what each call returned -/
def Trial.run : Trial → Script → List Bytes × Trial
  | t, [] => ([], t)
  | t, q :: qs =>
    let (got, t') := t.read q
    let (gots, t'') := Trial.run t' qs
    (got :: gots, t'')

/-- a trial decoder: its reads, and whether its `Decode` returned nil -/
structure TrialDec where
  script : Script
  accept : Bool
  deriving Repr, DecidableEq

/-- The loop of `DecoderFor`: index of the first accepting factory and the state with which the
final reader is built; `none` = `return nil`.  The second component lists what every executed
trial saw (for the correspondence check). -/
def sniffFrom : Nat → Sniff → List TrialDec → Option (Nat × Sniff) × List (List Bytes)
  | _, _, [] => (none, [])
  | i, s, d :: ds =>
    let (seen, t) := (Trial.start s).run d.script
    if d.accept then (some (i, t.st), [seen])
    else
      let (res, seens) := sniffFrom (i+1) t.st ds
      (res, seen :: seens)

def decoderFor (orig : Bytes) (trials : List TrialDec) : Option (Nat × Sniff) × List (List Bytes) :=
  sniffFrom 0 { buf := [], under := orig } trials

/-- one `Read` on the final reader `io.MultiReader(&buf, r)` -/
def finalRead (s : Sniff) (q : ReadReq) : Bytes × Sniff :=
  if q.n = 0 then ([], s) else
  match s.buf with
  | _ :: _ =>
    let (got, buf') := readMem s.buf q.n
    (got, { s with buf := buf' })
  | [] =>
    let (got, under') := readUnder s.under q
    (got, { s with under := under' })

def finalRun : Sniff → Script → List Bytes × Sniff
  | s, [] => ([], s)
  | s, q :: qs =>
    let (got, s') := finalRead s q
    let (gots, s'') := finalRun s' qs
    (got :: gots, s'')

/-- the byte stream the final reader denotes -/
def Sniff.stream (s : Sniff) : Bytes := s.buf ++ s.under

/-! ### first bytes of encoded records (what makes the formats distinguishable) -/

/-- `strconv.FormatInt(x, 10)` -/
def fmtInt (i : Int) : Bytes :=
  if i < 0 then 45 :: Duration.fmtNat i.natAbs else Duration.fmtNat i.natAbs

def isDigit (b : Nat) : Bool := 48 ≤ b && b ≤ 57

/-- A CSV record as written by `NewCSVEncoder`: its first field is
`strconv.FormatInt(r.Timestamp.UnixNano(), 10)`, which `csv.Writer` never quotes (no delimiter,
quote, CR, LF or leading space; not empty, not `\.`), followed by `,` and the other fields. -/
def csvRecord (unixNano : Int) (restOfRecord : Bytes) : Bytes := fmtInt unixNano ++ 44 :: restOfRecord

/-- A JSON record as written by `MarshalEasyJSON`: `{` first. -/
def jsonRecord (body : Bytes) : Bytes := 123 :: body

/-! ### transcoding chains (abstract codec family) -/

/-- One codec per format `F`: `enc f` writes a record list as a stream, `dec f` reads a stream
back (`none` = the decoder reports an error other than EOF at a record boundary). -/
structure Codecs (F R S : Type) where
  enc : F → List R → S
  dec : F → S → Option (List R)

/-- `vegeta encode -to f'` applied to a stream in format `f` (the detected one) -/
def Codecs.transcode {F R S} (c : Codecs F R S) (f f' : F) (s : S) : Option S :=
  (c.dec f s).map (c.enc f')

/-- the stream after re-encoding along `chain`, starting from a stream in format `f` -/
def Codecs.runChain {F R S} (c : Codecs F R S) : F → S → List F → Option (F × S)
  | f, s, [] => some (f, s)
  | f, s, f' :: rest =>
    match c.transcode f f' s with
    | some s' => c.runChain f' s' rest
    | none => none

end Vegeta.Model.DecoderFor
