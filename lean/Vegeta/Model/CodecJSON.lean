/-
Model of the easyjson pieces used by lib/results_easyjson.go:
`jwriter.Writer.String` (escaping table with HTML escapes on, U+2028/2029, invalid UTF-8 → �)
and the `jlexer.Lexer` token layer (`FetchToken`, `fetchString`/`findStringLen`,
`unescapeStringToken`, `fetchNumber`, `null`/`true`/`false`, separators `wantSep`/`firstElement`).
The lexer's error is sticky and every decoder entry point returns it, so the model is an error
monad: the first error ends the decoding (`eEOF` stands for the lexer's `io.EOF`).
-/
import Vegeta.Model.CodecRFC3339
namespace Vegeta.Model.Codec
open Vegeta.Go

def eJSON : Nat := 6

/-! ### UTF-8 -/

def isCont (c : Nat) : Bool := 0x80 ≤ c && c ≤ 0xBF

/-- `utf8.DecodeRune`: (rune, width); malformed input gives (U+FFFD, 1) -/
def decodeRune : Bytes → Nat × Nat
  | [] => (0xFFFD, 1)
  | c0 :: r =>
    if c0 < 0x80 then (c0, 1)
    else if c0 < 0xC2 then (0xFFFD, 1)
    else if c0 < 0xE0 then
      match r with
      | c1 :: _ => if isCont c1 then ((c0 - 0xC0) * 64 + (c1 - 0x80), 2) else (0xFFFD, 1)
      | _ => (0xFFFD, 1)
    else if c0 < 0xF0 then
      match r with
      | c1 :: c2 :: _ =>
        let lo := if c0 = 0xE0 then 0xA0 else 0x80
        let hi := if c0 = 0xED then 0x9F else 0xBF
        if lo ≤ c1 ∧ c1 ≤ hi ∧ isCont c2 then
          ((c0 - 0xE0) * 4096 + (c1 - 0x80) * 64 + (c2 - 0x80), 3)
        else (0xFFFD, 1)
      | _ => (0xFFFD, 1)
    else if c0 < 0xF5 then
      match r with
      | c1 :: c2 :: c3 :: _ =>
        let lo := if c0 = 0xF0 then 0x90 else 0x80
        let hi := if c0 = 0xF4 then 0x8F else 0xBF
        if lo ≤ c1 ∧ c1 ≤ hi ∧ isCont c2 ∧ isCont c3 then
          ((c0 - 0xF0) * 262144 + (c1 - 0x80) * 4096 + (c2 - 0x80) * 64 + (c3 - 0x80), 4)
        else (0xFFFD, 1)
      | _ => (0xFFFD, 1)
    else (0xFFFD, 1)

/-- `utf8.EncodeRune` (surrogates and values above U+10FFFF become U+FFFD) -/
def encodeRune (r : Nat) : Bytes :=
  if r < 0x80 then [r]
  else if r < 0x800 then [0xC0 + r / 64, 0x80 + r % 64]
  else if (0xD800 ≤ r ∧ r < 0xE000) ∨ r > 0x10FFFF then [0xEF, 0xBF, 0xBD]
  else if r < 0x10000 then [0xE0 + r / 4096, 0x80 + r / 64 % 64, 0x80 + r % 64]
  else [0xF0 + r / 262144, 0x80 + r / 4096 % 64, 0x80 + r / 64 % 64, 0x80 + r % 64]

/-- `utf8.Valid` -/
def validUTF8F : Nat → Bytes → Bool
  | 0, s => s.isEmpty
  | _+1, [] => true
  | f+1, c :: r =>
    if c < 0x80 then validUTF8F f r
    else
      let w := (decodeRune (c :: r)).2
      if w = 1 then false else validUTF8F f (r.drop (w - 1))

def validUTF8 (s : Bytes) : Bool := validUTF8F s.length s

/-! ### jwriter.String -/

def hexLower (n : Nat) : Nat := if n < 10 then 48 + n else 87 + n

/-- one ASCII byte (`c < 0x80`) through the escape table (HTML escaping on) -/
def escAscii (c : Nat) : Bytes :=
  if c = 9 then [92, 116]
  else if c = 13 then [92, 114]
  else if c = 10 then [92, 110]
  else if c = 92 then [92, 92]
  else if c = 34 then [92, 34]
  else if c < 32 ∨ c = 38 ∨ c = 60 ∨ c = 62 then [92, 117, 48, 48, hexLower (c / 16), hexLower (c % 16)]
  else [c]

def jsonEscapeF : Nat → Bytes → Bytes
  | 0, _ => []
  | _+1, [] => []
  | f+1, c :: r =>
    if c < 0x80 then escAscii c ++ jsonEscapeF f r
    else
      let rw := decodeRune (c :: r)
      if rw.2 = 1 then [92, 117, 102, 102, 102, 100] ++ jsonEscapeF f r          -- broken UTF-8
      else if rw.1 = 0x2028 ∨ rw.1 = 0x2029 then
        [92, 117, 50, 48, 50, hexLower (rw.1 % 16)] ++ jsonEscapeF f (r.drop (rw.2 - 1))
      else (c :: r).take rw.2 ++ jsonEscapeF f (r.drop (rw.2 - 1))

def jsonEscape (s : Bytes) : Bytes := jsonEscapeF s.length s

/-- `Writer.String(s)` -/
def jsonString (s : Bytes) : Bytes := 34 :: (jsonEscape s ++ [34])

/-! ### jlexer: tokens -/

inductive Tok where
  | delim (c : Nat)
  | str (raw : Bytes)       -- between the quotes, not unescaped
  | num (raw : Bytes)
  | null
  | bool (b : Bool)
  deriving Repr, DecidableEq

/-- lexer state between tokens: remaining input, `wantSep` (0, ',' or ':'), `firstElement` -/
structure Lex where
  rest : Bytes
  wantSep : Nat := 0
  first : Bool := false
  deriving Repr, DecidableEq

def isTokenEnd (c : Nat) : Bool :=
  c == 32 || c == 9 || c == 13 || c == 10 || c == 91 || c == 93 || c == 123 || c == 125 || c == 44 || c == 58

/-- `findStringLen`: the closing quote is the first `"` preceded by an even number of
backslashes; returns the raw token and what follows the closing quote -/
def fetchStringP : Bool → Bytes → Option (Bytes × Bytes)
  | _, [] => none
  | odd, c :: r =>
    if c = 34 ∧ !odd then some ([], r)
    else (fetchStringP (if c = 92 then !odd else false) r).map (fun p => (c :: p.1, p.2))

def fetchString (s : Bytes) : Option (Bytes × Bytes) := fetchStringP false s

/-- `fetchNumber` after the first byte: (hasE, afterE, hasDot) scan; `none` = syntax error -/
def fetchNumberP : Bool → Bool → Bool → Bytes → Option (Bytes × Bytes)
  | _, _, _, [] => some ([], [])
  | hasE, afterE, hasDot, c :: r =>
    if isDigitB c then (fetchNumberP hasE false hasDot r).map (fun p => (c :: p.1, p.2))
    else if c = 46 ∧ !hasDot then (fetchNumberP hasE afterE true r).map (fun p => (c :: p.1, p.2))
    else if (c = 101 ∨ c = 69) ∧ !hasE then (fetchNumberP true true true r).map (fun p => (c :: p.1, p.2))
    else if (c = 43 ∨ c = 45) ∧ afterE then (fetchNumberP hasE false hasDot r).map (fun p => (c :: p.1, p.2))
    else if isTokenEnd c then some ([], c :: r) else none

/-- keyword tail (`ull`, `rue`, `alse`) followed by end of data or a token end -/
def fetchKeyword (kw : Bytes) (s : Bytes) : Option Bytes :=
  if s.take kw.length = kw then
    match s.drop kw.length with
    | [] => some []
    | c :: r => if isTokenEnd c then some (c :: r) else none
  else none

/-- `FetchToken` -/
def fetchToken : Bytes → Nat → Bool → Outcome (Tok × Lex)
  | [], _, _ => .error eEOF
  | c :: r, ws, fe =>
    if c = 58 ∨ c = 44 then (if ws = c then fetchToken r 0 fe else .error eJSON)
    else if c = 32 ∨ c = 9 ∨ c = 13 ∨ c = 10 then fetchToken r ws fe
    else if c = 34 then
      if ws ≠ 0 then .error eJSON else
      match fetchString r with
      | some (raw, r') => .ok (.str raw, { rest := r', wantSep := 0, first := fe })
      | none => .error eJSON
    else if c = 123 ∨ c = 91 then
      if ws ≠ 0 then .error eJSON else .ok (.delim c, { rest := r, wantSep := 0, first := true })
    else if c = 125 ∨ c = 93 then
      if !fe && ws ≠ 44 then .error eJSON else .ok (.delim c, { rest := r, wantSep := 0, first := fe })
    else if isDigitB c ∨ c = 45 then
      if ws ≠ 0 then .error eJSON else
      match fetchNumberP false false false r with
      | some (raw, r') => .ok (.num (c :: raw), { rest := r', wantSep := 0, first := fe })
      | none => .error eJSON
    else if c = 110 then
      if ws ≠ 0 then .error eJSON else
      match fetchKeyword [117, 108, 108] r with
      | some r' => .ok (.null, { rest := r', wantSep := 0, first := fe })
      | none => .error eJSON
    else if c = 116 then
      if ws ≠ 0 then .error eJSON else
      match fetchKeyword [114, 117, 101] r with
      | some r' => .ok (.bool true, { rest := r', wantSep := 0, first := fe })
      | none => .error eJSON
    else if c = 102 then
      if ws ≠ 0 then .error eJSON else
      match fetchKeyword [97, 108, 115, 101] r with
      | some r' => .ok (.bool false, { rest := r', wantSep := 0, first := fe })
      | none => .error eJSON
    else .error eJSON

/-- next token from a lexer state -/
def Lex.next (l : Lex) : Outcome (Tok × Lex) := fetchToken l.rest l.wantSep l.first

def Lex.wantComma (l : Lex) : Lex := { l with wantSep := 44, first := false }
def Lex.wantColon (l : Lex) : Lex := { l with wantSep := 58, first := false }

/-! ### unescaping -/

def hexVal (c : Nat) : Option Nat :=
  if 48 ≤ c ∧ c ≤ 57 then some (c - 48)
  else if 97 ≤ c ∧ c ≤ 102 then some (c - 87)
  else if 65 ≤ c ∧ c ≤ 70 then some (c - 55)
  else none

/-- `getu4` on the bytes after `\u`… here `s` starts at the backslash -/
def getu4 (s : Bytes) : Option Nat :=
  match s with
  | 92 :: 117 :: a :: b :: c :: d :: _ =>
    match hexVal a, hexVal b, hexVal c, hexVal d with
    | some x, some y, some z, some w => some (((x * 16 + y) * 16 + z) * 16 + w)
    | _, _, _, _ => none
  | _ => none

/-- `decodeEscape` on data starting at a backslash: (rune, bytes consumed) -/
def decodeEscape (s : Bytes) : Option (Nat × Nat) :=
  match s with
  | _ :: c :: _ =>
    if c = 34 ∨ c = 47 ∨ c = 92 then some (c, 2)
    else if c = 98 then some (8, 2)
    else if c = 102 then some (12, 2)
    else if c = 110 then some (10, 2)
    else if c = 114 then some (13, 2)
    else if c = 116 then some (9, 2)
    else if c = 117 then
      match getu4 s with
      | none => none
      | some rr =>
        if 0xD800 ≤ rr ∧ rr < 0xE000 then
          match getu4 (s.drop 6) with
          | some rr1 =>
            if rr < 0xDC00 ∧ 0xDC00 ≤ rr1 ∧ rr1 < 0xE000 then
              some ((rr - 0xD800) * 1024 + (rr1 - 0xDC00) + 0x10000, 12)
            else some (0xFFFD, 6)
          | none => some (0xFFFD, 6)
        else some (rr, 6)
    else none
  | _ => none

/-- `unescapeStringToken` -/
def unescapeF : Nat → Bytes → Option Bytes
  | 0, _ => none
  | _+1, [] => some []
  | f+1, c :: r =>
    if c = 92 then
      match decodeEscape (c :: r) with
      | none => none
      | some (rune, n) => (unescapeF f (r.drop (n - 1))).map (fun t => encodeRune rune ++ t)
    else (unescapeF f r).map (fun t => c :: t)

def unescape (s : Bytes) : Option Bytes := unescapeF (s.length + 1) s

/-! ### SkipRecursive on a nested value -/

/-- the bracket scan of `SkipRecursive` after the opening delimiter; returns what follows the
matching close. (`json.Valid` on the skipped text is *not* modelled.) -/
def skipNested (start stop : Nat) : Nat → Bool → Bool → Bytes → Option Bytes
  | _, _, _, [] => none
  | level, inQ, wasEsc, c :: r =>
    if c = start ∧ !inQ then skipNested start stop (level + 1) inQ false r
    else if c = stop ∧ !inQ then
      (if level = 1 then some r else skipNested start stop (level - 1) inQ false r)
    else if c = 92 ∧ inQ then skipNested start stop level inQ (!wasEsc) r
    else if c = 34 ∧ inQ then skipNested start stop level wasEsc false r
    else if c = 34 then skipNested start stop level true false r
    else skipNested start stop level inQ false r

end Vegeta.Model.Codec
