/-
Model of Go's `encoding/csv` as configured by lib/results.go:
`Writer.Write` (Comma=',', UseCRLF=false) with `fieldNeedsQuotes`, and `Reader.Read`
with `TrimLeadingSpace = true`, `LazyQuotes = false`, no comment character.
The reader works on the whole remaining input: `readLine`'s normalisations ("\r\n" → "\n" at
line ends, a '\r' immediately before end of input dropped) are applied first (`normCRLF`),
after which a quoted field is scanned across physical lines exactly like the line loop does.
-/
import Vegeta.Model.CodecBase64
namespace Vegeta.Model.Codec
open Vegeta.Go

/-- byte length of the leading rune of `s` if `unicode.IsSpace` holds for it, else 0
(invalid UTF-8 decodes to U+FFFD, which is not a space) -/
def spaceRuneLen : Bytes → Nat
  | [] => 0
  | c :: rest =>
    if c == 32 || (9 ≤ c && c ≤ 13) then 1 else
    match c, rest with
    | 0xC2, 0x85 :: _ => 2
    | 0xC2, 0xA0 :: _ => 2
    | 0xE1, 0x9A :: 0x80 :: _ => 3
    | 0xE2, 0x80 :: x :: _ =>
      if (0x80 ≤ x && x ≤ 0x8A) || x == 0xA8 || x == 0xA9 || x == 0xAF then 3 else 0
    | 0xE2, 0x81 :: 0x9F :: _ => 3
    | 0xE3, 0x80 :: 0x80 :: _ => 3
    | _, _ => 0

/-! ### Writer -/

def isCsvSpecial (c : Nat) : Bool := c == 10 || c == 13 || c == 34 || c == 44

/-- `fieldNeedsQuotes` -/
def needsQuotes (f : Bytes) : Bool :=
  !f.isEmpty && (f == [92, 46] || f.any isCsvSpecial || spaceRuneLen f != 0)

/-- body of a quoted field: `"` doubled; '\r' and '\n' written as they are (UseCRLF=false) -/
def quoteBody : Bytes → Bytes
  | [] => []
  | c :: r => if c = 34 then 34 :: 34 :: quoteBody r else c :: quoteBody r

def writeField (f : Bytes) : Bytes :=
  if needsQuotes f then 34 :: (quoteBody f ++ [34]) else f

def joinFields : List Bytes → Bytes
  | [] => []
  | [f] => writeField f
  | f :: g :: fs => writeField f ++ 44 :: joinFields (g :: fs)

/-- `Writer.Write(record)` followed by `Flush`: the bytes of one record -/
def writeRecord (fs : List Bytes) : Bytes := joinFields fs ++ [10]

/-! ### Reader -/

/-- `readLine`'s normalisation applied to the whole input -/
def normCRLF : Bytes → Bytes
  | [] => []
  | c :: r =>
    if c = 13 then
      match r with
      | [] => []                       -- trailing '\r' before end of input
      | d :: r' => if d = 10 then 10 :: normCRLF r' else 13 :: normCRLF (d :: r')
    else c :: normCRLF r

/-- `TrimLeadingSpace`: skip leading Unicode white space of the current line. The line's own
'\n' is left in place (consuming it yields the same empty last field). -/
def trimLeadF : Nat → Bytes → Bytes
  | 0, s => s
  | f+1, s =>
    match s with
    | [] => []
    | c :: r =>
      if c = 10 then s
      else
        let k := spaceRuneLen (c :: r)
        if k = 0 then s else trimLeadF f (r.drop (k - 1))

def trimLead (s : Bytes) : Bytes := trimLeadF s.length s

/-- non-quoted field: up to the next ',' or '\n' or end of input; returns field and what follows -/
def scanUnquoted : Bytes → Bytes × Bytes
  | [] => ([], [])
  | c :: r =>
    if c = 44 ∨ c = 10 then ([], c :: r)
    else ((c :: (scanUnquoted r).1), (scanUnquoted r).2)

/-- quoted field after its opening quote: up to the closing quote (`""` is a literal quote), across
line ends; `none` when the input ends first. Returns field and what follows the closing quote. -/
def scanQuoted : Bytes → Option (Bytes × Bytes)
  | [] => none
  | c :: r =>
    if c = 34 then
      match r with
      | d :: r' =>
        if d = 34 then (scanQuoted r').map (fun p => (34 :: p.1, p.2))
        else some ([], d :: r')
      | [] => some ([], [])
    else (scanQuoted r).map (fun p => (c :: p.1, p.2))

inductive CsvRec where
  | eof
  | err
  | record (fields : List Bytes) (rest : Bytes)
  deriving Repr, DecidableEq

/-- the `parseField` loop of `readRecord` -/
def parseFields : Nat → Bytes → List Bytes → CsvRec
  | 0, _, _ => .err
  | fuel+1, s, acc =>
    match trimLead s with
    | 34 :: r =>
      match scanQuoted r with
      | none => .err                                   -- ErrQuote: no closing quote
      | some (fld, after) =>
        match after with
        | [] => .record (fld :: acc).reverse []
        | d :: r' =>
          if d = 44 then parseFields fuel r' (fld :: acc)
          else if d = 10 then .record (fld :: acc).reverse r'
          else .err                                    -- ErrQuote: `"` followed by something else
    | t =>
      let fld := (scanUnquoted t).1
      if fld.any (· == 34) then .err                   -- ErrBareQuote
      else match (scanUnquoted t).2 with
        | [] => .record (fld :: acc).reverse []
        | d :: r' =>
          if d = 44 then parseFields fuel r' (fld :: acc)
          else .record (fld :: acc).reverse r'            -- d = '\n'

def dropNL : Bytes → Bytes
  | [] => []
  | c :: r => if c = 10 then dropNL r else c :: r

/-- one `Reader.Read()` on normalised input (without the field count check) -/
def readRecord (s : Bytes) : CsvRec :=
  match dropNL s with
  | [] => .eof
  | t => parseFields (t.length + 1) t []

end Vegeta.Model.Codec
