/-
Model of the *compression pass* of github.com/influxdata/tdigest v0.0.1 — the part that
Model/Quantile.lean takes as given: `Add` / `AddCentroid` (append to the unprocessed buffer,
`process` when a buffer is over its size), `process` (append the processed centroids to the
unprocessed ones, sort by mean, one left-to-right merge in which a centroid is folded into the
current one while `projected <= limit`, else starts a new one and the limit is recomputed;
then `min`/`max` are updated from the extreme centroid MEANS), `Centroid.Add`, and `Quantile`'s
leading `process()` call.

Two things are PARAMETERS, of arbitrary behaviour:
* `Lim F` — the k-scale limit: `init W` stands for `processedWeight * integratedQ(1.0)`, `next soFar W`
  for `processedWeight * integratedQ(integratedLocation(soFar/processedWeight) + 1.0)` (sin/asin);
* `sortBy` — `sort.Sort(&t.unprocessed)`: Go's pdqsort is not stable, so the order among equal means
  is whatever it is; the theorems quantify over every function that returns a permutation of its input
  sorted by mean, the driver applies the permutation the real sort produced.

The sentinels `Reset` writes (`min = math.MaxFloat64`, `max = -math.MaxFloat64`) are arguments of
`TD.init`, so that the same definitions make sense over an exact field. Core Lean only.
-/
import Vegeta.Model.Quantile
namespace Vegeta.Model.TDigestMerge
open Vegeta.Go Vegeta.Model.Quantile

/-- the scale-function side of `process` -/
structure Lim (F : Type) where
  init : F → F          -- processedWeight ↦ first limit
  next : F → F → F      -- soFar, processedWeight ↦ limit after a new centroid was started

/-- the fields of `TDigest` (the cumulative table is recomputed from `processed`, see
`Quantile.cumulative`) -/
structure TD (F : Type) where
  processed : List (Centroid F)
  unprocessed : List (Centroid F)
  processedWeight : F
  unprocessedWeight : F
  min : F
  max : F
  maxProcessed : Nat
  maxUnprocessed : Nat

section generic
variable {F : Type} [QOps F]

local infixl:65 " +. " => QOps.add
local infixl:65 " -. " => QOps.sub
local infixl:70 " *. " => QOps.mul
local infixl:70 " /. " => QOps.div

/-- `NewWithCompression` + `Reset`; `hi`/`lo` are `math.MaxFloat64` / `-math.MaxFloat64`. -/
def TD.init (maxProcessed maxUnprocessed : Nat) (hi lo : F) : TD F :=
  { processed := [], unprocessed := [], processedWeight := QOps.ofNat 0, unprocessedWeight := QOps.ofNat 0,
    min := hi, max := lo, maxProcessed := maxProcessed, maxUnprocessed := maxUnprocessed }

/-- Go's `x != 0` on floats (true for NaN) -/
def ne0 (x : F) : Bool := !(QOps.le x (QOps.ofNat 0) && QOps.le (QOps.ofNat 0) x)

/-- `(*Centroid).Add(r)`; the error returned for a negative weight is ignored by `process`. -/
def centroidAdd (c r : Centroid F) : Centroid F :=
  if QOps.lt r.weight (QOps.ofNat 0) then c
  else if ne0 c.weight then
    let w := c.weight +. r.weight
    { weight := w, mean := c.mean +. r.weight *. (r.mean -. c.mean) /. w }
  else { weight := r.weight, mean := r.mean }

/-- The loop `for _, centroid := range t.unprocessed[1:]` of `process`. `acc` holds the finished
centroids in reverse, `cur` is `t.processed[len-1]`. -/
def mergeLoop (next : F → F → F) (W : F) :
    List (Centroid F) → Centroid F → F → F → List (Centroid F) → List (Centroid F)
  | acc, cur, _, _, [] => (cur :: acc).reverse
  | acc, cur, soFar, limit, c :: rest =>
    let projected := soFar +. c.weight
    if QOps.le projected limit then
      mergeLoop next W acc (centroidAdd cur c) projected limit rest
    else
      mergeLoop next W (cur :: acc) c (soFar +. c.weight) (next soFar W) rest

/-- does `process` do anything? -/
def needsProcess (s : TD F) : Bool :=
  decide (s.unprocessed.length > 0) || decide (s.processed.length > s.maxProcessed)

/-- `(*TDigest).process()` -/
def process (lim : Lim F) (sortBy : List (Centroid F) → List (Centroid F)) (s : TD F) : Outcome (TD F) :=
  if needsProcess s then
    match sortBy (s.unprocessed ++ s.processed) with
    | [] => .panic     -- t.unprocessed[0]
    | c0 :: rest =>
      let W := s.processedWeight +. s.unprocessedWeight
      let p := mergeLoop lim.next W [] c0 c0.weight (lim.init W) rest
      match p.head?, p.getLast? with
      | some h, some l =>
        .ok { s with processed := p, unprocessed := [], processedWeight := W, unprocessedWeight := QOps.ofNat 0,
                     min := QOps.fmin s.min h.mean, max := QOps.fmax s.max l.mean }
      | _, _ => .panic
  else .ok s

/-- `(*TDigest).Add(x, w)` = NaN guard + `AddCentroid` -/
def add (lim : Lim F) (sortBy : List (Centroid F) → List (Centroid F)) (s : TD F) (x w : F) : Outcome (TD F) :=
  if !(QOps.le x x) then .ok s else      -- math.IsNaN(x)
  let s1 := { s with unprocessed := s.unprocessed ++ [⟨x, w⟩], unprocessedWeight := s.unprocessedWeight +. w }
  if decide (s1.processed.length > s1.maxProcessed) || decide (s1.unprocessed.length > s1.maxUnprocessed) then
    process lim sortBy s1
  else .ok s1

/-- vegeta's estimator: every latency is added with weight 1 -/
def addAll (lim : Lim F) (sortBy : List (Centroid F) → List (Centroid F)) : TD F → List F → Outcome (TD F)
  | s, [] => .ok s
  | s, x :: xs => match add lim sortBy s x (QOps.ofNat 1) with
    | .ok s' => addAll lim sortBy s' xs
    | .error e => .error e
    | .panic => .panic

/-- what `Quantile` reads -/
def TD.digest (s : TD F) : Digest F := ⟨s.processed, s.processedWeight, s.min, s.max⟩

/-- `(*TDigest).Quantile(q)` in full: `t.process()` first, then the interpolation. Returns the new
state too (the call mutates the digest). -/
def quantileTD (lim : Lim F) (sortBy : List (Centroid F) → List (Centroid F)) (s : TD F) (q : F) : Outcome (TD F × F) :=
  match process lim sortBy s with
  | .ok s' => match quantile s'.digest q with
    | .ok r => .ok (s', r)
    | .error e => .error e
    | .panic => .panic
  | .error e => .error e
  | .panic => .panic

/-- `LatencyMetrics.Quantile` on the live estimator -/
def latQuantileTD (trunc : F → Int) (lim : Lim F) (sortBy : List (Centroid F) → List (Centroid F)) (s : TD F) (q : F) :
    Outcome (TD F × Int) :=
  match quantileTD lim sortBy s q with
  | .ok (s', r) => .ok (s', trunc r)
  | .error e => .error e
  | .panic => .panic

/-- The four `Quantile` calls at the end of `Metrics.Close`, each with its own leading `process()`. -/
def closeTD (trunc : F → Int) (lim : Lim F) (sortBy : List (Centroid F) → List (Centroid F)) (s : TD F) :
    Outcome (TD F × Percentiles) :=
  match latQuantileTD trunc lim sortBy s (lit 50 100) with
  | .ok (s1, a) => match latQuantileTD trunc lim sortBy s1 (lit 90 100) with
    | .ok (s2, b) => match latQuantileTD trunc lim sortBy s2 (lit 95 100) with
      | .ok (s3, c) => match latQuantileTD trunc lim sortBy s3 (lit 99 100) with
        | .ok (s4, e) => .ok (s4, ⟨a, b, c, e⟩)
        | _ => .panic
      | _ => .panic
    | _ => .panic
  | _ => .panic

/-- latencies → estimator → the four percentiles: `Metrics.Add` for each latency (converted with
`ofInt`, i.e. `float64(latency)`), then `Metrics.Close`. -/
def runClose (trunc : F → Int) (lim : Lim F) (sortBy : List (Centroid F) → List (Centroid F))
    (s0 : TD F) (lats : List Int) : Outcome (TD F × Percentiles) :=
  match addAll lim sortBy s0 (lats.map QOps.ofInt) with
  | .ok s => closeTD trunc lim sortBy s
  | .error e => .error e
  | .panic => .panic

/-! ### driver helpers: the sort and the limits as observed oracles -/

/-- is `perm` a permutation of `0 … n-1`? (length n, every index in range and met once) -/
def isPermOfRange (perm : List Nat) (n : Nat) : Bool :=
  perm.length == n &&
  (perm.foldl (fun (st : Array Bool × Bool) i =>
      if st.1.getD i true then (st.1, false)          -- out of range, or seen before
      else (st.1.setIfInBounds i true, st.2)) (Array.replicate n false, true)).2

/-- `sortBy` realised by a given permutation of indices (identity on a malformed one) -/
def applyPerm (perm : List Nat) (l : List (Centroid F)) : List (Centroid F) :=
  if isPermOfRange perm l.length then
    let a := l.toArray
    perm.filterMap (fun i => a[i]?)
  else l

/-- is the list sorted the way `sort.Sort` leaves it (`!Less(j, i)` for `i < j`, adjacent pairs)? -/
def sortedByMean : List (Centroid F) → Bool
  | [] => true
  | [_] => true
  | a :: b :: r => !(QOps.lt b.mean a.mean) && sortedByMean (b :: r)

end generic
end Vegeta.Model.TDigestMerge
