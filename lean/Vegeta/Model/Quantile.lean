/-
Model of the percentile path of vegeta's latency metrics:

* `github.com/influxdata/tdigest` v0.0.1 `(*TDigest).Quantile` over a *processed* centroid
  list (`updateCumulative`, `sort.Search`, `weightedAverage`, `weightedAverageSorted`);
* lib/metrics.go `LatencyMetrics.Quantile` (`time.Duration(estimate)`) and the four
  percentiles taken in `Metrics.Close`;
* lib/reporters.go `NewHDRHistogramPlotReporter` rows (`milliseconds`, the count column,
  `oneByQuantile`).

The compression pass (`process`, which uses `sin`/`asin`) is NOT modelled: the processed
centroid list, `processedWeight`, `min` and `max` are the *input* (`Digest`).

Everything is generic over a small structure of arithmetic operations `QOps F`, so that
the same definitions run bit-exactly over `Vegeta.Go.F64` (driver, correspondence) and are
reasoned about exactly over any linearly ordered field (Props/C11.lean).  Core Lean only.
-/
import Vegeta.Go.SoftF64
namespace Vegeta.Model.Quantile
open Vegeta.Go

/-- The float operations the modelled code uses. `le`/`lt` are Go's `<=`/`<` (false on NaN);
`fmax`/`fmin` are `math.Max`/`math.Min`; `nan` is `math.NaN()`. -/
class QOps (F : Type) where
  add : F → F → F
  sub : F → F → F
  mul : F → F → F
  div : F → F → F
  le : F → F → Bool
  lt : F → F → Bool
  ofNat : Nat → F
  ofInt : Int → F
  nan : F
  fmax : F → F → F
  fmin : F → F → F

section generic
variable {F : Type} [QOps F]

local infixl:65 " +. " => QOps.add
local infixl:65 " -. " => QOps.sub
local infixl:70 " *. " => QOps.mul
local infixl:70 " /. " => QOps.div

/-- A decimal literal `num/den` (`den` a power of ten) as Go evaluates it: the value nearest to
the exact quotient — which is what one correctly rounded division of two exact integers gives. -/
def lit (num den : Nat) : F := (QOps.ofNat num : F) /. QOps.ofNat den

structure Centroid (F : Type) where
  mean : F
  weight : F

/-- The state `Quantile` reads after `process()`. -/
structure Digest (F : Type) where
  processed : List (Centroid F)
  processedWeight : F
  min : F
  max : F

/-- `updateCumulative`: `cumulative[i] = prev + w_i/2; prev += w_i`, and a last entry `prev`. -/
def cumulativeFrom (prev : F) : List (Centroid F) → List F
  | [] => [prev]
  | c :: cs => (prev +. c.weight /. QOps.ofNat 2) :: cumulativeFrom (prev +. c.weight) cs

def cumulative (cs : List (Centroid F)) : List F := cumulativeFrom (QOps.ofNat 0) cs

/-- The loop of `sort.Search(n, f)`:
`i, j := 0, n; for i < j { h := int(uint(i+j) >> 1); if !f(h) { i = h + 1 } else { j = h } }; return i`. -/
def searchLoop (f : Nat → Bool) : Nat → Nat → Nat → Nat
  | 0, i, _ => i
  | fuel+1, i, j =>
    if i < j then
      let h := (i + j) / 2
      if !f h then searchLoop f fuel (h+1) j else searchLoop f fuel i h
    else i

def sortSearch (n : Nat) (f : Nat → Bool) : Nat := searchLoop f (n+1) 0 n

/-- `x := (x1*w1 + x2*w2) / (w1 + w2); return math.Max(x1, math.Min(x, x2))` -/
def weightedAverageSorted (x1 w1 x2 w2 : F) : F :=
  let x := (x1 *. w1 +. x2 *. w2) /. (w1 +. w2)
  QOps.fmax x1 (QOps.fmin x x2)

def weightedAverage (x1 w1 x2 w2 : F) : F :=
  if QOps.le x1 x2 then weightedAverageSorted x1 w1 x2 w2
  else weightedAverageSorted x2 w2 x1 w1

/-- The predicate handed to `sort.Search`: `cumulative[i] >= index`. -/
def geAt (cum : List F) (index : F) (i : Nat) : Bool :=
  match cum[i]? with
  | some c => QOps.le index c
  | none => false

/-- `(*TDigest).Quantile(q)` after `process()`, with the cumulative table given. A slice index out
of range is the explicit outcome `panic`. -/
def quantileCum (cum : List F) (d : Digest F) (q : F) : Outcome F :=
  if QOps.lt q (QOps.ofNat 0) || QOps.lt (QOps.ofNat 1) q then .ok QOps.nan else
  match d.processed with
  | [] => .ok QOps.nan
  | [c] => .ok c.mean
  | c0 :: _ :: _ =>
    let index := q *. d.processedWeight
    if QOps.le index (c0.weight /. QOps.ofNat 2) then
      .ok (d.min +. (QOps.ofNat 2 *. index /. c0.weight) *. (c0.mean -. d.min))
    else
      let lower := sortSearch cum.length (geAt cum index)
      if lower + 1 ≠ cum.length then
        if lower = 0 then .panic else    -- cumulative[-1]
        match cum[lower-1]?, cum[lower]?, d.processed[lower-1]?, d.processed[lower]? with
        | some cl, some cu, some pl, some pu =>
          let z1 := index -. cl
          let z2 := cu -. index
          .ok (weightedAverage pl.mean z2 pu.mean z1)
        | _, _, _, _ => .panic
      else
        match d.processed[lower-1]?, d.processed.getLast? with
        | some pl, some last =>
          let z1 := index -. d.processedWeight -. pl.weight /. QOps.ofNat 2
          let z2 := pl.weight /. QOps.ofNat 2 -. z1
          .ok (weightedAverage last.mean z1 d.max z2)
        | _, _ => .panic

def quantile (d : Digest F) (q : F) : Outcome F := quantileCum (cumulative d.processed) d q

/-! ### vegeta's side -/

/-- `LatencyMetrics.Quantile`: `time.Duration(l.estimator.Get(nth))`; `trunc` is Go's
`float64 → int64` conversion. -/
def latQuantileCum (trunc : F → Int) (cum : List F) (d : Digest F) (q : F) : Outcome Int :=
  match quantileCum cum d q with
  | .ok x => .ok (trunc x)
  | .error e => .error e
  | .panic => .panic

def latQuantile (trunc : F → Int) (d : Digest F) (q : F) : Outcome Int :=
  latQuantileCum trunc (cumulative d.processed) d q

structure Percentiles where
  p50 : Int
  p90 : Int
  p95 : Int
  p99 : Int
  deriving Repr, DecidableEq

/-- The quantile arguments of `Metrics.Close` as (numerator, denominator) of the literal, in the
order of the fields P50, P90, P95, P99 (tied to the source by the regenerated facts). -/
def closeQuantiles : List (Nat × Nat) := [(50, 100), (90, 100), (95, 100), (99, 100)]

/-- The four assignments at the end of `Metrics.Close`. -/
def close (trunc : F → Int) (d : Digest F) : Outcome Percentiles :=
  let cum := cumulative d.processed
  match latQuantileCum trunc cum d (lit 50 100), latQuantileCum trunc cum d (lit 90 100),
        latQuantileCum trunc cum d (lit 95 100), latQuantileCum trunc cum d (lit 99 100) with
  | .ok a, .ok b, .ok c, .ok e => .ok ⟨a, b, c, e⟩
  | _, _, _, _ => .panic

/-- `milliseconds(d)`: `msec, nsec := d/time.Millisecond, d%time.Millisecond;
float64(msec) + float64(nsec)/1e6`. -/
def milliseconds (d : Int) : F :=
  (QOps.ofInt (d.tdiv 1000000) : F) +. (QOps.ofInt (d.tmod 1000000) : F) /. QOps.ofNat 1000000

/-- `oneByQuantile` -/
def oneByQuantile (q : F) : F :=
  if QOps.lt q (QOps.ofNat 1) then (QOps.ofNat 1 : F) /. (QOps.ofNat 1 -. q) else QOps.ofNat 10000000

structure HdrRow (F : Type) where
  value : F        -- Value(ms)
  q : F            -- Percentile
  count : Int      -- TotalCount
  oneBy : F        -- 1/(1-Percentile)
  dur : Int        -- the `time.Duration` the value column was computed from (not printed)

/-- One row of `NewHDRHistogramPlotReporter`; `requests` is `m.Requests`. -/
def hdrRow (trunc : F → Int) (cum : List F) (d : Digest F) (requests : Nat) (q : F) : Outcome (HdrRow F) :=
  match latQuantileCum trunc cum d q with
  | .ok dur =>
    let total : F := QOps.ofNat requests
    .ok { value := milliseconds dur, q := q, count := trunc (q *. total +. lit 5 10),
          oneBy := oneByQuantile q, dur := dur }
  | .error e => .error e
  | .panic => .panic

def hdrRowsFrom (trunc : F → Int) (cum : List F) (d : Digest F) (requests : Nat) :
    List F → Outcome (List (HdrRow F))
  | [] => .ok []
  | q :: qs => match hdrRow trunc cum d requests q with
    | .ok r => match hdrRowsFrom trunc cum d requests qs with
      | .ok rs => .ok (r :: rs)
      | o => o
    | .error e => .error e
    | .panic => .panic

/-- All rows for a percentile ladder given as literals (numerator, denominator). -/
def hdrRows (trunc : F → Int) (d : Digest F) (requests : Nat) (ladder : List (Nat × Nat)) :
    Outcome (List (HdrRow F)) :=
  hdrRowsFrom trunc (cumulative d.processed) d requests (ladder.map fun (n, dn) => lit n dn)

end generic

/-! ### the float instance used by the driver (bit-exact with Go on amd64 for + − × ÷) -/

/-- `math.Max` (special cases of the Go source). -/
def goMax (x y : F64) : F64 :=
  if (x.isInf && !x.sign) || (y.isInf && !y.sign) then F64.inf false
  else if x.isNaN || y.isNaN then F64.nan
  else if x.isZero && y.isZero then (if x.sign then y else x)
  else if F64.lt y x then x else y

/-- `math.Min`. -/
def goMin (x y : F64) : F64 :=
  if (x.isInf && x.sign) || (y.isInf && y.sign) then F64.inf true
  else if x.isNaN || y.isNaN then F64.nan
  else if x.isZero && y.isZero then (if x.sign then x else y)
  else if F64.lt x y then x else y

instance : QOps F64 where
  add := F64.add
  sub := F64.sub
  mul := F64.mul
  div := F64.div
  le := F64.le
  lt := F64.lt
  ofNat := F64.ofNat
  ofInt := F64.ofInt
  nan := F64.nan
  fmax := goMax
  fmin := goMin

end Vegeta.Model.Quantile
