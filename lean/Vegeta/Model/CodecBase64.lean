/-
Model of `encoding/base64.StdEncoding` (alphabet A–Z a–z 0–9 + /, padding '='):
`EncodeToString`, `DecodeString`/`Decode` (non-strict: trailing bits are not checked;
'\r' and '\n' are ignored anywhere in the input).  easyjson's `jwriter.base64` emits the
same text as `EncodeToString`; `jlexer.Bytes` decodes with `StdEncoding.Decode`.
-/
import Vegeta.Model.CodecDecimal
namespace Vegeta.Model.Codec
open Vegeta.Go

def eBase64 : Nat := 3

/-- alphabet: sextet → character -/
def b64Char (v : Nat) : Nat :=
  if v < 26 then 65 + v
  else if v < 52 then 97 + (v - 26)
  else if v < 62 then 48 + (v - 52)
  else if v = 62 then 43 else 47

/-- `decodeMap`: character → sextet (none = 0xff) -/
def b64Val (c : Nat) : Option Nat :=
  if 65 ≤ c ∧ c ≤ 90 then some (c - 65)
  else if 97 ≤ c ∧ c ≤ 122 then some (c - 97 + 26)
  else if 48 ≤ c ∧ c ≤ 57 then some (c - 48 + 52)
  else if c = 43 then some 62
  else if c = 47 then some 63
  else none

/-- `EncodeToString` -/
def b64Encode : Bytes → Bytes
  | [] => []
  | [a] => [b64Char (a / 4), b64Char ((a % 4) * 16), 61, 61]
  | [a, b] => [b64Char (a / 4), b64Char ((a % 4) * 16 + b / 16), b64Char ((b % 16) * 4), 61]
  | a :: b :: c :: r =>
    b64Char (a / 4) :: b64Char ((a % 4) * 16 + b / 16) :: b64Char ((b % 16) * 4 + c / 64)
      :: b64Char (c % 64) :: b64Encode r

/-- the quantum loop of `Decode` on input from which CR and LF were already removed
(`decodeQuantum` skips them at every position, so removing them first is the same) -/
def b64DecodeQ : Bytes → Outcome Bytes
  | [] => .ok []
  | c0 :: c1 :: c2 :: c3 :: r =>
    match b64Val c0, b64Val c1 with
    | some v0, some v1 =>
      if c2 = 61 then
        -- "xx==" must end the input
        if c3 = 61 ∧ r = [] then .ok [v0 * 4 + v1 / 16] else .error eBase64
      else match b64Val c2 with
        | none => .error eBase64
        | some v2 =>
          if c3 = 61 then
            if r = [] then .ok [v0 * 4 + v1 / 16, (v1 % 16) * 16 + v2 / 4]
            else .error eBase64
          else match b64Val c3 with
            | none => .error eBase64
            | some v3 =>
              match b64DecodeQ r with
              | .ok t => .ok ((v0 * 4 + v1 / 16) :: ((v1 % 16) * 16 + v2 / 4)
                              :: ((v2 % 4) * 64 + v3) :: t)
              | o => o
    | _, _ => .error eBase64
  | _ => .error eBase64     -- 1 to 3 characters left: input ended inside a quantum

def notCRLF (c : Nat) : Bool := c != 10 && c != 13

/-- `StdEncoding.DecodeString` -/
def b64Decode (s : Bytes) : Outcome Bytes := b64DecodeQ (s.filter notCRLF)

end Vegeta.Model.Codec
