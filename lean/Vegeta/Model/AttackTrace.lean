/-
Trace validation helpers for C04/C05: observed pacer consultations and observed per-hit
instants of the real attack are replayed against the transition system's guards and the
invariants proved in Proofs/AttackInv.lean.
-/
import Vegeta.Model.Attack
namespace Vegeta.Model.Attack

/-- one observed consultation: elapsed argument, hits argument, answer (`none` = stop) -/
structure Consult where
  elapsed : Nat
  hits    : Nat
  wait    : Option Int
  deriving Repr, DecidableEq

/-- Replay a log of consultations of an attack that ran to its end on its own (no external Stop,
no targeter failure) with every hit completing at once: each consultation must be enabled in the
model at the observed elapsed time with the observed hits argument. Returns the index of the
first consultation the model does not allow, or `none`. -/
def replayConsults (du : Nat) : St → Nat → List Consult → Option Nat
  | s, _, [] =>
    -- the loop must now end: deadline passed (or the last answer was stop, handled below)
    none
  | s, k, c :: rest =>
    if c.elapsed < s.now then some k else
    let s1 : St := { s with now := c.elapsed }
    if c.hits ≠ s1.count then some k else
    match c.wait with
    | none => match step s1 .paceStop with
      | some _ => if rest.isEmpty then none else some (k + 1)   -- nothing may follow a stop
      | none => some k
    | some w => match step s1 (.paceWait w) with
      | none => some k
      | some s2 =>
        -- sleep, wake, hand the tick to the idle worker, run the hit to completion, consume it
        let i := s2.seq
        match run { s2 with now := s2.now + w.toNat } [.wake, .tick, .csEnter, .csLeave, .finish i, .deliver i] with
        | some s3 => replayConsults du s3 (k + 1) rest
        | none => some k

def replayLog (du : Nat) (cs : List Consult) : Option Nat :=
  match run (init 1 1 du) [.ready] with
  | some s => replayConsults du s 0 cs
  | none => some 0

/-- decidable form of the per-hit clock invariant (`HitOK` without the phase clauses) -/
def hitTimesOK (h : Hit) : Bool :=
  (match h.entered with | some e => h.ts ≤ e | none => true) &&
  (match h.left, h.entered with | some l, some e => e ≤ l | some _, none => false | none, _ => true) &&
  (match h.fin with
   | some f => h.ts ≤ f && (match h.entered, h.left with | some _, some l => l ≤ f | some _, none => false | none, _ => true)
   | none => true)

def tsSorted : List Nat → Bool
  | [] => true
  | [_] => true
  | a :: b :: r => a ≤ b && tsSorted (b :: r)

/-- index of the first hit violating the clock invariants, or of the first descent in timestamps -/
def checkHits (hs : List Hit) : Option Nat :=
  match hs.findIdx? (fun h => !hitTimesOK h) with
  | some i => some i
  | none => if tsSorted (hs.map (·.ts)) then none else some hs.length

end Vegeta.Model.Attack
