/-
Model of the text reporter (lib/reporters.go `NewTextReporter`, `round`, the `durations` table)
and of the report command's loop (report.go: decode / tick / interrupt / EOF).

The text reporter hands cells to a `text/tabwriter`; the tabwriter only pads cells, so the
model is the list of cells: per line `(label, header, values)` — `values` being the exact
text produced by the `fmt` verbs — followed by the line "Error Set:" and one line per error.
`%d` is `fmtNat`, `%s` of a `time.Duration` is `Duration.toString`, `%.2f` of a float64 is
`fmtFixed2`: the exact decimal rounding (half to even on the exact binary value) that
`strconv.FormatFloat(f, 'f', 2, 64)` performs.  The four percentiles P50..P99 are parameters
(t-digest, C11).
-/
import Vegeta.Go.Duration
import Vegeta.Model.Metrics
namespace Vegeta.Model.MetricsText
open Vegeta.Go Vegeta.Model.Metrics

/-! ### `time.Duration.Round` and `round` -/

/-- `lessThanHalf(x, y)`: `uint64(x)+uint64(x) < uint64(y)` -/
def lessThanHalf (x y : Int) : Bool := wrapU64 (wrapU64 x + wrapU64 x) < wrapU64 y

/-- `Duration.Round(m)`: nearest multiple of `m`, halves away from zero; `d` for `m ≤ 0`;
the extreme durations on overflow. -/
def durRound (d m : Int) : Int :=
  if m ≤ 0 then d else
  let r := Int.tmod d m
  if d < 0 then
    let r := -r
    if lessThanHalf r m then wrapS64 (d + r) else
    let d1 := wrapS64 (d - m + r)
    if d1 < d then d1 else minInt64
  else
    if lessThanHalf r m then wrapS64 (d - r) else
    let d1 := wrapS64 (d + m - r)
    if d1 > d then d1 else maxInt64

/-- `var durations = [...]time.Duration{Hour, Minute, Second, Millisecond, Microsecond, Nanosecond}` -/
def durations : List Int := [3600000000000, 60000000000, 1000000000, 1000000, 1000, 1]

/-- the loop of `round`: the first unit `≤ d` that is not the last one decides: round to the next unit -/
def roundFrom (d : Int) : List Int → Int
  | u :: next :: rest => if d ≥ u then durRound d next else roundFrom d (next :: rest)
  | _ => d

/-- `round(d)`: "round to the next most precise unit" -/
def round (d : Int) : Int := roundFrom d durations

/-! ### `%.2f` -/

def twoDigits (n : Nat) : Bytes := [48 + n / 10 % 10, 48 + n % 10]

/-- `fmt.Sprintf("%.2f", x)` -/
def fmtFixed2 (x : F64) : Bytes :=
  if x.isNaN then [78, 97, 78]                                   -- "NaN"
  else if x.isInf then (if x.sign then [45, 73, 110, 102] else [43, 73, 110, 102])   -- "-Inf" / "+Inf"
  else
    -- |x| · 100 = mant · 100 · 2^expo, rounded to an integer, ties to even
    let q : Nat :=
      if x.expo ≥ 0 then x.mant * 100 * 2 ^ x.expo.toNat
      else
        let num := x.mant * 100
        let den := 2 ^ (-x.expo).toNat
        let q := num / den
        let r := num % den
        if 2 * r > den then q + 1 else if 2 * r = den then q + q % 2 else q
    (if x.sign then [45] else []) ++ Duration.fmtNat (q / 100) ++ [46] ++ twoDigits (q % 100)

/-! ### cells -/

def sep : Bytes := [44, 32]   -- ", "

def joinSep : List Bytes → Bytes
  | [] => []
  | [x] => x
  | x :: xs => x ++ sep ++ joinSep xs

/-- byte-wise lexicographic `<` on strings (Go's `<` on strings, used by `sort.Strings`) -/
def lexLt : Bytes → Bytes → Bool
  | [], [] => false
  | [], _ :: _ => true
  | _ :: _, [] => false
  | a :: as, b :: bs => if a < b then true else if b < a then false else lexLt as bs

/-- insertion into a list sorted by the decimal text of the code -/
def insertByText (p : Nat × Nat) : List (Nat × Nat) → List (Nat × Nat)
  | [] => [p]
  | q :: t => if lexLt (Duration.fmtNat q.1) (Duration.fmtNat p.1) then q :: insertByText p t else p :: q :: t

/-- `sort.Strings(codes)` on the map's keys -/
def sortByText : List (Nat × Nat) → List (Nat × Nat)
  | [] => []
  | p :: t => insertByText p (sortByText t)

/-- `fmt.Fprintf(tw, "%s:%d  ", code, count)` -/
def codeCell (p : Nat × Nat) : Bytes := Duration.fmtNat p.1 ++ [58] ++ Duration.fmtNat p.2 ++ [32, 32]

structure TextReport where
  rows   : List (Bytes × Bytes × Bytes)   -- label, header, values
  errors : List Bytes                      -- the lines after "Error Set:"
  deriving Repr, DecidableEq

/-- labels and headers of the seven lines (ASCII) -/
def lRequests : Bytes := [82, 101, 113, 117, 101, 115, 116, 115]
def hRequests : Bytes := [91, 116, 111, 116, 97, 108, 44, 32, 114, 97, 116, 101, 44, 32, 116, 104, 114, 111, 117, 103, 104, 112, 117, 116, 93]
def lDuration : Bytes := [68, 117, 114, 97, 116, 105, 111, 110]
def hDuration : Bytes := [91, 116, 111, 116, 97, 108, 44, 32, 97, 116, 116, 97, 99, 107, 44, 32, 119, 97, 105, 116, 93]
def lLatencies : Bytes := [76, 97, 116, 101, 110, 99, 105, 101, 115]
def hLatencies : Bytes := [91, 109, 105, 110, 44, 32, 109, 101, 97, 110, 44, 32, 53, 48, 44, 32, 57, 48, 44, 32, 57, 53, 44, 32, 57, 57, 44, 32, 109, 97, 120, 93]
def lBytesIn : Bytes := [66, 121, 116, 101, 115, 32, 73, 110]
def lBytesOut : Bytes := [66, 121, 116, 101, 115, 32, 79, 117, 116]
def hBytes : Bytes := [91, 116, 111, 116, 97, 108, 44, 32, 109, 101, 97, 110, 93]
def lSuccess : Bytes := [83, 117, 99, 99, 101, 115, 115]
def hSuccess : Bytes := [91, 114, 97, 116, 105, 111, 93]
def lCodes : Bytes := [83, 116, 97, 116, 117, 115, 32, 67, 111, 100, 101, 115]
def hCodes : Bytes := [91, 99, 111, 100, 101, 58, 99, 111, 117, 110, 116, 93]

/-- The cells `NewTextReporter(m).Report` writes, for the closed metrics `r` and the percentiles `p50 … p99`. -/
def textReport (r : Report) (p50 p90 p95 p99 : Int) : TextReport :=
  let dur (d : Int) := Duration.toString (round d)
  { rows :=
      [ (lRequests, hRequests, joinSep [Duration.fmtNat r.requests, fmtFixed2 r.rate, fmtFixed2 r.throughput]),
        (lDuration, hDuration, joinSep [dur (wrapS64 (r.duration + r.wait)), dur r.duration, dur r.wait]),
        (lLatencies, hLatencies, joinSep [dur r.latMin, dur r.latMean, dur p50, dur p90, dur p95, dur p99, dur r.latMax]),
        (lBytesIn, hBytes, joinSep [Duration.fmtNat r.bytesInTotal, fmtFixed2 r.bytesInMean]),
        (lBytesOut, hBytes, joinSep [Duration.fmtNat r.bytesOutTotal, fmtFixed2 r.bytesOutMean]),
        (lSuccess, hSuccess, fmtFixed2 (F64.mul r.successRatio (F64.ofNat 100)) ++ [37]),
        (lCodes, hCodes, ((sortByText r.statusCodes).map codeCell).flatten) ]
    errors := r.errors }

/-! ### the report command's loop (report.go:136-166) -/

/-- what the `select` of one iteration does: the interrupt signal, a tick of `-every`, or (default) one `Decode` -/
inductive Ev where
  | interrupt
  | tick
  | decode
  deriving Repr, DecidableEq

structure Loop where
  m     : Metrics
  input : List Result        -- what the decoder has not yielded yet
  out   : List Report        -- the reports written so far (each `rc.Close(); rep.Report(out)`)
  done  : Bool               -- left the loop and wrote the final report
  deriving Repr, DecidableEq

def Loop.start (rs : List Result) : Loop := { m := Metrics.init, input := rs, out := [], done := false }

/-- `writeReport`: `Close` then render -/
def writeReport (s : Loop) : Loop := let m' := close s.m; { s with m := m', out := s.out ++ [report m'] }

def loopStep (s : Loop) (e : Ev) : Loop :=
  if s.done then s else
  match e with
  | .interrupt => { writeReport s with done := true }            -- `break decode`, then the final writeReport
  | .tick => writeReport s
  | .decode => match s.input with
    | [] => { writeReport s with done := true }                   -- io.EOF: `break decode`, final writeReport
    | r :: rest => { s with m := add s.m r, input := rest }       -- `report.Add(&r)`

def loopRun (rs : List Result) (evs : List Ev) : Loop := evs.foldl loopStep (Loop.start rs)

end Vegeta.Model.MetricsText

/-! ### the JSON report (`NewJSONReporter`: `json.NewEncoder(w).Encode(m)`) -/
namespace Vegeta.Model.MetricsText
open Vegeta.Go Vegeta.Model.Metrics

/-- a JSON value of the report, before `encoding/json` renders it (number rendering is the library's) -/
inductive JV where
  | int   : Int → JV                       -- `time.Duration` / `int64`
  | nat   : Nat → JV                       -- `uint64`
  | flt   : F64 → JV                       -- `float64`
  | time  : Option Int → JV                -- `time.Time` (RFC 3339; `none` = the zero time)
  | codes : List (Nat × Nat) → JV          -- `map[string]int`: members in the order written
  | strs  : List Bytes → JV                -- `[]string`
  deriving Repr, DecidableEq

/-- the documented member names, as paths, in the order `encoding/json` writes them (struct declaration order;
`buckets` is omitted without `-buckets`) -/
def jsonKeys : List Bytes :=
  [[108, 97, 116, 101, 110, 99, 105, 101, 115, 46, 116, 111, 116, 97, 108],
   [108, 97, 116, 101, 110, 99, 105, 101, 115, 46, 109, 101, 97, 110],
   [108, 97, 116, 101, 110, 99, 105, 101, 115, 46, 53, 48, 116, 104],
   [108, 97, 116, 101, 110, 99, 105, 101, 115, 46, 57, 48, 116, 104],
   [108, 97, 116, 101, 110, 99, 105, 101, 115, 46, 57, 53, 116, 104],
   [108, 97, 116, 101, 110, 99, 105, 101, 115, 46, 57, 57, 116, 104],
   [108, 97, 116, 101, 110, 99, 105, 101, 115, 46, 109, 97, 120],
   [108, 97, 116, 101, 110, 99, 105, 101, 115, 46, 109, 105, 110],
   [98, 121, 116, 101, 115, 95, 105, 110, 46, 116, 111, 116, 97, 108],
   [98, 121, 116, 101, 115, 95, 105, 110, 46, 109, 101, 97, 110],
   [98, 121, 116, 101, 115, 95, 111, 117, 116, 46, 116, 111, 116, 97, 108],
   [98, 121, 116, 101, 115, 95, 111, 117, 116, 46, 109, 101, 97, 110],
   [101, 97, 114, 108, 105, 101, 115, 116],
   [108, 97, 116, 101, 115, 116],
   [101, 110, 100],
   [100, 117, 114, 97, 116, 105, 111, 110],
   [119, 97, 105, 116],
   [114, 101, 113, 117, 101, 115, 116, 115],
   [114, 97, 116, 101],
   [116, 104, 114, 111, 117, 103, 104, 112, 117, 116],
   [115, 117, 99, 99, 101, 115, 115],
   [115, 116, 97, 116, 117, 115, 95, 99, 111, 100, 101, 115],
   [101, 114, 114, 111, 114, 115]]

/-- The members `NewJSONReporter(m).Report` writes for the closed metrics `r` (percentiles as parameters):
struct fields in declaration order, the status-code map with its keys sorted as strings (`encoding/json`
sorts map keys), the error slice in order. -/
def jsonReport (r : Report) (p50 p90 p95 p99 : Int) : List (Bytes × JV) :=
  jsonKeys.zip
    [ .int r.latTotal, .int r.latMean, .int p50, .int p90, .int p95, .int p99, .int r.latMax, .int r.latMin,
      .nat r.bytesInTotal, .flt r.bytesInMean, .nat r.bytesOutTotal, .flt r.bytesOutMean,
      .time r.earliest, .time r.latest, .time r.end_, .int r.duration, .int r.wait, .nat r.requests,
      .flt r.rate, .flt r.throughput, .flt r.successRatio, .codes (sortByText r.statusCodes), .strs r.errors ]

end Vegeta.Model.MetricsText
