/-
C16 — the index/slice expressions and skip loops of vegeta's own parsing code, each modelled
with Go's run-time checks as an explicit `panic` outcome:

* `NewCSVDecoder` (lib/results.go): the conversion of one csv record into a Result
  (`rec[0]` … `rec[11]`);
* `Buckets.UnmarshalText` (lib/histogram.go): `value[0]`, `value[len(value)-1]`,
  `value[1:len(value)-1]` behind `len(value) < 2`;
* `report` (report.go): `typ[4:]` behind `len(typ) < 4`, the `hist` prefix handling;
* `NewHTTPTargeter` (lib/targets.go): the skip loop with `line[0]` behind `len(line) != 0`,
  and `line[1:]` behind `HasPrefix(line, "@")`;
* `NewJSONTargeter`: the empty-line skip loop.

Library parsers (encoding/csv, base64, textproto, gob, jlexer, url.ParseRequestURI) are
parameters of these definitions; nothing is claimed about them.
-/
import Vegeta.Model.Flags
import Vegeta.Model.JSONTargets
namespace Vegeta.Model.ParserGuards
open Vegeta.Go
open Vegeta.Model.Histogram (trimSpace splitOn unmarshalParts eBadBuckets)
open Vegeta.Model.Flags (parseInt64 parseUint maxU64 maxU16)

/-- `s[i]` on a slice of strings / bytes, with the bounds check -/
def elemAt {α} (s : List α) (i : Nat) : Outcome α :=
  match s[i]? with
  | some x => .ok x
  | none => .panic

/-- `s[lo:]` with the bounds check (`lo ≤ len(s)`) -/
def sliceFrom {α} (s : List α) (lo : Nat) : Outcome (List α) :=
  if lo ≤ s.length then .ok (s.drop lo) else .panic

/-- `s[lo:hi]` with the bounds check (`lo ≤ hi ≤ len(s)`); `hi` is an `int`: a negative
value panics -/
def slice {α} (s : List α) (lo : Nat) (hi : Int) : Outcome (List α) :=
  if 0 ≤ hi ∧ (lo : Int) ≤ hi ∧ hi ≤ s.length then .ok ((s.take hi.toNat).drop lo) else .panic

/-! ### CSV record → Result -/

structure CsvResult (H : Type) where
  timestamp : Int
  code      : Nat
  latency   : Int
  bytesOut  : Nat
  bytesIn   : Nat
  error     : Bytes
  body      : Bytes
  attack    : Bytes
  seq       : Nat
  method    : Bytes
  url       : Bytes
  headers   : Option H
  deriving Repr

def ofParse {α} : α × Option Nat → Outcome α
  | (v, none) => .ok v
  | (_, some e) => .error e

def ofOption {α} (e : Nat) : Option α → Outcome α
  | some v => .ok v
  | none => .error e

/-- `if rec[11] != "" { … ReadMIMEHeader … r.Headers = http.Header(hdr) }` -/
def csvHeaders {H : Type} (mime : Bytes → Option H) (fields : List Bytes) : Outcome (Option H) :=
  (elemAt fields 11).bind fun h11 =>
    if h11 ≠ [] then (elemAt fields 11).bind fun f => (ofOption 31 (mime f)).bind fun h => .ok (some h)
    else .ok none

/-- the closure returned by `NewCSVDecoder`, after `rec, err := dec.Read()` (here `fields`) succeeded.
`b64` = `base64.StdEncoding.DecodeString`, `mime` = base64 stream + `ReadMIMEHeader`
(library functions, parameters). -/
def csvToResult {H : Type} (b64 : Bytes → Option Bytes) (mime : Bytes → Option H) (fields : List Bytes) :
    Outcome (CsvResult H) := do
  let ts ← (elemAt fields 0).bind fun f => ofParse (parseInt64 f)
  let code ← (elemAt fields 1).bind fun f => ofParse (parseUint maxU16 f)
  let lat ← (elemAt fields 2).bind fun f => ofParse (parseInt64 f)
  let bout ← (elemAt fields 3).bind fun f => ofParse (parseUint maxU64 f)
  let bin ← (elemAt fields 4).bind fun f => ofParse (parseUint maxU64 f)
  let err ← elemAt fields 5
  let body ← (elemAt fields 6).bind fun f => ofOption 30 (b64 f)
  let attack ← elemAt fields 7
  let seq ← (elemAt fields 8).bind fun f => ofParse (parseUint maxU64 f)
  let method ← elemAt fields 9
  let url ← elemAt fields 10
  let hdr ← csvHeaders mime fields
  pure { timestamp := ts, code := code, latency := lat, bytesOut := bout, bytesIn := bin, error := err,
         body := body, attack := attack, seq := seq, method := method, url := url, headers := hdr }

/-- the indices used above, as data (compared with the indices extracted from the source) -/
def csvIndicesUsed : List Nat := [0, 1, 2, 3, 4, 5, 6, 7, 8, 9, 10, 11, 11]

/-! ### Buckets.UnmarshalText with its index expressions -/

/-- `Buckets.UnmarshalText`, `value[0]`, `value[len(value)-1]`, `value[1:len(value)-1]`
written with their run-time checks; `||` short-circuits left to right. -/
def unmarshalTextIdx (value : Bytes) : Outcome (List Int) :=
  if value.length < 2 then .error eBadBuckets else
  match elemAt value 0 with
  | .panic => .panic
  | .error e => .error e
  | .ok c0 =>
    if c0 ≠ 91 then .error eBadBuckets else
    match elemAt value (value.length - 1) with
    | .panic => .panic
    | .error e => .error e
    | .ok cl =>
      if cl ≠ 93 then .error eBadBuckets else
      match slice value 1 ((value.length : Int) - 1) with
      | .panic => .panic
      | .error e => .error e
      | .ok inner =>
        match unmarshalParts (splitOn 44 inner) true [] with
        | .ok bs => if bs.isEmpty then .error eBadBuckets else .ok bs
        | o => o

/-! ### report: the type dispatch -/

inductive ReportKind where
  | text | json | jsonBuckets (bs : List Int) | hdrplot | hist (bs : List Int)
  deriving Repr, DecidableEq

def eInvalidType : Nat := 40
def ePlotDeprecated : Nat := 41
def eBadBucketsTyp : Nat := 42
def eUnknownType : Nat := 43

def sText : Bytes := [116, 101, 120, 116]
def sJson : Bytes := [106, 115, 111, 110]
def sPlot : Bytes := [112, 108, 111, 116]
def sHdrplot : Bytes := [104, 100, 114, 112, 108, 111, 116]
def sHist : Bytes := [104, 105, 115, 116]

/-- the part of `report` that looks at `typ` and `bucketsStr` (file handling left out):
`len(typ) < 4` first, then the switch; in the default branch `typ[4:]` twice. -/
def reportType (typ buckets : Bytes) : Outcome ReportKind :=
  if typ.length < 4 then .error eInvalidType else
  if typ = sPlot then .error ePlotDeprecated
  else if typ = sText then .ok .text
  else if typ = sJson then
    if buckets ≠ [] then
      match unmarshalTextIdx buckets with
      | .ok bs => .ok (.jsonBuckets bs)
      | .error e => .error e
      | .panic => .panic
    else .ok .json
  else if typ = sHdrplot then .ok .hdrplot
  else if sHist.isPrefixOf typ then
    let bstr : Outcome Bytes :=
      if buckets = [] then
        if typ.length < 6 then
          match sliceFrom typ 4 with      -- only formatted into the error message
          | .panic => .panic
          | _ => .error eBadBucketsTyp
        else sliceFrom typ 4
      else .ok buckets
    match bstr with
    | .panic => .panic
    | .error e => .error e
    | .ok b =>
      match unmarshalTextIdx b with
      | .ok bs => .ok (.hist bs)
      | .error e => .error e
      | .panic => .panic
  else .error eUnknownType

/-! ### HTTP targeter: skip loop and body-file reference -/

/-- the loop condition `len(line) != 0 && line[0] != '#'` (short-circuit) -/
def isTargetLine (line : Bytes) : Outcome Bool :=
  if line.length ≠ 0 then
    match elemAt line 0 with
    | .ok c => .ok (c ≠ 35)
    | .error e => .error e
    | .panic => .panic
  else .ok false

/-- the first loop of the HTTP targeter over the remaining scanner lines:
`for { if !sc.Scan() { return ErrNoTargets }; line = TrimSpace(sc.Text()); if … { break } }`.
`none` = no targets; `some (line, rest)` = the line found and the lines still unread. -/
def skipLoop : List Bytes → Outcome (Option (Bytes × List Bytes))
  | [] => .ok none
  | l :: rest =>
    let line := trimSpace l
    match isTargetLine line with
    | .panic => .panic
    | .error e => .error e
    | .ok true => .ok (some (line, rest))
    | .ok false => skipLoop rest

/-- `strings.HasPrefix(line, "@")` then `line[1:]` -/
def bodyRef (line : Bytes) : Outcome (Option Bytes) :=
  if [64].isPrefixOf line then
    match sliceFrom line 1 with
    | .ok p => .ok (some p)
    | .error e => .error e
    | .panic => .panic
  else .ok none

/-- `bufio.ScanLines` over a whole input: split at '\n', drop one trailing '\r' per line, a
final line without newline counts when non-empty. (Lines below the scanner's 64 KiB token
limit.) -/
def dropCR (l : Bytes) : Bytes :=
  match l.getLast? with
  | some 13 => l.dropLast
  | _ => l

def scanLines (input : Bytes) : List Bytes :=
  let parts := splitOn 10 input
  let parts := if parts.getLast? = some [] then parts.dropLast else parts
  parts.map dropCR

/-- the empty-line skip loop of the JSON targeter over the lines (each with its '\n'
already cut, `bytes.TrimSpace` applied): `for len(jl.Data) == 0 { read; trim }` -/
def jsonSkipLoop : List Bytes → Option (Bytes × List Bytes)
  | [] => none
  | l :: rest =>
    let d := trimSpace l
    if d.length = 0 then jsonSkipLoop rest else some (d, rest)

/-! ### JSON targeter: the reader's mutex as a state bit -/

/-- the shared reader of `NewJSONTargeter`: what is left to read, and whether `rd`'s mutex is held -/
structure JT where
  src    : Bytes
  locked : Bool
  deriving Repr, DecidableEq

/-- one call either returns (result, reader state) or never returns: `rd.Lock()` on a mutex that an
earlier call left locked blocks for ever -/
inductive JTRes (α : Type) where
  | blocks
  | returns (o : Outcome α) (st : JT)
  deriving Repr

/-- One call of the closure returned by `NewJSONTargeter`, statement by statement:
`rd.Lock()`; the read loop `for len(jl.Data) == 0 { ReadBytes; if err != nil { break }; TrimSpace }`
(C14's `popLine`; it is left through `break` or its condition only, the mutex stays held);
`rd.Unlock()`; then `io.EOF` becomes `ErrNoTargets`, any line is decoded (`finish`). -/
def jtCall (cfg : Vegeta.Model.JSONTargets.Cfg) (st : JT) : JTRes Vegeta.Model.JSONTargets.JRec :=
  if st.locked then .blocks else
  let held : JT := { st with locked := true }                                        -- rd.Lock()
  let p := Vegeta.Model.JSONTargets.popLine (held.src.length + 1) held.src           -- the loop
  let afterLoop : JT := { src := p.2, locked := held.locked }
  let released : JT := { afterLoop with locked := false }                            -- rd.Unlock()
  match p.1 with
  | none => .returns (.error Vegeta.Model.JSONTargets.eNoTargets) released
  | some line => .returns (Vegeta.Model.JSONTargets.finish cfg line) released

/-- The variant in which end of input returns from INSIDE the loop (`return ErrNoTargets` before
`rd.Unlock()`): not the code that exists — kept to state what the lock discipline excludes. -/
def jtCallEarlyReturn (cfg : Vegeta.Model.JSONTargets.Cfg) (st : JT) : JTRes Vegeta.Model.JSONTargets.JRec :=
  if st.locked then .blocks else
  let held : JT := { st with locked := true }
  let p := Vegeta.Model.JSONTargets.popLine (held.src.length + 1) held.src
  match p.1 with
  | none => .returns (.error Vegeta.Model.JSONTargets.eNoTargets) { src := p.2, locked := held.locked }   -- returns with the mutex held
  | some line => .returns (Vegeta.Model.JSONTargets.finish cfg line) { src := p.2, locked := false }

/-- `n` calls one after the other on the shared reader; `none` = some call never returned -/
def jtCalls (call : JT → JTRes Vegeta.Model.JSONTargets.JRec) : Nat → JT → Option (List (Outcome Vegeta.Model.JSONTargets.JRec) × JT)
  | 0, st => some ([], st)
  | n + 1, st =>
    match call st with
    | .blocks => none
    | .returns o st1 =>
      match jtCalls call n st1 with
      | none => none
      | some (os, st2) => some (o :: os, st2)

/-! ### The commands' decoder assembly (file.go `decoder(files)`, encode.go / report.go / plot.go)

    files := fs.Args()
    if len(files) == 0 { files = append(files, "stdin") }
    …
    for _, f := range files {
        rc, err := file(f, false);    if err != nil { return nil, closer, err }
        dec := vegeta.DecoderFor(rc); if dec == nil { return nil, closer, fmt.Errorf("encode: can't detect encoding of %q", f) }
        decs = append(decs, dec); closer = append(closer, rc)
    }
    return vegeta.NewRoundRobinDecoder(decs...), closer, nil

`detect f = none`: the file cannot be opened or no decoder accepts its beginning (`DecoderFor` = nil — also
for an input without a single byte). Opening and detection are parameters. -/

/-- the word the commands use for standard input -/
def stdinWord : Bytes := [115, 116, 100, 105, 110]

/-- no file argument means standard input -/
def commandFiles (args : List Bytes) : List Bytes := if args.isEmpty then [stdinWord] else args

/-- the loop of `decoder(files)`: one decoder per file in order, the first failure ends it (`none`) -/
def assemble {δ : Type} (detect : Bytes → Option δ) : List Bytes → Option (List δ)
  | [] => some []
  | f :: t =>
    match detect f with
    | none => none
    | some d =>
      match assemble detect t with
      | none => none
      | some ds => some (d :: ds)

/-- what a command hands to `NewRoundRobinDecoder` -/
def commandDecoders {δ : Type} (detect : Bytes → Option δ) (args : List Bytes) : Option (List δ) :=
  assemble detect (commandFiles args)

end Vegeta.Model.ParserGuards
