/-
Interleaving model of the three targeters of lib/targets.go under concurrent callers
(labelled transition systems with an executable `step`).

* stream targeters (`NewJSONTargeter`, `NewHTTPTargeter`): a caller first executes the critical
  section as ONE step (`lock c`: the mutex-protected region — for the JSON targeter the
  `ReadBytes` loop only, for the HTTP targeter the whole decode), then finishes locally
  (`finish c`: decode + merge for JSON, plain return for HTTP).  That the shared reader is only
  touched inside the lock is a regenerated source fact (Props/C15 `facts_*`).
* static targeter (`NewStaticTargeter`): `add c` is the single `atomic.AddInt64(&i, 1)`,
  `finish c` the local `tgts[i % len(tgts)]` and copy.
-/
import Vegeta.Model.HTTPTargets
import Vegeta.Model.JSONTargets
namespace Vegeta.Model.TargeterConc
open Vegeta.Go

/-! ### stream targeters -/

/-- what a caller holds between leaving the lock and returning -/
inductive Local (R : Type) where
  | idle : Local R
  | holding : R → Local R
  deriving Repr, DecidableEq

/-- what callers have been told, in completion order -/
inductive Ev (T : Type) where
  | exhausted : Nat → Ev T                  -- caller got `ErrNoTargets`
  | result : Nat → Outcome T → Ev T         -- caller got a target (or a decode error)
  deriving Repr, DecidableEq

structure St (S R T : Type) where
  src : S                        -- shared reader / scanner state, only touched under the lock
  loc : List (Local R)           -- one entry per caller
  log : List (Ev T)
  deriving Repr

inductive Label where
  | lock : Nat → Label
  | finish : Nat → Label
  deriving Repr, DecidableEq

/-- a stream targeter: the critical section `pop` (`none` = exhausted) and the local rest `dec` -/
structure Sys (S R T : Type) where
  pop : S → Option R × S
  dec : R → Outcome T

def init {S R T : Type} (src : S) (callers : Nat) : St S R T :=
  { src := src, loc := List.replicate callers .idle, log := [] }

def step {S R T : Type} (sys : Sys S R T) (s : St S R T) : Label → Option (St S R T)
  | .lock c =>
    match s.loc[c]? with
    | some .idle =>
      match sys.pop s.src with
      | (none, src') => some { s with src := src', log := s.log ++ [.exhausted c] }
      | (some r, src') => some { s with src := src', loc := s.loc.set c (.holding r) }
    | _ => none
  | .finish c =>
    match s.loc[c]? with
    | some (.holding r) => some { s with loc := s.loc.set c .idle, log := s.log ++ [.result c (sys.dec r)] }
    | _ => none

def enabled {S R T : Type} (s : St S R T) : List Label :=
  (List.range s.loc.length).filterMap fun c =>
    match s.loc[c]? with
    | some Local.idle => some (Label.lock c)
    | some (Local.holding _) => some (Label.finish c)
    | none => none

/-- run a schedule; `none` when a label is not enabled -/
def run {S R T : Type} (sys : Sys S R T) : St S R T → List Label → Option (St S R T)
  | s, [] => some s
  | s, l :: ls => match step sys s l with
    | some s' => run sys s' ls
    | none => none

/-- like `run` but labels that are not enabled are skipped (driver convenience) -/
def runLenient {S R T : Type} (sys : Sys S R T) : St S R T → List Label → St S R T
  | s, [] => s
  | s, l :: ls => match step sys s l with
    | some s' => runLenient sys s' ls
    | none => runLenient sys s ls

/-- JSON targeter: the lock covers the read loop; decode and merge happen outside. -/
def jsonSys (cfg : JSONTargets.Cfg) : Sys Bytes Bytes JSONTargets.JRec :=
  { pop := fun src => JSONTargets.popLine (src.length + 1) src
    dec := JSONTargets.finish cfg }

/-- HTTP targeter: the whole decode is one critical section. -/
def httpSys (cfg : HTTPTargets.Cfg) : Sys HTTPTargets.St (Outcome HTTPTargets.Target) HTTPTargets.Target :=
  { pop := fun st =>
      match HTTPTargets.call cfg st with
      | (.error e, st') => if e = HTTPTargets.eNoTargets then (none, st') else (some (.error e), st')
      | (o, st') => (some o, st')
    dec := fun o => o }

/-! ### static targeter -/

structure SSt where
  counter : Int                    -- `i`, starts at -1
  loc : List (Option Int)          -- value `atomic.AddInt64` returned, not yet used
  log : List (Nat × Outcome Nat)   -- (caller, index of the target handed out)
  deriving Repr, DecidableEq

inductive SLabel where
  | add : Nat → SLabel
  | finish : Nat → SLabel
  deriving Repr, DecidableEq

def sinit (callers : Nat) : SSt := { counter := -1, loc := List.replicate callers none, log := [] }

/-- `tgts[v % int64(len(tgts))]`: integer division by zero and a negative index both panic. -/
def sindex (k : Nat) (v : Int) : Outcome Nat :=
  if k = 0 then .panic
  else
    let r := Int.tmod v (k : Int)
    if r < 0 then .panic else .ok r.toNat

def sstep (k : Nat) (s : SSt) : SLabel → Option SSt
  | .add c =>
    match s.loc[c]? with
    | some none =>
      let v := wrapS64 (s.counter + 1)
      some { s with counter := v, loc := s.loc.set c (some v) }
    | _ => none
  | .finish c =>
    match s.loc[c]? with
    | some (some v) => some { s with loc := s.loc.set c none, log := s.log ++ [(c, sindex k v)] }
    | _ => none

def srun (k : Nat) : SSt → List SLabel → Option SSt
  | s, [] => some s
  | s, l :: ls => match sstep k s l with
    | some s' => srun k s' ls
    | none => none

def srunLenient (k : Nat) : SSt → List SLabel → SSt
  | s, [] => s
  | s, l :: ls => match sstep k s l with
    | some s' => srunLenient k s' ls
    | none => srunLenient k s ls


/-! ### the JSON targeter with the reader's buffer made explicit

The JSON targeter decodes OUTSIDE the lock.  That is sound only because `ReadBytes` hands the
caller its own copy of the line.  Here the reader's internal buffer is part of the shared state:
with `fresh = true` a `lock` step gives the caller a copy (`own`), with `fresh = false` it gives
a window into the buffer (`window`, what `ReadSlice` would do), which the next read overwrites. -/

inductive Line where
  | own : Bytes → Line
  | window : Line
  deriving Repr, DecidableEq

structure BSt where
  rest : Bytes                    -- input the reader has not delivered yet
  buf  : Bytes                    -- the line last read, in the reader's buffer
  loc  : List (Local Line)
  log  : List (Ev JSONTargets.JRec)
  deriving Repr

def binit (src : Bytes) (callers : Nat) : BSt :=
  { rest := src, buf := [], loc := List.replicate callers .idle, log := [] }

def bstep (cfg : JSONTargets.Cfg) (fresh : Bool) (s : BSt) : Label → Option BSt
  | .lock c =>
    match s.loc[c]? with
    | some .idle =>
      match JSONTargets.popLine (s.rest.length + 1) s.rest with
      | (none, rest') => some { s with rest := rest', log := s.log ++ [.exhausted c] }
      | (some d, rest') =>
        some { s with rest := rest', buf := d, loc := s.loc.set c (.holding (if fresh then .own d else .window)) }
    | _ => none
  | .finish c =>
    match s.loc[c]? with
    | some (.holding (.own d)) =>
      some { s with loc := s.loc.set c .idle, log := s.log ++ [.result c (JSONTargets.finish cfg d)] }
    | some (.holding .window) =>
      -- decodes whatever the buffer holds NOW
      some { s with loc := s.loc.set c .idle, log := s.log ++ [.result c (JSONTargets.finish cfg s.buf)] }
    | _ => none

def brun (cfg : JSONTargets.Cfg) (fresh : Bool) : BSt → List Label → Option BSt
  | s, [] => some s
  | s, l :: ls => match bstep cfg fresh s l with
    | some s' => brun cfg fresh s' ls
    | none => none

end Vegeta.Model.TargeterConc
