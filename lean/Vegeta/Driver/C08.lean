import Vegeta.Go.Proto
import Vegeta.Model.DecoderFor
/-! Driver operations of property C08 (ops are named `c08.<name>`).

`c08.sniff <orig> <ntrials> {<nreads> {<n> <k>}… <accept>}… <nfinal> {<n> <k>}…`
runs the `DecoderFor` loop of the model on the stream `orig` with the given trial decoders
(read scripts + accept bit) and then the given reads on the final reader.
Answer: `ok <chosen index|nil> buf=<len> under=<len> | t <nreads> <len>… <bytes seen> | … | f <nreads> <len>… <bytes yielded>`
(one `t` group per executed trial; the `f` group only when a decoder was chosen).

`c08.first csv <int>` / `c08.first json`: first byte of an encoded record.
-/
namespace Vegeta.Driver.C08
open Vegeta.Go Vegeta.Go.Proto Vegeta.Model.DecoderFor

def readReq : P ReadReq := do
  let n ← nat
  let k ← nat
  pure { n := n, k := k }

def trialDec : P TrialDec := do
  let sc ← listOf readReq
  let a ← bool
  pure { script := sc, accept := a }

def showReads (tag : String) (gots : List Bytes) : String :=
  tag ++ " " ++ toString gots.length ++ gots.foldl (fun s g => s ++ " " ++ toString g.length) "" ++
    " " ++ hexEncode gots.flatten

def handle (op : String) (args : List String) : Option String :=
  match op with
  | "c08.sniff" => do
    let ((orig, trials, fin), _) ← (do
      let o ← bytes
      let ts ← listOf trialDec
      let f ← listOf readReq
      pure (o, ts, f)).run args
    let (res, seens) := decoderFor orig trials
    let ts := seens.foldl (fun s g => s ++ " | " ++ showReads "t" g) ""
    match res with
    | none => pure ("ok nil" ++ ts)
    | some (i, st) =>
      let (gots, _) := finalRun st fin
      pure ("ok " ++ toString i ++ " buf=" ++ toString st.buf.length ++ " under=" ++ toString st.under.length ++
        ts ++ " | " ++ showReads "f" gots)
  | "c08.first" => do
    let (kind, rest) ← (tok).run args
    if kind == "csv" then
      let (ts, _) ← (int).run rest
      pure ("ok " ++ toString ((csvRecord ts []).headD 0))
    else if kind == "json" then
      pure ("ok " ++ toString ((jsonRecord []).headD 0))
    else none
  | _ => none

end Vegeta.Driver.C08
