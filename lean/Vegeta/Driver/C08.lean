import Vegeta.Go.Proto
/-! Driver operations of property C08 (ops are named `c08.<name>`). -/
namespace Vegeta.Driver.C08
open Vegeta.Go Vegeta.Go.Proto

def handle (_op : String) (args : List String) : Option String :=
  match _op with
  | _ => none

end Vegeta.Driver.C08
