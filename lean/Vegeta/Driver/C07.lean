import Vegeta.Go.Proto
import Vegeta.Model.CodecResult
import Vegeta.Spec.Layout
import Vegeta.Model.GobValue
import Vegeta.Model.EncodeCmd
/-! Driver operations of property C07 (ops are named `c07.<name>`).

Result tokens: `attack seq code ts lat bytesOut bytesIn error body method url headers` with
byte strings in hex, `body` = `n` (nil) or hex, `headers` = `n` (nil) or
`k  key nvals val…  …` (sorted by key on output). -/
namespace Vegeta.Driver.C07
open Vegeta.Go Vegeta.Go.Proto Vegeta.Model.Codec

def optBytes : P (Option Bytes) := do
  let t ← tok
  if t == "n" then pure none else
  match hexDecode t with
  | some b => pure (some b)
  | none => failure

def headerP : P (Option Header) := do
  match (← get) with
  | "n" :: ts => set ts; pure none
  | _ =>
    let h ← listOf (do let k ← bytes; let vs ← listOf bytes; pure (k, vs))
    pure (some h)

def resultP : P Result := do
  let attack ← bytes
  let seq ← nat
  let code ← nat
  let ts ← int
  let lat ← int
  let bout ← nat
  let bin ← nat
  let error ← bytes
  let body ← optBytes
  let method ← bytes
  let url ← bytes
  let headers ← headerP
  pure { attack, seq, code, timestamp := ts, latency := lat, bytesOut := bout, bytesIn := bin,
         error, body, method, url, headers }

def showHeader : Option Header → String
  | none => "n"
  | some h =>
    let hs := sortKV h
    toString hs.length ++ hs.foldl (fun s kv => s ++ " " ++ hexEncode kv.1 ++ " " ++ showBytesList kv.2) ""

def showOptBytes : Option Bytes → String
  | none => "n"
  | some b => hexEncode b

def showResult (r : Result) : String :=
  hexEncode r.attack ++ " " ++ toString r.seq ++ " " ++ toString r.code ++ " " ++ toString r.timestamp ++ " " ++
  toString r.latency ++ " " ++ toString r.bytesOut ++ " " ++ toString r.bytesIn ++ " " ++ hexEncode r.error ++ " " ++
  showOptBytes r.body ++ " " ++ hexEncode r.method ++ " " ++ hexEncode r.url ++ " " ++ showHeader r.headers

def showTerm : Term → String
  | .eof => "eof"
  | .err => "err"

def showResults (p : List Result × Term) : String :=
  toString p.1.length ++ p.1.foldl (fun s r => s ++ " | " ++ showResult r) "" ++ " | " ++ showTerm p.2

def showOut {α} (f : α → String) : Outcome α → String
  | .ok a => "ok " ++ f a
  | .error _ => "err"
  | .panic => "panic"

def showOpt {α} (f : α → String) : Option α → String
  | some a => "ok " ++ f a
  | none => "err"

/-- all CSV records of a stream (no field count check) -/
def csvReadAll : Nat → Bytes → List (List Bytes) × Term
  | 0, _ => ([], .err)
  | fuel+1, s =>
    match readRecord s with
    | .eof => ([], .eof)
    | .err => ([], .err)
    | .record fs rest => let p := csvReadAll fuel rest; (fs :: p.1, p.2)

def handle (op : String) (args : List String) : Option String :=
  match op with
  | "c07.fmtint" => do
    let (i, _) ← int.run args
    pure ("ok " ++ hexEncode (fmtInt i))
  | "c07.fmtuint" => do
    let (n, _) ← nat.run args
    pure ("ok " ++ hexEncode (fmtNat n))
  | "c07.parseint" => do
    let ((bits, s), _) ← (do let b ← nat; let s ← bytes; pure (b, s)).run args
    pure (showOut (fun (i : Int) => toString i) (parseInt bits s))
  | "c07.parseuint" => do
    let ((bits, s), _) ← (do let b ← nat; let s ← bytes; pure (b, s)).run args
    pure (showOut (fun (i : Nat) => toString i) (parseUint bits s))
  | "c07.b64enc" => do
    let (b, _) ← bytes.run args
    pure ("ok " ++ hexEncode (b64Encode b))
  | "c07.b64dec" => do
    let (b, _) ← bytes.run args
    pure (showOut hexEncode (b64Decode b))
  | "c07.csvwrite" => do
    let (fs, _) ← (listOf bytes).run args
    pure ("ok " ++ hexEncode (writeRecord fs))
  | "c07.csvread" => do
    let (b, _) ← bytes.run args
    let t := normCRLF b
    let p := csvReadAll (t.length + 1) t
    pure (toString p.1.length ++ p.1.foldl (fun s fs => s ++ " | " ++ showBytesList fs) "" ++ " | " ++ showTerm p.2)
  | "c07.hdrwrite" => do
    let (h, _) ← headerP.run args
    pure ("ok " ++ showOptBytes (headerBytes h))
  | "c07.mimeread" => do
    let (b, _) ← bytes.run args
    pure (showOut (fun h => showHeader (some h)) (readMIMEHeader b))
  | "c07.jsonstr" => do
    let (b, _) ← bytes.run args
    pure ("ok " ++ hexEncode (jsonString b))
  | "c07.lexstr" => do
    let (b, _) ← bytes.run args
    pure (showOut (fun (p : Bytes × Lex) => hexEncode p.1) (lexString { rest := b }))
  | "c07.timefmt" => do
    let ((ns, off), _) ← (do let a ← int; let b ← int; pure (a, b)).run args
    pure (showOpt hexEncode (timeMarshalJSON ns off))
  | "c07.timeparse" => do
    let (b, _) ← bytes.run args
    pure (showOut (fun (i : Int) => toString i) (timeUnmarshalJSON b))
  | "c07.enccsv" => do
    let (r, _) ← resultP.run args
    pure ("ok " ++ hexEncode (encodeCSV r))
  | "c07.encjson" => do
    let ((off, r), _) ← (do let o ← int; let r ← resultP; pure (o, r)).run args
    pure (showOpt hexEncode (encodeJSON off r))
  | "c07.deccsv" => do
    let (b, _) ← bytes.run args
    pure (showResults (decodeCSV b))
  | "c07.decjson" => do
    let (b, _) ← bytes.run args
    pure (showResults (decodeJSON b))
  | "c07.speccsv" => do
    let (b, _) ← bytes.run args
    pure (showResults (Vegeta.Spec.Layout.specReadCSV b))
  | "c07.specjson" => do
    let (b, _) ← bytes.run args
    pure (showResults (Vegeta.Spec.Layout.specReadJSON b))
  | "c07.gobpre" => pure ("ok " ++ hexEncode Vegeta.Model.GobValue.preamble)
  | "c07.encgob" => do
    -- zone ("u" = UTC location, else offset seconds), first call?, result
    let ((z, first, r), _) ← (do
      let zt ← tok
      let z ← (if zt == "u" then pure Vegeta.Model.GobValue.Zone.utc else
        match zt.toInt? with
        | some o => pure (Vegeta.Model.GobValue.Zone.fixed o)
        | none => failure : P Vegeta.Model.GobValue.Zone)
      let f ← bool
      let r ← resultP
      pure (z, f, r)).run args
    pure (showOpt hexEncode (Vegeta.Model.GobValue.encodeGobCall z first r))
  | "c07.decgob" => do
    let (b, _) ← bytes.run args
    pure (showResults (Vegeta.Model.GobValue.decodeGob b))
  | "c07.encodecmd" => do
    -- src codec, dst codec, zone, input bytes: the `encode` command loop (Model/EncodeCmd.lean)
    let ((src, dst, z, b), _) ← (do
      let cdP : P Vegeta.Model.EncodeCmd.Codec := do
        let ct ← tok
        match ct with
        | "csv" => pure Vegeta.Model.EncodeCmd.Codec.csv
        | "json" => pure Vegeta.Model.EncodeCmd.Codec.json
        | "gob" => pure Vegeta.Model.EncodeCmd.Codec.gob
        | _ => failure
      let s ← cdP
      let d ← cdP
      let zt ← tok
      let z ← (if zt == "u" then pure Vegeta.Model.GobValue.Zone.utc else
        match zt.toInt? with
        | some o => pure (Vegeta.Model.GobValue.Zone.fixed o)
        | none => failure : P Vegeta.Model.GobValue.Zone)
      let b ← bytes
      pure (s, d, z, b)).run args
    let o := Vegeta.Model.EncodeCmd.encodeCmd src dst z b
    pure ((if o.2 then "ok " else "err ") ++ hexEncode o.1)
  | "c07.equal" => do
    let ((a, b), _) ← (do let a ← resultP; let b ← resultP; pure (a, b)).run args
    pure (if a.equal b then "1" else "0")
  | _ => none

end Vegeta.Driver.C07
