import Vegeta.Go.Proto
/-! Driver operations of property C07 (ops are named `c07.<name>`). -/
namespace Vegeta.Driver.C07
open Vegeta.Go Vegeta.Go.Proto

def handle (_op : String) (args : List String) : Option String :=
  match _op with
  | _ => none

end Vegeta.Driver.C07
