import Vegeta.Go.Proto
/-! Driver operations of property C19 (ops are named `c19.<name>`). -/
namespace Vegeta.Driver.C19
open Vegeta.Go Vegeta.Go.Proto

def handle (_op : String) (args : List String) : Option String :=
  match _op with
  | _ => none

end Vegeta.Driver.C19
