import Vegeta.Go.Proto
import Vegeta.Model.Flags
/-! Driver operations of property C19 (ops are named `c19.<name>`); each mirrors the op
`flag.<name>` / `resolver.rotation` / `attack.cmdline` of /repo/verif_main.go and prints the
same line. -/
namespace Vegeta.Driver.C19
open Vegeta.Go Vegeta.Go.Proto Vegeta.Model.Flags

def insertKV (x : Bytes × List Bytes) : List (Bytes × List Bytes) → List (Bytes × List Bytes)
  | [] => [x]
  | y :: ys => if bytesLe x.1 y.1 then x :: y :: ys else y :: insertKV x ys

/-- `verifHeaderString`: keys sorted, `n k1 c1 v… k2 c2 v…` -/
def showMap (m : List (Bytes × List Bytes)) : String :=
  let sorted := m.foldr insertKV []
  toString sorted.length ++ sorted.foldl (fun s (k, vs) =>
    s ++ " " ++ hexEncode k ++ " " ++ toString vs.length ++ vs.foldl (fun s v => s ++ " " ++ hexEncode v) "") ""

def statusChars (os : List (Outcome Unit)) : String :=
  String.ofList (os.map fun o => match o with | .ok _ => 'k' | .error _ => 'e' | .panic => 'p')

def allBytes (args : List String) : Option (List Bytes) := args.mapM hexDecode

def parseFlagArgs : List String → Option (List FlagArg)
  | [] => some []
  | "rate" :: v :: r => do pure (.rate (← hexDecode v) :: (← parseFlagArgs r))
  | "header" :: v :: r => do pure (.header (← hexDecode v) :: (← parseFlagArgs r))
  | "maxbody" :: v :: r => do pure (.maxBody (← hexDecode v) :: (← parseFlagArgs r))
  | "dnsttl" :: v :: r => do pure (.dnsTTL (← hexDecode v) :: (← parseFlagArgs r))
  | "connectto" :: v :: r => do pure (.connectTo (← hexDecode v) :: (← parseFlagArgs r))
  | "maxworkers" :: v :: r => do pure (.maxWorkers (← v.toNat?) :: (← parseFlagArgs r))
  | _ => none

def handle (op : String) (args : List String) : Option String :=
  match op with
  | "c19.rate" => do
    let (v, _) ← (bytes).run args
    let r := rateSet defaultRate v
    match r.out with
    | .ok _ => pure s!"ok {r.st.freq} {r.st.per} {hexEncode (rateString r.st)}"
    | .error _ => pure "err"
    | .panic => pure "panic"
  | "c19.ratestring" => do
    let ((f, p), _) ← (do let f ← int; let p ← int; pure (f, p)).run args
    let s := rateString ⟨f, p⟩
    let r := rateSet ⟨0, 0⟩ s
    match r.out with
    | .ok _ => pure s!"ok {hexEncode s} {r.st.freq} {r.st.per}"
    | .error _ => pure s!"ok {hexEncode s} err"
    | .panic => pure "panic"
  | "c19.headers" => do
    let vs ← allBytes args
    let (os, h) := setAll headerSet [] vs
    pure s!"ok {statusChars os} {showMap h}"
  | "c19.maxbody" => do
    let (v, _) ← (bytes).run args
    let r := maxBodySet (-7) v
    match r.out with
    | .ok _ => pure s!"ok {r.st} {hexEncode (maxBodyString r.st)}"
    | .error _ => pure "err"
    | .panic => pure "panic"
  | "c19.dnsttl" => do
    let (v, _) ← (bytes).run args
    let r := dnsTTLSet (-7) v
    match r.out with
    | .ok _ => pure s!"ok {r.st} {hexEncode (dnsTTLString r.st)}"
    | .error _ => pure "err"
    | .panic => pure "panic"
  | "c19.dnsmode" => do
    -- ttl (ns), length of the observation (ns): what an observer of the lookups sees
    let ((ttl, run), _) ← (do let t ← int; let r ← int; pure (t, r)).run args
    match dnsMode ttl with
    | .disabled => pure "disabled"
    | .forever => pure "cached"
    | .refreshEvery t => pure (if t > run then "cached" else "refreshed")
  | "c19.connectto" => do
    let vs ← allBytes args
    let (os, m) := setAll connectToSet [] vs
    pure s!"ok {statusChars os} {showMap m} {hexEncode (connectToString m)}"
  | "c19.csl" => do
    let (v, _) ← (bytes).run args
    let l := cslSet v
    pure s!"ok {showBytesList l} {hexEncode (cslString l)}"
  | "c19.resolvers" => do
    let (v, _) ← (bytes).run args
    match normalizeAddrs (cslSet v) with
    | .ok l => pure s!"ok {showBytesList l}"
    | .error _ => pure "err"
    | .panic => pure "panic"
  | "c19.rotation" => do
    let (n, rest) ← (nat).run args
    let addrs ← allBytes rest
    match rotation addrs n 0 with
    | .ok l => pure ("ok" ++ l.foldl (fun s x => s ++ " " ++ hexEncode x) "")
    | .error _ => pure "err"
    | .panic => pure "panic"
  | "c19.cmdline" => do
    let fas ← parseFlagArgs args
    match parseArgs defaultOpts fas with
    | .ok o =>
      let guard := if attackGuard o.maxWorkers o.rate then "guard" else "pass"
      pure s!"ok {o.rate.freq} {o.rate.per} {o.maxWorkers} {guard} {o.maxBody} {o.dnsTTL} {showMap o.headers} | {showMap o.connectTo}"
    | .error _ => pure "err"
    | .panic => pure "panic"
  | _ => none

end Vegeta.Driver.C19
