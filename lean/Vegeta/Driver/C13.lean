import Vegeta.Go.Proto
import Vegeta.Model.RoundRobin
/-! Driver operations of property C13 (ops are named `c13.<name>`).

`c13.rr <n> {<len> <item>…}×n <calls>`: `n` decoder scripts (item ≥ 0: record with that id,
item < 0: a failing call with error class `-item`), then the number of `Decode` calls made on
the decoder returned by `NewRoundRobinDecoder`.  Answer: one token per call —
`r<decoder>:<id>` (nil returned, record written), `e<class>` (error; class 0 = io.EOF),
`nil` (nil returned, nothing written).

`c13.drain <n> {<len> <item>…}×n <fuel>`: what report/encode do — call until the first error.
Answer: `ok <count> <r…> end=<e<class>|nil|fuel>`.
-/
namespace Vegeta.Driver.C13
open Vegeta.Go Vegeta.Go.Proto Vegeta.Model.RoundRobin

def toItem (x : Int) : Item Nat := if x < 0 then .bad x.natAbs else .ok x.toNat

def showStep : Step Nat → String
  | .got i a => "r" ++ toString i ++ ":" ++ toString a
  | .err e => "e" ++ toString e
  | .nothing => "nil"

def handle (op : String) (args : List String) : Option String :=
  match op with
  | "c13.rr" => do
    let ((scripts, k), _) ← (do let s ← listOf (listOf int); let k ← nat; pure (s, k)).run args
    let s := RR.init (scripts.map (·.map toItem))
    let (sts, _) := calls k s
    pure ("ok " ++ toString sts.length ++ sts.foldl (fun acc st => acc ++ " " ++ showStep st) "")
  | "c13.drain" => do
    let ((scripts, k), _) ← (do let s ← listOf (listOf int); let k ← nat; pure (s, k)).run args
    let s := RR.init (scripts.map (·.map toItem))
    let (out, _, e) := drain k s
    let fin := match e with
      | some c => "e" ++ toString c
      | none => if out.length == k then "fuel" else "nil"
    pure ("ok " ++ toString out.length ++
      out.foldl (fun acc (i, a) => acc ++ " r" ++ toString i ++ ":" ++ toString a) "" ++ " end=" ++ fin)
  | _ => none

end Vegeta.Driver.C13
