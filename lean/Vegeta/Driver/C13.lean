import Vegeta.Go.Proto
/-! Driver operations of property C13 (ops are named `c13.<name>`). -/
namespace Vegeta.Driver.C13
open Vegeta.Go Vegeta.Go.Proto

def handle (_op : String) (args : List String) : Option String :=
  match _op with
  | _ => none

end Vegeta.Driver.C13
