import Vegeta.Go.Proto
/-! Driver operations of property C02 (ops are named `c02.<name>`). -/
namespace Vegeta.Driver.C02
open Vegeta.Go Vegeta.Go.Proto

def handle (_op : String) (args : List String) : Option String :=
  match _op with
  | _ => none

end Vegeta.Driver.C02
