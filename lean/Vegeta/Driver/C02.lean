import Vegeta.Go.Proto
import Vegeta.Model.AttackAccept
import Vegeta.Model.Pump
/-! Driver operations of property C02/C03 (ops are named `c02.<name>`). -/
namespace Vegeta.Driver.C02
open Vegeta.Go Vegeta.Go.Proto Vegeta.Model.Attack

def pObs : P Obs := do
  let pb ← bool
  let count ← nat
  let tr ← listOf nat
  let closed ← bool
  let alive ← nat
  let del ← listOf nat
  pure { paceBlocked := pb, count := count, inTransport := tr, delivered := del, closed := closed, alive := alive }

def pCmd : P Cmd := do
  let t ← tok
  match t.toList with
  | ['P'] => pure .P
  | ['X'] => pure .Pstop
  | ['R'] => pure .R
  | ['S'] => pure .S
  | ['F'] => pure .F
  | ['G'] => pure .G
  | 'T' :: ds => match (String.ofList ds).toNat? with
    | some i => pure (.T i)
    | none => failure
  | _ => failure

def pCmdObs : P CmdObs := do
  let t ← tok
  match t.toList with
  | ['-'] => pure .none
  | ['n'] => pure .nothing
  | ['c'] => pure .closed
  | ['t'] => pure (.stopped true)
  | ['f'] => pure (.stopped false)
  | 'g' :: ds => match (String.ofList ds).toNat? with
    | some i => pure (.got i)
    | none => failure
  | _ => failure

def showObs (o : Obs) : String :=
  s!"(pb={o.paceBlocked} count={o.count} tr={o.inTransport} del={o.delivered} closed={o.closed} alive={o.alive})"

def handle (op : String) (args : List String) : Option String :=
  match op with
  | "c02.accept" => do
    let ((w, m, o0, tr), _) ← (do
      let w ← nat; let m ← nat; let o0 ← pObs
      let tr ← listOf (do let c ← pCmd; let co ← pCmdObs; let o ← pObs; pure (c, co, o))
      pure (w, m, o0, tr)).run args
    match acceptRun w m o0 tr with
    | none => pure "ok"
    | some k => pure s!"reject {k}"
  | "c02.run" => do
    -- run an explicit label-free smoke: initial quiescent observations
    let ((w, m), _) ← (do let w ← nat; let m ← nat; pure (w, m)).run args
    let qs := quiesce false [init w m 0]
    pure (String.intercalate " | " (qs.map fun s => showObs (obsOf s false)))
  | "c02.pump" => do
    let script ← args.head?
    let evs := script.toList.filterMap fun ch =>
      if ch == 'r' then some Vegeta.Model.Pump.Ev.r else if ch == 's' then some .s
      else if ch == 'c' then some .c else if ch == 'e' then some .e else none
    let p := Vegeta.Model.Pump.runScript evs
    let ret := match p.ret with | .running => "running" | .nil => "nil" | .error => "error"
    let enc := String.intercalate "," (p.encoded.reverse.map toString)
    pure s!"ok returned={ret} stopped={p.stopClosed} encoded={p.encoded.length} {enc}"
  | _ => none

end Vegeta.Driver.C02
