import Vegeta.Go.Proto
import Vegeta.Model.Pacer
/-! Driver operations of property C01 (ops are named `c01.<name>`).

The sine and linear pacers are executed with native `Float` (IEEE binary64: + − × ÷ and the
integer→float conversions are correctly rounded, as in Go); `sin`/`cos` come from libm and
may differ from Go's pure-Go `math.Sin/Cos` in the last place, so `c01.sine.ill` reports
whether a result is sensitive to a few-ulp perturbation of `sin`/`cos` (`ill=1`).  Go's
float→integer conversions (amd64) are written out by hand: Lean's saturate. -/
namespace Vegeta.Driver.C01
open Vegeta.Go Vegeta.Go.Proto Vegeta.Model.Pacer

def f2p63 : Float := Float.ofNat 9223372036854775808

/-- Go/amd64 `int64(f)` (CVTTSD2SQ): NaN and out-of-range give `MinInt64`. -/
def goToInt64 (x : Float) : Int :=
  if x.isNaN then minInt64
  else if x ≥ f2p63 || x < -f2p63 then minInt64
  else x.toInt64.toInt

/-- Go/amd64 (go1.23) `uint64(f)`: below 2^63 the signed conversion reinterpreted, otherwise
`int64(f - 2^63) | 1<<63`. -/
def goToUInt64 (x : Float) : Int :=
  if x < f2p63 then wrapU64 (goToInt64 x)
  else
    let v := goToInt64 (x - f2p63)
    if v < 0 then (two63 : Int) else v + (two63 : Int)

def mathPi : Float := Float.ofBits 0x400921FB54442D18

/-- A perturbation of `sin`/`cos`: relative size and how its sign depends on the argument
(0: fixed sign, m ≥ 1: a pseudo-random factor in [-1, 1] derived from the argument's bit pattern),
so that calls with neighbouring arguments are pushed independently, as rounding errors would. -/
structure Pert where
  ds : Float
  dc : Float
  mode : Nat
  dns : Int := 0      -- offset added to every float→int64 conversion (a guess moved by 1ns)
  qbits : Nat := 0    -- evaluate sin/cos at the argument with its lowest `qbits` bits cleared
                      -- (neighbouring arguments may give one result in Go and two in libm, or vice versa)
  rbits : Nat := 0    -- clear the lowest `rbits` bits of every sin/cos result (same purpose)

def Pert.sign (q : Pert) (x : Float) : Float :=
  match q.mode with
  | 0 => 1.0
  | m =>
    -- pseudo-random factor in {-1, -1/2, 0, 1/2, 1} per argument and mode
    let h := (x.toBits.toNat * ((2 * m + 1) * 0x9E3779B97F4A7C15) % 18446744073709551616) / 1099511627776
    (Float.ofNat (h % 5) - 2.0) / 2.0

def clearBits (k : Nat) (x : Float) : Float :=
  if k == 0 then x else Float.ofBits ((x.toBits.toNat / 2 ^ k) * 2 ^ k).toUInt64

def Pert.arg (q : Pert) (x : Float) : Float :=
  if q.qbits == 0 then x else
  let b := x.toBits.toNat
  Float.ofBits ((b / 2 ^ q.qbits) * 2 ^ q.qbits).toUInt64

/-- native instance; `q`: perturbation of sin / cos (zero for the plain model). -/
def nativeOps (q : Pert) : FloatOps Float where
  ofInt64 := Float.ofInt
  ofUInt64 := Float.ofInt
  add := (· + ·)
  sub := (· - ·)
  mul := (· * ·)
  div := (· / ·)
  lt := fun a b => a < b
  le := fun a b => a ≤ b
  abs := Float.abs
  round := Float.round
  ceil := Float.ceil
  sin := fun x => let s := clearBits q.rbits (Float.sin (q.arg x)); s + q.sign x * q.ds * (Float.abs s + 1.0e-3)
  cos := fun x => let c := clearBits q.rbits (Float.cos (q.arg x)); c + q.sign x * q.dc * (Float.abs c + 1.0e-3)
  sq := fun x => x * x
  toInt64 := fun x => goToInt64 x + q.dns
  toUInt64 := goToUInt64
  zero := 0.0
  one := 1.0
  two := 2.0
  pi := mathPi
  twoPi := 2.0 * mathPi
  e9 := 1.0e9
  em3 := 1.0e-3

def plain : FloatOps Float := nativeOps ⟨0.0, 0.0, 0, 0, 0, 0⟩

def showPace : PaceOut → String
  | .wait d => "ok wait " ++ toString d
  | .stop => "ok stop"
  | .panic => "panic"

def showBits (x : Float) : String := if x.isNaN then "nan" else toString x.toBits.toNat
def showF64 (x : F64) : String := if x.isNaN then "nan" else toString x.bits

def floatTok : P Float := do
  let n ← nat
  pure (Float.ofBits n.toUInt64)

def sineParams : P (SineP Float) := do
  let period ← int; let mf ← int; let mp ← int; let af ← int; let ap ← int; let s ← floatTok
  pure { period := period, meanFreq := mf, meanPer := mp, ampFreq := af, ampPer := ap, startAt := s }

def linearParams : P (LinearP Float) := do
  let f ← int; let p ← int; let s ← floatTok
  pure { freq := f, per := p, slope := s }

def showExit : SineExit → String
  | .invalid => "invalid" | .behind => "behind" | .converged => "converged" | .unconverged => "unconverged"
  | .bisected => "bisected" | .bracket => "bracket" | .nobracket => "nobracket" | .maxhits => "maxhits"

/-- trace digest: length, last time, last count, rolling hash, end reason. -/
def showLoop (tr : List (Int × Nat)) (e : Nat) : String :=
  let h := tr.foldl (fun (h : Nat) (s : Int × Nat) =>
    (h * 1000003 + (s.1 % 2305843009213693951).toNat + s.2) % 2305843009213693951) 7
  let (lt, ln) := match tr.getLast? with
    | some (t, n) => (t, n)
    | none => (0, 0)
  "ok " ++ toString tr.length ++ " " ++ toString lt ++ " " ++ toString ln ++ " " ++ toString h ++ " end=" ++ toString e

def eps : Float := 8.8817841970012523e-16   -- 2^-50

/-- Is the sine result sensitive to a few-ulp change of sin/cos?  Compares the plain run with
twelve perturbed runs, seven runs with sin/cos arguments or results coarsened by a few bits (and two runs with every guess moved by ±1ns): a different exit, or a wait differing by more than `max(1ns, 5e-10·|w|)`. -/
def sineIll (p : SineP Float) (t : Int) (hits : Nat) : Bool :=
  let r0 := sinePaceX plain p t hits
  let differs (r : PaceOut × SineExit) : Bool :=
    if r.2 != r0.2 then true else
    match r.1, r0.1 with
    | .wait a, .wait b =>
      let d := (a - b).natAbs
      let tol := max 1.0 (5.0e-10 * Float.ofInt b.natAbs)
      Float.ofNat d > tol
    | .stop, .stop => false
    | _, _ => true
  -- runs whose every guess is moved by 1ns: the answer may move by 1ns (+ relative slack), not more
  let differs1 (r : PaceOut × SineExit) : Bool :=
    if r.2 != r0.2 then true else
    match r.1, r0.1 with
    | .wait a, .wait b =>
      let d := (a - b).natAbs
      let tol := max 2.0 (5.0e-10 * Float.ofInt b.natAbs)
      Float.ofNat d > tol
    | .stop, .stop => false
    | _, _ => true
  [(eps, eps, 0), (-eps, -eps, 0), (eps, -eps, 0), (-eps, eps, 0),
   (eps, eps, 1), (eps, eps, 2), (eps, eps, 3), (eps, eps, 4), (eps, eps, 5), (eps, eps, 6),
   (eps, eps, 7), (eps, eps, 8)].any (fun (a, b, m) =>
    differs (sinePaceX (nativeOps ⟨a, b, m, 0, 0, 0⟩) p t hits))
  || [1, 2, 3, 8].any (fun k => differs (sinePaceX (nativeOps ⟨0.0, 0.0, 0, 0, k, 0⟩) p t hits))
  || [1, 2, 3].any (fun k => differs (sinePaceX (nativeOps ⟨0.0, 0.0, 0, 0, 0, k⟩) p t hits))
  || differs1 (sinePaceX (nativeOps ⟨0.0, 0.0, 0, 1, 0, 0⟩) p t hits)
  || differs1 (sinePaceX (nativeOps ⟨0.0, 0.0, 0, -1, 0, 0⟩) p t hits)

def handle (op : String) (args : List String) : Option String :=
  match op with
  | "c01.const.pace" => do
    let ((f, p, e, h), _) ← (do let f ← int; let p ← int; let e ← int; let h ← nat; pure (f, p, e, h)).run args
    pure (showPace (constPace f p e h))
  | "c01.const.rate" => do
    let ((f, p), _) ← (do let f ← int; let p ← int; pure (f, p)).run args
    pure ("ok " ++ showF64 (constRate f p))
  | "c01.const.loop" => do
    let ((f, p, t, n, st), _) ← (do
      let f ← int; let p ← int; let t ← int; let n ← nat; let st ← listOf nat; pure (f, p, t, n, st)).run args
    pure (showLoop (closedLoop (constPace f p) st t n) (closedLoopEnd (constPace f p) st t n))
  | "c01.sine.pace" => do
    let ((p, t, h), _) ← (do let p ← sineParams; let t ← int; let h ← nat; pure (p, t, h)).run args
    let r := sinePaceX plain p t h
    pure (showPace r.1 ++ " exit=" ++ showExit r.2)
  | "c01.sine.ill" => do
    -- asked only for the points where implementation and model differ (it costs ten model runs)
    let ((p, t, h), _) ← (do let p ← sineParams; let t ← int; let h ← nat; pure (p, t, h)).run args
    pure ("ok ill=" ++ (if sineIll p t h then "1" else "0"))
  | "c01.sine.rate" => do
    let ((p, t), _) ← (do let p ← sineParams; let t ← int; pure (p, t)).run args
    pure ("ok " ++ showBits (sineRate plain p t))
  | "c01.sine.hits" => do
    let ((p, t), _) ← (do let p ← sineParams; let t ← int; pure (p, t)).run args
    pure ("ok " ++ showBits (sineHits plain p t))
  | "c01.linear.pace" => do
    let ((p, t, h), _) ← (do let p ← linearParams; let t ← int; let h ← nat; pure (p, t, h)).run args
    pure (showPace (linearPace plain p t h))
  | "c01.linear.rate" => do
    let ((p, t), _) ← (do let p ← linearParams; let t ← int; pure (p, t)).run args
    pure ("ok " ++ showBits (linearRate plain p t))
  | "c01.linear.hits" => do
    let ((p, t), _) ← (do let p ← linearParams; let t ← int; pure (p, t)).run args
    pure ("ok " ++ showBits (linearHits plain p t))
  | "c01.linear.loop" => do
    let ((p, t, n, st), _) ← (do
      let p ← linearParams; let t ← int; let n ← nat; let st ← listOf nat; pure (p, t, n, st)).run args
    pure (showLoop (closedLoop (linearPace plain p) st t n) (closedLoopEnd (linearPace plain p) st t n))
  | _ => none

end Vegeta.Driver.C01
