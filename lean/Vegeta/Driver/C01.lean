import Vegeta.Go.Proto
/-! Driver operations of property C01 (ops are named `c01.<name>`). -/
namespace Vegeta.Driver.C01
open Vegeta.Go Vegeta.Go.Proto

def handle (_op : String) (args : List String) : Option String :=
  match _op with
  | _ => none

end Vegeta.Driver.C01
