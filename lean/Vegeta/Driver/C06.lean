import Vegeta.Model.Hit
/-! Driver operations of property C06 (ops are named `c06.<name>`).

`c06.hit <targeterErr> <target> <urlinfo> <cfg> <seq> <exchange>`
* targeterErr: `0` | `1 <text>`
* target: method url body header          (header = `n (key nvals v…)*`)
* urlinfo: ok str host errText
* cfg: maxBody chunked redirectsApplied redirects name
* exchange: nHops (resp stopPrefix)* finalTag (`0 text` | `1 resp`) chunks
* resp: status statusText header body failAfter(-1 = none) readErr endWithData declaredLength
-/
namespace Vegeta.Driver.C06
open Vegeta.Go Vegeta.Go.Proto Vegeta.Model.Hit

def pHeader : P Header := listOf (do let k ← bytes; let vs ← listOf bytes; pure (k, vs))

def pResp : P Resp := do
  let status ← int
  let st ← bytes
  let h ← pHeader
  let b ← bytes
  let fa ← int
  let re ← bytes
  let ewd ← bool
  let decl ← int
  pure { status := status, statusText := st, header := h, body := b,
         failAfter := if fa < 0 then none else some fa.toNat, readErr := re, endWithData := ewd, declared := decl }

def pExchange : P Exchange := do
  let hops ← listOf (do let r ← pResp; let p ← bytes; pure ({ resp := r, stopPrefix := p } : Hop))
  let tag ← nat
  let fin ← if tag == 0 then (do let t ← bytes; pure (Final.transportErr t)) else (do let r ← pResp; pure (Final.response r))
  let chunks ← listOf nat
  pure { hops := hops, final := fin, chunks := chunks }

def bytesLe : Bytes → Bytes → Bool
  | [], _ => true
  | _ :: _, [] => false
  | a :: as, b :: bs => if a < b then true else if b < a then false else bytesLe as bs

def showHeader (h : Header) : String :=
  let hs := h.mergeSort (fun a b => bytesLe a.1 b.1)
  toString hs.length ++ hs.foldl (fun s (k, vs) => s ++ " " ++ hexEncode k ++ " " ++ showBytesList vs) ""

def showReq : Option RequestSeen → String
  | none => "none"
  | some r => hexEncode r.method ++ " " ++ hexEncode r.url ++ " " ++ hexEncode r.host ++ " " ++
      (match r.body with | none => "nil" | some b => hexEncode b) ++ " " ++ toString r.contentLength ++ " " ++
      showBytesList r.transferEncoding ++ " " ++ showHeader r.header

/-- canonical summary of the body events: bytes delivered, EOF reports, error reports,
number of Close calls, and whether the log has the shape reads* terminal+ close. -/
def showLog (log : List Ev) : String :=
  let total := log.foldl (fun s e => match e with | .read n => s + n | _ => s) 0
  let eofs := (log.filter (· == .eof)).length
  let errs := (log.filter (· == .err)).length
  let closes := (log.filter (· == .close)).length
  let rest := log.dropWhile (fun e => match e with | .read _ => true | _ => false)
  let rest2 := rest.dropWhile (fun e => e == .eof || e == .err)
  let shape := rest2 == [.close] && rest.length ≥ 2
  toString total ++ " " ++ toString eofs ++ " " ++ toString errs ++ " " ++ toString closes ++ " " ++ (if shape then "1" else "0")

def showOut (o : Out) : String :=
  let r := o.res
  "res " ++ hexEncode r.attack ++ " " ++ toString r.seq ++ " " ++ toString r.code ++ " " ++ toString r.bytesOut ++ " " ++
    toString r.bytesIn ++ " " ++ hexEncode r.error ++ " " ++ hexEncode r.body ++ " " ++ hexEncode r.method ++ " " ++
    hexEncode r.url ++ " " ++ (match r.headers with | none => "nil" | some h => showHeader h) ++
  " | req " ++ showReq o.req ++
  " | stop " ++ (if o.stopped then "1" else "0") ++
  " | body " ++ (if o.obtained then "1 " ++ showLog o.bodyLog else "0")

def handle (op : String) (args : List String) : Option String :=
  match op with
  | "c06.hit" => do
    let (o, _) ← (do
      let te ← nat
      let terr ← if te == 1 then bytes else pure []
      let m ← bytes; let u ← bytes; let b ← bytes; let h ← pHeader
      let uok ← bool; let ustr ← bytes; let uhost ← bytes; let uerr ← bytes
      let maxBody ← int; let chunked ← bool; let rApplied ← bool; let rn ← int; let name ← bytes
      let seq ← nat
      let ex ← pExchange
      let cfg : Cfg := { maxBody := maxBody, chunked := chunked, redirects := if rApplied then some rn else none, name := name }
      if te == 1 then pure (hitNoTarget cfg seq terr)
      else pure (hit { method := m, url := u, body := b, header := h }
                  { ok := uok, str := ustr, host := uhost, errText := uerr } cfg seq ex)).run args
    pure (showOut o)
  | _ => none

end Vegeta.Driver.C06
