import Vegeta.Go.Proto
/-! Driver operations of property C06 (ops are named `c06.<name>`). -/
namespace Vegeta.Driver.C06
open Vegeta.Go Vegeta.Go.Proto

def handle (_op : String) (args : List String) : Option String :=
  match _op with
  | _ => none

end Vegeta.Driver.C06
