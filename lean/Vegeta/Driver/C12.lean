import Vegeta.Model.Histogram
namespace Vegeta.Driver.C12
open Vegeta.Go Vegeta.Go.Proto Vegeta.Model.Histogram

def showOutcome {α} (f : α → String) : Outcome α → String
  | .ok a => "ok " ++ f a
  | .error _ => "err"
  | .panic => "panic"

def run (h : Hist) (lats : List Int) : Outcome Hist := addAll h lats

def handle (op : String) (args : List String) : Option String :=
  match op with
  | "dur.parse" => do
    let (b, _) ← (bytes).run args
    pure (showOutcome (fun (d : Int) => toString d) (Duration.parse b))
  | "dur.string" => do
    let (d, _) ← (int).run args
    pure ("ok " ++ hexEncode (Duration.toString d))
  | "hist.unmarshal" => do
    let (b, _) ← (bytes).run args
    pure (showOutcome showInts (unmarshalText b))
  | "hist.add" => do
    -- buckets, latencies → counts total ; json pairs ; text rows
    let ((bs, lats), _) ← (do let bs ← listOf int; let ls ← listOf int; pure (bs, ls)).run args
    let h := run (Hist.new bs) lats
    match h with
    | .ok h =>
      let js := match jsonPairs h with
        | .ok ps => "ok " ++ toString ps.length ++ ps.foldl (fun s (b, c) => s ++ " " ++ toString b ++ ":" ++ toString c) ""
        | .error _ => "err"
        | .panic => "panic"
      let tx := match textRows h with
        | .ok rs => "ok " ++ toString rs.length ++ rs.foldl (fun s (lo, hi, c) => s ++ " " ++ hexEncode lo ++ "," ++ hexEncode hi ++ "," ++ toString c) ""
        | .error _ => "err"
        | .panic => "panic"
      pure ("ok " ++ showNats h.counts ++ " " ++ toString h.total ++ " | " ++ js ++ " | " ++ tx)
    | .error _ => pure "err"
    | .panic => pure "panic"
  | _ => none

end Vegeta.Driver.C12
