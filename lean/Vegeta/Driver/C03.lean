import Vegeta.Go.Proto
/-! Driver operations of property C03 (ops are named `c03.<name>`). -/
namespace Vegeta.Driver.C03
open Vegeta.Go Vegeta.Go.Proto

def handle (_op : String) (args : List String) : Option String :=
  match _op with
  | _ => none

end Vegeta.Driver.C03
