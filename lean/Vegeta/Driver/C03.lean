import Vegeta.Driver.C02
/-! Driver operations of property C03: the controlled-schedule acceptor is shared with C02
(ops `c02.accept`, `c02.run`). -/
namespace Vegeta.Driver.C03

def handle (op : String) (args : List String) : Option String := Vegeta.Driver.C02.handle op args

end Vegeta.Driver.C03
