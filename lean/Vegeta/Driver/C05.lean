import Vegeta.Go.Proto
/-! Driver operations of property C05 (ops are named `c05.<name>`). -/
namespace Vegeta.Driver.C05
open Vegeta.Go Vegeta.Go.Proto

def handle (_op : String) (args : List String) : Option String :=
  match _op with
  | _ => none

end Vegeta.Driver.C05
