import Vegeta.Go.Proto
import Vegeta.Model.AttackTrace
/-! Driver operations of property C05 (ops are named `c05.<name>`). -/
namespace Vegeta.Driver.C05
open Vegeta.Go Vegeta.Go.Proto Vegeta.Model.Attack

def pOptNat : P (Option Nat) := do
  let t ← tok
  if t == "-" then pure none else match t.toNat? with
    | some n => pure (some n)
    | none => failure

def pHit : P Hit := do
  let seq ← nat
  let ts ← nat
  let e ← pOptNat
  let l ← pOptNat
  let f ← pOptNat
  pure { seq := seq, ts := ts, phase := .delivered, entered := e, left := l, fin := f, tgtErr := false }

def handle (op : String) (args : List String) : Option String :=
  match op with
  | "c05.hits" => do
    let (hs, _) ← (listOf pHit).run args
    -- hits arrive sorted by sequence number; their index must be their sequence number
    if (hs.map (·.seq)) != List.range hs.length then pure "reject seq"
    else match checkHits hs with
      | none => pure "ok"
      | some k => pure s!"reject {k}"
  | _ => none

end Vegeta.Driver.C05
