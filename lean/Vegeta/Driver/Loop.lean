/-! Line-protocol loop shared by the per-property drivers: one operation per input line,
one result line per operation; unknown operations answer `bad-op`. -/
namespace Vegeta.Driver

partial def loop (handle : String → List String → Option String) (hin hout : IO.FS.Stream) : IO Unit := do
  let line ← hin.getLine
  if line.isEmpty then return ()
  let l := (line.dropEndWhile (fun c => c == '\n' || c == '\r')).toString
  let out := match l.splitOn " " with
    | [] => "bad-op"
    | op :: args => (handle op args).getD "bad-op"
  hout.putStrLn out
  loop handle hin hout

def mainLoop (handle : String → List String → Option String) : IO Unit := do
  let hin ← IO.getStdin
  let hout ← IO.getStdout
  loop handle hin hout
  hout.flush

end Vegeta.Driver
