import Vegeta.Go.Proto
/-! Driver operations of property C16 (ops are named `c16.<name>`). -/
namespace Vegeta.Driver.C16
open Vegeta.Go Vegeta.Go.Proto

def handle (_op : String) (args : List String) : Option String :=
  match _op with
  | _ => none

end Vegeta.Driver.C16
