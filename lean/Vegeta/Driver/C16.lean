import Vegeta.Go.Proto
import Vegeta.Model.ParserGuards
import Vegeta.Driver.C19
import Vegeta.Model.RoundRobin
/-! Driver operations of property C16 (ops are named `c16.<name>`); the flag parsers are
served by the C19 operations (`c19.*`), the bucket parser also by `hist.unmarshal`. -/
namespace Vegeta.Driver.C16
open Vegeta.Go Vegeta.Go.Proto Vegeta.Model.ParserGuards

def showKind : ReportKind → String
  | .text => "text"
  | .json => "json"
  | .jsonBuckets bs => "jsonb " ++ showInts bs
  | .hdrplot => "hdrplot"
  | .hist bs => "hist " ++ showInts bs

def handle (op : String) (args : List String) : Option String :=
  if op.startsWith "c19." then Vegeta.Driver.C19.handle op args else
  match op with
  | "c16.csvrec" => do
    -- b64ok mimeok n f1 … fn : the library results for field 6 / field 11 are inputs
    let ((b64ok, mimeok, fs), _) ← (do
      let a ← bool; let b ← bool; let fs ← listOf bytes; pure (a, b, fs)).run args
    let b64 : Bytes → Option Bytes := fun f => if b64ok then some f else none
    let mime : Bytes → Option Unit := fun _ => if mimeok then some () else none
    match csvToResult b64 mime fs with
    | .ok r => pure s!"ok {r.timestamp} {r.code} {r.latency} {r.bytesOut} {r.bytesIn} {r.seq} {hexEncode r.error} {hexEncode r.attack} {hexEncode r.method} {hexEncode r.url}"
    | .error _ => pure "err"
    | .panic => pure "panic"
  | "c16.reporttype" => do
    let ((t, b), _) ← (do let t ← bytes; let b ← bytes; pure (t, b)).run args
    match reportType t b with
    | .ok _ => pure "ok"      -- the report kind is not observable through the command's result
    | .error e =>
      pure (if e == eInvalidType then "err invalid" else if e == ePlotDeprecated then "err plot"
            else if e == eBadBucketsTyp then "err badbuckets" else if e == eUnknownType then "err unknown"
            else if e == Vegeta.Model.Histogram.eBadBuckets then "err badbuckets" else "err duration")
    | .panic => pure "panic"
  | "c16.reportkind" => do
    let ((t, b), _) ← (do let t ← bytes; let b ← bytes; pure (t, b)).run args
    match reportType t b with
    | .ok k => pure ("ok " ++ showKind k)
    | .error _ => pure "err"
    | .panic => pure "panic"
  | "c16.httpskip" => do
    let (inp, _) ← (bytes).run args
    match skipLoop (scanLines inp) with
    | .ok none => pure "none"
    | .ok (some _) => pure "some"
    | .error _ => pure "err"
    | .panic => pure "panic"
  | "c16.httpskipline" => do
    let (inp, _) ← (bytes).run args
    match skipLoop (scanLines inp) with
    | .ok none => pure "none"
    | .ok (some (l, _)) => pure ("some " ++ hexEncode l)
    | .error _ => pure "err"
    | .panic => pure "panic"
  | "c16.bodyref" => do
    let (l, _) ← (bytes).run args
    match bodyRef l with
    | .ok none => pure "none"
    | .ok (some p) => pure ("some " ++ hexEncode p)
    | .error _ => pure "err"
    | .panic => pure "panic"
  | "c16.jsonskip" => do
    let (inp, _) ← (bytes).run args
    -- `ReadBytes('\n')`: only newline-terminated lines are delivered without an error
    let lines := (Vegeta.Model.Histogram.splitOn 10 inp).dropLast
    match jsonSkipLoop lines with
    | none => pure "none"
    | some _ => pure "some"
  | "c16.unmarshalidx" => do
    let (b, _) ← (bytes).run args
    match unmarshalTextIdx b with
    | .ok bs => pure ("ok " ++ showInts bs)
    | .error _ => pure "err"
    | .panic => pure "panic"
  | "c16.rrzero" => do
    -- k calls of NewRoundRobinDecoder() over zero decoders
    let (k, _) ← (nat).run args
    let sts := (Vegeta.Model.RoundRobin.calls k ({ decs := [], seq := 0 } : Vegeta.Model.RoundRobin.RR Nat)).1
    pure (" ".intercalate (sts.map fun st => match st with
      | .got _ _ => "got"
      | .err e => s!"err{e}"
      | .nothing => "nothing"))
  | "c16.assemble" => do
    -- one flag per file argument: was a decoder detected for it? -> number of decoders handed to the combiner
    let (oks, _) ← (listOf bool).run args
    let names : List Bytes := (List.range oks.length).map fun i => [i]
    let detect : Bytes → Option Nat := fun f => if oks.getD (f.headD 0) false then some (f.headD 0) else none
    match commandDecoders detect names with
    | some ds => pure s!"decoders {ds.length}"
    | none => pure "err"
  | _ => none

end Vegeta.Driver.C16
