import Vegeta.Go.Proto
/-! Driver operations of property C04 (ops are named `c04.<name>`). -/
namespace Vegeta.Driver.C04
open Vegeta.Go Vegeta.Go.Proto

def handle (_op : String) (args : List String) : Option String :=
  match _op with
  | _ => none

end Vegeta.Driver.C04
