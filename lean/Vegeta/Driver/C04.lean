import Vegeta.Go.Proto
import Vegeta.Model.AttackTrace
/-! Driver operations of property C04 (ops are named `c04.<name>`). -/
namespace Vegeta.Driver.C04
open Vegeta.Go Vegeta.Go.Proto Vegeta.Model.Attack

def pConsult : P Consult := do
  let e ← nat
  let h ← nat
  let t ← tok
  if t == "stop" then pure { elapsed := e, hits := h, wait := none }
  else match t.toInt? with
    | some w => pure { elapsed := e, hits := h, wait := some w }
    | none => failure

def handle (op : String) (args : List String) : Option String :=
  match op with
  | "c04.log" => do
    let ((du, cs), _) ← (do let du ← nat; let cs ← listOf pConsult; pure (du, cs)).run args
    match replayLog du cs with
    | none => pure "ok"
    | some k => pure s!"reject {k}"
  | "c04.lb" => do
    -- previous consultation at e1 (wait 0), previous hand-over not before `lower`, next consultation at e2:
    -- the model hands the tick over at some instant ≥ lower and consults at the clock value, so e2 ≥ lower
    let ((e1, lower, e2), _) ← (do let a ← nat; let b ← nat; let c ← nat; pure (a, b, c)).run args
    match run (init 1 1 0) [.ready, .advance e1, .paceWait 0, .wake, .advance (lower - e1), .tick] with
    | some s =>
      -- the next consultation is logged at the model's clock, which cannot run backwards
      if s.now ≤ e2 then
        match step { s with now := e2 } (.paceWait 0) with
        | some s2 => if (s2.paceLog.head?.map (·.1)) == some e2 then pure "ok" else pure "reject"
        | none => pure "reject"
      else pure "reject"
    | none => pure "reject"
  | _ => none

end Vegeta.Driver.C04
