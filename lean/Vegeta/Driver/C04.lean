import Vegeta.Go.Proto
import Vegeta.Model.AttackTrace
/-! Driver operations of property C04 (ops are named `c04.<name>`). -/
namespace Vegeta.Driver.C04
open Vegeta.Go Vegeta.Go.Proto Vegeta.Model.Attack

def pConsult : P Consult := do
  let e ← nat
  let h ← nat
  let t ← tok
  if t == "stop" then pure { elapsed := e, hits := h, wait := none }
  else match t.toInt? with
    | some w => pure { elapsed := e, hits := h, wait := some w }
    | none => failure

def handle (op : String) (args : List String) : Option String :=
  match op with
  | "c04.log" => do
    let ((du, cs), _) ← (do let du ← nat; let cs ← listOf pConsult; pure (du, cs)).run args
    match replayLog du cs with
    | none => pure "ok"
    | some k => pure s!"reject {k}"
  | _ => none

end Vegeta.Driver.C04
