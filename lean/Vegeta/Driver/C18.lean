import Vegeta.Model.Dial
import Vegeta.Model.DialCompose
/-! Driver operations of property C18 (ops are named `c18.<name>`).

* `c18.foe <nIds> <fam>* <n> <id>*`        fam: 4 | 6 | 0 (invalid)   → `ok <len(result)> <array afterwards>`
* `c18.rr <k> <m>`                          m sequential ConnectTo dials over k replacements → indices used
* `c18.resolver <k> <m>`                    m calls of the custom resolver's `address()` → indices used
* `c18.path <world> <layers> <nDials> (<host> <port>)*`   composition of options, layers outermost first
      world  = `<nAns> (<host> <n> <ip>*)* <nFam> (<ip> <fam>)*`
      layers = `<n> ( d | c <nKeys> (<host> <port> <nRepl> (<host> <port>)*)* )*`
      (shuffle choices are all-zero: only meaningful for configurations without DNS layer)
* `c18.longrun <nIds> <fam>* <nDials> (<n> <j>*)*`   run the DNS-caching dial `nDials` times on the
      cache entry `[0, …, nIds-1]` with the given Fisher–Yates choices → `ok <distinct IPv4 ids left> <distinct IPv6 ids left>`
      (the addresses an observer sees in use in the long run)
* `c18.compose <n> <opt>* <svcHost> <svcPort> <hostC> <port> <ipA> <ipB>`   options applied in order to a fresh
      attacker (opt: L | K0 | K1 | H0 | H1 | U0 | U1 | D0 (ttl 0) | D1 (ttl < 0) | C0 (map given) | C1 (empty map) | B | O),
      then two probe dials, `svcHost:svcPort` and `hostC:port`, through the resulting dial function, where the DNS
      answers `hostC ↦ ipA` and the connect-to map is `svcHost:svcPort ↦ hostC:port`, `ipA:port ↦ ipB:port`
      → `panic` | `ok <0|1> <base> | A <what the base function is asked to dial> | B <…>`  (0: transport swapped by
        H2C(true); the probes then go through a hit of the http2 transport)  (custom base: the address; dialer: the
        listener the address leads to; unix: `unix`)
-/
namespace Vegeta.Driver.C18
open Vegeta.Go Vegeta.Go.Proto Vegeta.Model.Dial

def pFam : P Family := do
  let c ← nat
  pure (if c == 4 then .v4 else if c == 6 then .v6 else .invalid)

def famOfTable (t : List Family) (i : Nat) : Family := (t[i]?).getD .invalid

def pHP : P HP := do
  let h ← bytes
  let p ← bytes
  pure { host := h, port := p }

def pLayer : P Layer := do
  let t ← tok
  if t == "d" then pure (.dns [])
  else
    let m ← listOf (do
      let k ← pHP
      let rs ← listOf pHP
      pure (k, (rs, 0)))
    pure (.connectTo m)

def pWorld : P World := do
  let ans ← listOf (do let h ← bytes; let ips ← listOf bytes; pure (h, ips))
  let fam ← listOf (do let ip ← bytes; let f ← pFam; pure (ip, f))
  pure { answers := ans, fam := fam }

def showHPs (l : List HP) : String :=
  toString l.length ++ l.foldl (fun s a => s ++ " " ++ hexEncode a.host ++ " " ++ hexEncode a.port) ""

def runPath (w : World) : List Layer → List HP → List String
  | _, [] => []
  | ls, a :: rest =>
    match dialVia w ls [] a with
    | .ok (out, ls', _) => showHPs out :: runPath w ls' rest
    | .error _ => "err" :: runPath w ls rest
    | .panic => ["panic"]

def handle (op : String) (args : List String) : Option String :=
  match op with
  | "c18.foe" => do
    let ((tbl, ids), _) ← (do let t ← listOf pFam; let ids ← listOf nat; pure (t, ids)).run args
    let r := firstOfEachInPlace (famOfTable tbl) ids
    pure ("ok " ++ toString r.2 ++ " " ++ showNats r.1)
  | "c18.rr" => do
    let ((k, m), _) ← (do let k ← nat; let m ← nat; pure (k, m)).run args
    if k == 0 then (if m == 0 then pure "ok 0" else pure "panic")
    else pure ("ok " ++ showNats (ctSeq k m 0))
  | "c18.resolver" => do
    let ((k, m), _) ← (do let k ← nat; let m ← nat; pure (k, m)).run args
    if k == 0 then (if m == 0 then pure "ok 0" else pure "panic")
    else pure ("ok " ++ showNats (resolverSeq k m 0))
  | "c18.path" => do
    let ((w, ls, dials), _) ← (do
      let w ← pWorld
      let ls ← listOf pLayer
      let ds ← listOf pHP
      pure (w, ls, ds)).run args
    pure ("ok " ++ String.intercalate " ; " (runPath w ls dials))
  | "c18.longrun" => do
    let ((tbl, choices), _) ← (do
      let t ← listOf pFam
      let ch ← listOf (listOf nat)
      pure (t, ch)).run args
    let fam := famOfTable tbl
    let final := (dialMany fam choices (List.range tbl.length)).2
    let distinct (f : Family) := ((List.range tbl.length).filter (fun i => fam i = f ∧ final.contains i)).length
    pure ("ok " ++ toString (distinct .v4) ++ " " ++ toString (distinct .v6))
  | "c18.compose" => do
    let ((opts, sh, sp, hc, p, ipA, ipB), _) ← (do
      let os ← listOf tok
      let sh ← bytes; let sp ← bytes; let hc ← bytes; let p ← bytes; let a ← bytes; let b ← bytes
      pure (os, sh, sp, hc, p, a, b)).run args
    let parse : String → Option Opt := fun t => match t with
      | "L" => some .localAddr | "K0" => some (.keepAlive false) | "K1" => some (.keepAlive true)
      | "H0" => some (.h2c false) | "H1" => some (.h2c true) | "U0" => some (.unixSocket false) | "U1" => some (.unixSocket true)
      | "D0" => some (.dnsCaching false) | "D1" => some (.dnsCaching true) | "C0" => some (.connectTo false) | "C1" => some (.connectTo true)
      | "B" => some .baseDial | "O" => some .other | _ => none
    let os ← opts.mapM parse
    match applyAll TrState.init os with
    | .panic => pure "panic"
    | .error _ => pure "err"
    | .ok st =>
      let w : World := { answers := [(hc, [ipA])], fam := [(ipA, .v4), (ipB, .v4)] }
      let m : List (HP × (List HP × Nat)) :=
        [({ host := sh, port := sp }, ([{ host := hc, port := p }], 0)), ({ host := ipA, port := p }, ([{ host := ipB, port := p }], 0))]
      let layers : List Layer := st.wraps.map fun x => match x with
        | .dns => Layer.dns []
        | .connectTo => Layer.connectTo m
      let cls (a : HP) : String := match st.base with
        | .custom => hexEncode a.host ++ ":" ++ hexEncode a.port
        | .unix => "unix"
        | .dialer =>
          if a.host = ipA ∨ a.host = ipB then "L" ++ hexEncode a.host
          else match assocGet w.answers a.host with
            | some (ip :: _) => "L" ++ hexEncode ip
            | _ => "none"
      let show1 (out : List HP) : String := String.intercalate "," (out.map cls)
      let baseName := match st.base with | .custom => "custom" | .unix => "unix" | .dialer => "dialer"
      let (ra, layers') := match dialVia w layers [] { host := sh, port := sp } with
        | .ok (out, ls, _) => (show1 out, ls)
        | _ => ("-", layers)
      let rb := match dialVia w layers' [] { host := hc, port := p } with
        | .ok (out, _, _) => show1 out
        | _ => "-"
      let clean (x : String) := if x == "" || x == "none" then "-" else x
      -- transport swapped by H2C(true): the http2 transport dials through the dial function as it was then
      pure ("ok " ++ (if st.isHTTP then "1 " else "0 ") ++ baseName ++ " | A " ++ clean ra ++ " | B " ++ clean rb)
  | _ => none

end Vegeta.Driver.C18
