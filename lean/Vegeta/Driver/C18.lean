import Vegeta.Go.Proto
/-! Driver operations of property C18 (ops are named `c18.<name>`). -/
namespace Vegeta.Driver.C18
open Vegeta.Go Vegeta.Go.Proto

def handle (_op : String) (args : List String) : Option String :=
  match _op with
  | _ => none

end Vegeta.Driver.C18
