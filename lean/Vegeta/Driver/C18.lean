import Vegeta.Model.Dial
/-! Driver operations of property C18 (ops are named `c18.<name>`).

* `c18.foe <nIds> <fam>* <n> <id>*`        fam: 4 | 6 | 0 (invalid)   → `ok <len(result)> <array afterwards>`
* `c18.rr <k> <m>`                          m sequential ConnectTo dials over k replacements → indices used
* `c18.resolver <k> <m>`                    m calls of the custom resolver's `address()` → indices used
* `c18.path <world> <layers> <nDials> (<host> <port>)*`   composition of options, layers outermost first
      world  = `<nAns> (<host> <n> <ip>*)* <nFam> (<ip> <fam>)*`
      layers = `<n> ( d | c <nKeys> (<host> <port> <nRepl> (<host> <port>)*)* )*`
      (shuffle choices are all-zero: only meaningful for configurations without DNS layer)
* `c18.longrun <nIds> <fam>* <nDials> (<n> <j>*)*`   run the DNS-caching dial `nDials` times on the
      cache entry `[0, …, nIds-1]` with the given Fisher–Yates choices → `ok <distinct IPv4 ids left> <distinct IPv6 ids left>`
      (the addresses an observer sees in use in the long run)
-/
namespace Vegeta.Driver.C18
open Vegeta.Go Vegeta.Go.Proto Vegeta.Model.Dial

def pFam : P Family := do
  let c ← nat
  pure (if c == 4 then .v4 else if c == 6 then .v6 else .invalid)

def famOfTable (t : List Family) (i : Nat) : Family := (t[i]?).getD .invalid

def pHP : P HP := do
  let h ← bytes
  let p ← bytes
  pure { host := h, port := p }

def pLayer : P Layer := do
  let t ← tok
  if t == "d" then pure (.dns [])
  else
    let m ← listOf (do
      let k ← pHP
      let rs ← listOf pHP
      pure (k, (rs, 0)))
    pure (.connectTo m)

def pWorld : P World := do
  let ans ← listOf (do let h ← bytes; let ips ← listOf bytes; pure (h, ips))
  let fam ← listOf (do let ip ← bytes; let f ← pFam; pure (ip, f))
  pure { answers := ans, fam := fam }

def showHPs (l : List HP) : String :=
  toString l.length ++ l.foldl (fun s a => s ++ " " ++ hexEncode a.host ++ " " ++ hexEncode a.port) ""

def runPath (w : World) : List Layer → List HP → List String
  | _, [] => []
  | ls, a :: rest =>
    match dialVia w ls [] a with
    | .ok (out, ls', _) => showHPs out :: runPath w ls' rest
    | .error _ => "err" :: runPath w ls rest
    | .panic => ["panic"]

def handle (op : String) (args : List String) : Option String :=
  match op with
  | "c18.foe" => do
    let ((tbl, ids), _) ← (do let t ← listOf pFam; let ids ← listOf nat; pure (t, ids)).run args
    let r := firstOfEachInPlace (famOfTable tbl) ids
    pure ("ok " ++ toString r.2 ++ " " ++ showNats r.1)
  | "c18.rr" => do
    let ((k, m), _) ← (do let k ← nat; let m ← nat; pure (k, m)).run args
    if k == 0 then (if m == 0 then pure "ok 0" else pure "panic")
    else pure ("ok " ++ showNats (ctSeq k m 0))
  | "c18.resolver" => do
    let ((k, m), _) ← (do let k ← nat; let m ← nat; pure (k, m)).run args
    if k == 0 then (if m == 0 then pure "ok 0" else pure "panic")
    else pure ("ok " ++ showNats (resolverSeq k m 0))
  | "c18.path" => do
    let ((w, ls, dials), _) ← (do
      let w ← pWorld
      let ls ← listOf pLayer
      let ds ← listOf pHP
      pure (w, ls, ds)).run args
    pure ("ok " ++ String.intercalate " ; " (runPath w ls dials))
  | "c18.longrun" => do
    let ((tbl, choices), _) ← (do
      let t ← listOf pFam
      let ch ← listOf (listOf nat)
      pure (t, ch)).run args
    let fam := famOfTable tbl
    let final := (dialMany fam choices (List.range tbl.length)).2
    let distinct (f : Family) := ((List.range tbl.length).filter (fun i => fam i = f ∧ final.contains i)).length
    pure ("ok " ++ toString (distinct .v4) ++ " " ++ toString (distinct .v6))
  | _ => none

end Vegeta.Driver.C18
