import Vegeta.Go.Proto
/-! Driver operations of property C09 (ops are named `c09.<name>`). -/
namespace Vegeta.Driver.C09
open Vegeta.Go Vegeta.Go.Proto

def handle (_op : String) (args : List String) : Option String :=
  match _op with
  | _ => none

end Vegeta.Driver.C09
