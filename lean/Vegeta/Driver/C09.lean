import Vegeta.Go.Proto
import Vegeta.Model.GobFrame
import Vegeta.Driver.C07
import Vegeta.Model.GobValue
import Vegeta.Model.EncodeCmd
/-! Driver operations of property C09 (ops are named `c09.<name>`); `c07.*` ops are forwarded.

`c09.*bounds` ops print, for a whole stream, the byte offsets at which the model decoder has
completed a record (frame), and how the stream ends; the harness derives from them what every
prefix must decode to. -/
namespace Vegeta.Driver.C09
open Vegeta.Go Vegeta.Go.Proto Vegeta.Model.Codec Vegeta.Model.GobFrame

def showFrameEnd : FrameRes → String
  | .eof => "eof"
  | .incomplete => "incomplete"
  | .bad => "bad"
  | .frame _ _ => "frame"

/-- end offsets of the complete gob messages of `s` -/
def frameBounds : Nat → Nat → Bytes → List Nat × FrameRes
  | 0, _, _ => ([], .bad)
  | fuel+1, off, s =>
    match parseFrame s with
    | .frame _ rest =>
      let o := off + (s.length - rest.length)
      let q := frameBounds fuel o rest
      (o :: q.1, q.2)
    | t => ([], t)

/-- end offsets of the lines the JSON decoder model turns into a result -/
def jsonBounds : Nat → Nat → Bytes → List Nat × Term
  | 0, _, _ => ([], .err)
  | fuel+1, off, s =>
    if s.isEmpty then ([], .eof) else
    match splitLine s with
    | none => ([], .eof)
    | some (line, rest) =>
      match decodeJSONLine line with
      | .ok _ => let q := jsonBounds fuel (off + line.length) rest; ((off + line.length) :: q.1, q.2)
      | .error e => ([], if e = eEOF then .eof else .err)
      | .panic => ([], .err)

/-- end offsets (in the CR/LF-normalised stream) of the records the CSV decoder model accepts -/
def csvBounds : Nat → Nat → Bytes → List Nat × Term
  | 0, _, _ => ([], .err)
  | fuel+1, off, s =>
    match readRecord s with
    | .eof => ([], .eof)
    | .err => ([], .err)
    | .record fs rest =>
      if fs.length ≠ 12 then ([], .err)
      else match resultOfRecord fs with
        | .ok _ =>
          let o := off + (s.length - rest.length)
          let q := csvBounds fuel o rest
          (o :: q.1, q.2)
        | .error e => ([], if e = eEOF then .eof else .err)
        | .panic => ([], .err)

/-- end offsets of the value messages the gob decoder model turns into a result -/
def gobBounds (s : Bytes) : List Nat × Term :=
  let fb := frameBounds (s.length + 1) 0 s
  let pf := parseFrames s
  match Vegeta.Model.GobValue.stripPre Vegeta.Model.GobValue.preFrames pf.1 with
  | none => ([], .err)
  | some vals =>
    let q := Vegeta.Model.GobValue.decValues vals
    ((fb.1.drop Vegeta.Model.GobValue.preFrames.length).take q.1.length,
      Vegeta.Model.GobValue.gobTerm pf.1 pf.2 q.2)

def handle (op : String) (args : List String) : Option String :=
  if op.startsWith "c07." then Vegeta.Driver.C07.handle op args else
  match op with
  | "c09.encframe" => do
    let (b, _) ← bytes.run args
    pure ("ok " ++ hexEncode (encodeFrame b))
  | "c09.uint" => do
    let (n, _) ← nat.run args
    pure ("ok " ++ hexEncode (encodeUint n))
  | "c09.framebounds" => do
    let (b, _) ← bytes.run args
    let p := frameBounds (b.length + 1) 0 b
    pure (showNats p.1 ++ " | " ++ showFrameEnd p.2)
  | "c09.enccalls" => do
    -- codec, then n × (zone, result): bytes at the writer after every call, and which calls returned nil
    let ((cd, args), _) ← (do
      let ct ← tok
      let cd ← (match ct with
        | "csv" => pure Vegeta.Model.EncodeCmd.Codec.csv
        | "json" => pure Vegeta.Model.EncodeCmd.Codec.json
        | "gob" => pure Vegeta.Model.EncodeCmd.Codec.gob
        | _ => failure : P Vegeta.Model.EncodeCmd.Codec)
      let xs ← listOf (do
        let zt ← tok
        let z ← (if zt == "u" then pure Vegeta.Model.GobValue.Zone.utc else
          match zt.toInt? with
          | some o => pure (Vegeta.Model.GobValue.Zone.fixed o)
          | none => failure : P Vegeta.Model.GobValue.Zone)
        let r ← Vegeta.Driver.C07.resultP
        pure (z, r))
      pure (cd, xs)).run args
    let step := fun (acc : List Nat × List Bool × Nat × Vegeta.Model.EncodeCmd.EncState) (zr : Vegeta.Model.GobValue.Zone × Result) =>
      let o := Vegeta.Model.EncodeCmd.encCall cd acc.2.2.2 zr.1 zr.2
      (acc.1 ++ [acc.2.2.1 + o.bytes.length], acc.2.1 ++ [o.ok], acc.2.2.1 + o.bytes.length, o.st)
    let fin := args.foldl step ([], [], 0, {})
    pure (showNats fin.1 ++ " |" ++ fin.2.1.foldl (fun s b => s ++ (if b then " 1" else " 0")) "")
  | "c09.encodecmd" => do
    -- src codec, dst codec, zone, input bytes: output bytes and whether the command returned nil
    let ((src, dst, z, b), _) ← (do
      let cdP : P Vegeta.Model.EncodeCmd.Codec := do
        let ct ← tok
        match ct with
        | "csv" => pure Vegeta.Model.EncodeCmd.Codec.csv
        | "json" => pure Vegeta.Model.EncodeCmd.Codec.json
        | "gob" => pure Vegeta.Model.EncodeCmd.Codec.gob
        | _ => failure
      let s ← cdP
      let d ← cdP
      let zt ← tok
      let z ← (if zt == "u" then pure Vegeta.Model.GobValue.Zone.utc else
        match zt.toInt? with
        | some o => pure (Vegeta.Model.GobValue.Zone.fixed o)
        | none => failure : P Vegeta.Model.GobValue.Zone)
      let b ← bytes
      pure (s, d, z, b)).run args
    let o := Vegeta.Model.EncodeCmd.encodeCmd src dst z b
    pure ((if o.2 then "ok " else "err ") ++ hexEncode o.1)
  | "c09.gobbounds" => do
    let (b, _) ← bytes.run args
    let p := gobBounds b
    pure (showNats p.1 ++ " | " ++ Vegeta.Driver.C07.showTerm p.2)
  | "c09.jsonbounds" => do
    let (b, _) ← bytes.run args
    let p := jsonBounds (b.length + 1) 0 b
    pure (showNats p.1 ++ " | " ++ Vegeta.Driver.C07.showTerm p.2)
  | "c09.csvbounds" => do
    let (b, _) ← bytes.run args
    let t := normCRLF b
    let p := csvBounds (t.length + 1) 0 t
    pure (showNats p.1 ++ " | " ++ Vegeta.Driver.C07.showTerm p.2)
  | "c09.csvcalls" => do
    -- byte counts handed to the writer after each Encode call (model of Write+Flush)
    let (rs, _) ← (listOf Vegeta.Driver.C07.resultP).run args
    let sts := rs.foldl (fun (acc : List Nat × EncSt) r =>
      let st := csvEncodeCall acc.2 r; (acc.1 ++ [st.out.length], st)) ([], {})
    pure (showNats sts.1 ++ " | " ++ toString sts.2.buf.length)
  | "c09.jsoncalls" => do
    let (rs, _) ← (listOf Vegeta.Driver.C07.resultP).run args
    let sts := rs.foldl (fun (acc : List Nat × EncSt) r =>
      let st := jsonEncodeCall 0 acc.2 r; (acc.1 ++ [st.out.length], st)) ([], {})
    pure (showNats sts.1 ++ " | " ++ toString sts.2.buf.length)
  | _ => none

end Vegeta.Driver.C09
