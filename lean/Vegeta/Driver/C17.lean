import Vegeta.Go.Proto
import Vegeta.Model.LTTB
import Vegeta.Model.Plot
/-! Driver operations of property C17 (ops are named `c17.<name>`).

* `c17.downsample <count> <threshold> <n> x1 y1 … xn yn`  (floats as bit patterns)
    → `ok <k> x1 y1 … xk yk` | `err` | `panic`
* `c17.bucketsok <count> <threshold>` → `ok 0|1`
* `c17.plot <threshold> <n> (<attackhex> <seq> <ts> <latency> <iserr>)×n`
    → `ok <nlabels> <labelhex>… <nrows> <width> <bits>…` | `err add <i>` (the i-th Add failed) | `err data` | `panic …`
  rows are printed in canonical order: sorted by X, ties ordered by the rows' bit patterns
  (`sort.Sort` is not stable; the harness canonicalises the real rows the same way).
* `c17.plotl <threshold> <n> (<attackhex> <seq> <ts> <latency> <labelhex>)×n` → as `c17.plot`, the label of each
  result given explicitly (a custom `Labeler`)
* `c17.plotcmd <threshold> <k> (<n> (…)×n)×k` → the `plot` command on `k` result files (round-robin
  decoding, Add each, data): `ok …` as for `c17.plot` | `err` | `panic`
* `c17.plotcli <flag given 0|1> <threshold> <k> (<n> (…)×n)×k` → the command line `vegeta plot [-threshold N] files…`
  (`plotCmdLine`: default threshold when the flag is absent)
* `c17.adds <n> (…)×n` → `ok` | `err add <i>` | `panic add <i>`   (only the Adds, no data)
-/
namespace Vegeta.Driver.C17
open Vegeta.Go Vegeta.Go.Proto Vegeta.Model.LTTB Vegeta.Model.Plot

def point : P Point := do
  let x ← nat
  let y ← nat
  pure ⟨⟨x⟩, ⟨y⟩⟩

def result : P Result := do
  let a ← bytes
  let s ← nat
  let t ← int
  let l ← int
  let e ← bool
  pure { attack := a, seq := s, ts := t, latency := l, label := if e then labelERROR else labelOK }

/-- a result with an explicit label (custom `Labeler`) -/
def resultL : P Result := do
  let a ← bytes
  let s ← nat
  let t ← int
  let l ← int
  let lab ← bytes
  pure { attack := a, seq := s, ts := t, latency := l, label := lab }

def showPoints (ps : List Point) : String :=
  toString ps.length ++ ps.foldl (fun s p => s ++ " " ++ toString p.x.bits ++ " " ++ toString p.y.bits) ""

def bitsLt : List F64 → List F64 → Bool
  | [], [] => false
  | [], _ :: _ => true
  | _ :: _, [] => false
  | a :: as, b :: bs => if a.bits < b.bits then true else if b.bits < a.bits then false else bitsLt as bs

/-- reorder each run of rows with equal X by bit pattern -/
def canonTies : List (List F64) → List (List F64) → List (List F64)
  | [], grp => sortBy bitsLt grp
  | r :: rs, [] => canonTies rs [r]
  | r :: rs, g :: grp =>
    if F64.eq (rowX r) (rowX g) then canonTies rs (r :: g :: grp)
    else sortBy bitsLt (g :: grp) ++ canonTies rs [r]

def showRows (rows : List (List F64)) (width : Nat) : String :=
  toString rows.length ++ " " ++ toString width ++
    rows.foldl (fun s r => r.foldl (fun s f => s ++ " " ++ toString f.bits) s) ""

/-- `Plot.addAll` that also reports the index of the failing `Add` -/
def addAllIdx (p : Plot) : List Result → Nat → Sum Plot String
  | [], _ => .inl p
  | r :: rs, i =>
    match Plot.add p r with
    | .ok p' => addAllIdx p' rs (i+1)
    | .error _ => .inr ("err add " ++ toString i)
    | .panic => .inr ("panic add " ++ toString i)

def handle (op : String) (args : List String) : Option String :=
  match op with
  | "c17.downsample" => do
    let ((c, t, ps), _) ← (do let c ← int; let t ← int; let ps ← listOf point; pure (c, t, ps)).run args
    match downsample c t ps with
    | .ok out => pure ("ok " ++ showPoints out)
    | .error _ => pure "err"
    | .panic => pure "panic"
  | "c17.bucketsok" => do
    let ((c, t), _) ← (do let c ← int; let t ← int; pure (c, t)).run args
    pure ("ok " ++ (if bucketsOK c t then "1" else "0"))
  | "c17.plot" => do
    let ((th, rs), _) ← (do let th ← int; let rs ← listOf result; pure (th, rs)).run args
    match addAllIdx [] rs 0 with
    | .inl p =>
      match Plot.data id p th with
      | .ok (rows, labels) =>
        pure ("ok " ++ showBytesList labels ++ " " ++ showRows (canonTies rows []) labels.length)
      | .error _ => pure "err data"
      | .panic => pure "panic data"
    | .inr msg => pure msg
  | "c17.plotl" => do
    let ((th, rs), _) ← (do let th ← int; let rs ← listOf resultL; pure (th, rs)).run args
    match addAllIdx [] rs 0 with
    | .inl p =>
      match Plot.data id p th with
      | .ok (rows, labels) =>
        pure ("ok " ++ showBytesList labels ++ " " ++ showRows (canonTies rows []) labels.length)
      | .error _ => pure "err data"
      | .panic => pure "panic data"
    | .inr msg => pure msg
  | "c17.plotcmd" => do
    let ((th, files), _) ← (do let th ← int; let fs ← listOf (listOf result); pure (th, fs)).run args
    let total := files.foldl (fun n f => n + f.length) 0
    match plotCommand id th (total + 1) (Vegeta.Model.RoundRobin.ofInputs files) with
    | .ok (rows, labels) =>
      pure ("ok " ++ showBytesList labels ++ " " ++ showRows (canonTies rows []) labels.length)
    | .error _ => pure "err"
    | .panic => pure "panic"
  | "c17.plotcli" => do
    let ((has, th, files), _) ← (do let h ← bool; let th ← int; let fs ← listOf (listOf result); pure (h, th, fs)).run args
    let total := files.foldl (fun n f => n + f.length) 0
    match plotCmdLine id (if has then some th else none) (total + 1) (Vegeta.Model.RoundRobin.ofInputs files) with
    | .ok (rows, labels) =>
      pure ("ok " ++ showBytesList labels ++ " " ++ showRows (canonTies rows []) labels.length)
    | .error _ => pure "err"
    | .panic => pure "panic"
  | "c17.adds" => do
    let (rs, _) ← (listOf result).run args
    match addAllIdx [] rs 0 with
    | .inl _ => pure "ok"
    | .inr msg => pure msg
  | _ => none

end Vegeta.Driver.C17
