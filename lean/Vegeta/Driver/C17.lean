import Vegeta.Go.Proto
/-! Driver operations of property C17 (ops are named `c17.<name>`). -/
namespace Vegeta.Driver.C17
open Vegeta.Go Vegeta.Go.Proto

def handle (_op : String) (args : List String) : Option String :=
  match _op with
  | _ => none

end Vegeta.Driver.C17
