import Vegeta.Go.Proto
/-! Driver operations of property C14 (ops are named `c14.<name>`). -/
namespace Vegeta.Driver.C14
open Vegeta.Go Vegeta.Go.Proto

def handle (_op : String) (args : List String) : Option String :=
  match _op with
  | _ => none

end Vegeta.Driver.C14
