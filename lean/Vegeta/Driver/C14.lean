import Vegeta.Go.Proto
import Vegeta.Model.HTTPTargets
import Vegeta.Model.JSONTargets
import Vegeta.Model.AttackTargets
/-! Driver operations of property C14 (ops are named `c14.<name>`). -/
namespace Vegeta.Driver.C14
open Vegeta.Go Vegeta.Go.Proto
open Vegeta.Model

/-! canonical printing -/

def ltBytes : Bytes → Bytes → Bool
  | [], [] => false
  | [], _ :: _ => true
  | _ :: _, [] => false
  | a :: as, b :: bs => if a < b then true else if b < a then false else ltBytes as bs

def insertSorted {α} (x : Bytes × α) : List (Bytes × α) → List (Bytes × α)
  | [] => [x]
  | y :: ys => if ltBytes x.1 y.1 then x :: y :: ys else y :: insertSorted x ys

def sortByKey {α} (m : List (Bytes × α)) : List (Bytes × α) := m.foldr insertSorted []

def showHeader (m : List (Bytes × List Bytes)) : String :=
  toString m.length ++ (sortByKey m).foldl (fun s (k, vs) => s ++ " " ++ hexEncode k ++ " " ++ showBytesList vs) ""

def showView (v : HTTPTargets.TargetView) : String :=
  hexEncode v.method ++ " " ++ hexEncode v.url ++ " " ++ hexEncode v.body ++ " " ++ showHeader v.header

def showRec (v : JSONTargets.JRec) : String :=
  hexEncode v.method ++ " " ++ hexEncode v.url ++ " " ++ hexEncode v.body ++ " " ++ showHeader v.header

/-! parsing -/

def member (xs : List Bytes) (x : Bytes) : Bool := xs.any (· == x)

def lookupTable {α} (tbl : List (Bytes × α)) (k : Bytes) : Option α :=
  match tbl with
  | [] => none
  | (k', v) :: r => if k' == k then some v else lookupTable r k

/-- default header with capacities: `key cap n v1 … vn`; builds heap arrays 0,1,… -/
def pDefaultsHeap : P (HTTPTargets.HMap × HTTPTargets.Heap) := do
  let ds ← listOf (do let k ← bytes; let c ← nat; let vs ← listOf bytes; pure (k, c, vs))
  let step := fun (acc : HTTPTargets.HMap × HTTPTargets.Heap) (d : Bytes × Nat × List Bytes) =>
    let (k, c, vs) := d
    let cap := if c < vs.length then vs.length else c
    let cells := vs ++ List.replicate (cap - vs.length) []
    (acc.1 ++ [(k, ({ arr := acc.2.length, len := vs.length, cap := cap } : HTTPTargets.Slice))], acc.2 ++ [cells])
  pure (ds.foldl step ([], []))

structure HTTPCase where
  cfg : HTTPTargets.Cfg
  heap : HTTPTargets.Heap
  src : Bytes

def pHTTPCase : P HTTPCase := do
  let body ← bytes
  let (hdr, heap) ← pDefaultsHeap
  let src ← bytes
  let valid ← listOf bytes
  let files ← listOf (do let p ← bytes; let c ← bytes; pure (p, c))
  pure { cfg := { validURI := member valid, fs := lookupTable files, body := body, hdr := hdr }, heap := heap, src := src }

def pVMap : P JSONTargets.VMap := listOf (do let k ← bytes; let vs ← listOf bytes; pure (k, vs))

def pRec : P (Option JSONTargets.JRec) := do
  let ok ← bool
  if !ok then pure none else
  let m ← bytes; let u ← bytes; let b ← bytes; let h ← pVMap
  pure (some { method := m, url := u, body := b, header := h })

structure JSONCase where
  cfg : JSONTargets.Cfg
  src : Bytes

def pJSONCase : P JSONCase := do
  let body ← bytes
  let hdr ← pVMap
  let src ← bytes
  let tbl ← listOf (do let l ← bytes; let r ← pRec; pure (l, r))
  pure { cfg := { dec := fun l => (lookupTable tbl l).getD none, body := body, hdr := hdr }, src := src }

/-! the http targeter run with re-inspection of every earlier target after every call -/

def showChanges (snaps : List HTTPTargets.TargetView) (now : List HTTPTargets.TargetView) : String :=
  let idx := (List.range snaps.length).filter fun i => snaps[i]? != now[i]?
  "chg " ++ toString idx.length ++
    idx.foldl (fun s i => s ++ " " ++ toString i ++ " " ++ (match now[i]? with | some v => showView v | none => "?")) ""

/-- returns the output parts in reverse order -/
def httpRun (cfg : HTTPTargets.Cfg) (dflt0 : List (Bytes × List Bytes)) :
    Nat → HTTPTargets.St → List HTTPTargets.Target → List HTTPTargets.TargetView → List String → List String
  | 0, _, _, _, out => out
  | n + 1, st, tgts, snaps, out =>
    let (r, st1) := HTTPTargets.call cfg st
    let now := tgts.map (HTTPTargets.viewTarget st1.heap)
    let chg := showChanges snaps now
    let d := if HTTPTargets.viewMap st1.heap cfg.hdr == dflt0 then "d 0" else "d 1"
    match r with
    | .ok t =>
      let v := HTTPTargets.viewTarget st1.heap t
      httpRun cfg dflt0 n st1 (tgts ++ [t]) (now ++ [v]) (("ok " ++ showView v ++ " " ++ chg ++ " " ++ d) :: out)
    | .error e => httpRun cfg dflt0 n st1 tgts now (("err " ++ toString e ++ " " ++ chg ++ " " ++ d) :: out)
    | .panic => httpRun cfg dflt0 n st1 tgts now ("panic" :: out)

def jsonRun (cfg : JSONTargets.Cfg) : Nat → Bytes → List String → List String
  | 0, _, out => out
  | n + 1, src, out =>
    let (r, src1) := JSONTargets.call cfg src
    let s := match r with
      | .ok t => "ok " ++ showRec t
      | .error e => "err " ++ toString e
      | .panic => "panic"
    jsonRun cfg n src1 (s :: out)

def joinBar (xs : List String) : String := " | ".intercalate xs

def pETarget : P JSONTargets.ETarget := do
  let m ← bytes; let u ← bytes; let b ← bytes
  let h ← listOf (do
    let k ← bytes
    let isNil ← bool
    if isNil then pure (k, (none : Option (List Bytes))) else
    let vs ← listOf bytes
    pure (k, some vs))
  pure { method := m, url := u, body := b, header := h }

def handle (op : String) (args : List String) : Option String :=
  match op with
  | "c14.lines" => do
    let (src, _) ← (bytes).run args
    pure ("ok " ++ showBytesList (HTTPTargets.srcLines src))
  | "c14.method" => do
    let (l, _) ← (bytes).run args
    pure (if HTTPTargets.startsWithHTTPMethod l then "ok 1" else "ok 0")
  | "c14.http" => do
    let ((c, n), _) ← (do let c ← pHTTPCase; let n ← nat; pure (c, n)).run args
    let st : HTTPTargets.St := { ps := HTTPTargets.PS.init c.src, heap := c.heap }
    let d0 := HTTPTargets.viewMap c.heap c.cfg.hdr
    pure (joinBar (httpRun c.cfg d0 n st [] [] []).reverse)
  | "c14.http.readall" => do
    let (c, _) ← (pHTTPCase).run args
    let st : HTTPTargets.St := { ps := HTTPTargets.PS.init c.src, heap := c.heap }
    match HTTPTargets.readAll c.cfg st with
    | (.ok ts, st1) =>
      pure ("ok " ++ toString ts.length ++ ts.foldl (fun s t => s ++ " ; " ++ showView (HTTPTargets.viewTarget st1.heap t)) "")
    | (.error e, _) => pure ("err " ++ toString e)
    | (.panic, _) => pure "panic"
  | "c14.json" => do
    let ((c, n), _) ← (do let c ← pJSONCase; let n ← nat; pure (c, n)).run args
    pure (joinBar (jsonRun c.cfg n c.src []).reverse)
  | "c14.json.readall" => do
    let (c, _) ← (pJSONCase).run args
    match HTTPTargets.readAllLoop (JSONTargets.call c.cfg) (c.src.length + 2) c.src [] with
    | (.ok ts, _) => pure ("ok " ++ toString ts.length ++ ts.foldl (fun s t => s ++ " ; " ++ showRec t) "")
    | (.error e, _) => pure ("err " ++ toString e)
    | (.panic, _) => pure "panic"
  | "c14.select.http" => do
    -- the attack command's selection over an http file: lazy flag, number of draws → the draws
    let ((c, lz, m), _) ← (do let c ← pHTTPCase; let l ← bool; let m ← nat; pure (c, l, m)).run args
    let st0 : HTTPTargets.St := { ps := HTTPTargets.PS.init c.src, heap := c.heap }
    match AttackTargets.selectTargeter (HTTPTargets.call c.cfg) (st0.ps.rest.length + 3) lz st0 with
    | .error e => pure ("sel-err " ++ toString e)
    | .panic => pure "panic"
    | .ok p =>
      let outs := AttackTargets.draws (HTTPTargets.call c.cfg) m p
      -- heap in which the drawn targets are looked at: after the eager read / after the lazy draws
      let heap := match p with
        | .static _ _ => (HTTPTargets.readAll c.cfg st0).2.heap
        | .stream _ => (HTTPTargets.calls c.cfg m st0).2.heap
      pure ("ok" ++ outs.foldl (fun s o => s ++ " | " ++ (match o with
        | .ok t => "ok " ++ showView (HTTPTargets.viewTarget heap t)
        | .error e => "err " ++ toString e
        | .panic => "panic")) "")
  | "c14.select.json" => do
    let ((c, lz, m), _) ← (do let c ← pJSONCase; let l ← bool; let m ← nat; pure (c, l, m)).run args
    match AttackTargets.selectTargeter (JSONTargets.call c.cfg) (c.src.length + 2) lz c.src with
    | .error e => pure ("sel-err " ++ toString e)
    | .panic => pure "panic"
    | .ok p =>
      let outs := AttackTargets.draws (JSONTargets.call c.cfg) m p
      pure ("ok" ++ outs.foldl (fun s o => s ++ " | " ++ (match o with
        | .ok t => "ok " ++ showRec t
        | .error e => "err " ++ toString e
        | .panic => "panic")) "")
  | "c14.jsonenc" => do
    let (t, _) ← (pETarget).run args
    pure ("ok " ++ hexEncode (JSONTargets.encodeTarget t))
  | "c14.jsonimg" => do
    let (l, _) ← (bytes).run args
    match JSONTargets.decodeImage l with
    | some r => pure ("ok " ++ showRec r)
    | none => pure "unmodelled"
  | _ => none

end Vegeta.Driver.C14
