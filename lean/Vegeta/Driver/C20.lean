import Vegeta.Go.Proto
/-! Driver operations of property C20 (ops are named `c20.<name>`). -/
namespace Vegeta.Driver.C20
open Vegeta.Go Vegeta.Go.Proto

def handle (_op : String) (args : List String) : Option String :=
  match _op with
  | _ => none

end Vegeta.Driver.C20
