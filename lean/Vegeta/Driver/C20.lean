import Vegeta.Go.Proto
import Vegeta.Model.Prom
/-! Driver operations of property C20 (ops are named `c20.<name>`).

`c20.observe n r₁ … rₙ` / `c20.observe_nosum n r₁ … rₙ` with
`r = <methodhex> <urlhex> <code> <bytesIn> <bytesOut> <latency> <errorhex>`: observes the
results in order on a fresh `Metrics` and prints what a scrape shows, children sorted by
their label key; `_nosum` prints `*` for the histogram sums (concurrent observation: the
order of the float additions is not fixed). -/
namespace Vegeta.Driver.C20
open Vegeta.Go Vegeta.Go.Proto Vegeta.Model.Prom

def resP : P Result := do
  let m ← bytes
  let u ← bytes
  let code ← nat
  let bi ← nat
  let bo ← nat
  let lat ← int
  let e ← bytes
  pure { method := m, url := u, code := code, bytesIn := bi, bytesOut := bo, latency := lat, error := e }

def keyOf (l : Labels) : String := hexEncode l.method ++ "." ++ hexEncode l.url ++ "." ++ toString l.code

def sortByKey (xs : List (String × String)) : List (String × String) :=
  (xs.toArray.qsort (fun a b => a.1 < b.1)).toList

def showFamily (name : String) (xs : List (String × String)) : String :=
  name ++ "=" ++ toString xs.length ++ (sortByKey xs).foldl (fun s (k, v) => s ++ " " ++ k ++ ":" ++ v) ""

def showNatsComma (xs : List Nat) : String := ",".intercalate (xs.map toString)

def showState (withSum : Bool) (s : State) : String :=
  "ok " ++
  showFamily "in" (s.bytesIn.map fun (k, v) => (keyOf k, toString v)) ++ " " ++
  showFamily "out" (s.bytesOut.map fun (k, v) => (keyOf k, toString v)) ++ " " ++
  showFamily "hist" (s.hist.map fun (k, c) =>
    (keyOf k, toString c.count ++ ":" ++ (if withSum then toString c.sum.bits else "*") ++ ":" ++ showNatsComma (cumulative 0 c.buckets))) ++ " " ++
  showFamily "fail" (s.fail.map fun ((k, msg), v) => (keyOf k ++ "." ++ hexEncode msg, toString v))

def handle (op : String) (args : List String) : Option String :=
  match op with
  | "c20.observe" => do
    let (rs, _) ← (listOf resP).run args
    pure (showState true (observeAll State.init rs))
  | "c20.observe_nosum" => do
    let (rs, _) ← (listOf resP).run args
    pure (showState false (observeAll State.init rs))
  | _ => none

end Vegeta.Driver.C20
