import Vegeta.Go.Proto
import Vegeta.Model.Quantile
import Vegeta.Model.TDigestMerge
import Vegeta.Model.LatencySeq
import Vegeta.Extracted.Facts
/-! Driver operations of property C11 (ops are named `c11.<name>`).
Floats travel as the decimal rendering of their IEEE-754 bit pattern; the model runs over
`Vegeta.Go.F64` (SoftF64).

* `c11.quantile <digest> k q1 … qk`  →  `ok bits:dur …` — `TDigest.Quantile(q)` and
  `time.Duration(…)` of it, per q (`panic` in place of an entry whose evaluation panics)
* `c11.cum <digest>` → `ok n bits…` — `updateCumulative`
* `c11.close <digest>` → `ok p50 p90 p95 p99`
* `c11.hdr <digest> requests` → `ok n value,q,count,oneBy …` rows over the *extracted* ladder

`<digest>` = `n mean1 weight1 … meann weightn processedWeight min max`.

Compression pass (Model/TDigestMerge.lean), with the two parameters supplied as observed oracles:
* `c11.add <state> x w <oracle>`  → the state after `Add(x, w)` (which runs `process` when a buffer is over its size)
* `c11.process <state> <oracle>`  → the state after `process()` (the call `Quantile` starts with)
`<state>`  = `maxProcessed maxUnprocessed np (mean weight)* nu (mean weight)* processedWeight unprocessedWeight min max`
`<oracle>` = `k idx1 … idxk` (the permutation `sort.Sort` produced on unprocessed ++ processed) `initLimit`
             `t (soFar limit)*` (the limit computed after each newly started centroid, keyed by `soFar`)
answer: `ok np (mean weight)* nu (mean weight)* processedWeight unprocessedWeight min max`, `panic`, or
`badsort` when the permutation is malformed or does not sort by mean.

Call sequences (Model/LatencySeq.lean):
* `c11.seq maxP maxU hi lo  n op*  k (W <oracle>)*` — ops: `0 latency ts` (Metrics.Add), `1` (Close),
  `2 qbits` (Latencies.Quantile), `3` (HDR report); one oracle per compaction, keyed by the total
  weight `W` at that moment.  Answer: `ok` then per op ` | ` and what the call shows plus the latency
  fields after it: `a requests total min max` / `c min p50 p90 p95 p99 max requests duration` /
  `q d` / `h n (value,q,count,oneBy,dur)*`; `panic` / `badsort` end the line.
-/
namespace Vegeta.Driver.C11
open Vegeta.Go Vegeta.Go.Proto Vegeta.Model.Quantile Vegeta.Model.TDigestMerge Vegeta.Model.LatencySeq

def f64 : P F64 := do let b ← nat; pure ⟨b⟩

def centroid : P (Centroid F64) := do
  let m ← f64; let w ← f64; pure ⟨m, w⟩

def digest : P (Digest F64) := do
  let cs ← listOf centroid
  let w ← f64; let mn ← f64; let mx ← f64
  pure ⟨cs, w, mn, mx⟩

def tdState : P (TD F64) := do
  let mp ← nat; let mu ← nat
  let pr ← listOf centroid
  let un ← listOf centroid
  let w ← f64; let uw ← f64; let mn ← f64; let mx ← f64
  pure ⟨pr, un, w, uw, mn, mx, mp, mu⟩

structure Oracle where
  perm : List Nat
  init : F64
  table : List (Nat × F64)

def oracle : P Oracle := do
  let perm ← listOf nat
  let i ← f64
  let t ← listOf (do let a ← nat; let b ← f64; pure (a, b))
  pure ⟨perm, i, t⟩

def Oracle.lim (o : Oracle) : Lim F64 :=
  { init := fun _ => o.init
    next := fun soFar _ => match o.table.find? (fun p => p.1 == soFar.bits) with
      | some p => p.2
      | none => F64.nan }

def showCentroids (cs : List (Centroid F64)) : String :=
  cs.foldl (fun s c => s ++ " " ++ toString c.mean.bits ++ " " ++ toString c.weight.bits) (toString cs.length)

def showTD (s : TD F64) : String :=
  "ok " ++ showCentroids s.processed ++ " " ++ showCentroids s.unprocessed ++ " " ++ toString s.processedWeight.bits ++ " " ++
    toString s.unprocessedWeight.bits ++ " " ++ toString s.min.bits ++ " " ++ toString s.max.bits

/-- the oracle permutation must be a permutation that sorts the buffer the way `sort.Sort` leaves it -/
def oracleOK (o : Oracle) (all : List (Centroid F64)) : Bool :=
  isPermOfRange o.perm all.length && sortedByMean (applyPerm o.perm all)

def showOutcomeTD (o : Outcome (TD F64)) : String :=
  match o with
  | .ok s => showTD s
  | _ => "panic"

inductive SeqOp where
  | add (l ts : Int) | close | quantile (q : F64) | hdr

def seqOp : P SeqOp := do
  let tag ← nat
  match tag with
  | 0 => do let l ← int; let ts ← int; pure (.add l ts)
  | 1 => pure .close
  | 2 => do let q ← f64; pure (.quantile q)
  | _ => pure .hdr

def keyedOracle : P (Nat × Oracle) := do
  let w ← nat
  let o ← oracle
  pure (w, o)

/-- the sum of the weights of a buffer (exact: the weights are small integers) -/
def weightSum (cs : List (Centroid F64)) : F64 := cs.foldl (fun s c => F64.add s c.weight) (F64.ofNat 0)

def findOracle (os : List (Nat × Oracle)) (w : F64) : Option Oracle :=
  (os.find? (fun p => p.1 == w.bits)).map (·.2)

/-- limit function and sort of a whole history: the oracle recorded for the compaction at total weight W -/
def seqEnv (maxP maxU : Nat) (hi lo : F64) (os : List (Nat × Oracle)) : Env F64 :=
  { cfg := ⟨maxP, maxU, hi, lo⟩,
    lim := { init := fun w => match findOracle os w with | some o => o.init | none => F64.nan,
             next := fun soFar w => match findOracle os w with | some o => o.lim.next soFar w | none => F64.nan },
    sortBy := fun all => match findOracle os (weightSum all) with
      | some o => applyPerm o.perm all
      | none => all,
    trunc := F64.toInt64,
    ladder := Vegeta.Extracted.c11_ladder }

/-- every compaction of the history must find an oracle that really sorts its buffer -/
def sortOK (os : List (Nat × Oracle)) (t : TD F64) : Bool :=
  if needsProcess t then
    let all := t.unprocessed ++ t.processed
    match findOracle os (weightSum all) with
    | some o => oracleOK o all
    | none => false
  else true

def showRows (rs : List (HdrRow F64)) : String :=
  rs.foldl (fun s r => s ++ " " ++ toString r.value.bits ++ "," ++ toString r.q.bits ++ "," ++ toString r.count ++ ","
    ++ toString r.oneBy.bits ++ "," ++ toString r.dur) (toString rs.length)

def runSeq (e : Env F64) (os : List (Nat × Oracle)) : MS F64 → List SeqOp → String → String
  | _, [], acc => acc
  | m, op :: ops, acc =>
    -- the first compaction a query performs uses the oracle; check it before running the model
    let pendingOK := match op, m.est with
      | .add _ _, _ => true
      | _, some t => sortOK os t
      | _, none => true
    if !pendingOK then acc ++ " | badsort" else
    match op with
    | .add l ts => match msAdd e m l ts with
      | .ok m' => runSeq e os m' ops (acc ++ " | a " ++ toString m'.requests ++ " " ++ toString m'.total ++ " " ++ toString m'.min ++ " " ++ toString m'.max)
      | _ => acc ++ " | panic"
    | .close => match msClose e m with
      | .ok m' => runSeq e os m' ops (acc ++ " | c " ++ toString m'.min ++ " " ++ toString m'.p50 ++ " " ++ toString m'.p90 ++ " " ++
          toString m'.p95 ++ " " ++ toString m'.p99 ++ " " ++ toString m'.max ++ " " ++ toString m'.requests ++ " " ++ toString m'.duration)
      | _ => acc ++ " | panic"
    | .quantile q => match lmQuantile e m q with
      | .ok (m', d) => runSeq e os m' ops (acc ++ " | q " ++ toString d)
      | _ => acc ++ " | panic"
    | .hdr => match hdrReport e m with
      | .ok (m', rs) => runSeq e os m' ops (acc ++ " | h " ++ showRows rs)
      | _ => acc ++ " | panic"

def handle (op : String) (args : List String) : Option String :=
  match op with
  | "c11.quantile" => do
    let ((d, qs), _) ← (do let d ← digest; let qs ← listOf f64; pure (d, qs)).run args
    let cum := cumulative d.processed
    let out := qs.foldl (fun s q =>
      match quantileCum cum d q with
      | .ok x => s ++ " " ++ toString x.bits ++ ":" ++ toString (F64.toInt64 x)
      | _ => s ++ " panic") "ok"
    pure out
  | "c11.cum" => do
    let (d, _) ← digest.run args
    pure ("ok " ++ showNats ((cumulative d.processed).map (·.bits)))
  | "c11.close" => do
    let (d, _) ← digest.run args
    match close F64.toInt64 d with
    | .ok p => pure ("ok " ++ toString p.p50 ++ " " ++ toString p.p90 ++ " " ++ toString p.p95 ++ " " ++ toString p.p99)
    | _ => pure "panic"
  | "c11.hdr" => do
    let ((d, n), _) ← (do let d ← digest; let n ← nat; pure (d, n)).run args
    match hdrRows F64.toInt64 d n Vegeta.Extracted.c11_ladder with
    | .ok rs => pure (rs.foldl (fun s r => s ++ " " ++ toString r.value.bits ++ "," ++ toString r.q.bits ++ ","
        ++ toString r.count ++ "," ++ toString r.oneBy.bits) ("ok " ++ toString rs.length))
    | _ => pure "panic"
  | "c11.add" => do
    let ((s, x, w, o), _) ← (do let s ← tdState; let x ← f64; let w ← f64; let o ← oracle; pure (s, x, w, o)).run args
    let all := (s.unprocessed ++ [⟨x, w⟩]) ++ s.processed
    let willProcess := F64.le x x && (decide (s.processed.length > s.maxProcessed) || decide (s.unprocessed.length + 1 > s.maxUnprocessed))
    if willProcess && !oracleOK o all then pure "badsort" else
    pure (showOutcomeTD (add o.lim (applyPerm o.perm) s x w))
  | "c11.process" => do
    let ((s, o), _) ← (do let s ← tdState; let o ← oracle; pure (s, o)).run args
    if needsProcess s && !oracleOK o (s.unprocessed ++ s.processed) then pure "badsort" else
    pure (showOutcomeTD (process o.lim (applyPerm o.perm) s))
  | "c11.seq" => do
    let ((mp, mu, hi, lo, ops, os), _) ← (do
      let mp ← nat; let mu ← nat; let hi ← f64; let lo ← f64
      let ops ← listOf seqOp
      let os ← listOf keyedOracle
      pure (mp, mu, hi, lo, ops, os)).run args
    pure (runSeq (seqEnv mp mu hi lo os) os MS.init ops "ok")
  | _ => none

end Vegeta.Driver.C11
