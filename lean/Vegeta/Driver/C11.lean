import Vegeta.Go.Proto
/-! Driver operations of property C11 (ops are named `c11.<name>`). -/
namespace Vegeta.Driver.C11
open Vegeta.Go Vegeta.Go.Proto

def handle (_op : String) (args : List String) : Option String :=
  match _op with
  | _ => none

end Vegeta.Driver.C11
