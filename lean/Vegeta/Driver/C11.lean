import Vegeta.Go.Proto
import Vegeta.Model.Quantile
import Vegeta.Extracted.Facts
/-! Driver operations of property C11 (ops are named `c11.<name>`).
Floats travel as the decimal rendering of their IEEE-754 bit pattern; the model runs over
`Vegeta.Go.F64` (SoftF64).

* `c11.quantile <digest> k q1 … qk`  →  `ok bits:dur …` — `TDigest.Quantile(q)` and
  `time.Duration(…)` of it, per q (`panic` in place of an entry whose evaluation panics)
* `c11.cum <digest>` → `ok n bits…` — `updateCumulative`
* `c11.close <digest>` → `ok p50 p90 p95 p99`
* `c11.hdr <digest> requests` → `ok n value,q,count,oneBy …` rows over the *extracted* ladder

`<digest>` = `n mean1 weight1 … meann weightn processedWeight min max`.
-/
namespace Vegeta.Driver.C11
open Vegeta.Go Vegeta.Go.Proto Vegeta.Model.Quantile

def f64 : P F64 := do let b ← nat; pure ⟨b⟩

def centroid : P (Centroid F64) := do
  let m ← f64; let w ← f64; pure ⟨m, w⟩

def digest : P (Digest F64) := do
  let cs ← listOf centroid
  let w ← f64; let mn ← f64; let mx ← f64
  pure ⟨cs, w, mn, mx⟩

def handle (op : String) (args : List String) : Option String :=
  match op with
  | "c11.quantile" => do
    let ((d, qs), _) ← (do let d ← digest; let qs ← listOf f64; pure (d, qs)).run args
    let cum := cumulative d.processed
    let out := qs.foldl (fun s q =>
      match quantileCum cum d q with
      | .ok x => s ++ " " ++ toString x.bits ++ ":" ++ toString (F64.toInt64 x)
      | _ => s ++ " panic") "ok"
    pure out
  | "c11.cum" => do
    let (d, _) ← digest.run args
    pure ("ok " ++ showNats ((cumulative d.processed).map (·.bits)))
  | "c11.close" => do
    let (d, _) ← digest.run args
    match close F64.toInt64 d with
    | .ok p => pure ("ok " ++ toString p.p50 ++ " " ++ toString p.p90 ++ " " ++ toString p.p95 ++ " " ++ toString p.p99)
    | _ => pure "panic"
  | "c11.hdr" => do
    let ((d, n), _) ← (do let d ← digest; let n ← nat; pure (d, n)).run args
    match hdrRows F64.toInt64 d n Vegeta.Extracted.c11_ladder with
    | .ok rs => pure (rs.foldl (fun s r => s ++ " " ++ toString r.value.bits ++ "," ++ toString r.q.bits ++ ","
        ++ toString r.count ++ "," ++ toString r.oneBy.bits) ("ok " ++ toString rs.length))
    | _ => pure "panic"
  | _ => none

end Vegeta.Driver.C11
