import Vegeta.Go.Proto
/-! Driver operations of property C10 (ops are named `c10.<name>`). -/
namespace Vegeta.Driver.C10
open Vegeta.Go Vegeta.Go.Proto

def handle (_op : String) (args : List String) : Option String :=
  match _op with
  | _ => none

end Vegeta.Driver.C10
