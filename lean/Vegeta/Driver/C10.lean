import Vegeta.Go.Proto
import Vegeta.Model.Metrics
import Vegeta.Model.MetricsText
/-! Driver operations of property C10 (ops are named `c10.<name>`).

`c10.run n op₁ … opₙ` with `op = a <code> <ts> <latency> <bytesOut> <bytesIn> <errorhex>` (Add)
or `c` (Close); the model runs the calls on a fresh `Metrics`, closes once more and prints
every exported field (floats as bit patterns).
`c10.seconds d` prints the bits of `Duration(d).Seconds()`.
`c10.durround d m` prints `Duration(d).Round(m)`; `c10.round d` prints `round(d)` of lib/reporters.go and its `String()`; `c10.fix2 bits` prints `%.2f` of the float.
`c10.json p50 p90 p95 p99 n op₁ … opₙ` prints the members of the JSON report in document order;
`c10.text p50 p90 p95 p99 n op₁ … opₙ` prints the cells of the text report of the closed metrics.
`c10.loop n r₁ … rₙ k e₁ … eₖ` (results without the `a` tag; events `t` tick, `d` decode, `i` interrupt)
runs the report command's loop and prints every report it writes. -/
namespace Vegeta.Driver.C10
open Vegeta.Go Vegeta.Go.Proto Vegeta.Model.Metrics Vegeta.Model.MetricsText

def opP : P Op := do
  let t ← tok
  if t == "c" then pure Op.close
  else if t == "a" then do
    let code ← nat
    let ts ← int
    let lat ← int
    let bo ← nat
    let bi ← nat
    let e ← bytes
    pure (Op.add { code := code, timestamp := ts, latency := lat, bytesOut := bo, bytesIn := bi, error := e })
  else failure

def showTime : Option Int → String
  | none => "none"
  | some t => toString t

/-- bit pattern of a float; every NaN prints as `nan` (payloads are not compared) -/
def showF (x : F64) : String := if x.isNaN then "nan" else toString x.bits

def showReport (r : Report) : String :=
  "ok req=" ++ toString r.requests ++
  " codes=" ++ toString r.statusCodes.length ++ r.statusCodes.foldl (fun s (c, n) => s ++ " " ++ toString c ++ ":" ++ toString n) "" ++
  " bin=" ++ toString r.bytesInTotal ++ "," ++ showF r.bytesInMean ++
  " bout=" ++ toString r.bytesOutTotal ++ "," ++ showF r.bytesOutMean ++
  " lat=" ++ toString r.latTotal ++ "," ++ toString r.latMean ++ "," ++ toString r.latMax ++ "," ++ toString r.latMin ++
  " t=" ++ showTime r.earliest ++ "," ++ showTime r.latest ++ "," ++ showTime r.end_ ++
  " dur=" ++ toString r.duration ++ " wait=" ++ toString r.wait ++
  " rate=" ++ showF r.rate ++ " thr=" ++ showF r.throughput ++ " succ=" ++ showF r.successRatio ++
  " errs=" ++ showBytesList r.errors

def resP : P Result := do
  let code ← nat
  let ts ← int
  let lat ← int
  let bo ← nat
  let bi ← nat
  let e ← bytes
  pure { code := code, timestamp := ts, latency := lat, bytesOut := bo, bytesIn := bi, error := e }

def evP : P Ev := do
  let t ← tok
  if t == "t" then pure Ev.tick else if t == "d" then pure Ev.decode else if t == "i" then pure Ev.interrupt else failure

def showText (t : TextReport) : String :=
  "ok rows=" ++ toString t.rows.length ++
  t.rows.foldl (fun s (l, h, v) => s ++ " " ++ hexEncode l ++ "|" ++ hexEncode h ++ "|" ++ hexEncode v) "" ++
  " errs=" ++ showBytesList t.errors

def handle (op : String) (args : List String) : Option String :=
  match op with
  | "c10.run" => do
    let (ops, _) ← (listOf opP).run args
    pure (showReport (report (close (run Metrics.init ops))))
  | "c10.seconds" => do
    let (d, _) ← (int).run args
    pure ("ok " ++ showF (seconds d))
  | "c10.round" => do
    let (d, _) ← (int).run args
    pure ("ok " ++ toString (round d) ++ " " ++ hexEncode (Duration.toString (round d)))
  | "c10.durround" => do
    let ((d, m), _) ← (do let d ← int; let m ← int; pure (d, m)).run args
    pure ("ok " ++ toString (durRound d m))
  | "c10.fix2" => do
    let (b, _) ← (nat).run args
    pure ("ok " ++ hexEncode (fmtFixed2 ⟨b⟩))
  | "c10.text" => do
    let ((p, ops), _) ← (do let a ← int; let b ← int; let c ← int; let d ← int; let ops ← listOf opP; pure ((a, b, c, d), ops)).run args
    pure (showText (textReport (report (close (run Metrics.init ops))) p.1 p.2.1 p.2.2.1 p.2.2.2))
  | "c10.json" => do
    let ((p, ops), _) ← (do let a ← int; let b ← int; let c ← int; let d ← int; let ops ← listOf opP; pure ((a, b, c, d), ops)).run args
    let fields := jsonReport (report (close (run Metrics.init ops))) p.1 p.2.1 p.2.2.1 p.2.2.2
    let showJV : JV → String
      | .int i => toString i
      | .nat n => toString n
      | .flt x => showF x
      | .time t => showTime t
      | .codes cs => toString cs.length ++ cs.foldl (fun s (c, n) => s ++ "," ++ toString c ++ ":" ++ toString n) ""
      | .strs es => toString es.length ++ es.foldl (fun s e => s ++ "," ++ hexEncode e) ""
    pure ("ok" ++ fields.foldl (fun s (k, v) => s ++ " " ++ String.ofList (k.map (fun b => Char.ofNat b)) ++ "=" ++ showJV v) "")
  | "c10.loop" => do
    let ((rs, evs), _) ← (do let rs ← listOf resP; let evs ← listOf evP; pure (rs, evs)).run args
    let s := loopRun rs evs
    pure ("ok done=" ++ (if s.done then "1" else "0") ++ " reports=" ++ toString s.out.length ++
      s.out.foldl (fun acc r => acc ++ " | " ++ showReport r) "")
  | _ => none

end Vegeta.Driver.C10
