import Vegeta.Go.Proto
import Vegeta.Model.Metrics
/-! Driver operations of property C10 (ops are named `c10.<name>`).

`c10.run n op₁ … opₙ` with `op = a <code> <ts> <latency> <bytesOut> <bytesIn> <errorhex>` (Add)
or `c` (Close); the model runs the calls on a fresh `Metrics`, closes once more and prints
every exported field (floats as bit patterns).
`c10.seconds d` prints the bits of `Duration(d).Seconds()`. -/
namespace Vegeta.Driver.C10
open Vegeta.Go Vegeta.Go.Proto Vegeta.Model.Metrics

def opP : P Op := do
  let t ← tok
  if t == "c" then pure Op.close
  else if t == "a" then do
    let code ← nat
    let ts ← int
    let lat ← int
    let bo ← nat
    let bi ← nat
    let e ← bytes
    pure (Op.add { code := code, timestamp := ts, latency := lat, bytesOut := bo, bytesIn := bi, error := e })
  else failure

def showTime : Option Int → String
  | none => "none"
  | some t => toString t

/-- bit pattern of a float; every NaN prints as `nan` (payloads are not compared) -/
def showF (x : F64) : String := if x.isNaN then "nan" else toString x.bits

def showReport (r : Report) : String :=
  "ok req=" ++ toString r.requests ++
  " codes=" ++ toString r.statusCodes.length ++ r.statusCodes.foldl (fun s (c, n) => s ++ " " ++ toString c ++ ":" ++ toString n) "" ++
  " bin=" ++ toString r.bytesInTotal ++ "," ++ showF r.bytesInMean ++
  " bout=" ++ toString r.bytesOutTotal ++ "," ++ showF r.bytesOutMean ++
  " lat=" ++ toString r.latTotal ++ "," ++ toString r.latMean ++ "," ++ toString r.latMax ++ "," ++ toString r.latMin ++
  " t=" ++ showTime r.earliest ++ "," ++ showTime r.latest ++ "," ++ showTime r.end_ ++
  " dur=" ++ toString r.duration ++ " wait=" ++ toString r.wait ++
  " rate=" ++ showF r.rate ++ " thr=" ++ showF r.throughput ++ " succ=" ++ showF r.successRatio ++
  " errs=" ++ showBytesList r.errors

def handle (op : String) (args : List String) : Option String :=
  match op with
  | "c10.run" => do
    let (ops, _) ← (listOf opP).run args
    pure (showReport (report (close (run Metrics.init ops))))
  | "c10.seconds" => do
    let (d, _) ← (int).run args
    pure ("ok " ++ showF (seconds d))
  | _ => none

end Vegeta.Driver.C10
