import Vegeta.Go.Proto
import Vegeta.Model.TargeterConc
import Vegeta.Driver.C14
/-! Driver operations of property C15 (ops are named `c15.<name>`).

A schedule is a list of caller ids; each id fires the action that caller has enabled
(`lock`/`add` when idle, `finish` when holding).  Stream callers stop after they were told
`ErrNoTargets` three times (the harness's goroutines do the same); after the schedule the
remaining callers are drained round-robin. -/
namespace Vegeta.Driver.C15
open Vegeta.Go Vegeta.Go.Proto
open Vegeta.Model Vegeta.Model.TargeterConc

def sortStrings (xs : List String) : List String := (xs.toArray.qsort (· < ·)).toList

def exhaustedOf {T} (log : List (Ev T)) (c : Nat) : Nat :=
  (log.filter fun e => match e with | .exhausted c' => c' == c | _ => false).length

/-- fire caller `c`'s enabled action unless it already saw exhaustion three times -/
def fire {S R T} (sys : Sys S R T) (s : St S R T) (c : Nat) : St S R T :=
  match s.loc[c]? with
  | some .idle => if exhaustedOf s.log c ≥ 3 then s else (step sys s (.lock c)).getD s
  | some (.holding _) => (step sys s (.finish c)).getD s
  | none => s

def allDone {S R T} (s : St S R T) : Bool :=
  (List.range s.loc.length).all fun c =>
    (match s.loc[c]? with | some .idle => true | _ => false) && exhaustedOf s.log c ≥ 3

def drain {S R T} (sys : Sys S R T) : Nat → St S R T → St S R T
  | 0, s => s
  | fuel + 1, s =>
    if allDone s then s
    else drain sys fuel ((List.range s.loc.length).foldl (fire sys) s)

/-- results delivered after the same caller had already been told `ErrNoTargets` -/
def lateResults {T} : List (Ev T) → List Nat → Nat
  | [], _ => 0
  | .exhausted c :: r, seen => lateResults r (c :: seen)
  | .result c _ :: r, seen => (if seen.contains c then 1 else 0) + lateResults r seen

def showStream {T} (log : List (Ev T)) (callers : Nat) (showT : T → String) : String :=
  let res := log.filterMap fun e => match e with
    | .result _ (.ok t) => some ("ok " ++ showT t)
    | .result _ (.error e) => some ("err " ++ toString e)
    | .result _ .panic => some "panic"
    | .exhausted _ => none
  let ex := (List.range callers).map (exhaustedOf log)
  "ok " ++ toString res.length ++ " ; " ++ " ; ".intercalate (sortStrings res) ++
    " ; ex " ++ showNats ex ++ " ; late " ++ toString (lateResults log [])

def handle (op : String) (args : List String) : Option String :=
  match op with
  | "c15.static" => do
    -- k, callers, schedule → per-index counts of the targets handed out
    let ((k, callers, sched), _) ← (do let k ← nat; let c ← nat; let s ← listOf nat; pure (k, c, s)).run args
    let fireS := fun (s : SSt) (c : Nat) =>
      match s.loc[c]? with
      | some none => (sstep k s (.add c)).getD s
      | some (some _) => (sstep k s (.finish c)).getD s
      | none => s
    let s1 := sched.foldl fireS (sinit callers)
    -- finish whatever is still pending
    let s2 := (List.range callers).foldl (fun s c => match s.loc[c]? with
      | some (some _) => (sstep k s (.finish c)).getD s | _ => s) s1
    if s2.log.any (fun e => match e.2 with | .ok _ => false | _ => true) then pure "panic" else
    let counts := (List.range k).map fun j => (s2.log.filter fun e => e.2 == .ok j).length
    pure ("ok " ++ toString s2.log.length ++ " " ++ showNats counts)
  | "c15.json" => do
    let ((body, hdr, src, callers, sched), _) ← (do
      let b ← bytes; let h ← C14.pVMap; let s ← bytes; let c ← nat; let sc ← listOf nat
      pure (b, h, s, c, sc)).run args
    let cfg : JSONTargets.Cfg := { dec := JSONTargets.decodeImage, body := body, hdr := hdr }
    let sys := jsonSys cfg
    let s1 := sched.foldl (fire sys) (init src callers)
    let s2 := drain sys (src.length + 8) s1
    pure (showStream s2.log callers C14.showRec)
  | "c15.http" => do
    let ((c, callers, sched), _) ← (do let c ← C14.pHTTPCase; let n ← nat; let sc ← listOf nat; pure (c, n, sc)).run args
    let sys := httpSys c.cfg
    let st0 : HTTPTargets.St := { ps := HTTPTargets.PS.init c.src, heap := c.heap }
    let s1 := sched.foldl (fire sys) (init st0 callers)
    let s2 := drain sys (c.src.length + 8) s1
    pure (showStream s2.log callers (fun t => C14.showView (HTTPTargets.viewTarget s2.src.heap t)))
  | _ => none

end Vegeta.Driver.C15
