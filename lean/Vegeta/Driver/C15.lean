import Vegeta.Go.Proto
/-! Driver operations of property C15 (ops are named `c15.<name>`). -/
namespace Vegeta.Driver.C15
open Vegeta.Go Vegeta.Go.Proto

def handle (_op : String) (args : List String) : Option String :=
  match _op with
  | _ => none

end Vegeta.Driver.C15
