/-
An independent reader of the *documented* result layouts (README.md "encode command",
encode.go usage text, README JSON example) — written from the documentation, not from
lib/results.go:

CSV, no header line, twelve columns:
   1. Unix timestamp in nanoseconds since epoch     7. Base64 encoded response body
   2. HTTP status code                              8. Attack name
   3. Request latency in nanoseconds                9. Sequence number of request
   4. Bytes out                                    10. Method
   5. Bytes in                                     11. URL
   6. Error                                        12. Base64 encoded response headers

JSON, one object per line with the members
   attack, seq, code, timestamp (RFC 3339), latency (nanoseconds), bytes_out, bytes_in, error,
   body (base64), method, url, headers (object: name → array of strings).

The reader shares only standard building blocks with the model (CSV field splitting, base64,
RFC 3339, JSON string syntax); the column/member mapping, the number syntax, the JSON object
grammar and the header block syntax are its own.
-/
import Vegeta.Model.CodecResult
namespace Vegeta.Spec.Layout
open Vegeta.Go Vegeta.Model.Codec

/-! ### plain decimal numbers -/

def digitsVal (s : Bytes) : Nat := s.foldl (fun a c => a * 10 + (c - 48)) 0

def specNat (s : Bytes) : Option Nat :=
  if !s.isEmpty && s.all isDigitB then some (digitsVal s) else none

def specInt (s : Bytes) : Option Int :=
  match s with
  | 45 :: r => (specNat r).map (fun n => -(n : Int))
  | _ => (specNat s).map (fun n => (n : Int))

def optOutcome {α} : Outcome α → Option α
  | .ok a => some a
  | _ => none

/-! ### header block: `Name: value` lines ended by CRLF, then an empty line -/

def addValue (k v : Bytes) : Header → Header
  | [] => [(k, [v])]
  | x :: xs => if x.1 = k then (x.1, x.2 ++ [v]) :: xs else x :: addValue k v xs

/-- split at the first CRLF -/
def cutCRLF : Bytes → Option (Bytes × Bytes)
  | [] => none
  | c :: r =>
    match c, r with
    | 13, 10 :: r' => some ([], r')
    | _, _ => (cutCRLF r).map (fun p => (c :: p.1, p.2))

def specHeaderBlock : Nat → Bytes → Header → Option Header
  | 0, _, _ => none
  | fuel+1, s, acc =>
    match cutCRLF s with
    | none => none
    | some (line, rest) =>
      if line.isEmpty then some acc
      else
        let name := line.takeWhile (· != 58)
        match line.dropWhile (· != 58) with
        | _ :: v => specHeaderBlock fuel rest (addValue name (v.dropWhile (· == 32)) acc)
        | [] => none

/-! ### CSV -/

def specRecord (fs : List Bytes) : Option Result :=
  match fs with
  | [c1, c2, c3, c4, c5, c6, c7, c8, c9, c10, c11, c12] =>
    match specInt c1, specNat c2, specInt c3, specNat c4, specNat c5, optOutcome (b64Decode c7), specNat c9 with
    | some ts, some code, some lat, some bout, some bin, some body, some seq =>
      let hdr : Option (Option Header) :=
        if c12.isEmpty then some none
        else match optOutcome (b64Decode c12) with
          | some raw => (specHeaderBlock (raw.length + 1) raw []).map some
          | none => none
      match hdr with
      | some h =>
        if code < 65536 then
          some { attack := c8, seq := seq, code := code, timestamp := ts, latency := lat, bytesOut := bout,
                 bytesIn := bin, error := c6, body := some body, method := c10, url := c11, headers := h }
        else none
      | none => none
    | _, _, _, _, _, _, _ => none
  | _ => none

def specReadCSVF : Nat → Bytes → List Result × Term
  | 0, _ => ([], .err)
  | fuel+1, s =>
    match readRecord s with
    | .eof => ([], .eof)
    | .err => ([], .err)
    | .record fs rest =>
      match specRecord fs with
      | some r => let p := specReadCSVF fuel rest; (r :: p.1, p.2)
      | none => ([], .err)

def specReadCSV (s : Bytes) : List Result × Term :=
  let t := normCRLF s
  specReadCSVF (t.length + 1) t

/-! ### JSON: a plain tokenizer and the grammar of the documented object -/

inductive JTok where
  | lbrace | rbrace | lbrack | rbrack | colon | comma
  | str (s : Bytes)          -- unescaped
  | num (raw : Bytes)
  | null
  | other
  deriving Repr, DecidableEq

def isNumByte (c : Nat) : Bool := isDigitB c || c == 45 || c == 43 || c == 46 || c == 101 || c == 69

def tokenizeF : Nat → Bytes → Option (List JTok)
  | 0, _ => none
  | _+1, [] => some []
  | fuel+1, c :: r =>
    if isJSONSpace c then tokenizeF fuel r
    else if c = 123 then (tokenizeF fuel r).map (JTok.lbrace :: ·)
    else if c = 125 then (tokenizeF fuel r).map (JTok.rbrace :: ·)
    else if c = 91 then (tokenizeF fuel r).map (JTok.lbrack :: ·)
    else if c = 93 then (tokenizeF fuel r).map (JTok.rbrack :: ·)
    else if c = 58 then (tokenizeF fuel r).map (JTok.colon :: ·)
    else if c = 44 then (tokenizeF fuel r).map (JTok.comma :: ·)
    else if c = 34 then
      match fetchString r with
      | some (raw, r') =>
        match unescape raw with
        | some s => (tokenizeF fuel r').map (JTok.str s :: ·)
        | none => none
      | none => none
    else if isDigitB c || c == 45 then
      (tokenizeF fuel (r.dropWhile isNumByte)).map (JTok.num (c :: r.takeWhile isNumByte) :: ·)
    else if c = 110 ∧ r.take 3 = [117, 108, 108] then (tokenizeF fuel (r.drop 3)).map (JTok.null :: ·)
    else none

def tokenize (s : Bytes) : Option (List JTok) := tokenizeF (s.length + 1) s

/-- `"a","b",…]` after `[` : the strings and what follows the `]` -/
def pStrings : List JTok → Option (List Bytes × List JTok)
  | .rbrack :: r => some ([], r)
  | .str s :: .rbrack :: r => some ([s], r)
  | .str s :: .comma :: r => (pStrings r).map (fun p => (s :: p.1, p.2))
  | _ => none

/-- members of the headers object after `{` -/
def pHeaderMembers : Nat → List JTok → Header → Option (Header × List JTok)
  | 0, _, _ => none
  | fuel+1, ts, acc =>
    match ts with
    | .rbrace :: r => some (acc, r)
    | .str k :: .colon :: .null :: r =>
      (match r with
       | .comma :: r' => pHeaderMembers fuel r' (acc ++ [(k, [])])
       | .rbrace :: r' => some (acc ++ [(k, [])], r')
       | _ => none)
    | .str k :: .colon :: .lbrack :: r =>
      (match pStrings r with
       | some (vs, .comma :: r') => pHeaderMembers fuel r' (acc ++ [(k, vs)])
       | some (vs, .rbrace :: r') => some (acc ++ [(k, vs)], r')
       | _ => none)
    | _ => none

-- the documented member names, spelled out as bytes
def dAttack : Bytes := [97, 116, 116, 97, 99, 107]   -- attack
def dSeq : Bytes := [115, 101, 113]   -- seq
def dCode : Bytes := [99, 111, 100, 101]   -- code
def dTimestamp : Bytes := [116, 105, 109, 101, 115, 116, 97, 109, 112]   -- timestamp
def dLatency : Bytes := [108, 97, 116, 101, 110, 99, 121]   -- latency
def dBytesOut : Bytes := [98, 121, 116, 101, 115, 95, 111, 117, 116]   -- bytes_out
def dBytesIn : Bytes := [98, 121, 116, 101, 115, 95, 105, 110]   -- bytes_in
def dError : Bytes := [101, 114, 114, 111, 114]   -- error
def dBody : Bytes := [98, 111, 100, 121]   -- body
def dMethod : Bytes := [109, 101, 116, 104, 111, 100]   -- method
def dURL : Bytes := [117, 114, 108]   -- url
def dHeaders : Bytes := [104, 101, 97, 100, 101, 114, 115]   -- headers

/-- one scalar member by its documented name and unit -/
def setScalar (k : Bytes) (v : JTok) (r : Result) : Option Result :=
  match v with
  | .null => some r
  | .str s =>
    if k == dAttack then some { r with attack := s }
    else if k == dError then some { r with error := s }
    else if k == dMethod then some { r with method := s }
    else if k == dURL then some { r with url := s }
    else if k == dBody then (optOutcome (b64Decode s)).map (fun b => { r with body := some b })
    else if k == dTimestamp then (parseRFC3339 s).map (fun t => { r with timestamp := t })
    else if k == dSeq || k == dCode || k == dLatency || k == dBytesOut || k == dBytesIn
            || k == dHeaders then none
    else some r
  | .num raw =>
    if k == dSeq then (specNat raw).map (fun n => { r with seq := n })
    else if k == dCode then (specNat raw).bind (fun n => if n < 65536 then some { r with code := n } else none)
    else if k == dLatency then (specInt raw).map (fun n => { r with latency := n })
    else if k == dBytesOut then (specNat raw).map (fun n => { r with bytesOut := n })
    else if k == dBytesIn then (specNat raw).map (fun n => { r with bytesIn := n })
    else if k == dAttack || k == dError || k == dMethod || k == dURL || k == dBody
            || k == dTimestamp || k == dHeaders then none
    else some r
  | _ => none

/-- members of the top-level object after `{`; the token list must end with the closing `}` -/
def pMembers : Nat → List JTok → Result → Option Result
  | 0, _, _ => none
  | fuel+1, ts, r =>
    match ts with
    | [.rbrace] => some r
    | .str k :: .colon :: .lbrace :: rest =>
      if k == dHeaders then
        match pHeaderMembers (rest.length + 1) rest [] with
        | some (h, .comma :: rest') => pMembers fuel rest' { r with headers := some h }
        | some (h, [.rbrace]) => some { r with headers := some h }
        | _ => none
      else none
    | .str k :: .colon :: v :: rest =>
      match setScalar k v r with
      | some r' =>
        (match rest with
         | .comma :: rest' => pMembers fuel rest' r'
         | [.rbrace] => some r'
         | _ => none)
      | none => none
    | _ => none

def specReadJSONLine (line : Bytes) : Option Result :=
  match tokenize line with
  | some (.lbrace :: ts) => pMembers (ts.length + 1) ts {}
  | _ => none

def specReadJSONF : Nat → Bytes → List Result × Term
  | 0, _ => ([], .err)
  | fuel+1, s =>
    if s.isEmpty then ([], .eof) else
    match splitLine s with
    | none => ([], .eof)
    | some (line, rest) =>
      match specReadJSONLine line with
      | some r => let p := specReadJSONF fuel rest; (r :: p.1, p.2)
      | none => ([], .err)

def specReadJSON (s : Bytes) : List Result × Term := specReadJSONF (s.length + 1) s

end Vegeta.Spec.Layout
