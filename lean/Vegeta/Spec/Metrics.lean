/-
Reference computation of a closed metrics report, written directly from the documented
meaning of each field of `vegeta.Metrics` (lib/metrics.go doc comments, README "report"):

  requests      number of results
  status codes  for every status code that occurs, the number of results carrying it
  bytes in/out  total = sum over the results, mean = total / requests
  latencies     total = sum, mean = total / requests, max = largest, min = smallest
  earliest      smallest timestamp;  latest: largest timestamp;
  end           largest (timestamp + latency)
  duration      latest − earliest;   wait: end − latest
  rate          requests per second of duration
  throughput    successful requests (200 ≤ code < 400) per second of (duration + wait)
                (when the duration is not positive — a single instant — no "per second" exists;
                 the report then shows the bare counts, as `Close` documents by its guard)
  success       successful requests / requests
  errors        the distinct non-empty error texts (here: in order of first occurrence)

All integer quantities are exact (unbounded).  The float-valued fields are the binary64
evaluations of the quotients above on those exact integers (`Duration.Seconds()` being
the binary64 function `seconds`); a set without results reports zeros.
-/
import Vegeta.Model.Metrics
namespace Vegeta.Spec.Metrics
open Vegeta.Go Vegeta.Model.Metrics

def sumInt : List Int → Int
  | [] => 0
  | x :: xs => x + sumInt xs

def sumNat : List Nat → Nat
  | [] => 0
  | x :: xs => x + sumNat xs

/-- smallest element -/
def minL : List Int → Option Int
  | [] => none
  | x :: xs => match minL xs with
    | none => some x
    | some m => some (if x ≤ m then x else m)

/-- largest element -/
def maxL : List Int → Option Int
  | [] => none
  | x :: xs => match maxL xs with
    | none => some x
    | some m => some (if m ≤ x then x else m)

/-- number of results with status code `c` -/
def countCode (c : Nat) (rs : List Result) : Nat := (rs.filter (fun r => r.code == c)).length

def insertDedup (c : Nat) : List Nat → List Nat
  | [] => [c]
  | k :: t => if c < k then c :: k :: t else if c = k then k :: t else k :: insertDedup c t

/-- the distinct values in increasing order -/
def sortDedup : List Nat → List Nat
  | [] => []
  | c :: cs => insertDedup c (sortDedup cs)

/-- status-code histogram: each occurring code (increasing) with its number of results -/
def codeHistogram (rs : List Result) : List (Nat × Nat) :=
  (sortDedup (rs.map (·.code))).map (fun c => (c, countCode c rs))

/-- distinct elements in order of first occurrence -/
def dedupFirst : List Bytes → List Bytes
  | [] => []
  | e :: es => e :: (dedupFirst es).filter (fun x => x ≠ e)

def errorTexts (rs : List Result) : List Bytes := (rs.map (·.error)).filter (fun e => e ≠ [])

def successCount (rs : List Result) : Nat := (rs.filter (fun r => isSuccess r.code)).length

def zeroReport : Report :=
  { requests := 0, statusCodes := [], bytesInTotal := 0, bytesInMean := F64.posZero, bytesOutTotal := 0,
    bytesOutMean := F64.posZero, latTotal := 0, latMean := 0, latMax := 0, latMin := 0, earliest := none,
    latest := none, end_ := none, duration := 0, wait := 0, rate := F64.posZero, throughput := F64.posZero,
    successRatio := F64.posZero, errors := [] }

/-- The reference report of a multiset of results (given in any order). -/
def ref (rs : List Result) : Report :=
  if rs.length = 0 then zeroReport else
  let n := rs.length
  let lats := rs.map (·.latency)
  let tss := rs.map (·.timestamp)
  let earliest := (minL tss).getD 0
  let latest := (maxL tss).getD 0
  let end_ := (maxL (rs.map (fun r => r.timestamp + r.latency))).getD 0
  let duration := latest - earliest
  let wait := end_ - latest
  let bytesIn := sumNat (rs.map (·.bytesIn))
  let bytesOut := sumNat (rs.map (·.bytesOut))
  let latTotal := sumInt lats
  let succ := successCount rs
  let secs := seconds duration
  let pos := F64.lt F64.posZero secs
  { requests := n
    statusCodes := codeHistogram rs
    bytesInTotal := bytesIn
    bytesInMean := F64.div (F64.ofNat bytesIn) (F64.ofNat n)
    bytesOutTotal := bytesOut
    bytesOutMean := F64.div (F64.ofNat bytesOut) (F64.ofNat n)
    latTotal := latTotal
    latMean := F64.toInt64 (F64.div (F64.ofInt latTotal) (F64.ofNat n))
    latMax := (maxL lats).getD 0
    latMin := (minL lats).getD 0
    earliest := some earliest
    latest := some latest
    end_ := some end_
    duration := duration
    wait := wait
    rate := if pos then F64.div (F64.ofNat n) secs else F64.ofNat n
    throughput := if pos then F64.div (F64.ofNat succ) (seconds (duration + wait)) else F64.ofNat succ
    successRatio := F64.div (F64.ofNat succ) (F64.ofNat n)
    errors := dedupFirst (errorTexts rs) }

end Vegeta.Spec.Metrics
