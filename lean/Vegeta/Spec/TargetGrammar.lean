/-
The documented grammar of targets files in the `http` format (README.md "http format",
doc comment of `NewHTTPTargeter`), written independently of the parser: this file imports
nothing of the model and calls no parser function.

A file is a sequence of *blocks*.  A block is a request line, then header lines, then optionally
one `@file` line.  Blank lines separate blocks: a block with header lines and no body line ends at
a blank line or at the end of the file, whereas a bare request line may be followed directly by
the next request line (README "Simple targets"), and so may a body line.  Lines starting with `#`
are comments; they are "ignored", which we read as *erasure*: a file with comment lines describes
the same targets as the file with those lines removed.  `render` therefore takes a document
(targets plus a layout: where comment lines and blank lines are, how lines are padded) and
the legality condition `Legal` speaks about the document with the comments erased.
-/
namespace Vegeta.Spec.TargetGrammar

abbrev Bytes := List Nat

/-- horizontal white space and CR, VT, FF: what may pad a line (everything `\n` is not) -/
def isPadByte (c : Nat) : Bool := c == 32 || c == 9 || c == 11 || c == 12 || c == 13

def IsPad (ws : Bytes) : Prop := ∀ c ∈ ws, isPadByte c = true

/-- printable ASCII other than space -/
def isPlain (c : Nat) : Bool := 33 ≤ c && c ≤ 126

/-- non-empty, begins and ends with a printable non-space ASCII byte, no line feed -/
def EdgePlain (s : Bytes) : Prop :=
  (∃ c, s.head? = some c ∧ isPlain c = true) ∧ (∃ c, s.getLast? = some c ∧ isPlain c = true) ∧ 10 ∉ s

/-! ### layout elements -/

/-- `pre # text` -/
structure Comment where
  pre  : Bytes
  text : Bytes

inductive Filler where
  | blank : Bytes → Filler          -- a line of padding only
  | comment : Comment → Filler

/-- `pre key : mid value post` (no space between key and colon) -/
structure HeaderLine where
  key   : Bytes
  value : Bytes
  pre   : Bytes
  mid   : Bytes
  post  : Bytes

inductive Item where
  | header : HeaderLine → Item
  | comment : Comment → Item

/-- `pre @ path post` -/
structure BodyLine where
  path : Bytes
  pre  : Bytes
  post : Bytes

structure Block where
  lead   : List Filler              -- blank and comment lines before the request line
  pre    : Bytes
  method : Bytes
  url    : Bytes
  post   : Bytes
  items  : List Item                -- header lines with comment lines anywhere between them
  body   : Option BodyLine

structure Doc where
  blocks : List Block
  trail  : List Filler              -- blank and comment lines after the last block
  finalNewline : Bool               -- whether the last line is terminated

/-! ### rendering -/

def Comment.line (c : Comment) : Bytes := c.pre ++ 35 :: c.text

def Filler.line : Filler → Bytes
  | .blank ws => ws
  | .comment c => c.line

def HeaderLine.line (h : HeaderLine) : Bytes := h.pre ++ h.key ++ 58 :: (h.mid ++ h.value ++ h.post)

def Item.line : Item → Bytes
  | .header h => h.line
  | .comment c => c.line

def BodyLine.line (b : BodyLine) : Bytes := b.pre ++ 64 :: (b.path ++ b.post)

def Block.reqLine (b : Block) : Bytes := b.pre ++ b.method ++ 32 :: (b.url ++ b.post)

def Block.lines (b : Block) : List Bytes :=
  b.lead.map Filler.line ++ b.reqLine :: (b.items.map Item.line ++ (b.body.toList.map BodyLine.line))

def Doc.lines (d : Doc) : List Bytes := d.blocks.flatMap Block.lines ++ d.trail.map Filler.line

/-- lines joined by `\n`; the last one terminated or not -/
def joinLines : List Bytes → Bool → Bytes
  | [], _ => []
  | [l], nl => if nl then l ++ [10] else l
  | l :: ls, nl => l ++ 10 :: joinLines ls nl

def render (d : Doc) : Bytes := joinLines d.lines d.finalNewline

/-! ### the targets a document describes -/

def Block.headers (b : Block) : List (Bytes × Bytes) :=
  b.items.filterMap fun
    | .header h => some (h.key, h.value)
    | .comment _ => none

/-- values of `key`, in file order -/
def ownValues (hs : List (Bytes × Bytes)) (key : Bytes) : List Bytes :=
  (hs.filter fun kv => kv.1 = key).map (·.2)

/-- A described target: the header is given as a function of the key (defaults first, then the
target's own values in file order); `none` = key absent. -/
structure Described where
  method : Bytes
  url    : Bytes
  body   : Bytes
  header : Bytes → Option (List Bytes)

/-- `defaults`: default header values per key (`none` = no such default), `dbody`: default
body, `fs`: content of the body files. -/
def describe (defaults : Bytes → Option (List Bytes)) (dbody : Bytes) (fs : Bytes → Option Bytes)
    (b : Block) : Described :=
  { method := b.method
    url := b.url
    body := match b.body with
      | some bl => (fs bl.path).getD []
      | none => dbody
    header := fun k =>
      match defaults k, ownValues b.headers k with
      | none, [] => none
      | none, vs => some vs
      | some ds, vs => some (ds ++ vs) }

/-! ### legality -/

def Comment.Legal (c : Comment) : Prop := IsPad c.pre ∧ 10 ∉ c.text

def Filler.Legal : Filler → Prop
  | .blank ws => IsPad ws
  | .comment c => c.Legal

def Filler.isBlank : Filler → Bool
  | .blank _ => true
  | .comment _ => false

/-- header names: printable ASCII without space and colon, not starting like a comment or a
body line; values: anything on one line that begins and ends with a printable non-space byte -/
def HeaderLine.Legal (h : HeaderLine) : Prop :=
  h.key ≠ [] ∧ (∀ c ∈ h.key, isPlain c = true ∧ c ≠ 58) ∧ h.key.head? ≠ some 35 ∧ h.key.head? ≠ some 64 ∧
  EdgePlain h.value ∧ IsPad h.pre ∧ IsPad h.mid ∧ IsPad h.post

def Item.Legal : Item → Prop
  | .header h => h.Legal
  | .comment c => c.Legal

def Item.isHeader : Item → Bool
  | .header _ => true
  | .comment _ => false

def BodyLine.Legal (fs : Bytes → Option Bytes) (b : BodyLine) : Prop :=
  EdgePlain b.path ∧ IsPad b.pre ∧ IsPad b.post ∧ (fs b.path).isSome

/-- upper-case method, a URL the request-URI parser accepts, the pieces of a block -/
def Block.Legal (validURI : Bytes → Bool) (fs : Bytes → Option Bytes) (b : Block) : Prop :=
  (∀ f ∈ b.lead, f.Legal) ∧ IsPad b.pre ∧ IsPad b.post ∧
  b.method ≠ [] ∧ (∀ c ∈ b.method, 65 ≤ c ∧ c ≤ 90) ∧
  EdgePlain b.url ∧ validURI b.url = true ∧
  (∀ it ∈ b.items, it.Legal) ∧ (∀ bl, b.body = some bl → bl.Legal fs)

def Block.hasHeader (b : Block) : Bool := b.items.any Item.isHeader

/-- Block separation, stated on the document with comments erased: a block that has header
lines and no body line must be followed by a blank line (the lead of the next block contains
one) unless it is the last block. -/
def Separated : List Block → Prop
  | [] => True
  | [_] => True
  | b :: b' :: rest =>
    ((b.hasHeader = true ∧ b.body = none) → b'.lead.any Filler.isBlank = true) ∧ Separated (b' :: rest)

def Doc.Legal (validURI : Bytes → Bool) (fs : Bytes → Option Bytes) (d : Doc) : Prop :=
  (∀ b ∈ d.blocks, b.Legal validURI fs) ∧ (∀ f ∈ d.trail, f.Legal) ∧ Separated d.blocks

end Vegeta.Spec.TargetGrammar
