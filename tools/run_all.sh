#!/bin/bash
# Run the quick (or $1) tier of every ready property on /repo; summary on stdout.
cd "$(dirname "$0")/.."
TIER=${1:-quick}
for P in $(cat tools/ready.txt); do
  out=$(./check $P --tier $TIER 2>&1); rc=$?
  echo "$P rc=$rc $(echo "$out" | grep -E '^(OK|VIOLATION|KNOWN-FINDING)' | cut -c1-160 | tr '\n' ';')"
done
