#!/bin/bash
# Run checks against a seeded change in an ISOLATED copy of /verif and a scratch worktree of /repo
# (so that parallel work on /verif and /repo is not disturbed).
#   tools/seedtest.sh <patch.diff> Cxx [Cyy ...]        env: SEEDTIER=quick|thorough
set -u
PATCH=$(readlink -f "$1"); shift
ROOT=${VSEED_ROOT:-/tmp/vseed}
mkdir -p $ROOT
rsync -a --delete --exclude replays --exclude evidence ${VSEED_SRC:-/verif}/ $ROOT/verif/
if [ ! -d $ROOT/repo ]; then git -C /repo worktree add -q --detach $ROOT/repo HEAD; fi
git -C $ROOT/repo checkout -q --detach $(git -C /repo rev-parse HEAD) && git -C $ROOT/repo checkout -q -- . && git -C $ROOT/repo clean -fdq
sed -i "s#=> /repo#=> $ROOT/repo#" $ROOT/verif/harness/go.mod
if ! git -C $ROOT/repo apply "$PATCH"; then echo "PATCH DOES NOT APPLY"; exit 2; fi
cd $ROOT/verif && mkdir -p evidence replays
for P in "$@"; do
  echo "=== $P on $(basename $(dirname $PATCH))"
  VERIF_HARNESS_TIMEOUT=${VERIF_HARNESS_TIMEOUT:-600} VERIF_REPO=$ROOT/repo ./check $P --tier ${SEEDTIER:-quick} 2>&1 | cut -c1-700 | head -12
  echo "exit=${PIPESTATUS[0]}"
done
git -C $ROOT/repo checkout -q -- .
