#!/usr/bin/env python3
"""Orchestrator of one property check:  ./check Cxx [--tier quick|thorough] [--replay file]

1. regenerate source facts from /repo            (extract/ -> lean/Vegeta/Extracted/Facts.lean)
2. proof obligations: lake build Vegeta.Props.Cxx, axiom audit, hygiene grep (thorough: leanchecker)
3. correspondence + property oracle: Go harness against /repo (tag verif) vs the Lean driver
4. verdict (known findings filtered), replay files, evidence/Cxx.json
"""
import argparse, fcntl, hashlib, json, os, re, subprocess, sys, time

VERIF = os.path.dirname(os.path.dirname(os.path.abspath(__file__)))
LEAN = os.path.join(VERIF, "lean")
BUILD = os.path.join(VERIF, ".build")
REPO = os.environ.get("VERIF_REPO", "/repo")
ALLOWED_AXIOMS = {"propext", "Classical.choice", "Quot.sound"}
GOENV = dict(os.environ, GOFLAGS="-mod=mod", GOPROXY="off", GOSUMDB="off", GOTOOLCHAIN="local")

PROPS = {f[:-5]: json.load(open(os.path.join(VERIF, "tools", "props", f)))
         for f in sorted(os.listdir(os.path.join(VERIF, "tools", "props"))) if f.endswith(".json")}


def sh(cmd, cwd=None, env=None, timeout=None, stdin=None):
    t0 = time.time()
    p = subprocess.run(cmd, cwd=cwd, env=env, stdout=subprocess.PIPE, stderr=subprocess.STDOUT,
                       text=True, timeout=timeout, input=stdin)
    return p.returncode, p.stdout, time.time() - t0


class Lock:
    def __enter__(self):
        os.makedirs(BUILD, exist_ok=True)
        self.f = open(os.path.join(BUILD, "lock"), "w")
        fcntl.flock(self.f, fcntl.LOCK_EX)
        return self

    def __exit__(self, *a):
        fcntl.flock(self.f, fcntl.LOCK_UN)
        self.f.close()


def newer(src_dir, target):
    if not os.path.exists(target):
        return True
    tt = os.path.getmtime(target)
    for root, _, files in os.walk(src_dir):
        for f in files:
            if os.path.getmtime(os.path.join(root, f)) > tt:
                return True
    return False


def build_go_tools(prop, log):
    """extractor + this property's harness + tagged vegeta binary: always `go build` (incremental) against /repo's tree."""
    errs = []
    subprocess.run(["cp", os.path.join(REPO, "go.sum"), os.path.join(VERIF, "harness", "go.sum")])
    rc, out, dt = sh(["go", "build", "-o", os.path.join(BUILD, "extract"), "."], cwd=os.path.join(VERIF, "extract"), env=GOENV)
    log.append(("go build extract", rc, dt))
    if rc:
        errs.append("extract: " + out[-2000:])
    rc, out, dt = sh(["go", "build", "-tags", "verif", "-o", os.path.join(BUILD, "vh_" + prop.lower()), "./cmd/" + prop.lower()],
                     cwd=os.path.join(VERIF, "harness"), env=GOENV)
    log.append(("go build harness (tags verif, replace => /repo)", rc, dt))
    if rc:
        errs.append("harness: " + out[-3000:])
    rc, out, dt = sh(["go", "build", "-tags", "verif", "-o", os.path.join(BUILD, "vegeta-verif"), "."], cwd=REPO, env=GOENV)
    log.append(("go build -tags verif vegeta", rc, dt))
    if rc:
        errs.append("vegeta-verif: " + out[-3000:])
    return errs


def regenerate_facts(log):
    out_path = os.path.join(LEAN, "Vegeta", "Extracted", "Facts.lean")
    os.makedirs(os.path.dirname(out_path), exist_ok=True)
    tmp = out_path + ".new"
    if os.path.exists(tmp):
        os.remove(tmp)
    rc, out, dt = sh([os.path.join(BUILD, "extract"), "-repo", REPO, "-out", tmp], env=GOENV)
    log.append(("extract facts", rc, dt))
    if rc:
        return "extractor failed: " + out[-2000:]
    new = open(tmp).read()
    old = open(out_path).read() if os.path.exists(out_path) else None
    if new != old:
        if os.path.exists(out_path):
            os.remove(out_path)      # delete the previous generated file before regenerating
        os.rename(tmp, out_path)
    else:
        os.remove(tmp)
    return None


def import_closure(roots):
    """source files of the Vegeta/Drv modules transitively imported by the given modules"""
    seen, todo, files = set(), list(roots), []
    while todo:
        m = todo.pop()
        if m in seen:
            continue
        seen.add(m)
        f = os.path.join(LEAN, *m.split(".")) + ".lean"
        if not os.path.exists(f):
            continue
        files.append(f)
        for line in open(f, encoding="utf-8"):
            mm = re.match(r"\s*(?:public\s+)?import\s+((?:Vegeta|Drv)\.[\w.]+)", line)
            if mm:
                todo.append(mm.group(1))
    return files


def lean_obligations(prop, tier, log):
    """returns (obligations, discharged, failures[list of str], theorem->axioms)"""
    failures = []
    mod = f"Vegeta.Props.{prop}"
    if tier == "thorough":
        # re-elaborate the property's theorems from scratch
        for ext in ("olean", "ilean", "trace", "olean.hash", "ilean.hash", "c", "c.hash"):
            p = os.path.join(LEAN, ".lake", "build", "lib", "lean", "Vegeta", "Props", f"{prop}.{ext}")
            if os.path.exists(p):
                os.remove(p)
    drv = "drv" + prop[1:]
    rc, out, dt = sh(["lake", "build", mod, drv], cwd=LEAN)
    log.append((f"lake build {mod} {drv}", rc, dt))
    if rc:
        errs = [l for l in out.splitlines() if "error" in l][:12]
        failures.append("lake build failed: " + " | ".join(errs))
        return 1, 0, failures, {}
    audit = os.path.join(BUILD, f"audit_{prop}.lean")
    tpl = open(os.path.join(VERIF, "tools", "audit_template.lean")).read().replace("PROP", prop)
    open(audit, "w").write(tpl)
    rc, out, dt = sh(["lake", "env", "lean", audit], cwd=LEAN)
    log.append(("axiom audit", rc, dt))
    thms = {}
    for m in re.finditer(r"AUDIT (\S+) :: \[(.*?)\]", out.replace("\n  ", " ")):
        axs = [a.strip() for a in m.group(2).split(",") if a.strip()]
        thms[m.group(1)] = axs
    if rc or not thms:
        failures.append("axiom audit failed: " + out[-1500:])
    discharged = 0
    for t, axs in thms.items():
        bad = [a for a in axs if a not in ALLOWED_AXIOMS]
        if bad:
            failures.append(f"theorem {t} depends on non-accepted axioms {bad}")
        else:
            discharged += 1
    # required theorems must exist
    for t in PROPS[prop].get("required_theorems", []):
        full = f"Vegeta.Props.{prop}.{t}"
        if full not in thms:
            failures.append(f"required theorem {full} is missing")
    # hygiene grep over the import closure of the property's theorems and driver
    hits = []
    pat = re.compile(r"sorry|admit|^axiom |native_decide|bv_decide|implemented_by|unsafe |maxHeartbeats 0")
    for f in import_closure([f"Vegeta.Props.{prop}", f"Drv.{prop}"]):
        in_block = 0
        for ln, line in enumerate(open(f, encoding="utf-8"), 1):
            # strip block comments (/- … -/, possibly nested) and line comments
            code = ""
            i = 0
            while i < len(line):
                if line.startswith("/-", i):
                    in_block += 1; i += 2; continue
                if line.startswith("-/", i) and in_block:
                    in_block -= 1; i += 2; continue
                if not in_block:
                    if line.startswith("--", i):
                        break
                    code += line[i]
                i += 1
            if pat.search(code):
                hits.append(f"{os.path.relpath(f, LEAN)}:{ln}: {line.strip()[:120]}")
    if hits:
        failures.append("hygiene grep hits: " + " | ".join(hits[:5]))
    if tier == "thorough":
        rc, out, dt = sh(["lake", "env", "leanchecker", mod], cwd=LEAN)
        log.append((f"leanchecker {mod}", rc, dt))
        if rc:
            failures.append("leanchecker rejected the module: " + out[-800:])
    n = max(len(thms), 1) + (1 if tier == "thorough" else 0)
    d = discharged + (1 if tier == "thorough" and not any("leanchecker" in f for f in failures) else 0)
    if failures and d == n:
        d = n - 1
    return n, d, failures, thms


def load_known():
    p = os.path.join(VERIF, "known_findings.json")
    if not os.path.exists(p):
        return []
    return json.load(open(p))["findings"]


def cond_ok(cond, val):
    if isinstance(cond, dict) and "op" in cond:
        op, v = cond["op"], cond.get("value")
        try:
            return {"lt": lambda: val < v, "le": lambda: val <= v, "gt": lambda: val > v, "ge": lambda: val >= v,
                    "eq": lambda: val == v, "ne": lambda: val != v, "in": lambda: val in v}[op]()
        except Exception:
            return False
    return cond == val


def match_known(prop, viol, known):
    for k in known:
        if k.get("property") != prop or k.get("status") != "known":
            continue
        m = k.get("match", {})
        if m.get("kind") != viol.get("kind"):
            continue
        key = viol.get("key") or {}
        if all(cond_ok(c, key.get(f)) for f, c in m.get("where", {}).items()):
            return k
    return None


def run_harness(prop, tier, seed, extra=None, timeout=None):
    out = os.path.join(BUILD, f"summary_{prop}_{os.getpid()}.json")
    work = os.path.join(BUILD, f"work_{prop}_{os.getpid()}")
    os.makedirs(work, exist_ok=True)
    cmd = [os.path.join(BUILD, "vh_" + prop.lower()), "-seed", str(seed), "-tier", tier,
           "-driver", os.path.join(LEAN, ".lake", "build", "bin", "drv" + prop[1:]),
           "-vegeta", os.path.join(BUILD, "vegeta-verif"), "-work", work, "-out", out] + (extra or [])
    env = dict(os.environ, GOMAXPROCS=os.environ.get("GOMAXPROCS", "16"))
    # the local time zone of the harness and of the vegeta processes it starts varies with the seed (nothing the
    # properties say depends on it, so nothing may change): UTC, or a zone west / east of it with an odd offset
    if "TZ" not in os.environ:
        zones = ["America/New_York", "Asia/Kolkata", "UTC", "Australia/Lord_Howe", "America/St_Johns"]
        z = zones[int(seed) % len(zones)]
        if z == "UTC" or os.path.exists("/usr/share/zoneinfo/" + z):
            env["TZ"] = z
    import signal
    p = subprocess.Popen(cmd, stdout=subprocess.PIPE, stderr=subprocess.STDOUT, text=True, env=env, start_new_session=True)
    try:
        text, _ = p.communicate(timeout=timeout)
        rc = p.returncode
    except subprocess.TimeoutExpired:
        # ask the Go runtime for the goroutine dump (where is it stuck?), then make sure the whole process group goes
        try:
            os.killpg(p.pid, signal.SIGQUIT)
            text, _ = p.communicate(timeout=20)
        except Exception:
            text = ""
        try:
            os.killpg(p.pid, signal.SIGKILL)
        except Exception:
            pass
        try:
            t2, _ = p.communicate(timeout=20)
            text = (text or "") + (t2 or "")
        except Exception:
            pass
        rc, text = 124, "harness timeout after %ss\n" % timeout + (text or "")
    subprocess.run(["rm", "-rf", work])
    if rc != 0 or not os.path.exists(out):
        logp = os.path.join(BUILD, f"harness_{prop}_failed.log")
        try:
            open(logp, "w").write(text or "")
        except Exception:
            pass
        frames = [l.strip() for l in (text or "").splitlines() if ("vharness/" in l or "main." in l) and "(" in l and not l.startswith("\t")]
        where = ("; harness frames: " + " | ".join(dict.fromkeys(frames[:12]))) if rc == 124 and frames else ""
        return None, f"harness exited {rc}{where}: {text[-1500:]}"
    s = json.load(open(out))
    os.remove(out)
    return s, None


def write_replay(prop, rec):
    os.makedirs(os.path.join(VERIF, "replays"), exist_ok=True)
    blob = json.dumps(rec, sort_keys=True, indent=1)
    h = hashlib.sha1(blob.encode()).hexdigest()[:10]
    p = os.path.join(VERIF, "replays", f"{prop}-{h}.json")
    open(p, "w").write(blob)
    return p


def main():
    ap = argparse.ArgumentParser()
    ap.add_argument("prop")
    ap.add_argument("--tier", default=os.environ.get("VERIF_TIER", "quick"))
    ap.add_argument("--replay")
    ap.add_argument("--scale", default=None)
    a = ap.parse_args()
    prop, tier = a.prop, a.tier
    if prop not in PROPS:
        print(f"unknown property {prop}")
        sys.exit(2)
    seed = int(os.environ.get("VERIF_SEED", "1"))
    t0 = time.time()
    log = []
    meta = PROPS[prop]

    with Lock():
        go_errs = build_go_tools(prop, log)
        fact_err = None if go_errs and any(e.startswith("extract") for e in go_errs) else regenerate_facts(log)
        n_obl, n_dis, failures, thms = lean_obligations(prop, tier, log)
    if fact_err:
        failures.append(fact_err)
    failures += [f"go build failed ({e[:1500]})" for e in go_errs]

    extra = []
    if a.scale:
        extra += ["-scale", a.scale]
    if a.replay:
        extra += ["-replay", a.replay]
    summary, herr = (None, "not run") if any(e.startswith("harness") for e in go_errs) else \
        run_harness(prop, tier, seed, extra, timeout=int(os.environ.get("VERIF_HARNESS_TIMEOUT", 1200 if tier == "quick" else 6 * 3600)))
    if herr:
        failures.append("correspondence harness did not complete: " + herr)
        summary = {"evaluations": 0, "distinct_nontrivial": 0, "rule": "", "samples": [], "divergences": [],
                   "n_divergences": 0, "violations": [], "n_violations": 0, "violation_kinds": {}, "distribution": {}, "streams": {}}
    if summary["n_divergences"]:
        d = summary["divergences"][0]
        failures.append(f"correspondence: {summary['n_divergences']} divergence(s); first in stream {d['stream']}: op `{d['op'][:300]}` impl `{d['impl'][:300]}` model `{d['model'][:300]}`")

    known = load_known()
    known_hit, fresh = {}, []
    for v in summary["violations"]:
        k = match_known(prop, v, known)
        if k:
            known_hit.setdefault(k["id"], (k, 0))
            known_hit[k["id"]] = (k, known_hit[k["id"]][1] + 1)
        else:
            fresh.append(v)
    # violation kinds that were counted but whose records were dropped (cap per kind) are covered by their kept records

    # search phase: obligations or correspondence broke but the standard budget found no failing input
    searched = 0
    if failures and not fresh and not herr and not a.replay:
        for extra_seed in (seed + 1000, seed + 2000, seed + 3000):
            s2, e2 = run_harness(prop, tier, extra_seed, ["-scale", "2"], timeout=1800)
            searched += 1
            if s2:
                for v in s2["violations"]:
                    if not match_known(prop, v, known):
                        v["seed"] = extra_seed
                        fresh.append(v)
                if fresh:
                    break

    lines = []
    for kid, (k, cnt) in sorted(known_hit.items()):
        lines.append(f"KNOWN-FINDING: property={prop} {k['what']} [{kid}; {cnt} witness(es) this run]")
    verdict_fail = False
    replay_paths = []
    if fresh:
        verdict_fail = True
        seen = set()
        for v in fresh:
            if v["kind"] in seen:
                continue
            seen.add(v["kind"])
            rec = {"property": prop, "kind": v["kind"], "what": v.get("what"), "input": v.get("input"),
                   "expected": v.get("expected"), "observed": v.get("observed"), "key": v.get("key"),
                   "seed": v.get("seed", seed), "tier": tier,
                   "how_to_replay": f"./check {prop} --replay <this file>", "broken_obligations": failures}
            p = write_replay(prop, rec)
            replay_paths.append(p)
            lines.append(f"VIOLATION property={prop} replay={p}")
    elif failures:
        verdict_fail = True
        rec = {"property": prop, "kind": "obligation-or-correspondence-broken", "no_failing_input_found": True,
               "broken": failures, "search": f"{searched} extra harness runs (scale 2) found no input violating the property's own predicate",
               "seed": seed, "tier": tier}
        p = write_replay(prop, rec)
        replay_paths.append(p)
        lines.append(f"VIOLATION property={prop} replay={p} no-failing-input-found")

    wall = time.time() - t0
    ev = {
        "property_id": prop, "tier": tier, "seed": seed, "level": "proof",
        "coverage": {
            "obligations": n_obl, "discharged": n_dis,
            "checker_cmd": f"lake build Vegeta.Props.{prop} && lake env lean <axiom audit of every theorem in Vegeta.Props.{prop}>" +
                           (f" && lake env leanchecker Vegeta.Props.{prop}" if tier == "thorough" else ""),
            "trusted_base": ["Lean 4.33.0 kernel", "axioms: propext, Classical.choice, Quot.sound only (audited per theorem this run)",
                             "extract/ (go/ast fact extractor)", "harness/ (Go correspondence harness, generators, canonicalisers)",
                             "Lean driver line-protocol parsing"] + meta.get("trusted", []),
            "theorems": {t: axs for t, axs in sorted(thms.items())},
            "evaluations": summary["evaluations"], "distinct_nontrivial": summary["distinct_nontrivial"],
            "rule": summary.get("rule", ""), "samples": summary["samples"][:6] or [{"note": "no sample recorded"}],
            "correspondence_streams": summary.get("streams", {}), "divergences": summary["n_divergences"],
            "input_distribution": summary.get("distribution", {}),
            "oracle_violations_by_kind": summary.get("violation_kinds", {}),
            "known_findings_witnessed": {kid: cnt for kid, (k, cnt) in known_hit.items()},
            "skipped": summary.get("skipped", {}), "extra": summary.get("extra", {}),
            "steps": [{"step": s, "rc": rc, "wall_s": round(dt, 2)} for s, rc, dt in log],
            "broken_obligations": failures, "exhaustive": False,
        },
        "assumptions": meta.get("assumptions", []),
        "wall_s": round(wall, 2),
        "violations": len(fresh) if fresh else (1 if verdict_fail else 0),
    }
    if not a.replay:
        os.makedirs(os.path.join(VERIF, "evidence"), exist_ok=True)
        json.dump(ev, open(os.path.join(VERIF, "evidence", f"{prop}.json"), "w"), indent=1, sort_keys=True)
    for l in lines:
        print(l)
    if verdict_fail:
        for f in failures[:6]:
            print("  broken: " + f[:600])
        sys.exit(1)
    print(f"OK property={prop} tier={tier} seed={seed} theorems={n_dis}/{n_obl} evaluations={summary['evaluations']} "
          f"divergences=0 wall={wall:.1f}s")
    sys.exit(0)


if __name__ == "__main__":
    main()
