#!/usr/bin/env python3
"""Generate MANIFEST.json from tools/props.json (single source for what is claimed)."""
import json, os
V = os.path.dirname(os.path.dirname(os.path.abspath(__file__)))
props = {f[:-5]: json.load(open(os.path.join(V, "tools", "props", f)))
         for f in sorted(os.listdir(os.path.join(V, "tools", "props"))) if f.endswith(".json")}
ids = [json.loads(l)["id"] for l in open(os.path.join(V, "properties.jsonl"))]
hooks = json.load(open(os.path.join(V, "tools", "hooks.json")))
ready = set(open(os.path.join(V, "tools", "ready.txt")).read().split())
checks, na = [], []
for pid in ids:
    p = props.get(pid)
    if not p or not p.get("claimed", True) or pid not in ready:
        na.append({"property_id": pid, "reason": (p or {}).get("na_reason", "check not built yet; no claim is made for this property in this revision")})
        continue
    checks.append({
        "property_id": pid,
        "quick_cmd": f"./check {pid} --tier quick",
        "thorough_cmd": f"./check {pid} --tier thorough",
        "evidence_file": f"/verif/evidence/{pid}.json",
        "replay_cmd_template": f"./check {pid} --replay {{path}}",
        "engine": "lean-model+go-correspondence",
        "level_claimed": {"category": "proof", "text": p["level_text"], "design_ref": p.get("design_ref", f"DESIGN.md §7 {pid}")},
        "level_note": p["level_note"],
        "technique": p.get("technique", "Lean 4 theorems about a hand-written executable model; model tied to the source by differential correspondence (Go harness vs Lean driver) and regenerated go/ast facts"),
    })
m = {
    "version": 1,
    "setup_cmd": "./tools/setup.sh",
    "hooks": hooks,
    "engines": [{"name": "lean-model+go-correspondence", "path": "/verif/lean + /verif/harness + /verif/extract + /verif/tools/check.py",
                 "serves_properties": [c["property_id"] for c in checks],
                 "kind_free_text": "Lean 4 (core + single Mathlib modules) theorems over executable models; Go differential harness driving the real code and the compiled Lean driver over a line protocol; go/ast fact extractor regenerating Lean data on every run"}],
    "checks": checks,
    "not_applicable": na,
    "notes": "Every check: regenerate facts from /repo, lake build of the property's theorems + per-theorem axiom audit (propext, Classical.choice, Quot.sound only) + hygiene grep, rebuild the harness against /repo with -tags verif, run the correspondence and the property oracle, filter known findings (known_findings.json), write evidence. See DESIGN.md.",
}
json.dump(m, open(os.path.join(V, "MANIFEST.json"), "w"), indent=1)
print("checks:", len(checks), "not_applicable:", len(na))
