#!/bin/bash
# Confirm a seeded change delivered by a seeding agent: tools/seed_confirm.sh <id> <PROP>
# uses the agent's worktree /tmp/seeds/<id> and output dir /tmp/seeds/out_<id>; writes /verif/seeded/<id>/
set -u
ID=$1; PROP=$2
WT=/tmp/seeds/$ID; OUT=/tmp/seeds/out_$ID; DST=/verif/seeded/$ID
export GOFLAGS=-mod=mod GOPROXY=off GOSUMDB=off
mkdir -p $DST
cd $WT || exit 2
git checkout -q -- . ; git clean -fdq
git apply $OUT/patch.diff || { echo "patch does not apply"; exit 2; }
DEMO_CMD=$(python3 -c "import json;print(json.load(open('$OUT/meta.json'))['demo_cmd'])" | sed "s#cd $WT && ##; s#cd $WT; ##; s#export GOFLAGS=-mod=mod GOPROXY=off GOSUMDB=off && ##")
# 1. existing suite with the patch (no demo file present)
go build ./... && go test -vet=off -count=1 ./... > /tmp/seeds/$ID.tests.log 2>&1; T=$?
# place demo files
for f in $OUT/*_test.go; do [ -f "$f" ] && { case "$(grep -m1 '^package ' $f | awk '{print $2}')" in main) cp $f . ;; prom|prom_test) cp $f lib/prom/ ;; plot) cp $f lib/plot/ ;; lttb) cp $f lib/lttb/ ;; resolver) cp $f internal/resolver/ ;; *) cp $f lib/ ;; esac; }; done
(cd $OUT && find . -mindepth 2 -name '*_test.go' | while read f; do mkdir -p "$WT/$(dirname $f)"; cp "$f" "$WT/$f"; done)
[ -d $OUT/demo ] && cp -r $OUT/demo internal/
bash -c "$DEMO_CMD" > /tmp/seeds/$ID.demo_with.log 2>&1; W=$?
git apply -R $OUT/patch.diff
bash -c "$DEMO_CMD" > /tmp/seeds/$ID.demo_without.log 2>&1; WO=$?
git checkout -q -- . ; git clean -fdq
echo "existing_tests_with_patch_rc=$T demo_with_patch_rc=$W demo_without_patch_rc=$WO"
cp $OUT/patch.diff $DST/; cp $OUT/*_test.go $DST/ 2>/dev/null; cp $OUT/README.txt $DST/ 2>/dev/null
(cd $OUT && find . -mindepth 2 -name '*_test.go' | while read f; do mkdir -p "$DST/$(dirname $f)"; cp "$f" "$DST/$f"; done)
python3 - <<PY
import json
m=json.load(open('$OUT/meta.json'))
m['property']='$PROP'
m['confirmed_by_coordinator']={'existing_tests_pass_with_patch': $T==0, 'demo_fails_with_patch': $W!=0, 'demo_passes_without_patch': $WO==0,
  'ran': ['git apply patch.diff; go build ./... && go test -vet=off -count=1 ./... (without the demo file)', 'demo_cmd with the patch', 'git apply -R patch.diff; demo_cmd']}
json.dump(m,open('$DST/meta.json','w'),indent=1)
PY
