import Lean
import Vegeta.Props.PROP
open Lean Elab Command

-- Print every theorem in the namespace `Vegeta.Props.PROP` with the axioms it depends on.
run_cmd do
  let env ← getEnv
  let pre : Name := `Vegeta.Props.PROP
  let mut names : Array Name := #[]
  for (n, ci) in env.constants.toList do
    if pre.isPrefixOf n && !n.isInternalDetail then
      match ci with
      | .thmInfo _ => names := names.push n
      | _ => pure ()
  for n in names.qsort Name.lt do
    let axs ← liftCoreM (collectAxioms n)
    logInfo m!"AUDIT {n} :: {axs.toList}"
