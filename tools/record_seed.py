#!/usr/bin/env python3
"""tools/record_seed.py <id> <PROP> <change> <caught-by> <verdict>   — one row in DESIGN.md §11.4 + verif_result in seeded/<id>/meta.json"""
import json, sys
sid, prop, change, how, verdict = sys.argv[1:6]
p = '/verif/DESIGN.md'
s = open(p).read()
row = '| %s | %s | %s | %s | %s |\n' % (sid, prop, change, how, verdict)
if ('| %s | ' % sid) in s:
    lines = s.split('\n')
    lines = [row.rstrip('\n') if l.startswith('| %s | ' % sid) else l for l in lines]
    s = '\n'.join(lines)
else:
    i = s.index('### 11.4a')
    j = s.rindex('|\n', 0, i) + 2
    s = s[:j] + row + s[j:]
open(p, 'w').write(s)
m = '/verif/seeded/%s/meta.json' % sid
d = json.load(open(m))
d['verif_result'] = {'checks': [prop], 'detected': not verdict.startswith('**missed**') or 'at first' in verdict, 'how': how, 'verdict': verdict}
json.dump(d, open(m, 'w'), indent=1)
print('recorded', sid)
