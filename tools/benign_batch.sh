#!/bin/bash
# tools/benign_batch.sh <id>:<PROP> ...   harmless changes: confirm vegeta's own tests pass with the patch, run the
# property's check against it; a VIOLATION with a failing input is a FALSE ALARM of ours (no-failing-input-found and OK are fine)
export GOFLAGS=-mod=mod GOPROXY=off GOSUMDB=off GOTOOLCHAIN=local
cd /verif
for pair in "$@"; do
  s=${pair%%:*}; P=${pair##*:}
  WT=/tmp/seeds/$s; OUT=/tmp/seeds/out_$s; DST=/verif/seeded/$s
  mkdir -p $DST
  (cd $WT && git checkout -q -- . && git clean -fdq && git apply $OUT/patch.diff && go build ./... && go test -vet=off -count=1 ./... > /tmp/seeds/$s.tests.log 2>&1); T=$?
  (cd $WT && git checkout -q -- . && git clean -fdq)
  cp $OUT/patch.diff $OUT/meta.json $DST/ 2>/dev/null
  tools/seedtest.sh $DST/patch.diff $P > /tmp/seeds/res_$s.txt 2>&1
  v=$(grep -c "^VIOLATION" /tmp/seeds/res_$s.txt); nf=$(grep "^VIOLATION" /tmp/seeds/res_$s.txt | grep -c "no-failing-input-found")
  verdict=OK; [ "$v" -gt 0 ] && verdict="BROKEN-TIE(no failing input)"; [ "$v" -gt "$nf" ] && verdict="FALSE-ALARM(failing input reported)"
  echo "== $s ($P): own_tests_rc=$T  check: $verdict"
  if [ "$v" -gt "$nf" ]; then
    rp=$(grep "^VIOLATION" /tmp/seeds/res_$s.txt | grep -v no-failing | grep -o 'replay=[^ ]*' | head -1 | cut -d= -f2)
    python3 -c "
import json;d=json.load(open('$rp'));print('   ',d.get('kind'),'|',str(d.get('what'))[:200]);print('    expected',str(d.get('expected'))[:200]);print('    observed',str(d.get('observed'))[:200])"
  else
    grep "broken:" /tmp/seeds/res_$s.txt | head -2 | cut -c1-220
  fi
done
