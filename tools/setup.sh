#!/bin/bash
# Build the framework from files on disk only (offline): extractor, regenerated facts, the Lean
# theorems + driver and the Go harness of every property listed in tools/ready.txt, the tagged vegeta binary.
set -e
cd "$(dirname "$0")/.."
export GOFLAGS=-mod=mod GOPROXY=off GOSUMDB=off GOTOOLCHAIN=local
mkdir -p .build evidence replays lean/Vegeta/Extracted
(cd extract && go build -o ../.build/extract .)
.build/extract -repo /repo -out lean/Vegeta/Extracted/Facts.lean
cp /repo/go.sum harness/go.sum
TARGETS=""
for P in $(cat tools/ready.txt); do
  n=$(echo $P | tr 'C' 'c'); TARGETS="$TARGETS Vegeta.Props.$P drv${P#C}"
  (cd harness && go build -tags verif -o ../.build/vh_$n ./cmd/$n)
done
(cd lean && lake build $TARGETS)
(cd /repo && go build -tags verif -o /verif/.build/vegeta-verif .)
echo setup done
