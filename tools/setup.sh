#!/bin/bash
# Build the framework from files on disk only (offline).
set -e
cd "$(dirname "$0")/.."
export GOFLAGS=-mod=mod GOPROXY=off GOSUMDB=off GOTOOLCHAIN=local
mkdir -p .build evidence replays
(cd extract && go build -o ../.build/extract .)
.build/extract -repo /repo -out lean/Vegeta/Extracted/Facts.lean
(cd lean && lake build)
cp /repo/go.sum harness/go.sum
(cd harness && for d in cmd/*/; do n=$(basename $d); go build -tags verif -o ../.build/vh_$n ./cmd/$n; done)
(cd /repo && go build -tags verif -o /verif/.build/vegeta-verif .)
echo setup done
