#!/bin/bash
# tools/seed_batch.sh <id>:<PROP> ...   confirm each delivered seed, run the property's check against it, print the verdict
export GOFLAGS=-mod=mod GOPROXY=off GOSUMDB=off GOTOOLCHAIN=local
cd /verif
for pair in "$@"; do
  s=${pair%%:*}; P=${pair##*:}
  echo "== $s ($P): $(tools/seed_confirm.sh $s $P 2>&1 | tail -1)"
  tools/seedtest.sh /verif/seeded/$s/patch.diff $P > /tmp/seeds/res_$s.txt 2>&1
  grep -E "^(OK|VIOLATION|exit)" /tmp/seeds/res_$s.txt | head -2 | cut -c1-150
  rp=$(grep -o 'replay=[^ ]*' /tmp/seeds/res_$s.txt | head -1 | cut -d= -f2)
  [ -n "$rp" ] && python3 -c "
import json;d=json.load(open('$rp'));print('   ',d.get('kind'),'|',str(d.get('what'))[:160]);b=d.get('broken') or d.get('broken_obligations');print('    broken:',str(b)[:300]) if b else None"
done
