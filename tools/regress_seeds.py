#!/usr/bin/env python3
"""Re-run every recorded seeded change against the check of its property (REGRESS_WORKERS isolated workers, default 4).
usage: [REGRESS_TAG=x] tools/regress_seeds.py [PROP ...]   → /tmp/seeds/regress_<tag>.txt (tag default r; use your own tag when others may be running it)
violating seeds must end in a VIOLATION with a failing input (or be recorded as fact-only / caught by a sibling);
harmless ones must never produce a failing input."""
import json, glob, os, subprocess, sys, concurrent.futures as cf, re
want = set(sys.argv[1:])
TAG = os.environ.get('REGRESS_TAG', 'r')
OUT = f'/tmp/seeds/regress_{TAG}.txt'
jobs = []
for d in sorted(glob.glob('/verif/seeded/*')):
    try: m = json.load(open(d + '/meta.json'))
    except Exception: continue
    p = m.get('property'); sid = os.path.basename(d)
    if want and p not in want: continue
    if not os.path.exists(d + '/patch.diff'): continue
    jobs.append((sid, p, m.get('kind') == 'harmless' or sid.startswith('b')))
def run(job, slot):
    sid, p, harmless = job
    env = dict(os.environ, VSEED_ROOT=f'/tmp/vseed_{TAG}{slot}', GOFLAGS='-mod=mod', GOPROXY='off', GOSUMDB='off', GOTOOLCHAIN='local')
    out = subprocess.run([os.environ.get('VSEED_SRC', '/verif') + '/tools/seedtest.sh', f'/verif/seeded/{sid}/patch.diff', p], env=env, capture_output=True, text=True).stdout
    v = [l for l in out.splitlines() if l.startswith('VIOLATION')]
    nf = [l for l in v if 'no-failing-input-found' in l]
    if not v: verdict = 'OK(exit0)'
    elif len(nf) == len(v): verdict = 'no-failing-input'
    else: verdict = 'failing-input'
    return sid, p, harmless, verdict
import queue, threading
NW = int(os.environ.get('REGRESS_WORKERS', '4'))
q = queue.Queue(); [q.put(j) for j in jobs]; res = []; lock = threading.Lock()
def worker(slot):
    while True:
        try: j = q.get_nowait()
        except queue.Empty: return
        r = run(j, slot)
        with lock:
            res.append(r)
            with open(OUT, 'a') as f: f.write(' '.join(map(str, r)) + '\n')
open(OUT, 'w').close()
ts = [threading.Thread(target=worker, args=(i,)) for i in range(NW)]
[t.start() for t in ts]; [t.join() for t in ts]
EXPECTED = {'c15p': 'outside the quantified domain (recorded)', 'c05k': 'caught by C07, not by C05 (recorded)', 'c09d': 'fact-only by decision (recorded)', 'c13o': 'caught by C11; percentiles are not C13\'s clause (recorded)'}
bad = [r for r in res if r[0] not in EXPECTED and ( (r[2] and r[3] == 'failing-input') or (not r[2] and r[3] != 'failing-input'))]
print(len(res), 'seeds re-run;', len(bad), 'to look at:')
for r in sorted(bad): print('  ', *r)
for i in range(NW):
    subprocess.run(['git', '-C', '/repo', 'worktree', 'remove', '--force', f'/tmp/vseed_{TAG}{i}/repo'], capture_output=True)
    subprocess.run(['rm', '-rf', f'/tmp/vseed_{TAG}{i}'])
