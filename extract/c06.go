package main

// Facts of property C06 (lib/attack.go: hit, Redirects; lib/targets.go: Target.Request;
// attack.go: the command's wiring): the shape of the redirect policy closure and its constants,
// the statements of hit's read path (and that it never consults Response.ContentLength), the
// header copy of Target.Request, and how the command turns its flags into options.

import (
	"go/ast"
	"go/token"
	"strconv"
	"strings"
)

func init() { extractors = append(extractors, extractC06) }

func c06ConstText(file *ast.File, f *facts, name string) string {
	out := ""
	if file == nil {
		return out
	}
	ast.Inspect(file, func(n ast.Node) bool {
		vs, ok := n.(*ast.ValueSpec)
		if !ok {
			return true
		}
		for i, id := range vs.Names {
			if id.Name == name && i < len(vs.Values) {
				out = c18Text(f.fset, vs.Values[i])
			}
		}
		return true
	})
	return out
}

func extractC06(f *facts) {
	file := f.parse("lib/attack.go")
	f.def("c06DefaultRedirects", "List Nat", leanBytes(c06ConstText(file, f, "DefaultRedirects")))
	f.def("c06NoFollow", "List Nat", leanBytes(c06ConstText(file, f, "NoFollow")))
	f.def("c06DefaultMaxBody", "List Nat", leanBytes(c06ConstText(file, f, "DefaultMaxBody")))

	// --- Redirects: the statements of the option and the cases of the CheckRedirect closure
	var optStmts, cases []string
	if fd := funcDecl(file, "", "Redirects"); fd != nil {
		ast.Inspect(fd, func(n ast.Node) bool {
			as, ok := n.(*ast.AssignStmt)
			if !ok || len(as.Lhs) != 1 || len(as.Rhs) != 1 {
				return true
			}
			if fl, ok := as.Rhs[0].(*ast.FuncLit); ok {
				optStmts = append(optStmts, c18Text(f.fset, as.Lhs[0])+" = func")
				ast.Inspect(fl, func(m ast.Node) bool {
					if cc, ok := m.(*ast.CaseClause); ok {
						cond := "default"
						if len(cc.List) > 0 {
							cond = c18Text(f.fset, cc.List[0])
						}
						body := []string{}
						for _, st := range cc.Body {
							body = append(body, c18Text(f.fset, st))
						}
						cases = append(cases, cond+" => "+strings.Join(body, "; "))
					}
					return true
				})
				return false
			}
			optStmts = append(optStmts, c18Text(f.fset, as))
			return true
		})
	}
	f.def("c06RedirectsOptionStmts", "List (List Nat)", leanBytesList(optStmts))
	f.def("c06RedirectCases", "List (List Nat)", leanBytesList(cases))

	// --- hit: the statements after `r, err := a.client.Do(req)` and its error check
	var readPath []string
	respCL := 0
	if fd := funcDecl(file, "Attacker", "hit"); fd != nil && fd.Body != nil {
		seenDo := false
		var doPos token.Pos
		for _, st := range fd.Body.List {
			if as, ok := st.(*ast.AssignStmt); ok && len(as.Rhs) == 1 {
				if ce, ok := as.Rhs[0].(*ast.CallExpr); ok {
					if se, ok := ce.Fun.(*ast.SelectorExpr); ok && se.Sel.Name == "Do" {
						seenDo = true
						doPos = st.End()
						continue
					}
				}
			}
			if seenDo {
				readPath = append(readPath, c18Text(f.fset, st))
			}
		}
		// mentions of the RESPONSE's ContentLength (r.ContentLength) anywhere in hit
		ast.Inspect(fd, func(n ast.Node) bool {
			if se, ok := n.(*ast.SelectorExpr); ok && se.Sel.Name == "ContentLength" && se.Pos() > doPos {
				if id, ok := se.X.(*ast.Ident); ok && id.Name == "r" {
					respCL++
				}
			}
			return true
		})
	}
	f.def("c06HitReadPath", "List (List Nat)", leanBytesList(readPath))
	f.def("c06HitResponseContentLengthMentions", "Nat", strconv.Itoa(respCL))

	// --- Target.Request: header copy and host override
	tfile := f.parse("lib/targets.go")
	var reqStmts []string
	if fd := funcDecl(tfile, "Target", "Request"); fd != nil && fd.Body != nil {
		for _, st := range fd.Body.List {
			switch s := st.(type) {
			case *ast.RangeStmt:
				reqStmts = append(reqStmts, "range "+c18Text(f.fset, s.X))
				for _, b := range s.Body.List {
					reqStmts = append(reqStmts, c18Text(f.fset, b))
				}
			case *ast.IfStmt:
				reqStmts = append(reqStmts, c18Text(f.fset, s))
			}
		}
	}
	f.def("c06TargetRequestStmts", "List (List Nat)", leanBytesList(reqStmts))

	// --- the command: options built from the flags, the attack name, flag defaults
	afile := f.parse("attack.go")
	var wiring []string
	nameArg := ""
	var defaults []string
	if afile != nil {
		ast.Inspect(afile, func(n ast.Node) bool {
			ce, ok := n.(*ast.CallExpr)
			if !ok {
				return true
			}
			se, ok := ce.Fun.(*ast.SelectorExpr)
			if !ok {
				return true
			}
			switch se.Sel.Name {
			case "NewAttacker":
				for _, a := range ce.Args {
					if oc, ok := a.(*ast.CallExpr); ok {
						if os, ok := oc.Fun.(*ast.SelectorExpr); ok {
							switch os.Sel.Name {
							case "Redirects", "MaxBody", "ChunkedBody":
								wiring = append(wiring, os.Sel.Name+"("+c18Text(f.fset, oc.Args[0])+")")
							}
						}
					}
				}
			case "Attack":
				if len(ce.Args) == 4 {
					nameArg = c18Text(f.fset, ce.Args[3])
				}
			case "IntVar", "BoolVar", "StringVar":
				if len(ce.Args) >= 3 {
					if bl, ok := ce.Args[1].(*ast.BasicLit); ok {
						switch bl.Value {
						case `"redirects"`, `"chunked"`, `"name"`:
							defaults = append(defaults, strings.Trim(bl.Value, `"`)+" "+c18Text(f.fset, ce.Args[0])+" "+c18Text(f.fset, ce.Args[2]))
						}
					}
				}
			}
			return true
		})
		// maxBody's default sits in the attackOpts literal
		ast.Inspect(afile, func(n ast.Node) bool {
			if kv, ok := n.(*ast.KeyValueExpr); ok {
				if id, ok := kv.Key.(*ast.Ident); ok && id.Name == "maxBody" {
					defaults = append(defaults, "max-body "+c18Text(f.fset, kv.Value))
				}
			}
			return true
		})
	}
	f.def("c06CommandWiring", "List (List Nat)", leanBytesList(wiring))
	f.def("c06CommandAttackName", "List Nat", leanBytes(nameArg))
	f.def("c06CommandFlagDefaults", "List (List Nat)", leanBytesList(defaults))
}
