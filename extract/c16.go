package main

// Facts of property C16 (parser robustness): the index and slice expressions of vegeta's
// own parsing code together with the guards in front of them.
//   - NewCSVDecoder: FieldsPerRecord and every constant index `rec[i]`
//   - Buckets.UnmarshalText: the guard condition in front of value[0] / value[len-1]
//   - report: the first statement (len(typ) < 4), the low bounds of the `typ[lo:]` slices,
//     the inner length guard
//   - NewHTTPTargeter: the skip-loop condition, the `line[1:]` slice and its guard

import (
	"go/ast"
	"go/token"
	"strconv"
)

func init() { extractors = append(extractors, extractC16) }

func extractC16(f *facts) {
	res := f.parse("lib/results.go")
	hist := f.parse("lib/histogram.go")
	rep := f.parse("report.go")
	tgt := f.parse("lib/targets.go")

	// --- CSV decoder ---
	fields := 0
	var idxs []int
	nonConst := 0
	if fd := funcDecl(res, "", "NewCSVDecoder"); fd != nil {
		recName := ""
		ast.Inspect(fd, func(n ast.Node) bool {
			switch x := n.(type) {
			case *ast.AssignStmt:
				// dec.FieldsPerRecord = N
				if len(x.Lhs) == 1 && len(x.Rhs) == 1 {
					if se, ok := x.Lhs[0].(*ast.SelectorExpr); ok && se.Sel.Name == "FieldsPerRecord" {
						if bl, ok := x.Rhs[0].(*ast.BasicLit); ok && bl.Kind == token.INT {
							fields, _ = strconv.Atoi(bl.Value)
						}
					}
				}
				// rec, err := dec.Read()
				if len(x.Lhs) == 2 && len(x.Rhs) == 1 {
					if ce, ok := x.Rhs[0].(*ast.CallExpr); ok {
						if se, ok := ce.Fun.(*ast.SelectorExpr); ok && se.Sel.Name == "Read" {
							if id, ok := x.Lhs[0].(*ast.Ident); ok {
								recName = id.Name
							}
						}
					}
				}
			case *ast.IndexExpr:
				if id, ok := x.X.(*ast.Ident); ok && recName != "" && id.Name == recName {
					if bl, ok := x.Index.(*ast.BasicLit); ok && bl.Kind == token.INT {
						i, _ := strconv.Atoi(bl.Value)
						idxs = append(idxs, i)
					} else {
						nonConst++
					}
				}
			}
			return true
		})
	}
	f.def("c16CsvFieldsPerRecord", "Nat", strconv.Itoa(fields))
	f.def("c16CsvRecIndices", "List Nat", leanNatList(idxs))
	f.def("c16CsvNonConstantIndices", "Nat", strconv.Itoa(nonConst))

	// --- Buckets.UnmarshalText: first statement ---
	cond := ""
	if fd := funcDecl(hist, "Buckets", "UnmarshalText"); fd != nil && fd.Body != nil && len(fd.Body.List) > 0 {
		if is, ok := fd.Body.List[0].(*ast.IfStmt); ok {
			cond = c19Src(f, is.Cond)
		}
	}
	f.def("c16BucketsGuard", "List Nat", leanBytes(cond))

	// --- report ---
	first := ""
	firstReturns := false
	var lows []int
	inner := ""
	if fd := funcDecl(rep, "", "report"); fd != nil && fd.Body != nil && len(fd.Body.List) > 0 {
		if is, ok := fd.Body.List[0].(*ast.IfStmt); ok {
			first = c19Src(f, is.Cond)
			if n := len(is.Body.List); n > 0 {
				_, firstReturns = is.Body.List[n-1].(*ast.ReturnStmt)
			}
		}
		ast.Inspect(fd, func(n ast.Node) bool {
			switch x := n.(type) {
			case *ast.SliceExpr:
				if id, ok := x.X.(*ast.Ident); ok && id.Name == "typ" && x.High == nil {
					if bl, ok := x.Low.(*ast.BasicLit); ok {
						i, _ := strconv.Atoi(bl.Value)
						lows = append(lows, i)
					} else {
						lows = append(lows, 1<<30)
					}
				}
			case *ast.IndexExpr:
				if id, ok := x.X.(*ast.Ident); ok && id.Name == "typ" {
					lows = append(lows, 1<<30) // an index expression on typ: not modelled
				}
			case *ast.IfStmt:
				if s := c19Src(f, x.Cond); len(s) > 8 && s[:8] == "len(typ)" && s != first {
					inner = s
				}
			}
			return true
		})
	}
	f.def("c16ReportFirstGuard", "List Nat", leanBytes(first))
	f.def("c16ReportFirstGuardReturns", "Bool", leanBool(firstReturns))
	f.def("c16ReportTypSliceLows", "List Nat", leanNatList(lows))
	f.def("c16ReportInnerGuard", "List Nat", leanBytes(inner))

	// --- HTTP targeter ---
	skip := ""
	var lineIdx, lineSliceLows []int
	bodyGuard := ""
	if fd := funcDecl(tgt, "", "NewHTTPTargeter"); fd != nil {
		ast.Inspect(fd, func(n ast.Node) bool {
			switch x := n.(type) {
			case *ast.IfStmt:
				has := false
				ast.Inspect(x.Cond, func(m ast.Node) bool {
					if ie, ok := m.(*ast.IndexExpr); ok {
						if id, ok := ie.X.(*ast.Ident); ok && id.Name == "line" {
							has = true
						}
					}
					return true
				})
				if has {
					skip = c19Src(f, x.Cond)
				}
				// `else if strings.HasPrefix(line, "@") { … line[1:] … }`
				hasSlice := false
				ast.Inspect(x.Body, func(m ast.Node) bool {
					if se, ok := m.(*ast.SliceExpr); ok {
						if id, ok := se.X.(*ast.Ident); ok && id.Name == "line" {
							hasSlice = true
						}
					}
					return true
				})
				if hasSlice {
					bodyGuard = c19Src(f, x.Cond)
				}
			case *ast.IndexExpr:
				if id, ok := x.X.(*ast.Ident); ok && id.Name == "line" {
					if bl, ok := x.Index.(*ast.BasicLit); ok {
						i, _ := strconv.Atoi(bl.Value)
						lineIdx = append(lineIdx, i)
					} else {
						lineIdx = append(lineIdx, 1<<30)
					}
				}
			case *ast.SliceExpr:
				if id, ok := x.X.(*ast.Ident); ok && id.Name == "line" {
					if bl, ok := x.Low.(*ast.BasicLit); ok && x.High == nil {
						i, _ := strconv.Atoi(bl.Value)
						lineSliceLows = append(lineSliceLows, i)
					} else {
						lineSliceLows = append(lineSliceLows, 1<<30)
					}
				}
			}
			return true
		})
	}
	f.def("c16HTTPSkipCond", "List Nat", leanBytes(skip))
	f.def("c16HTTPLineIndices", "List Nat", leanNatList(lineIdx))
	f.def("c16HTTPLineSliceLows", "List Nat", leanNatList(lineSliceLows))
	f.def("c16HTTPBodyGuard", "List Nat", leanBytes(bodyGuard))
	// --- lock discipline of the two stream targeters ---
	// JSON: statements between rd.Lock() and rd.Unlock() in the closure; number of return statements among them
	// HTTP: the closure starts with mu.Lock(); defer mu.Unlock()
	jsonLockOrder := []string{}
	jsonReturnsLocked := -1
	if fd := funcDecl(tgt, "", "NewJSONTargeter"); fd != nil {
		ast.Inspect(fd, func(n ast.Node) bool {
			fl, ok := n.(*ast.FuncLit)
			if !ok || jsonReturnsLocked >= 0 {
				return true
			}
			locked := false
			cnt := 0
			for _, st := range fl.Body.List {
				src := c19Src(f, st)
				switch {
				case src == "rd.Lock()":
					locked = true
					jsonLockOrder = append(jsonLockOrder, src)
				case src == "rd.Unlock()":
					locked = false
					jsonLockOrder = append(jsonLockOrder, src)
				case locked:
					jsonLockOrder = append(jsonLockOrder, "<stmt>")
					ast.Inspect(st, func(m ast.Node) bool {
						if _, ok := m.(*ast.ReturnStmt); ok {
							cnt++
						}
						if _, ok := m.(*ast.FuncLit); ok {
							return false
						}
						return true
					})
				}
			}
			if len(jsonLockOrder) > 0 {
				jsonReturnsLocked = cnt
				if locked {
					jsonReturnsLocked = 1000 // never unlocked at the top level
				}
			}
			return true
		})
	}
	if jsonReturnsLocked < 0 {
		jsonReturnsLocked = 999
	}
	f.def("c16JSONTargeterLockOrder", "List (List Nat)", leanBytesList(jsonLockOrder))
	f.def("c16JSONTargeterReturnsWhileLocked", "Nat", strconv.Itoa(jsonReturnsLocked))
	httpHead := []string{}
	if fd := funcDecl(tgt, "", "NewHTTPTargeter"); fd != nil {
		done := false
		ast.Inspect(fd, func(n ast.Node) bool {
			fl, ok := n.(*ast.FuncLit)
			if !ok || done {
				return true
			}
			done = true
			for i, st := range fl.Body.List {
				if i < 2 {
					httpHead = append(httpHead, c19Src(f, st))
				}
			}
			return false
		})
	}
	f.def("c16HTTPTargeterHead", "List (List Nat)", leanBytesList(httpHead))

	// --- the commands' decoder assembly (file.go decoder(files)) ---
	// the statements of the loop over the files (an `if` whose body ends in a return is written
	// "if <cond> return"), the number of continue / break / goto statements in the function, the
	// decoder it returns, and the "no file argument means stdin" statement of each command
	c16FileDecoder(f)
}

func c16FileDecoder(f *facts) {
	loop := []string{}
	jumps := 0
	ret := ""
	if fd := funcDecl(f.parse("file.go"), "", "decoder"); fd != nil && fd.Body != nil {
		for _, st := range fd.Body.List {
			switch x := st.(type) {
			case *ast.RangeStmt:
				for _, b := range x.Body.List {
					if is, ok := b.(*ast.IfStmt); ok {
						src := "if " + c19Src(f, is.Cond)
						if is.Init != nil {
							src = "if " + c19Src(f, is.Init) + "; " + c19Src(f, is.Cond)
						}
						if n := len(is.Body.List); n > 0 && is.Else == nil {
							if _, ok := is.Body.List[n-1].(*ast.ReturnStmt); ok {
								src += " return"
							}
						}
						loop = append(loop, src)
					} else {
						loop = append(loop, c19Src(f, b))
					}
				}
			case *ast.ForStmt:
				loop = append(loop, "<for>")
			case *ast.ReturnStmt:
				if len(x.Results) > 0 {
					ret = c19Src(f, x.Results[0])
				}
			}
		}
		ast.Inspect(fd, func(n ast.Node) bool {
			if _, ok := n.(*ast.BranchStmt); ok {
				jumps++
			}
			return true
		})
	}
	f.def("c16FileDecoderLoop", "List (List Nat)", leanBytesList(loop))
	f.def("c16FileDecoderJumps", "Nat", strconv.Itoa(jumps))
	f.def("c16FileDecoderReturns", "List Nat", leanBytes(ret))
	defaults := []string{}
	for _, name := range []string{"encode.go", "report.go", "plot.go"} {
		found := "<none>"
		ast.Inspect(f.parse(name), func(n ast.Node) bool {
			is, ok := n.(*ast.IfStmt)
			if !ok || found != "<none>" {
				return true
			}
			if c19Src(f, is.Cond) == "len(files) == 0" && len(is.Body.List) == 1 && is.Else == nil {
				found = c19Src(f, is.Body.List[0])
			}
			return true
		})
		defaults = append(defaults, found)
	}
	f.def("c16CommandsDefaultInput", "List (List Nat)", leanBytesList(defaults))
}
