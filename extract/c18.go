package main

// Facts of property C18 (dial path of lib/attack.go, internal/resolver/resolver.go, attack.go):
// what the correspondence cannot observe deterministically — how the round-robin counter,
// the random source and the address slice handed out by the cache are synchronised (atomic
// add; mutex around the shuffle; copy before shuffle and compaction), that the custom
// resolver's counter is advanced atomically, and the order in which the command composes
// DNSCaching and ConnectTo.

import (
	"bytes"
	"go/ast"
	"go/printer"
	"go/token"
	"strconv"
	"strings"
)

func init() { extractors = append(extractors, extractC18) }

func c18Text(fset *token.FileSet, n ast.Node) string {
	var buf bytes.Buffer
	printer.Fprint(&buf, fset, n)
	return strings.Join(strings.Fields(buf.String()), " ")
}

// the func literal assigned to `tr.DialContext` inside the option constructor `name`
func c18DialLit(file *ast.File, name string) *ast.FuncLit {
	fd := funcDecl(file, "", name)
	if fd == nil {
		return nil
	}
	var lit *ast.FuncLit
	ast.Inspect(fd, func(n ast.Node) bool {
		as, ok := n.(*ast.AssignStmt)
		if !ok || len(as.Lhs) != 1 || len(as.Rhs) != 1 {
			return true
		}
		se, ok := as.Lhs[0].(*ast.SelectorExpr)
		if !ok || se.Sel.Name != "DialContext" {
			return true
		}
		if fl, ok := as.Rhs[0].(*ast.FuncLit); ok {
			lit = fl
		}
		return true
	})
	return lit
}

// calls that synchronise: sync/atomic functions, Lock/RLock/Unlock/Do on anything
func c18SyncCalls(n ast.Node) int {
	c := 0
	if n == nil {
		return 0
	}
	ast.Inspect(n, func(x ast.Node) bool {
		ce, ok := x.(*ast.CallExpr)
		if !ok {
			return true
		}
		if se, ok := ce.Fun.(*ast.SelectorExpr); ok {
			if id, ok := se.X.(*ast.Ident); ok && id.Name == "atomic" {
				c++
			}
			switch se.Sel.Name {
			case "Lock", "RLock", "Unlock", "RUnlock":
				c++
			}
		}
		return true
	})
	return c
}

func extractC18(f *facts) {
	file := f.parse("lib/attack.go")

	// --- ConnectTo: the statements executed for a mapped address, and synchronisation
	ct := c18DialLit(file, "ConnectTo")
	var ctStmts []string
	if ct != nil {
		ast.Inspect(ct, func(n ast.Node) bool {
			is, ok := n.(*ast.IfStmt)
			if !ok || is.Init == nil {
				return true
			}
			// `if cm, ok := connectTo[addr]; ok { … }`
			if as, ok := is.Init.(*ast.AssignStmt); ok && len(as.Rhs) == 1 {
				if _, ok := as.Rhs[0].(*ast.IndexExpr); ok {
					for _, st := range is.Body.List {
						ctStmts = append(ctStmts, c18Text(f.fset, st))
					}
					return false
				}
			}
			return true
		})
	}
	f.def("c18ConnectToMappedStmts", "List (List Nat)", leanBytesList(ctStmts))
	f.def("c18ConnectToSyncCalls", "Nat", strconv.Itoa(c18SyncCalls(ct)))
	// every mention of the counter field `.n` inside the dial closure (must be the atomic add only)
	counterMentions := 0
	if ct != nil {
		ast.Inspect(ct, func(n ast.Node) bool {
			if se, ok := n.(*ast.SelectorExpr); ok && se.Sel.Name == "n" {
				counterMentions++
			}
			return true
		})
	}
	f.def("c18ConnectToCounterMentions", "Nat", strconv.Itoa(counterMentions))
	f.def("c18ConnectToFound", "Bool", leanBool(ct != nil))

	// --- DNSCaching: from LookupHost to the dials
	dn := c18DialLit(file, "DNSCaching")
	lookupVar := ""
	shuffleArgs := ""
	swapBody := ""
	assignsBetween := 0
	foeAssign := ""
	var assignTexts, neighbours []string
	rngMentions := 0
	if dn != nil {
		ast.Inspect(dn, func(n ast.Node) bool {
			if id, ok := n.(*ast.Ident); ok && id.Name == "rng" {
				rngMentions++
			}
			return true
		})
		seenLookup, seenShuffle := false, false
		for idx, st := range dn.Body.List {
			switch s := st.(type) {
			case *ast.AssignStmt:
				if len(s.Rhs) == 1 {
					if ce, ok := s.Rhs[0].(*ast.CallExpr); ok {
						if se, ok := ce.Fun.(*ast.SelectorExpr); ok && se.Sel.Name == "LookupHost" {
							if id, ok := s.Lhs[0].(*ast.Ident); ok {
								lookupVar = id.Name
								seenLookup = true
								continue
							}
						}
						if id, ok := ce.Fun.(*ast.Ident); ok && id.Name == "firstOfEachIPFamily" {
							foeAssign = c18Text(f.fset, s)
							continue
						}
					}
				}
				if seenLookup && !seenShuffle {
					for _, l := range s.Lhs {
						if id, ok := l.(*ast.Ident); ok && id.Name == lookupVar {
							assignsBetween++
							assignTexts = append(assignTexts, c18Text(f.fset, s))
						}
					}
				}
			case *ast.ExprStmt:
				if ce, ok := s.X.(*ast.CallExpr); ok {
					if se, ok := ce.Fun.(*ast.SelectorExpr); ok && se.Sel.Name == "Shuffle" && len(ce.Args) == 2 {
						seenShuffle = true
						if idx > 0 && idx+1 < len(dn.Body.List) {
							neighbours = []string{c18Text(f.fset, dn.Body.List[idx-1]), c18Text(f.fset, dn.Body.List[idx+1])}
						}
						shuffleArgs = c18Text(f.fset, ce.Args[0])
						if fl, ok := ce.Args[1].(*ast.FuncLit); ok && len(fl.Body.List) == 1 {
							swapBody = c18Text(f.fset, fl.Body.List[0])
						}
					}
				}
			}
		}
	}
	f.def("c18DnsLookupVar", "List Nat", leanBytes(lookupVar))
	f.def("c18DnsShuffleLen", "List Nat", leanBytes(shuffleArgs))
	f.def("c18DnsShuffleSwap", "List Nat", leanBytes(swapBody))
	f.def("c18DnsAssignsBeforeShuffle", "Nat", strconv.Itoa(assignsBetween))
	f.def("c18DnsAssignTextsBeforeShuffle", "List (List Nat)", leanBytesList(assignTexts))
	f.def("c18DnsShuffleNeighbours", "List (List Nat)", leanBytesList(neighbours))
	f.def("c18DnsRngMentions", "Nat", strconv.Itoa(rngMentions))
	// declaration of the mutex in the option (outside the dial closure)
	mutexDecl := ""
	if fd := funcDecl(file, "", "DNSCaching"); fd != nil {
		ast.Inspect(fd, func(n ast.Node) bool {
			if ds, ok := n.(*ast.DeclStmt); ok {
				if gd, ok := ds.Decl.(*ast.GenDecl); ok {
					for _, sp := range gd.Specs {
						if vs, ok := sp.(*ast.ValueSpec); ok && vs.Type != nil && len(vs.Names) == 1 {
							if t := c18Text(f.fset, vs.Type); strings.Contains(t, "Mutex") {
								mutexDecl = vs.Names[0].Name + " " + t
							}
						}
					}
				}
			}
			return true
		})
	}
	f.def("c18DnsMutexDecl", "List Nat", leanBytes(mutexDecl))
	f.def("c18DnsFoeAssign", "List Nat", leanBytes(foeAssign))
	f.def("c18DnsSyncCalls", "Nat", strconv.Itoa(c18SyncCalls(dn)))

	// --- firstOfEachIPFamily: `each = ips[:0]` and `each = append(each, ips[i])`
	foe := funcDecl(file, "", "firstOfEachIPFamily")
	eachInit, eachAppend := "", ""
	if foe != nil {
		ast.Inspect(foe, func(n ast.Node) bool {
			switch s := n.(type) {
			case *ast.ValueSpec:
				if len(s.Names) == 1 && len(s.Values) == 1 {
					if _, ok := s.Values[0].(*ast.SliceExpr); ok {
						eachInit = s.Names[0].Name + " = " + c18Text(f.fset, s.Values[0])
					}
				}
			case *ast.AssignStmt:
				if len(s.Rhs) == 1 {
					if ce, ok := s.Rhs[0].(*ast.CallExpr); ok {
						if id, ok := ce.Fun.(*ast.Ident); ok && id.Name == "append" {
							eachAppend = c18Text(f.fset, s)
						}
					}
				}
			}
			return true
		})
	}
	f.def("c18FoeEachInit", "List Nat", leanBytes(eachInit))
	f.def("c18FoeEachAppend", "List Nat", leanBytes(eachAppend))

	// --- custom resolver: address()
	rfile := f.parse("internal/resolver/resolver.go")
	addr := funcDecl(rfile, "resolver", "address")
	addrBody := ""
	if addr != nil && addr.Body != nil && len(addr.Body.List) == 1 {
		addrBody = c18Text(f.fset, addr.Body.List[0])
	}
	f.def("c18ResolverAddressBody", "List Nat", leanBytes(addrBody))

	// --- the periodic refresh of the DNS cache
	refreshCall := ""
	if fd := funcDecl(file, "", "DNSCaching"); fd != nil {
		ast.Inspect(fd, func(n ast.Node) bool {
			if ce, ok := n.(*ast.CallExpr); ok {
				if se, ok := ce.Fun.(*ast.SelectorExpr); ok && strings.HasPrefix(se.Sel.Name, "Refresh") {
					refreshCall = c18Text(f.fset, ce)
				}
			}
			return true
		})
	}
	f.def("c18DnsRefreshCall", "List Nat", leanBytes(refreshCall))

	// --- every option that assigns the transport's dial function (or the transport itself), and
	// whether it type-asserts the transport with or without the `ok` form
	var dialAssigns, asserts []string
	if file != nil {
		for _, d := range file.Decls {
			fd, ok := d.(*ast.FuncDecl)
			if !ok || fd.Recv != nil || fd.Body == nil {
				continue
			}
			var walk func(n ast.Node, guard string)
			walk = func(n ast.Node, guard string) {
				ast.Inspect(n, func(m ast.Node) bool {
					switch x := m.(type) {
					case *ast.IfStmt:
						g := c18Text(f.fset, x.Cond)
						if x.Init != nil {
							walk(x.Init, guard)
						}
						walk(x.Body, g)
						if x.Else != nil {
							walk(x.Else, "else of "+g)
						}
						return false
					case *ast.AssignStmt:
						if len(x.Rhs) == 1 {
							if _, ok := x.Rhs[0].(*ast.TypeAssertExpr); ok && strings.Contains(c18Text(f.fset, x.Rhs[0]), "Transport") {
								kind := "unchecked"
								if len(x.Lhs) == 2 {
									kind = "checked"
								}
								asserts = append(asserts, fd.Name.Name+": "+kind)
							}
						}
						if len(x.Lhs) == 1 && len(x.Rhs) == 1 {
							if se, ok := x.Lhs[0].(*ast.SelectorExpr); ok && (se.Sel.Name == "DialContext" || se.Sel.Name == "Transport") {
								rhs := c18Text(f.fset, x.Rhs[0])
								if _, ok := x.Rhs[0].(*ast.FuncLit); ok {
									rhs = "func"
								} else if i := strings.Index(rhs, "{"); i > 0 {
									rhs = rhs[:i]
								}
								g := ""
								if guard != "" {
									g = " [if " + guard + "]"
								}
								dialAssigns = append(dialAssigns, fd.Name.Name+g+": "+c18Text(f.fset, x.Lhs[0])+" = "+rhs)
							}
						}
					}
					return true
				})
			}
			walk(fd.Body, "")
		}
	}
	f.def("c18DialAssignments", "List (List Nat)", leanBytesList(dialAssigns))
	f.def("c18TransportAssertions", "List (List Nat)", leanBytesList(asserts))

	// --- the command: order of the dial-related options in the NewAttacker call
	afile := f.parse("attack.go")
	var order []string
	if afile != nil {
		ast.Inspect(afile, func(n ast.Node) bool {
			ce, ok := n.(*ast.CallExpr)
			if !ok {
				return true
			}
			se, ok := ce.Fun.(*ast.SelectorExpr)
			if !ok || se.Sel.Name != "NewAttacker" {
				return true
			}
			for _, a := range ce.Args {
				if oc, ok := a.(*ast.CallExpr); ok {
					if os, ok := oc.Fun.(*ast.SelectorExpr); ok {
						switch os.Sel.Name {
						case "DNSCaching", "ConnectTo", "UnixSocket", "LocalAddr", "KeepAlive", "H2C":
							order = append(order, os.Sel.Name)
						}
					}
				}
			}
			return false
		})
	}
	f.def("c18CommandDialOptionOrder", "List (List Nat)", leanBytesList(order))
}
