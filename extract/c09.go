package main

// Facts for C09: how the encoders and the attack command hand records to the writer.

import (
	"bytes"
	"go/ast"
	"go/printer"
	"strings"
)

func init() { extractors = append(extractors, extractC09) }

func c09HasCall(n ast.Node, name string, f *facts) bool {
	found := false
	ast.Inspect(n, func(m ast.Node) bool {
		if c, ok := m.(*ast.CallExpr); ok && c07ExprText(f.fset, c.Fun) == name {
			found = true
		}
		return !found
	})
	return found
}

func extractC09(f *facts) {
	file := f.parse("lib/results.go")

	// CSV encoder closure: Write then Flush inside the same closure (one whole record per call)
	csvWriteThenFlush := false
	if fl := c07ReturnedFuncLit(funcDecl(file, "", "NewCSVEncoder")); fl != nil {
		wPos, fPos := -1, -1
		for i, st := range fl.Body.List {
			if c09HasCall(st, "enc.Write", f) && wPos < 0 {
				wPos = i
			}
			if c09HasCall(st, "enc.Flush", f) && fPos < 0 {
				fPos = i
			}
		}
		csvWriteThenFlush = wPos >= 0 && fPos > wPos
	}
	f.def("csvEncoderWritesThenFlushes", "Bool", leanBool(csvWriteThenFlush))

	// JSON encoder closure: marshal, RawByte('\n'), DumpTo(w) in this order
	jsonOrder := false
	if fl := c07ReturnedFuncLit(funcDecl(file, "", "NewJSONEncoder")); fl != nil {
		m, nl, d := -1, -1, -1
		for i, st := range fl.Body.List {
			if m < 0 && strings.Contains(c07NodeText(f, st), "MarshalEasyJSON") {
				m = i
			}
			if nl < 0 && strings.Contains(c07NodeText(f, st), `jw.RawByte('\n')`) {
				nl = i
			}
			if d < 0 && strings.Contains(c07NodeText(f, st), "jw.DumpTo(w)") {
				d = i
			}
		}
		jsonOrder = m >= 0 && nl > m && d > nl
	}
	f.def("jsonEncoderDumpsPerRecord", "Bool", leanBool(jsonOrder))

	// JSON decoder closure: the line comes from rd.ReadBytes('\n') and a read error returns before any decoding
	jsonLines := false
	if fl := c07ReturnedFuncLit(funcDecl(file, "", "NewJSONDecoder")); fl != nil {
		for i, st := range fl.Body.List {
			if ifs, ok := st.(*ast.IfStmt); ok && ifs.Init != nil && strings.Contains(c07NodeText(f, ifs.Init), `rd.ReadBytes('\n')`) {
				ret := false
				for _, b := range ifs.Body.List {
					if _, ok := b.(*ast.ReturnStmt); ok {
						ret = true
					}
				}
				// UnmarshalEasyJSON only afterwards
				after := false
				for _, later := range fl.Body.List[i+1:] {
					if strings.Contains(c07NodeText(f, later), "UnmarshalEasyJSON") {
						after = true
					}
				}
				before := false
				for _, earlier := range fl.Body.List[:i] {
					if strings.Contains(c07NodeText(f, earlier), "UnmarshalEasyJSON") {
						before = true
					}
				}
				jsonLines = ret && after && !before
			}
		}
	}
	f.def("jsonDecoderReadsWholeLines", "Bool", leanBool(jsonLines))

	// attack command: results are encoded one by one as they arrive, straight to the output file
	atk := f.parse("attack.go")
	perResult, unbuffered := false, false
	if fd := funcDecl(atk, "", "processAttack"); fd != nil {
		ast.Inspect(fd.Body, func(n ast.Node) bool {
			cc, ok := n.(*ast.CommClause)
			if !ok || cc.Comm == nil {
				return true
			}
			if strings.Contains(c07NodeText(f, cc.Comm), "<-res") {
				for _, st := range cc.Body {
					if c09HasCall(st, "enc.Encode", f) {
						perResult = true
					}
				}
			}
			return true
		})
	}
	if atk != nil {
		bufio := false
		for _, im := range atk.Imports {
			if im.Path.Value == `"bufio"` {
				bufio = true
			}
		}
		newEnc := false
		ast.Inspect(atk, func(n ast.Node) bool {
			if c, ok := n.(*ast.CallExpr); ok && c07ExprText(f.fset, c.Fun) == "vegeta.NewEncoder" && len(c.Args) == 1 && c07ExprText(f.fset, c.Args[0]) == "out" {
				newEnc = true
			}
			return true
		})
		unbuffered = newEnc && !bufio
	}
	f.def("attackEncodesEachResult", "Bool", leanBool(perResult))
	f.def("attackOutputUnbuffered", "Bool", leanBool(unbuffered))
}

func c07NodeText(f *facts, n ast.Node) string {
	var buf bytes.Buffer
	printer.Fprint(&buf, f.fset, n)
	return buf.String()
}
