package main

// Facts of property C11 (percentiles): the HDR reporter's percentile ladder as exact
// rationals read from the literal text, the Quantile arguments ↔ fields mapping in
// Metrics.Close, the compression constant and the sample weight handed to the t-digest.

import (
	"fmt"
	"go/ast"
	"go/token"
	"strings"
)

func init() { extractors = append(extractors, extractC11) }

// decimalLit turns the text of a decimal literal ("0.971875", "100", "1.0") into (num, den)
// with den a power of ten; ok=false for any other spelling (exponents, hex, underscores).
func decimalLit(e ast.Expr) (num, den string, ok bool) {
	bl, isLit := e.(*ast.BasicLit)
	if !isLit || (bl.Kind != token.FLOAT && bl.Kind != token.INT) {
		return "0", "0", false
	}
	txt := bl.Value
	intPart, frac := txt, ""
	if i := strings.IndexByte(txt, '.'); i >= 0 {
		intPart, frac = txt[:i], txt[i+1:]
	}
	digits := intPart + frac
	if digits == "" {
		return "0", "0", false
	}
	for _, c := range digits {
		if c < '0' || c > '9' {
			return "0", "0", false
		}
	}
	digits = strings.TrimLeft(digits, "0")
	if digits == "" {
		digits = "0"
	}
	return digits, "1" + strings.Repeat("0", len(frac)), true
}

func extractC11(f *facts) {
	rep := f.parse("lib/reporters.go")
	met := f.parse("lib/metrics.go")

	// --- ladder: the slice ranged over inside NewHDRHistogramPlotReporter ---
	ladder := []string{}
	ladderOK := false
	ladderUses := 0
	if fd := funcDecl(rep, "", "NewHDRHistogramPlotReporter"); fd != nil {
		var name string
		ast.Inspect(fd, func(n ast.Node) bool {
			if rs, ok := n.(*ast.RangeStmt); ok {
				if id, ok := rs.X.(*ast.Ident); ok && name == "" {
					name = id.Name
				}
			}
			return true
		})
		if name != "" {
			for _, d := range rep.Decls {
				gd, ok := d.(*ast.GenDecl)
				if !ok || gd.Tok != token.VAR {
					continue
				}
				for _, sp := range gd.Specs {
					vs := sp.(*ast.ValueSpec)
					for i, id := range vs.Names {
						if id.Name != name || i >= len(vs.Values) {
							continue
						}
						cl, ok := vs.Values[i].(*ast.CompositeLit)
						if !ok {
							continue
						}
						ladderOK = true
						for _, el := range cl.Elts {
							n, dn, ok := decimalLit(el)
							if !ok {
								ladderOK = false
							}
							ladder = append(ladder, fmt.Sprintf("(%s, %s)", n, dn))
						}
					}
				}
			}
			// how often the table is mentioned in the file (declaration + the one loop = 2):
			// any other use could mutate it
			ast.Inspect(rep, func(n ast.Node) bool {
				if id, ok := n.(*ast.Ident); ok && id.Name == name {
					ladderUses++
				}
				return true
			})
		}
	}
	f.def("c11_ladder", "List (Nat × Nat)", "["+strings.Join(ladder, ", ")+"]")
	f.def("c11_ladder_ok", "Bool", leanBool(ladderOK))
	f.def("c11_ladder_mentions", "Nat", fmt.Sprint(ladderUses))

	// --- Close: m.Latencies.<Field> = m.Latencies.Quantile(<literal>) ---
	closeQ := []string{}
	if fd := funcDecl(met, "Metrics", "Close"); fd != nil && fd.Body != nil {
		for _, st := range fd.Body.List {
			as, ok := st.(*ast.AssignStmt)
			if !ok || len(as.Lhs) != 1 || len(as.Rhs) != 1 {
				continue
			}
			lhs, ok := as.Lhs[0].(*ast.SelectorExpr)
			if !ok {
				continue
			}
			call, ok := as.Rhs[0].(*ast.CallExpr)
			if !ok || len(call.Args) != 1 {
				continue
			}
			fun, ok := call.Fun.(*ast.SelectorExpr)
			if !ok || fun.Sel.Name != "Quantile" {
				continue
			}
			n, dn, ok := decimalLit(call.Args[0])
			if !ok {
				n, dn = "0", "0"
			}
			closeQ = append(closeQ, fmt.Sprintf("(%s, %s, %s)", leanBytes(lhs.Sel.Name), n, dn))
		}
	}
	f.def("c11_close_quantiles", "List (List Nat × Nat × Nat)", "["+strings.Join(closeQ, ", ")+"]")

	// --- compression constant: the literal argument of the estimator constructor in LatencyMetrics.init ---
	comp := "(0, 0)"
	if fd := funcDecl(met, "LatencyMetrics", "init"); fd != nil {
		ast.Inspect(fd, func(n ast.Node) bool {
			if call, ok := n.(*ast.CallExpr); ok && len(call.Args) == 1 {
				if id, ok := call.Fun.(*ast.Ident); ok && id.Name == "newTdigestEstimator" {
					if a, b, ok := decimalLit(call.Args[0]); ok {
						comp = fmt.Sprintf("(%s, %s)", a, b)
					}
				}
			}
			return true
		})
	}
	f.def("c11_compression", "Nat × Nat", comp)

	// --- the estimator adds every sample with weight 1 and answers with TDigest.Quantile ---
	weight := "(0, 0)"
	if fd := funcDecl(met, "tdigestEstimator", "Add"); fd != nil {
		ast.Inspect(fd, func(n ast.Node) bool {
			if call, ok := n.(*ast.CallExpr); ok && len(call.Args) == 2 {
				if sel, ok := call.Fun.(*ast.SelectorExpr); ok && sel.Sel.Name == "Add" {
					if a, b, ok := decimalLit(call.Args[1]); ok {
						weight = fmt.Sprintf("(%s, %s)", a, b)
					}
				}
			}
			return true
		})
	}
	f.def("c11_sample_weight", "Nat × Nat", weight)
	getCalls := []string{}
	if fd := funcDecl(met, "tdigestEstimator", "Get"); fd != nil {
		ast.Inspect(fd, func(n ast.Node) bool {
			if call, ok := n.(*ast.CallExpr); ok {
				if sel, ok := call.Fun.(*ast.SelectorExpr); ok {
					getCalls = append(getCalls, sel.Sel.Name)
				}
			}
			return true
		})
	}
	f.def("c11_estimator_get_calls", "List (List Nat)", leanBytesList(getCalls))
}
