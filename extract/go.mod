module vextract

go 1.22
