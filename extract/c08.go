package main

// Facts for C08 and C13: the source shape of lib/results.go `DecoderFor` and
// `NewRoundRobinDecoder`, which the Lean models Model/DecoderFor.lean and Model/RoundRobin.lean
// transcribe.  Emitted: the order of the decoder factories, the two reader expressions, the
// acceptance condition, and the canonical (go/printer, comments dropped) text of both bodies.
// A change of either function changes a fact and breaks the obligations in Props/C08.lean /
// Props/C13.lean until the model has been re-validated.

import (
	"bytes"
	"go/ast"
	"go/printer"
	"go/token"
	"strings"
)

func init() { extractors = append(extractors, extractC08) }

func printNode(fset *token.FileSet, n ast.Node) string {
	var buf bytes.Buffer
	cfg := printer.Config{Mode: printer.RawFormat, Tabwidth: 1}
	if err := cfg.Fprint(&buf, fset, n); err != nil {
		return "<print error: " + err.Error() + ">"
	}
	// one canonical line: collapse all white space
	return strings.Join(strings.Fields(buf.String()), " ")
}

func extractC08(f *facts) {
	file := f.parse("lib/results.go")
	if file == nil {
		return
	}
	// drop comments so that only code counts
	file.Comments = nil

	var factories []string
	trialReader, finalReader, acceptCond, dfBody := "", "", "", ""
	if fd := funcDecl(file, "", "DecoderFor"); fd != nil && fd.Body != nil {
		dfBody = printNode(f.fset, fd.Body)
		ast.Inspect(fd.Body, func(n ast.Node) bool {
			switch x := n.(type) {
			case *ast.RangeStmt:
				// for _, dec := range []DecoderFactory{ ... }
				if cl, ok := x.X.(*ast.CompositeLit); ok {
					for _, e := range cl.Elts {
						factories = append(factories, printNode(f.fset, e))
					}
				}
			case *ast.AssignStmt:
				// rd := <trial reader>
				if x.Tok == token.DEFINE && len(x.Lhs) == 1 && len(x.Rhs) == 1 {
					if call, ok := x.Rhs[0].(*ast.CallExpr); ok {
						if sel, ok := call.Fun.(*ast.SelectorExpr); ok && sel.Sel.Name == "MultiReader" && trialReader == "" {
							trialReader = printNode(f.fset, x.Rhs[0])
						}
					}
				}
			case *ast.IfStmt:
				// if err := dec(rd).Decode(&Result{}); <cond> { return <final> }
				if x.Init != nil && acceptCond == "" {
					acceptCond = printNode(f.fset, x.Init) + " ; " + printNode(f.fset, x.Cond)
					for _, st := range x.Body.List {
						if rs, ok := st.(*ast.ReturnStmt); ok && len(rs.Results) == 1 {
							finalReader = printNode(f.fset, rs.Results[0])
						}
					}
				}
			}
			return true
		})
	}
	f.def("c08Factories", "List (List Nat)", leanBytesList(factories))
	f.def("c08TrialReader", "List Nat", leanBytes(trialReader))
	f.def("c08Accept", "List Nat", leanBytes(acceptCond))
	f.def("c08FinalReader", "List Nat", leanBytes(finalReader))
	f.def("c08DecoderForBody", "List Nat", leanBytes(dfBody))

	rrBody := ""
	if fd := funcDecl(file, "", "NewRoundRobinDecoder"); fd != nil && fd.Body != nil {
		rrBody = printNode(f.fset, fd.Body)
	}
	f.def("c13RoundRobinBody", "List Nat", leanBytes(rrBody))
}
