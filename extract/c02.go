package main

// Facts for C02–C05 from lib/attack.go: the shape of Stop, the deferred closing sequence of
// Attack, the channel constructions, and the critical section of hit.

import (
	"bytes"
	"go/ast"
	"go/printer"
	"go/token"
	"strings"
)

func init() { extractors = append(extractors, extractC02) }

func render(fset *token.FileSet, n ast.Node) string {
	var b bytes.Buffer
	printer.Fprint(&b, fset, n)
	return strings.Join(strings.Fields(b.String()), " ")
}

// selName returns the final selector name of x.y.z (or the identifier name).
func selName(e ast.Expr) string {
	switch v := e.(type) {
	case *ast.SelectorExpr:
		return v.Sel.Name
	case *ast.Ident:
		return v.Name
	case *ast.StarExpr:
		return selName(v.X)
	}
	return ""
}

func callName(e ast.Expr) string {
	if c, ok := e.(*ast.CallExpr); ok {
		return selName(c.Fun)
	}
	return ""
}

// stmtShape gives a spelling-independent summary of a statement.
func stmtShape(s ast.Stmt) string {
	switch v := s.(type) {
	case *ast.AssignStmt:
		names := []string{}
		for _, l := range v.Lhs {
			names = append(names, selName(l))
		}
		return "assign " + strings.Join(names, ",")
	case *ast.IncDecStmt:
		return "incdec " + selName(v.X)
	case *ast.ExprStmt:
		return "call " + callName(v.X)
	case *ast.ReturnStmt:
		return "return"
	case *ast.SelectStmt:
		return "select"
	case *ast.DeferStmt:
		return "defer " + callName(v.Call)
	case *ast.GoStmt:
		return "go " + callName(v.Call)
	case *ast.IfStmt:
		return "if"
	case *ast.ForStmt:
		return "for"
	case *ast.RangeStmt:
		return "range"
	case *ast.DeclStmt:
		return "decl"
	}
	return "other"
}

func extractC02(f *facts) {
	file := f.parse("lib/attack.go")
	// --- Stop ---
	var stopShape []string
	if fd := funcDecl(file, "Attacker", "Stop"); fd != nil && fd.Body != nil {
		for _, s := range fd.Body.List {
			sh := stmtShape(s)
			// describe what happens inside the function literal handed to (sync.Once).Do
			if es, ok := s.(*ast.ExprStmt); ok {
				if c, ok := es.X.(*ast.CallExpr); ok && selName(c.Fun) == "Do" && len(c.Args) == 1 {
					if fl, ok := c.Args[0].(*ast.FuncLit); ok {
						inner := []string{}
						for _, is := range fl.Body.List {
							inner = append(inner, stmtShape(is))
						}
						sh = "once.Do{" + strings.Join(inner, ";") + "}"
					}
				}
			}
			stopShape = append(stopShape, sh)
		}
	}
	f.def("stopShape", "List (List Nat)", leanBytesList(stopShape))

	// --- Attack: channels, deferred closing sequence ---
	var chans, deferred []string
	var spawnGuard string
	if fd := funcDecl(file, "Attacker", "Attack"); fd != nil && fd.Body != nil {
		ast.Inspect(fd.Body, func(n ast.Node) bool {
			switch v := n.(type) {
			case *ast.AssignStmt:
				if len(v.Rhs) == 1 {
					if c, ok := v.Rhs[0].(*ast.CallExpr); ok && selName(c.Fun) == "make" && len(c.Args) >= 1 {
						if _, isChan := c.Args[0].(*ast.ChanType); isChan {
							kind := "unbuffered"
							if len(c.Args) > 1 {
								kind = "buffered"
							}
							chans = append(chans, selName(v.Lhs[0])+" "+kind)
						}
					}
				}
			case *ast.DeferStmt:
				if fl, ok := v.Call.Fun.(*ast.FuncLit); ok {
					for _, s := range fl.Body.List {
						if es, ok := s.(*ast.ExprStmt); ok {
							if c, ok := es.X.(*ast.CallExpr); ok {
								arg := ""
								if len(c.Args) == 1 {
									arg = " " + selName(c.Args[0])
								}
								deferred = append(deferred, selName(c.Fun)+arg)
							}
						}
					}
				}
			case *ast.IfStmt:
				// the grow-on-demand guard: `if workers < a.maxWorkers { select {…default: spawn} }`
				if be, ok := v.Cond.(*ast.BinaryExpr); ok && selName(be.Y) == "maxWorkers" {
					spawnGuard = selName(be.X) + " " + be.Op.String() + " maxWorkers"
				}
			}
			return true
		})
	}
	// --- Attack: every site that starts a worker, with the statements before it in the same block (the WaitGroup
	// must be told about exactly the goroutines started: one Add(1) immediately before each `go a.attack`), and the
	// statements that touch the `workers` variable before the first spawn (the clamp to max-workers) ---
	var spawnSites, workersPrelude []string
	if fd := funcDecl(file, "Attacker", "Attack"); fd != nil && fd.Body != nil {
		var walk func(list []ast.Stmt)
		walk = func(list []ast.Stmt) {
			for i, st := range list {
				if g, ok := st.(*ast.GoStmt); ok && selName(g.Call.Fun) == "attack" {
					from := i - 2
					if from < 0 {
						from = 0
					}
					var before []string
					for _, b := range list[from:i] {
						before = append(before, strings.Join(strings.Fields(render(f.fset, b)), " "))
					}
					spawnSites = append(spawnSites, strings.Join(before, "; ")+" => go attack")
				}
			}
		}
		ast.Inspect(fd.Body, func(n ast.Node) bool {
			switch v := n.(type) {
			case *ast.BlockStmt:
				walk(v.List)
			case *ast.CaseClause:
				walk(v.Body)
			case *ast.CommClause:
				walk(v.Body)
			}
			return true
		})
		for _, st := range fd.Body.List {
			if _, isFor := st.(*ast.ForStmt); isFor {
				break
			}
			txt := strings.Join(strings.Fields(render(f.fset, st)), " ")
			if strings.Contains(txt, "workers") || strings.Contains(txt, "wg.") {
				workersPrelude = append(workersPrelude, txt)
			}
		}
		// any other use of the WaitGroup's Add in Attack
		nAdd := 0
		ast.Inspect(fd.Body, func(n ast.Node) bool {
			if c, ok := n.(*ast.CallExpr); ok && selName(c.Fun) == "Add" {
				nAdd++
			}
			return true
		})
		f.def("attackWaitGroupAdds", "Nat", itoa(nAdd))
	}
	f.def("attackSpawnSites", "List (List Nat)", leanBytesList(spawnSites))
	f.def("attackWorkersPrelude", "List (List Nat)", leanBytesList(workersPrelude))
	f.def("attackChans", "List (List Nat)", leanBytesList(chans))
	f.def("attackDeferred", "List (List Nat)", leanBytesList(deferred))
	f.def("attackSpawnGuard", "List Nat", leanBytes(spawnGuard))

	// --- hit: critical section ---
	var cs []string
	tsOutside, seqOutside := 0, 0
	tsFromBegan, latencyInDefer, tsClockInCS := false, false, false
	if fd := funcDecl(file, "Attacker", "hit"); fd != nil && fd.Body != nil {
		inCS := false
		for _, s := range fd.Body.List {
			if es, ok := s.(*ast.ExprStmt); ok {
				switch callName(es.X) {
				case "Lock":
					inCS = true
					continue
				case "Unlock":
					inCS = false
					continue
				}
			}
			if inCS {
				cs = append(cs, stmtShape(s))
				if as, ok := s.(*ast.AssignStmt); ok && selName(as.Lhs[0]) == "Timestamp" {
					r := render(f.fset, as.Rhs[0])
					tsFromBegan = strings.Contains(r, "began")
					// the clock must be read inside the critical section, not merely assigned there
					ast.Inspect(as.Rhs[0], func(n ast.Node) bool {
						if c, ok := n.(*ast.CallExpr); ok {
							if nm := selName(c.Fun); nm == "Since" || nm == "Now" {
								tsClockInCS = true
							}
						}
						return true
					})
				}
			}
		}
		// any assignment to *.Timestamp / *.Seq or increment of *.seq outside the critical section
		// (top-level statements only: nested closures are inspected for Latency below)
		inCS = false
		for _, s := range fd.Body.List {
			if es, ok := s.(*ast.ExprStmt); ok {
				switch callName(es.X) {
				case "Lock":
					inCS = true
				case "Unlock":
					inCS = false
				}
			}
			if inCS {
				continue
			}
			ast.Inspect(s, func(n ast.Node) bool {
				switch v := n.(type) {
				case *ast.AssignStmt:
					for _, l := range v.Lhs {
						if _, isSel := l.(*ast.SelectorExpr); isSel {
							switch selName(l) {
							case "Timestamp":
								tsOutside++
							case "Seq", "seq":
								seqOutside++
							}
						}
					}
				case *ast.IncDecStmt:
					if selName(v.X) == "seq" {
						seqOutside++
					}
				}
				return true
			})
			if ds, ok := s.(*ast.DeferStmt); ok {
				if fl, ok := ds.Call.Fun.(*ast.FuncLit); ok {
					for _, is := range fl.Body.List {
						if as, ok := is.(*ast.AssignStmt); ok && selName(as.Lhs[0]) == "Latency" {
							latencyInDefer = strings.Contains(render(f.fset, as.Rhs[0]), "Since") && strings.Contains(render(f.fset, as.Rhs[0]), "Timestamp")
						}
					}
				}
			}
		}
	}
	f.def("hitCriticalSection", "List (List Nat)", leanBytesList(cs))
	f.def("hitTimestampAssignsOutsideCS", "Nat", itoa(tsOutside))
	f.def("hitSeqAssignsOutsideCS", "Nat", itoa(seqOutside))
	f.def("hitTimestampFromBegan", "Bool", leanBool(tsFromBegan))
	f.def("hitLatencyInDeferFromTimestamp", "Bool", leanBool(latencyInDefer))
	f.def("hitTimestampClockReadInCS", "Bool", leanBool(tsClockInCS))
}

func itoa(n int) string { return strings.TrimSpace(strings.Replace(strings.Replace(render0(n), "\n", "", -1), " ", "", -1)) }

func render0(n int) string {
	if n == 0 {
		return "0"
	}
	s := ""
	for n > 0 {
		s = string(rune('0'+n%10)) + s
		n /= 10
	}
	return s
}
