package main

// Facts for C07 (and C09): the column tables of the CSV encoder/decoder, the reader configuration,
// the fields of vegeta.Result, the JSON member names of the generated code, and the documented
// CSV column list (encode.go usage text, README.md).

import (
	"bytes"
	"fmt"
	"go/ast"
	"go/printer"
	"go/token"
	"os"
	"path/filepath"
	"regexp"
	"sort"
	"strconv"
	"strings"
)

func init() { extractors = append(extractors, extractC07) }

func c07ExprText(fset *token.FileSet, e ast.Expr) string {
	var buf bytes.Buffer
	printer.Fprint(&buf, fset, e)
	return buf.String()
}

// firstFuncLit returns the first function literal returned by fd.
func c07ReturnedFuncLit(fd *ast.FuncDecl) *ast.FuncLit {
	var lit *ast.FuncLit
	if fd == nil {
		return nil
	}
	ast.Inspect(fd.Body, func(n ast.Node) bool {
		if rs, ok := n.(*ast.ReturnStmt); ok && lit == nil && len(rs.Results) == 1 {
			if fl, ok := rs.Results[0].(*ast.FuncLit); ok {
				lit = fl
			}
		}
		return lit == nil
	})
	return lit
}

func c07ParamName(fl *ast.FuncLit) string {
	if fl == nil || fl.Type.Params == nil || len(fl.Type.Params.List) == 0 || len(fl.Type.Params.List[0].Names) == 0 {
		return ""
	}
	return fl.Type.Params.List[0].Names[0].Name
}

// fieldsOf lists the fields `p.X` selected on the identifier p inside e, and the called functions (outermost first).
func c07FieldsAndCalls(fset *token.FileSet, e ast.Expr, p string) (fields []string, calls []string) {
	ast.Inspect(e, func(n ast.Node) bool {
		switch x := n.(type) {
		case *ast.CallExpr:
			name := c07ExprText(fset, x.Fun)
			// method called on a field of p: keep only the method name
			if se, ok := x.Fun.(*ast.SelectorExpr); ok {
				if inner, ok := se.X.(*ast.SelectorExpr); ok {
					if id, ok := inner.X.(*ast.Ident); ok && id.Name == p {
						name = se.Sel.Name
					}
				}
			}
			calls = append(calls, name)
		case *ast.SelectorExpr:
			if id, ok := x.X.(*ast.Ident); ok && id.Name == p {
				fields = append(fields, x.Sel.Name)
			}
		}
		return true
	})
	return
}

func c07LeanListOfLists(xss [][]string) string {
	parts := make([]string, 0, len(xss))
	for _, xs := range xss {
		parts = append(parts, leanBytesList(xs))
	}
	return "[" + strings.Join(parts, ", ") + "]"
}

func extractC07(f *facts) {
	file := f.parse("lib/results.go")

	// --- CSV encoder: the []string literal passed to enc.Write
	var encFields []string
	var encCalls [][]string
	if fl := c07ReturnedFuncLit(funcDecl(file, "", "NewCSVEncoder")); fl != nil {
		p := c07ParamName(fl)
		ast.Inspect(fl.Body, func(n ast.Node) bool {
			cl, ok := n.(*ast.CompositeLit)
			if !ok || encFields != nil {
				return true
			}
			if at, ok := cl.Type.(*ast.ArrayType); !ok || c07ExprText(f.fset, at.Elt) != "string" {
				return true
			}
			for _, el := range cl.Elts {
				fs, cs := c07FieldsAndCalls(f.fset, el, p)
				encFields = append(encFields, strings.Join(fs, "+"))
				encCalls = append(encCalls, cs)
			}
			return false
		})
	}
	f.def("csvEncFields", "List (List Nat)", leanBytesList(encFields))
	f.def("csvEncCalls", "List (List (List Nat))", c07LeanListOfLists(encCalls))

	// --- CSV decoder: which rec[i] flows into which field (assignment-level taint), reader configuration
	type flow struct {
		idx   int
		field string
		calls []string
	}
	var flows []flow
	fieldsPerRecord, trimLeading := -1, false
	if fd := funcDecl(file, "", "NewCSVDecoder"); fd != nil {
		ast.Inspect(fd.Body, func(n ast.Node) bool {
			as, ok := n.(*ast.AssignStmt)
			if !ok || len(as.Lhs) != 1 || len(as.Rhs) != 1 {
				return true
			}
			if se, ok := as.Lhs[0].(*ast.SelectorExpr); ok {
				switch se.Sel.Name {
				case "FieldsPerRecord":
					if bl, ok := as.Rhs[0].(*ast.BasicLit); ok {
						fieldsPerRecord, _ = strconv.Atoi(bl.Value)
					}
				case "TrimLeadingSpace":
					trimLeading = c07ExprText(f.fset, as.Rhs[0]) == "true"
				}
			}
			return true
		})
		if fl := c07ReturnedFuncLit(fd); fl != nil {
			p := c07ParamName(fl)
			recName := ""
			taint := map[string]map[int][]string{} // variable -> rec index -> calls so far
			recIdx := func(e ast.Expr) map[int][]string {
				out := map[int][]string{}
				var calls []string
				ast.Inspect(e, func(n ast.Node) bool {
					switch x := n.(type) {
					case *ast.CallExpr:
						calls = append(calls, c07ExprText(f.fset, x.Fun))
					case *ast.IndexExpr:
						if id, ok := x.X.(*ast.Ident); ok && id.Name == recName {
							if bl, ok := x.Index.(*ast.BasicLit); ok {
								i, _ := strconv.Atoi(bl.Value)
								out[i] = nil
							}
						}
					case *ast.Ident:
						for i, cs := range taint[x.Name] {
							if _, ok := out[i]; !ok {
								out[i] = cs
							}
						}
					}
					return true
				})
				for i := range out {
					out[i] = append(append([]string{}, out[i]...), calls...)
				}
				return out
			}
			var walk func(ast.Stmt)
			assign := func(as *ast.AssignStmt) {
				if len(as.Rhs) != 1 {
					return
				}
				// the record variable: `rec, err := dec.Read()`
				if call, ok := as.Rhs[0].(*ast.CallExpr); ok && recName == "" && strings.HasSuffix(c07ExprText(f.fset, call.Fun), ".Read") {
					if id, ok := as.Lhs[0].(*ast.Ident); ok {
						recName = id.Name
						return
					}
				}
				src := recIdx(as.Rhs[0])
				for _, l := range as.Lhs {
					switch x := l.(type) {
					case *ast.Ident:
						if x.Name == "err" || x.Name == "_" {
							continue
						}
						taint[x.Name] = src
					case *ast.SelectorExpr:
						if id, ok := x.X.(*ast.Ident); ok && id.Name == p {
							for i, cs := range src {
								flows = append(flows, flow{i, x.Sel.Name, cs})
							}
						}
					}
				}
			}
			walk = func(s ast.Stmt) {
				switch x := s.(type) {
				case *ast.AssignStmt:
					assign(x)
				case *ast.IfStmt:
					if x.Init != nil {
						walk(x.Init)
					}
					walk(x.Body)
					if x.Else != nil {
						walk(x.Else)
					}
				case *ast.BlockStmt:
					for _, t := range x.List {
						walk(t)
					}
				}
			}
			walk(fl.Body)
		}
	}
	sort.SliceStable(flows, func(i, j int) bool { return flows[i].idx < flows[j].idx })
	var decIdx []int
	var decFields []string
	var decCalls [][]string
	for _, fl := range flows {
		decIdx = append(decIdx, fl.idx)
		decFields = append(decFields, fl.field)
		decCalls = append(decCalls, fl.calls)
	}
	f.def("csvDecIndex", "List Nat", leanNatList(decIdx))
	f.def("csvDecFields", "List (List Nat)", leanBytesList(decFields))
	f.def("csvDecCalls", "List (List (List Nat))", c07LeanListOfLists(decCalls))
	if fieldsPerRecord < 0 {
		fieldsPerRecord = 0
	}
	f.def("csvFieldsPerRecord", "Nat", fmt.Sprint(fieldsPerRecord))
	f.def("csvTrimLeadingSpace", "Bool", leanBool(trimLeading))

	// --- the Result struct: name, type, json tag of every field
	var names, types, tags []string
	if file != nil {
		ast.Inspect(file, func(n ast.Node) bool {
			ts, ok := n.(*ast.TypeSpec)
			if !ok || ts.Name.Name != "Result" {
				return true
			}
			st, ok := ts.Type.(*ast.StructType)
			if !ok {
				return true
			}
			for _, fld := range st.Fields.List {
				tag := ""
				if fld.Tag != nil {
					if m := regexp.MustCompile(`json:"([^",]*)`).FindStringSubmatch(fld.Tag.Value); m != nil {
						tag = m[1]
					}
				}
				if len(fld.Names) == 0 { // embedded field
					names = append(names, c07ExprText(f.fset, fld.Type))
					types = append(types, c07ExprText(f.fset, fld.Type))
					tags = append(tags, tag)
				}
				for _, nm := range fld.Names {
					names = append(names, nm.Name)
					types = append(types, c07ExprText(f.fset, fld.Type))
					tags = append(tags, tag)
				}
			}
			return false
		})
	}
	f.def("resultFieldNames", "List (List Nat)", leanBytesList(names))
	f.def("resultFieldTypes", "List (List Nat)", leanBytesList(types))
	f.def("resultFieldTags", "List (List Nat)", leanBytesList(tags))

	// --- generated JSON code: member names written by the encoder (in order) and accepted by the decoder
	ej := f.parse("lib/results_easyjson.go")
	var encKeys, decKeys []string
	if ej != nil {
		keyRe := regexp.MustCompile(`^,"([^"]*)":$`)
		for _, d := range ej.Decls {
			fd, ok := d.(*ast.FuncDecl)
			if !ok || fd.Recv != nil {
				continue
			}
			isEnc := strings.Contains(fd.Name.Name, "Encode")
			isDec := strings.Contains(fd.Name.Name, "Decode")
			ast.Inspect(fd.Body, func(n ast.Node) bool {
				switch x := n.(type) {
				case *ast.ValueSpec: // const prefix string = ",\"attack\":"
					if isEnc && len(x.Values) == 1 {
						if bl, ok := x.Values[0].(*ast.BasicLit); ok && bl.Kind == token.STRING {
							if s, err := strconv.Unquote(bl.Value); err == nil {
								if m := keyRe.FindStringSubmatch(s); m != nil {
									encKeys = append(encKeys, m[1])
								}
							}
						}
					}
				case *ast.SwitchStmt: // switch key { case "attack": … }
					if isDec && c07ExprText(f.fset, x.Tag) == "key" {
						for _, c := range x.Body.List {
							for _, e := range c.(*ast.CaseClause).List {
								if bl, ok := e.(*ast.BasicLit); ok {
									s, _ := strconv.Unquote(bl.Value)
									decKeys = append(decKeys, s)
								}
							}
						}
						return false
					}
				}
				return true
			})
		}
	}
	f.def("jsonEncKeys", "List (List Nat)", leanBytesList(encKeys))
	f.def("jsonDecKeys", "List (List Nat)", leanBytesList(decKeys))

	// --- documented CSV columns: numbered lines of the usage text (encode.go) and of README.md
	colRe := regexp.MustCompile(`(?m)^\s*(\d+)\.\s+(.*?)\s*$`)
	docCols := func(text string) []string {
		// the list following "The columns written by it are:"
		i := strings.Index(text, "The columns written by it are:")
		if i < 0 {
			return nil
		}
		text = text[i:]
		if j := strings.Index(text, "Arguments:"); j >= 0 {
			text = text[:j]
		}
		var out []string
		for _, m := range colRe.FindAllStringSubmatch(text, -1) {
			n, _ := strconv.Atoi(m[1])
			if n != len(out)+1 {
				return append(out, "misnumbered: "+m[0])
			}
			out = append(out, m[2])
		}
		return out
	}
	usage := ""
	if enc := f.parse("encode.go"); enc != nil {
		ast.Inspect(enc, func(n ast.Node) bool {
			if vs, ok := n.(*ast.ValueSpec); ok && len(vs.Names) == 1 && vs.Names[0].Name == "encodeUsage" && len(vs.Values) == 1 {
				if bl, ok := vs.Values[0].(*ast.BasicLit); ok {
					usage, _ = strconv.Unquote(bl.Value)
				}
			}
			return true
		})
	}
	f.def("docCSVColumnsUsage", "List (List Nat)", leanBytesList(docCols(usage)))
	readme, _ := os.ReadFile(filepath.Join(f.repo, "README.md"))
	f.def("docCSVColumnsReadme", "List (List Nat)", leanBytesList(docCols(string(readme))))
}
