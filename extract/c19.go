package main

// Facts of property C19 (command-line values): the default rate literal of attackCmd, the
// value of DefaultMaxWorkers, the guard at the top of attack(), the pacer argument handed to
// Attack, the flag-name <-> value-type table, the literals of rateFlag.Set, and the unit
// table of datasize.ByteSize.UnmarshalText (read from the module the repo's go.mod pins).

import (
	"bytes"
	"fmt"
	"go/ast"
	"go/parser"
	"go/printer"
	"go/token"
	"os"
	"path/filepath"
	"strconv"
	"strings"
)

func init() { extractors = append(extractors, extractC19) }

func c19Src(f *facts, n ast.Node) string {
	if n == nil {
		return ""
	}
	var buf bytes.Buffer
	if err := printer.Fprint(&buf, f.fset, n); err != nil {
		return ""
	}
	return buf.String()
}

var c19TimeConsts = map[string]int64{"Nanosecond": 1, "Microsecond": 1000, "Millisecond": 1000000, "Second": 1000000000,
	"Minute": 60000000000, "Hour": 3600000000000}

// c19Nanos: `time.X` or `N * time.X`
func c19Nanos(e ast.Expr) (int64, bool) {
	switch x := e.(type) {
	case *ast.SelectorExpr:
		if id, ok := x.X.(*ast.Ident); ok && id.Name == "time" {
			v, ok := c19TimeConsts[x.Sel.Name]
			return v, ok
		}
	case *ast.BinaryExpr:
		if x.Op == token.MUL {
			if bl, ok := x.X.(*ast.BasicLit); ok && bl.Kind == token.INT {
				n, err := strconv.ParseInt(bl.Value, 10, 64)
				u, ok := c19Nanos(x.Y)
				return n * u, ok && err == nil
			}
		}
	}
	return 0, false
}

func c19StrLit(e ast.Expr) (string, bool) {
	bl, ok := e.(*ast.BasicLit)
	if !ok || bl.Kind != token.STRING {
		return "", false
	}
	s, err := strconv.Unquote(bl.Value)
	return s, err == nil
}

// the type a flag.Value argument `&T{…}` or `&opts.field` has
func c19ValueType(arg ast.Expr, fieldTypes map[string]string) string {
	u, ok := arg.(*ast.UnaryExpr)
	if !ok || u.Op != token.AND {
		return "?"
	}
	switch x := u.X.(type) {
	case *ast.CompositeLit:
		if id, ok := x.Type.(*ast.Ident); ok {
			return id.Name
		}
	case *ast.SelectorExpr:
		if t, ok := fieldTypes[x.Sel.Name]; ok {
			return t
		}
	}
	return "?"
}

func extractC19(f *facts) {
	atk := f.parse("attack.go")
	atkNW := f.parse("attack_nonwindows.go")
	flags := f.parse("flags.go")
	lib := f.parse("lib/attack.go")

	// --- field types of attackOpts ---
	fieldTypes := map[string]string{}
	if atk != nil {
		ast.Inspect(atk, func(n ast.Node) bool {
			ts, ok := n.(*ast.TypeSpec)
			if !ok || ts.Name.Name != "attackOpts" {
				return true
			}
			if st, ok := ts.Type.(*ast.StructType); ok {
				for _, fl := range st.Fields.List {
					for _, nm := range fl.Names {
						fieldTypes[nm.Name] = c19Src(f, fl.Type)
					}
				}
			}
			return false
		})
	}

	// --- default rate literal in attackCmd: the `rate:` element of the attackOpts literal ---
	freq, per, rateOK := int64(0), int64(0), false
	if fd := funcDecl(atk, "", "attackCmd"); fd != nil {
		ast.Inspect(fd, func(n ast.Node) bool {
			kv, ok := n.(*ast.KeyValueExpr)
			if !ok {
				return true
			}
			if id, ok := kv.Key.(*ast.Ident); !ok || id.Name != "rate" {
				return true
			}
			cl, ok := kv.Value.(*ast.CompositeLit)
			if !ok {
				return true
			}
			gotF, gotP := false, false
			for _, el := range cl.Elts {
				e, ok := el.(*ast.KeyValueExpr)
				if !ok {
					continue
				}
				switch e.Key.(*ast.Ident).Name {
				case "Freq":
					if bl, ok := e.Value.(*ast.BasicLit); ok {
						v, err := strconv.ParseInt(bl.Value, 10, 64)
						freq, gotF = v, err == nil
					}
				case "Per":
					per, gotP = c19Nanos(e.Value)
				}
			}
			rateOK = gotF && gotP
			return false
		})
	}
	f.def("c19DefaultRateFound", "Bool", leanBool(rateOK))
	f.def("c19DefaultRate", "Int × Int", fmt.Sprintf("(%d, %d)", freq, per))

	// --- DefaultMaxWorkers ---
	mw := ""
	if lib != nil {
		ast.Inspect(lib, func(n ast.Node) bool {
			vs, ok := n.(*ast.ValueSpec)
			if !ok {
				return true
			}
			for i, nm := range vs.Names {
				if nm.Name == "DefaultMaxWorkers" && i < len(vs.Values) {
					mw = c19Src(f, vs.Values[i])
				}
			}
			return true
		})
	}
	f.def("c19DefaultMaxWorkersExpr", "List Nat", leanBytes(mw))
	mwVal := "0"
	if mw == "math.MaxUint64" {
		mwVal = "18446744073709551615"
	}
	f.def("c19DefaultMaxWorkers", "Nat", mwVal)

	// --- the guard: first statement of attack() ---
	guardCond, guardFirst, guardReturnsErr := "", false, false
	pacerArg := ""
	if fd := funcDecl(atk, "", "attack"); fd != nil && fd.Body != nil && len(fd.Body.List) > 0 {
		if is, ok := fd.Body.List[0].(*ast.IfStmt); ok && is.Init == nil {
			guardFirst = true
			guardCond = c19Src(f, is.Cond)
			if len(is.Body.List) == 1 {
				if rs, ok := is.Body.List[0].(*ast.ReturnStmt); ok && len(rs.Results) == 1 {
					if ce, ok := rs.Results[0].(*ast.CallExpr); ok && c19Src(f, ce.Fun) == "fmt.Errorf" {
						guardReturnsErr = true
					}
				}
			}
		}
		ast.Inspect(fd, func(n ast.Node) bool {
			ce, ok := n.(*ast.CallExpr)
			if !ok {
				return true
			}
			if se, ok := ce.Fun.(*ast.SelectorExpr); ok && se.Sel.Name == "Attack" && len(ce.Args) >= 2 {
				pacerArg = c19Src(f, ce.Args[1])
			}
			return true
		})
	}
	f.def("c19GuardIsFirstStatement", "Bool", leanBool(guardFirst))
	f.def("c19GuardReturnsError", "Bool", leanBool(guardReturnsErr))
	f.def("c19GuardCond", "List Nat", leanBytes(guardCond))
	f.def("c19PacerArg", "List Nat", leanBytes(pacerArg))

	// --- flag table: name, kind of registration / value type, bound field ---
	type row struct{ name, typ, field string }
	var rows []row
	want := map[string]bool{"rate": true, "header": true, "max-body": true, "dns-ttl": true, "connect-to": true, "max-workers": true, "resolvers": true}
	for _, file := range []*ast.File{atk, atkNW} {
		if file == nil {
			continue
		}
		ast.Inspect(file, func(n ast.Node) bool {
			ce, ok := n.(*ast.CallExpr)
			if !ok {
				return true
			}
			se, ok := ce.Fun.(*ast.SelectorExpr)
			if !ok || len(ce.Args) < 2 {
				return true
			}
			name, ok := c19StrLit(ce.Args[1])
			if !ok || !want[name] {
				return true
			}
			typ := se.Sel.Name
			if typ == "Var" {
				typ = c19ValueType(ce.Args[0], fieldTypes)
			}
			field := ""
			ast.Inspect(ce.Args[0], func(m ast.Node) bool {
				if s, ok := m.(*ast.SelectorExpr); ok {
					if id, ok := s.X.(*ast.Ident); ok && id.Name == "opts" {
						field = s.Sel.Name
					}
				}
				return true
			})
			rows = append(rows, row{name, typ, field})
			return true
		})
	}
	var sb strings.Builder
	sb.WriteString("[")
	for i, r := range rows {
		if i > 0 {
			sb.WriteString(", ")
		}
		sb.WriteString("(" + leanBytes(r.name) + ", " + leanBytes(r.typ) + ", " + leanBytes(r.field) + ")")
	}
	sb.WriteString("]")
	f.def("c19FlagTable", "List (List Nat × List Nat × List Nat)", sb.String())

	// --- plumbing in attack(): what each parsed value is handed to ---
	var hdrInit, targeterHdrArgs, optionArgs []string
	if fd := funcDecl(atk, "", "attack"); fd != nil {
		ast.Inspect(fd, func(n ast.Node) bool {
			switch x := n.(type) {
			case *ast.ValueSpec:
				for i, nm := range x.Names {
					if (nm.Name == "hdr" || nm.Name == "proxyHdr") && i < len(x.Values) {
						hdrInit = append(hdrInit, nm.Name+" = "+c19Src(f, x.Values[i]))
					}
				}
			case *ast.AssignStmt:
				for i, l := range x.Lhs {
					if id, ok := l.(*ast.Ident); ok && (id.Name == "hdr" || id.Name == "proxyHdr") && i < len(x.Rhs) {
						hdrInit = append(hdrInit, id.Name+" "+x.Tok.String()+" "+c19Src(f, x.Rhs[i]))
					}
				}
			case *ast.CallExpr:
				se, ok := x.Fun.(*ast.SelectorExpr)
				if !ok {
					return true
				}
				switch se.Sel.Name {
				case "NewJSONTargeter", "NewHTTPTargeter":
					if len(x.Args) == 3 {
						targeterHdrArgs = append(targeterHdrArgs, se.Sel.Name+"("+c19Src(f, x.Args[2])+")")
					}
				case "MaxWorkers", "MaxBody", "ProxyHeader", "DNSCaching", "ConnectTo":
					if len(x.Args) == 1 {
						optionArgs = append(optionArgs, se.Sel.Name+"("+c19Src(f, x.Args[0])+")")
					}
				}
			}
			return true
		})
	}
	f.def("c19HeaderVars", "List (List Nat)", leanBytesList(hdrInit))
	f.def("c19TargeterHeaderArgs", "List (List Nat)", leanBytesList(targeterHdrArgs))
	f.def("c19OptionArgs", "List (List Nat)", leanBytesList(optionArgs))

	// --- defaults: the keys of the attackOpts literal in attackCmd and the value of maxBody ---
	var litKeys []string
	maxBodyDefault := ""
	if fd := funcDecl(atk, "", "attackCmd"); fd != nil {
		ast.Inspect(fd, func(n ast.Node) bool {
			cl, ok := n.(*ast.CompositeLit)
			if !ok || c19Src(f, cl.Type) != "attackOpts" {
				return true
			}
			for _, el := range cl.Elts {
				if kv, ok := el.(*ast.KeyValueExpr); ok {
					k := c19Src(f, kv.Key)
					litKeys = append(litKeys, k)
					if k == "maxBody" {
						maxBodyDefault = c19Src(f, kv.Value)
					}
				}
			}
			return false
		})
	}
	libMaxBody := ""
	if lib != nil {
		ast.Inspect(lib, func(n ast.Node) bool {
			if vs, ok := n.(*ast.ValueSpec); ok {
				for i, nm := range vs.Names {
					if nm.Name == "DefaultMaxBody" && i < len(vs.Values) {
						libMaxBody = c19Src(f, vs.Values[i])
					}
				}
			}
			return true
		})
	}
	f.def("c19OptsLiteralKeys", "List (List Nat)", leanBytesList(litKeys))
	f.def("c19DefaultMaxBodyExpr", "List (List Nat)", leanBytesList([]string{maxBodyDefault, libMaxBody}))

	// --- rateFlag.Set: the literals ---
	var words, units []string
	var wordBodies [][]string
	defPer := ""
	sep := ""
	if fd := funcDecl(flags, "rateFlag", "Set"); fd != nil {
		ast.Inspect(fd, func(n ast.Node) bool {
			switch x := n.(type) {
			case *ast.IfStmt:
				// `if v == "<word>" { <statements> }`: the special words and what their branch does
				if be, ok := x.Cond.(*ast.BinaryExpr); ok && be.Op == token.EQL {
					if s, ok := c19StrLit(be.Y); ok {
						words = append(words, s)
						var body []string
						for _, st := range x.Body.List {
							body = append(body, c19Src(f, st))
						}
						wordBodies = append(wordBodies, body)
					}
				}
			case *ast.CaseClause:
				allStr := len(x.List) > 0
				var ss []string
				for _, e := range x.List {
					s, ok := c19StrLit(e)
					allStr = allStr && ok
					ss = append(ss, s)
				}
				if allStr {
					units = append(units, ss...)
				}
			case *ast.CallExpr:
				switch c19Src(f, x.Fun) {
				case "append":
					if len(x.Args) == 2 {
						if s, ok := c19StrLit(x.Args[1]); ok {
							defPer = s
						}
					}
				case "strings.SplitN":
					if len(x.Args) == 3 {
						s, _ := c19StrLit(x.Args[1])
						sep = s + "|" + c19Src(f, x.Args[2])
					}
				}
			}
			return true
		})
	}
	f.def("c19RateSpecialWords", "List (List Nat)", leanBytesList(words))
	// statements of each special word's branch, in order (e.g. ["f.Freq = 0", "return nil"])
	wb := make([]string, len(wordBodies))
	for i, b := range wordBodies {
		wb[i] = leanBytesList(b)
	}
	f.def("c19RateSpecialWordBranches", "List (List (List Nat))", "["+strings.Join(wb, ", ")+"]")
	f.def("c19RateBareUnits", "List (List Nat)", leanBytesList(units))
	f.def("c19RateDefaultPer", "List Nat", leanBytes(defPer))
	f.def("c19RateSplit", "List Nat", leanBytes(sep))

	// --- datasize unit table (module pinned by go.mod) ---
	type urow struct {
		names []string
		mult  string
	}
	var utab []urow
	var bits []string
	if dir := c19ModuleDir(f.repo, "github.com/c2h5oh/datasize"); dir != "" {
		if file, err := parser.ParseFile(f.fset, filepath.Join(dir, "datasize.go"), nil, 0); err == nil {
			if fd := funcDecl(file, "ByteSize", "UnmarshalText"); fd != nil {
				ast.Inspect(fd, func(n ast.Node) bool {
					cc, ok := n.(*ast.CaseClause)
					if !ok || len(cc.List) == 0 {
						return true
					}
					var names []string
					for _, e := range cc.List {
						s, ok := c19StrLit(e)
						if !ok {
							return true
						}
						names = append(names, s)
					}
					mult := "B"
					isGoto := false
					for _, st := range cc.Body {
						ast.Inspect(st, func(m ast.Node) bool {
							switch y := m.(type) {
							case *ast.AssignStmt:
								if y.Tok == token.MUL_ASSIGN && len(y.Rhs) == 1 {
									if ce, ok := y.Rhs[0].(*ast.CallExpr); ok && len(ce.Args) == 1 {
										mult = c19Src(f, ce.Args[0])
									}
								}
							case *ast.BranchStmt:
								if y.Tok == token.GOTO && y.Label != nil && y.Label.Name == "BitsError" {
									isGoto = true
								}
							}
							return true
						})
					}
					if isGoto {
						bits = append(bits, names...)
					} else {
						utab = append(utab, urow{names, mult})
					}
					return true
				})
			}
		}
	}
	shift := map[string]int{"B": 0, "KB": 10, "MB": 20, "GB": 30, "TB": 40, "PB": 50, "EB": 60}
	sb.Reset()
	sb.WriteString("[")
	for i, r := range utab {
		if i > 0 {
			sb.WriteString(", ")
		}
		sh, ok := shift[r.mult]
		if !ok {
			sh = 999
		}
		sb.WriteString("(" + leanBytesList(r.names) + ", " + fmt.Sprint(sh) + ")")
	}
	sb.WriteString("]")
	f.def("c19DatasizeUnits", "List (List (List Nat) × Nat)", sb.String())
	f.def("c19DatasizeBitsUnits", "List (List Nat)", leanBytesList(bits))
}

// c19ModuleDir: directory of the module version required by the repo's go.mod, in the module cache.
func c19ModuleDir(repo, mod string) string {
	b, err := os.ReadFile(filepath.Join(repo, "go.mod"))
	if err != nil {
		return ""
	}
	ver := ""
	for _, l := range strings.Split(string(b), "\n") {
		fs := strings.Fields(l)
		for i, x := range fs {
			if x == mod && i+1 < len(fs) {
				ver = fs[i+1]
			}
		}
	}
	if ver == "" {
		return ""
	}
	caches := []string{os.Getenv("GOMODCACHE")}
	if gp := os.Getenv("GOPATH"); gp != "" {
		caches = append(caches, filepath.Join(gp, "pkg", "mod"))
	}
	if home, err := os.UserHomeDir(); err == nil {
		caches = append(caches, filepath.Join(home, "go", "pkg", "mod"))
	}
	for _, c := range caches {
		if c == "" {
			continue
		}
		d := filepath.Join(c, mod+"@"+ver)
		if st, err := os.Stat(d); err == nil && st.IsDir() {
			return d
		}
	}
	return ""
}
