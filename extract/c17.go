package main

// Facts of property C17 (plot): how lib/plot/timeseries.go uses the compressed store
// github.com/tsenart/go-tsz.  go-tsz writes the first time stamp of a series as a 27-bit offset
// from the series' T0 and reads a time stamp 0 as "no point yet"; the model's store assumption
// (Lossless / tszDomain in Model/Plot.lean) is only adequate if
//   - the series is created at its first point:  if ts.data == nil { ts.data = tsz.New(t + 1) }
//   - the shifted time stamp is pushed:           ts.data.Push(t+1, v)
//   - the iterator undoes the shift:              time.Duration((t - 1) * 1e6).Seconds()
//   - newTimeSeries does not create the store, and iter guards against a nil store.

import (
	"bytes"
	"fmt"
	"go/ast"
	"go/printer"
	"go/token"
	"strings"
)

func init() { extractors = append(extractors, extractC17) }

func c17Src(f *facts, n ast.Node) string {
	if n == nil {
		return ""
	}
	var buf bytes.Buffer
	if err := printer.Fprint(&buf, f.fset, n); err != nil {
		return ""
	}
	return buf.String()
}

// c17IsTszNew: a call `tsz.New(…)`
func c17IsTszNew(e ast.Expr) (*ast.CallExpr, bool) {
	c, ok := e.(*ast.CallExpr)
	if !ok {
		return nil, false
	}
	sel, ok := c.Fun.(*ast.SelectorExpr)
	if !ok || sel.Sel.Name != "New" {
		return nil, false
	}
	id, ok := sel.X.(*ast.Ident)
	return c, ok && id.Name == "tsz"
}

// c17DataNil: `<recv>.data == nil`
func c17DataNil(e ast.Expr) bool {
	b, ok := e.(*ast.BinaryExpr)
	if !ok || b.Op != token.EQL {
		return false
	}
	sel, ok := b.X.(*ast.SelectorExpr)
	if !ok || sel.Sel.Name != "data" {
		return false
	}
	id, ok := b.Y.(*ast.Ident)
	return ok && id.Name == "nil"
}

func c17CountTszNew(n ast.Node) int {
	cnt := 0
	if n == nil {
		return 0
	}
	ast.Inspect(n, func(x ast.Node) bool {
		if e, ok := x.(ast.Expr); ok {
			if _, is := c17IsTszNew(e); is {
				cnt++
			}
		}
		return true
	})
	return cnt
}

func extractC17(f *facts) {
	file := f.parse("lib/plot/timeseries.go")

	// (*timeSeries).add
	createsWhenNil, createBeforePush := false, false
	newArg := ""
	var pushArgs []string
	pushes := 0
	if fd := funcDecl(file, "timeSeries", "add"); fd != nil && fd.Body != nil {
		createPos, pushPos := token.NoPos, token.NoPos
		for _, st := range fd.Body.List { // top-level statements of add
			switch s := st.(type) {
			case *ast.IfStmt:
				if !c17DataNil(s.Cond) || s.Else != nil || len(s.Body.List) != 1 {
					continue
				}
				as, ok := s.Body.List[0].(*ast.AssignStmt)
				if !ok || len(as.Lhs) != 1 || len(as.Rhs) != 1 || as.Tok != token.ASSIGN {
					continue
				}
				lhs, ok := as.Lhs[0].(*ast.SelectorExpr)
				if !ok || lhs.Sel.Name != "data" {
					continue
				}
				if call, is := c17IsTszNew(as.Rhs[0]); is && len(call.Args) == 1 {
					createsWhenNil = true
					newArg = c17Src(f, call.Args[0])
					createPos = s.Pos()
				}
			case *ast.ExprStmt:
				call, ok := s.X.(*ast.CallExpr)
				if !ok {
					continue
				}
				sel, ok := call.Fun.(*ast.SelectorExpr)
				if !ok || sel.Sel.Name != "Push" {
					continue
				}
				if inner, ok := sel.X.(*ast.SelectorExpr); ok && inner.Sel.Name == "data" {
					pushes++
					pushPos = s.Pos()
					pushArgs = nil
					for _, a := range call.Args {
						pushArgs = append(pushArgs, c17Src(f, a))
					}
				}
			}
		}
		createBeforePush = createPos != token.NoPos && pushPos != token.NoPos && createPos < pushPos
	}
	f.def("c17AddCreatesWhenNil", "Bool", leanBool(createsWhenNil))
	f.def("c17TszNewArg", "List Nat", leanBytes(newArg))
	f.def("c17PushCount", "Nat", fmt.Sprint(pushes))
	f.def("c17PushArgs", "List (List Nat)", leanBytesList(pushArgs))
	f.def("c17CreateBeforePush", "Bool", leanBool(createBeforePush))

	// newTimeSeries must not create the store; the file creates it exactly once (in add)
	f.def("c17NewTimeSeriesCreatesStore", "Bool", leanBool(c17CountTszNew(funcDecl(file, "", "newTimeSeries")) > 0))
	total := 0
	if file != nil {
		total = c17CountTszNew(file)
	}
	f.def("c17TszNewCalls", "Nat", fmt.Sprint(total))

	// (*timeSeries).iter: nil guard first, X decoded from the un-shifted time stamp
	nilGuard := false
	xExpr := ""
	if fd := funcDecl(file, "timeSeries", "iter"); fd != nil && fd.Body != nil {
		if len(fd.Body.List) > 0 {
			if s, ok := fd.Body.List[0].(*ast.IfStmt); ok && c17DataNil(s.Cond) && len(s.Body.List) == 1 {
				_, nilGuard = s.Body.List[0].(*ast.ReturnStmt)
			}
		}
		ast.Inspect(fd.Body, func(x ast.Node) bool {
			kv, ok := x.(*ast.KeyValueExpr)
			if !ok {
				return true
			}
			if id, ok := kv.Key.(*ast.Ident); ok && id.Name == "X" {
				xExpr = c17Src(f, kv.Value)
			}
			return true
		})
	}
	f.def("c17IterNilGuard", "Bool", leanBool(nilGuard))
	f.def("c17IterXExpr", "List Nat", leanBytes(xExpr))

	extractC17Command(f)
}

// the plot command's glue (plot.go): flag names and default values of plotCmd, the call of
// plotRun with the flag values, the default input, and the options plotRun hands to plot.New.
func extractC17Command(f *facts) {
	file := f.parse("plot.go")
	var flags [][2]string // name, default (source text)
	var callArgs, newOpts []string
	defaultInput := ""
	if fd := funcDecl(file, "", "plotCmd"); fd != nil && fd.Body != nil {
		ast.Inspect(fd.Body, func(x ast.Node) bool {
			switch n := x.(type) {
			case *ast.CallExpr:
				if sel, ok := n.Fun.(*ast.SelectorExpr); ok {
					if id, ok := sel.X.(*ast.Ident); ok && id.Name == "fs" && len(n.Args) == 3 &&
						(sel.Sel.Name == "Int" || sel.Sel.Name == "String") {
						if bl, ok := n.Args[0].(*ast.BasicLit); ok {
							flags = append(flags, [2]string{bl.Value, c17Src(f, n.Args[1])})
						}
					}
				}
				if id, ok := n.Fun.(*ast.Ident); ok && id.Name == "plotRun" {
					callArgs = nil
					for _, a := range n.Args {
						callArgs = append(callArgs, c17Src(f, a))
					}
				}
			case *ast.IfStmt:
				// if len(files) == 0 { files = append(files, "stdin") }
				if c17Src(f, n.Cond) == "len(files) == 0" && len(n.Body.List) == 1 {
					defaultInput = c17Src(f, n.Body.List[0])
				}
			}
			return true
		})
	}
	var params []string
	if fd := funcDecl(file, "", "plotRun"); fd != nil && fd.Body != nil {
		for _, fl := range fd.Type.Params.List {
			for _, nm := range fl.Names {
				params = append(params, nm.Name)
			}
		}
		ast.Inspect(fd.Body, func(x ast.Node) bool {
			if n, ok := x.(*ast.CallExpr); ok {
				if sel, ok := n.Fun.(*ast.SelectorExpr); ok && sel.Sel.Name == "New" {
					if id, ok := sel.X.(*ast.Ident); ok && id.Name == "plot" {
						newOpts = nil
						for _, a := range n.Args {
							newOpts = append(newOpts, c17Src(f, a))
						}
					}
				}
			}
			return true
		})
	}
	parts := make([]string, 0, len(flags))
	for _, fl := range flags {
		parts = append(parts, "("+leanBytes(fl[0])+", "+leanBytes(fl[1])+")")
	}
	f.def("c17PlotFlags", "List (List Nat × List Nat)", "["+strings.Join(parts, ", ")+"]")
	f.def("c17PlotRunCallArgs", "List (List Nat)", leanBytesList(callArgs))
	f.def("c17PlotRunParams", "List (List Nat)", leanBytesList(params))
	f.def("c17PlotDefaultInput", "List Nat", leanBytes(defaultInput))
	f.def("c17PlotNewOpts", "List (List Nat)", leanBytesList(newOpts))
}
