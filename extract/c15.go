package main

// Facts of properties C14 and C15 (targeters, lib/targets.go): where the shared state of each
// targeter is touched relative to its lock / atomic operation, the method regexp, and whether
// the http targeter's default merge assigns the default slices themselves.

import (
	"go/ast"
	"go/token"
	"strconv"
)

func init() { extractors = append(extractors, extractC15) }

// returned closure of a constructor: the FuncLit of its (last) return statement
func returnedFuncLit(fd *ast.FuncDecl) *ast.FuncLit {
	if fd == nil || fd.Body == nil {
		return nil
	}
	var lit *ast.FuncLit
	for _, st := range fd.Body.List {
		if rs, ok := st.(*ast.ReturnStmt); ok && len(rs.Results) == 1 {
			if fl, ok := rs.Results[0].(*ast.FuncLit); ok {
				lit = fl
			}
		}
	}
	return lit
}

// `x.name()` as an expression: returns x's identifier
func methodCallOn(e ast.Expr, name string) (string, bool) {
	ce, ok := e.(*ast.CallExpr)
	if !ok || len(ce.Args) != 0 {
		return "", false
	}
	se, ok := ce.Fun.(*ast.SelectorExpr)
	if !ok || se.Sel.Name != name {
		return "", false
	}
	id, ok := se.X.(*ast.Ident)
	if !ok {
		return "", false
	}
	return id.Name, true
}

func countIdent(n ast.Node, name string, skip func(token.Pos) bool) int {
	c := 0
	ast.Inspect(n, func(x ast.Node) bool {
		if id, ok := x.(*ast.Ident); ok && id.Name == name && !skip(id.Pos()) {
			c++
		}
		return true
	})
	return c
}

func extractC15(f *facts) {
	file := f.parse("lib/targets.go")

	// ---- static targeter: tgts[atomic.AddInt64(&i, 1) % …] and no other use of i in the closure
	viaAtomic := false
	plainUses := -1
	if lit := returnedFuncLit(funcDecl(file, "", "NewStaticTargeter")); lit != nil {
		var counter string
		var addPos, addEnd token.Pos
		ast.Inspect(lit, func(n ast.Node) bool {
			ix, ok := n.(*ast.IndexExpr)
			if !ok {
				return true
			}
			ast.Inspect(ix.Index, func(m ast.Node) bool {
				ce, ok := m.(*ast.CallExpr)
				if !ok {
					return true
				}
				se, ok := ce.Fun.(*ast.SelectorExpr)
				if !ok || se.Sel.Name != "AddInt64" {
					return true
				}
				if pk, ok := se.X.(*ast.Ident); !ok || pk.Name != "atomic" {
					return true
				}
				if len(ce.Args) == 2 {
					if ue, ok := ce.Args[0].(*ast.UnaryExpr); ok && ue.Op == token.AND {
						if id, ok := ue.X.(*ast.Ident); ok {
							if bl, ok := ce.Args[1].(*ast.BasicLit); ok && bl.Value == "1" {
								counter, addPos, addEnd = id.Name, ce.Pos(), ce.End()
								viaAtomic = true
							}
						}
					}
				}
				return true
			})
			return true
		})
		if viaAtomic {
			plainUses = countIdent(lit, counter, func(p token.Pos) bool { return p >= addPos && p < addEnd })
		}
	}
	f.def("c15_static_index_via_atomic_add", "Bool", leanBool(viaAtomic))
	f.def("c15_static_counter_other_uses", "Int", strconv.Itoa(plainUses))

	// ---- JSON targeter: rd.Lock() … rd.Unlock() as statements of the closure body, every
	// ReadBytes call and every use of the reader between them, decode after Unlock
	readCalls, readInside, rdOutside := 0, 0, -1
	decodeAfter := false
	lockFound := false
	if lit := returnedFuncLit(funcDecl(file, "", "NewJSONTargeter")); lit != nil {
		var lockPos, unlockPos, unlockEnd token.Pos
		var rd string
		for _, st := range lit.Body.List {
			es, ok := st.(*ast.ExprStmt)
			if !ok {
				continue
			}
			if x, ok := methodCallOn(es.X, "Lock"); ok && lockPos == 0 {
				rd, lockPos = x, es.Pos()
			}
			if x, ok := methodCallOn(es.X, "Unlock"); ok && lockPos != 0 && x == rd && unlockPos == 0 {
				unlockPos, unlockEnd = es.Pos(), es.End()
			}
		}
		if lockPos != 0 && unlockPos != 0 && lockPos < unlockPos {
			lockFound = true
			ast.Inspect(lit, func(n ast.Node) bool {
				if ce, ok := n.(*ast.CallExpr); ok {
					if se, ok := ce.Fun.(*ast.SelectorExpr); ok {
						if se.Sel.Name == "ReadBytes" {
							readCalls++
							if ce.Pos() > lockPos && ce.End() < unlockPos {
								readInside++
							}
						}
						if se.Sel.Name == "decode" && ce.Pos() > unlockEnd {
							decodeAfter = true
						}
					}
				}
				return true
			})
			rdOutside = countIdent(lit, rd, func(p token.Pos) bool { return p >= lockPos && p < unlockEnd })
		}
	}
	f.def("c15_json_lock_unlock_statements", "Bool", leanBool(lockFound))
	f.def("c15_json_readbytes_calls", "Nat", strconv.Itoa(readCalls))
	f.def("c15_json_readbytes_inside_lock", "Nat", strconv.Itoa(readInside))
	f.def("c15_json_reader_uses_outside_lock", "Int", strconv.Itoa(rdOutside))
	f.def("c15_json_decode_after_unlock", "Bool", leanBool(decodeAfter))

	// ---- HTTP targeter: the closure starts with mu.Lock(); defer mu.Unlock(); the scanner is
	// used nowhere outside the closure (apart from its declaration)
	lockFirst := false
	scOutside := -1
	regexpLit := ""
	sharesSlices := false
	copiesSlices := false
	peekSkips := false
	if fd := funcDecl(file, "", "NewHTTPTargeter"); fd != nil {
		if lit := returnedFuncLit(fd); lit != nil && len(lit.Body.List) >= 2 {
			if es, ok := lit.Body.List[0].(*ast.ExprStmt); ok {
				if mu, ok := methodCallOn(es.X, "Lock"); ok {
					if ds, ok := lit.Body.List[1].(*ast.DeferStmt); ok {
						if mu2, ok := methodCallOn(ds.Call, "Unlock"); ok && mu2 == mu {
							lockFirst = true
						}
					}
				}
			}
			// scanner variable: the one declared as peekingScanner{…} in the constructor
			var sc string
			for _, st := range fd.Body.List {
				if as, ok := st.(*ast.AssignStmt); ok && as.Tok == token.DEFINE && len(as.Lhs) == 1 && len(as.Rhs) == 1 {
					if cl, ok := as.Rhs[0].(*ast.CompositeLit); ok {
						if id, ok := cl.Type.(*ast.Ident); ok && id.Name == "peekingScanner" {
							sc = as.Lhs[0].(*ast.Ident).Name
						}
					}
				}
			}
			if sc != "" {
				scOutside = countIdent(fd, sc, func(p token.Pos) bool { return p >= lit.Pos() && p < lit.End() }) - 1
			}
			// for k, vs := range hdr { tgt.Header[k] = vs }
			ast.Inspect(lit, func(n ast.Node) bool {
				rs, ok := n.(*ast.RangeStmt)
				if !ok || rs.Value == nil || len(rs.Body.List) != 1 {
					return true
				}
				val, ok := rs.Value.(*ast.Ident)
				if !ok {
					return true
				}
				if as, ok := rs.Body.List[0].(*ast.AssignStmt); ok && as.Tok == token.ASSIGN && len(as.Lhs) == 1 && len(as.Rhs) == 1 {
					if _, ok := as.Lhs[0].(*ast.IndexExpr); ok {
						if id, ok := as.Rhs[0].(*ast.Ident); ok && id.Name == val.Name {
							sharesSlices = true
						}
						// append(<nil or empty slice>, vs...)
						if ce, ok := as.Rhs[0].(*ast.CallExpr); ok && ce.Ellipsis != token.NoPos && len(ce.Args) == 2 {
							if fn, ok := ce.Fun.(*ast.Ident); ok && fn.Name == "append" {
								if id, ok := ce.Args[1].(*ast.Ident); ok && id.Name == val.Name {
									switch a0 := ce.Args[0].(type) {
									case *ast.CallExpr: // []string(nil)
										if len(a0.Args) == 1 {
											if n, ok := a0.Args[0].(*ast.Ident); ok && n.Name == "nil" {
												copiesSlices = true
											}
										}
									case *ast.CompositeLit: // []string{}
										if len(a0.Elts) == 0 {
											copiesSlices = true
										}
									}
								}
							}
						}
					}
				}
				return true
			})
			// line = TrimSpace(sc.Peek()); for HasPrefix(line, "#") { line = TrimSpace(sc.Peek()) }
			// as consecutive statements of the closure body, before the header loop
			isPeekAssign := func(st ast.Stmt) (string, bool) {
				as, ok := st.(*ast.AssignStmt)
				if !ok || len(as.Lhs) != 1 || len(as.Rhs) != 1 {
					return "", false
				}
				lhs, ok := as.Lhs[0].(*ast.Ident)
				if !ok {
					return "", false
				}
				found := false
				ast.Inspect(as.Rhs[0], func(n ast.Node) bool {
					if ce, ok := n.(*ast.CallExpr); ok {
						if x, ok := methodCallOn(ce, "Peek"); ok && x == sc {
							found = true
						}
					}
					return true
				})
				return lhs.Name, found
			}
			for i := 0; i+1 < len(lit.Body.List); i++ {
				name, ok := isPeekAssign(lit.Body.List[i])
				if !ok {
					continue
				}
				fs, ok := lit.Body.List[i+1].(*ast.ForStmt)
				if !ok || fs.Init != nil || fs.Post != nil || fs.Cond == nil || len(fs.Body.List) != 1 {
					continue
				}
				ce, ok := fs.Cond.(*ast.CallExpr)
				if !ok || len(ce.Args) != 2 {
					continue
				}
				se, ok := ce.Fun.(*ast.SelectorExpr)
				if !ok || se.Sel.Name != "HasPrefix" {
					continue
				}
				a0, ok0 := ce.Args[0].(*ast.Ident)
				a1, ok1 := ce.Args[1].(*ast.BasicLit)
				if !ok0 || !ok1 || a0.Name != name || a1.Value != "\"#\"" {
					continue
				}
				if n2, ok := isPeekAssign(fs.Body.List[0]); ok && n2 == name {
					peekSkips = true
				}
			}
		}
	}
	f.def("c15_http_lock_then_defer_unlock_first", "Bool", leanBool(lockFirst))
	f.def("c15_http_scanner_uses_outside_closure", "Int", strconv.Itoa(scOutside))
	f.def("c14_http_merge_assigns_default_slices", "Bool", leanBool(sharesSlices))
	f.def("c14_http_merge_copies_default_slices", "Bool", leanBool(copiesSlices))
	f.def("c14_http_peek_skips_comments", "Bool", leanBool(peekSkips))

	// ---- the method regexp
	if file != nil {
		for _, d := range file.Decls {
			gd, ok := d.(*ast.GenDecl)
			if !ok || gd.Tok != token.VAR {
				continue
			}
			for _, sp := range gd.Specs {
				vs, ok := sp.(*ast.ValueSpec)
				if !ok || len(vs.Names) != 1 || vs.Names[0].Name != "httpMethodChecker" || len(vs.Values) != 1 {
					continue
				}
				if ce, ok := vs.Values[0].(*ast.CallExpr); ok && len(ce.Args) == 1 {
					if bl, ok := ce.Args[0].(*ast.BasicLit); ok && bl.Kind == token.STRING {
						if s, err := strconv.Unquote(bl.Value); err == nil {
							regexpLit = s
						}
					}
				}
			}
		}
	}
	f.def("c14_method_regexp", "List Nat", leanBytes(regexpLit))

	// ---- attack.go: the format switch passes (src, body, hdr) to either targeter, hdr is
	// opts.headers.Header, and eager mode is `if !opts.lazy { … ReadAllTargets(tr) … tr = NewStaticTargeter(targets...) }`
	jsonArgs, httpArgs := []string{}, []string{}
	hdrSource := ""
	eagerGuard := false
	if af := f.parse("attack.go"); af != nil {
		if fd := funcDecl(af, "", "attack"); fd != nil {
			exprText := func(e ast.Expr) string {
				switch x := e.(type) {
				case *ast.Ident:
					return x.Name
				case *ast.SelectorExpr:
					var parts []string
					var cur ast.Expr = x
					for {
						if se, ok := cur.(*ast.SelectorExpr); ok {
							parts = append([]string{se.Sel.Name}, parts...)
							cur = se.X
							continue
						}
						if id, ok := cur.(*ast.Ident); ok {
							parts = append([]string{id.Name}, parts...)
						}
						break
					}
					out := ""
					for i, p := range parts {
						if i > 0 {
							out += "."
						}
						out += p
					}
					return out
				}
				return "?"
			}
			ast.Inspect(fd, func(n ast.Node) bool {
				switch x := n.(type) {
				case *ast.ValueSpec:
					for i, nm := range x.Names {
						if nm.Name == "hdr" && i < len(x.Values) {
							hdrSource = exprText(x.Values[i])
						}
					}
				case *ast.CaseClause:
					if len(x.List) == 1 && len(x.Body) == 1 {
						if as, ok := x.Body[0].(*ast.AssignStmt); ok && len(as.Rhs) == 1 {
							if ce, ok := as.Rhs[0].(*ast.CallExpr); ok {
								var args []string
								for _, a := range ce.Args {
									args = append(args, exprText(a))
								}
								key := exprText(x.List[0]) + ">" + exprText(ce.Fun)
								switch key {
								case "vegeta.JSONTargetFormat>vegeta.NewJSONTargeter":
									jsonArgs = args
								case "vegeta.HTTPTargetFormat>vegeta.NewHTTPTargeter":
									httpArgs = args
								}
							}
						}
					}
				case *ast.IfStmt:
					if ue, ok := x.Cond.(*ast.UnaryExpr); ok && ue.Op == token.NOT && exprText(ue.X) == "opts.lazy" && x.Else == nil {
						readAll, static := false, false
						ast.Inspect(x.Body, func(m ast.Node) bool {
							if ce, ok := m.(*ast.CallExpr); ok {
								switch exprText(ce.Fun) {
								case "vegeta.ReadAllTargets":
									if len(ce.Args) == 1 && exprText(ce.Args[0]) == "tr" {
										readAll = true
									}
								case "vegeta.NewStaticTargeter":
									if len(ce.Args) == 1 && ce.Ellipsis != token.NoPos && exprText(ce.Args[0]) == "targets" {
										static = true
									}
								}
							}
							return true
						})
						if readAll && static {
							eagerGuard = true
						}
					}
				}
				return true
			})
		}
	}
	f.def("c14_attack_json_targeter_args", "List (List Nat)", leanBytesList(jsonArgs))
	f.def("c14_attack_http_targeter_args", "List (List Nat)", leanBytesList(httpArgs))
	f.def("c14_attack_hdr_source", "List Nat", leanBytes(hdrSource))
	f.def("c14_attack_eager_unless_lazy", "Bool", leanBool(eagerGuard))
}
